/-
  C16/Theorems — the ledger for property C16.  Every `theorem` in this file is audited
  (`#print axioms` ⊆ {propext, Classical.choice, Quot.sound}) on every run.

  Deviation regions are the SAME decidable predicates the driver prints (`Driver.devNum`, …): a theorem
  `… → Driver.devNum v t = [] → model = spec` says the code meets the property text outside the listed
  regions; each region has a kernel-checked witness below.
-/
import OttoVerif.C16.Lemmas
import OttoVerif.C16.Driver
namespace OttoVerif.C16.Thm
open OttoVerif.F64 OttoVerif.C16 OttoVerif.C16.Driver OttoVerif.C16.Lem

/-- doubles as decoded from 64 bits: significand below 2^53 -/
def WFf : FV → Prop
  | .fin _ m _ => m < 2^53
  | _ => True

/-- Go's static types bound the payload of a number Value -/
def WF : Num → Prop
  | .int k i => k.lo ≤ i ∧ i ≤ k.hi
  | .f32 x => WFf x
  | .f64 x => WFf x

/-- same Go type in, same value out (runtime.go:216) -/
theorem convertNumeric_same_type (v : Num) : convertNumeric v v.ty = .ok v := by
  simp [convertNumeric]

theorem lo_le_hi (k : IK) : k.lo ≤ k.hi := by cases k <;> decide

theorem lo_ge (k : IK) : -(2^63 : Int) ≤ k.lo := by cases k <;> decide
theorem hi_le (k : IK) : k.hi ≤ (2^64 : Int) - 1 := by cases k <;> decide
theorem hi_signed (k : IK) (h : k.signed = true) : k.hi ≤ (2^63 : Int) - 1 := by cases k <;> simp_all [IK.signed] <;> decide
theorem lo_unsigned (k : IK) (h : k.signed = false) : k.lo = 0 := by cases k <;> simp_all [IK.signed] <;> decide

/-- the integer→integer arm of convertNumeric is an exact range check, for every source signedness -/
theorem convertFromInt_int (srcSigned : Bool) (i : Int) (k : IK)
    (hsrc : if srcSigned then i ≤ 2^63 - 1 else 0 ≤ i) :
    convertFromInt srcSigned i (.i k) = if k.lo ≤ i ∧ i ≤ k.hi then .ok (.int k i) else .rangeErr := by
  have h1 := lo_ge k
  have h2 := hi_le k
  cases srcSigned <;> cases hk : k.signed <;> simp only [convertFromInt, hk, overflows] <;>
    simp only [Bool.false_eq_true, if_false, if_true, Bool.or_eq_true, decide_eq_true_eq] at *
  · -- unsigned → unsigned
    have := lo_unsigned k hk
    by_cases h : k.lo ≤ i ∧ i ≤ k.hi
    · have : ¬ (i < k.lo ∨ k.hi < i) := by omega
      simp [h, this]
    · have : (i < k.lo ∨ k.hi < i) := by omega
      simp [h, this]
  · -- unsigned → signed
    have := hi_signed k hk
    by_cases h : k.lo ≤ i ∧ i ≤ k.hi
    · have : ¬ (i > 2^63 - 1 ∨ (i < k.lo ∨ k.hi < i)) := by omega
      simp only [h, this, if_false, and_self, if_true]
    · have : (i > 2^63 - 1 ∨ (i < k.lo ∨ k.hi < i)) := by omega
      simp only [h, this, if_false, if_true]
  · -- signed → unsigned
    have := lo_unsigned k hk
    by_cases h0 : i < 0
    · have : ¬ (k.lo ≤ i ∧ i ≤ k.hi) := by omega
      simp [h0, this]
    · by_cases h : k.lo ≤ i ∧ i ≤ k.hi
      · have : ¬ (i < k.lo ∨ k.hi < i) := by omega
        simp [h0, h, this]
      · have : (i < k.lo ∨ k.hi < i) := by omega
        simp [h0, h, this]
  · -- signed → signed
    by_cases h : k.lo ≤ i ∧ i ≤ k.hi
    · have : ¬ (i < k.lo ∨ k.hi < i) := by omega
      simp [h, this]
    · have : (i < k.lo ∨ k.hi < i) := by omega
      simp [h, this]

/-- C16.numeric_exact, integer-kinded sources: for every Go integer payload and EVERY numeric target type
    the call path converts exactly or throws RangeError, outside the region `call_int_to_float_rounds`. -/
theorem numeric_exact_int_source (k : IK) (i : Int) (t : NT) (hwf : WF (.int k i))
    (hdev : devNum (.int k i) t = []) :
    convertNumeric (.int k i) t = Spec.convertNumeric (.int k i) t := by
  simp only [WF] at hwf
  cases t with
  | i k' =>
    by_cases hk : k = k'
    · subst hk
      simp [convertNumeric, Num.ty, Spec.convertNumeric, Spec.exactInt?, hwf]
    · have hne : (Num.int k i).ty ≠ NT.i k' := by simp [Num.ty, hk]
      have hsrc : if k.signed then i ≤ 2^63 - 1 else 0 ≤ i := by
        cases hs : k.signed
        · have := lo_unsigned k hs; simp; omega
        · have := hi_signed k hs; simp; omega
      simp only [convertNumeric, hne, if_false, Spec.convertNumeric, Spec.exactInt?]
      exact convertFromInt_int k.signed i k' hsrc
  | f64 =>
    simp only [devNum, Num.ty] at hdev
    simp only [convertNumeric, Num.ty, convertFromInt, Spec.convertNumeric]
    by_cases hs : Spec.sameNumber (.int k i) (Spec.asF64 (.int k i)) = true
    · simp [Spec.asF64] at hs; simp [hs]
    · simp [hs] at hdev
  | f32 =>
    simp only [devNum, Num.ty] at hdev
    simp only [convertNumeric, Num.ty, convertFromInt, Spec.convertNumeric]
    by_cases hs : Spec.sameNumber (.int k i) (toF32 (Spec.asF64 (.int k i))) = true
    · simp [Spec.asF64] at hs; simp [hs]
    · simp [hs] at hdev

theorem eqNum_refl_nonNaN (x : FV) (h : isNaN x = false) : eqNum x x = true := by
  cases x with
  | nan => simp [isNaN] at h
  | inf s => simp [eqNum, cmpReal]
  | fin s m e => simp [eqNum, cmpReal]

/-- C16.numeric_exact, float sources into float targets: exact or RangeError outside
    `call_f64_to_f32_rounds` (for all doubles, no canonicity needed). -/
theorem numeric_exact_float_to_float (v : Num) (t : NT) (hv : ∀ k i, v ≠ .int k i) (ht : ∀ k, t ≠ .i k)
    (hdev : devNum v t = []) : convertNumeric v t = Spec.convertNumeric v t := by
  cases v with
  | int k i => exact absurd rfl (hv k i)
  | f64 x =>
    cases t with
    | i k => exact absurd rfl (ht k)
    | f64 => simp [convertNumeric, Num.ty, Spec.convertNumeric]
    | f32 =>
      simp only [devNum, Num.ty] at hdev
      simp only [convertNumeric, Num.ty, Spec.convertNumeric, overflowFloat32]
      by_cases ho : (lt maxF32 (abs x) && !isInf x) = true
      · simp [ho]
      · simp only [overflowFloat32, ho] at hdev
        by_cases hs : Spec.sameNumber (.f64 x) (toF32 x) = true
        · simp [ho, hs]
        · simp [hs] at hdev
  | f32 x =>
    cases t with
    | i k => exact absurd rfl (ht k)
    | f64 => simp [convertNumeric, Num.ty, Spec.convertNumeric]
    | f32 => simp [convertNumeric, Num.ty, Spec.convertNumeric]

/-- the float→integer arm: Go's `int64(f)`/`float64(i64) != f` round trip accepts exactly the doubles that
    denote an integer in int64 range, and the integer it yields is that integer -/
theorem float_to_int_core (x : FV) (k : IK) (hwf : WFf x)
    (hdev : k.signed = false → ∀ i, Spec.exactInt? (.f64 x) = some i → ¬ ((2^63 : Int) ≤ i ∧ i ≤ k.hi)) :
    (if eqNum (ofInt (goInt64 x)) x then convertFromInt true (goInt64 x) (.i k) else (.rangeErr : Res Num)) =
    Spec.convertNumeric (.f64 x) (.i k) := by
  simp only [Spec.convertNumeric]
  cases x with
  | nan =>
    have h : eqNum (ofInt (goInt64 .nan)) .nan = false := by
      show eqNum (ofInt (-(2^63))) .nan = false
      rw [ofInt_m63]; rfl
    rw [h]; simp [Spec.exactInt?]
  | inf s =>
    have h : eqNum (ofInt (goInt64 (.inf s))) (.inf s) = false := by
      show eqNum (ofInt (-(2^63))) (.inf s) = false
      rw [ofInt_m63]; cases s <;> rfl
    rw [h]; simp [Spec.exactInt?]
  | fin s m e =>
    simp only [WFf] at hwf
    by_cases he : 0 ≤ e
    · obtain ⟨en, rfl⟩ := Int.eq_ofNat_of_zero_le he
      obtain ⟨hti, hin, hout⟩ := big_case s m en hwf
      have hint : isIntegral m (en : Int) = true := by simp [isIntegral]
      simp only [Spec.exactInt?, hint, if_true]
      by_cases hr : (-(2^63 : Int) ≤ truncInt (.fin s m (en : Int)) ∧ truncInt (.fin s m (en : Int)) < 2^63)
      · obtain ⟨hg, heq⟩ := hin hr
        rw [hg, heq, if_pos rfl]
        exact convertFromInt_int true _ k (by simp; omega)
      · obtain ⟨hg, heq⟩ := hout hr
        rw [hg, heq]
        simp only [Bool.false_eq_true, if_false]
        have h1 := lo_ge k
        by_cases hs : k.signed = true
        · have := hi_signed k hs
          have : ¬ (k.lo ≤ truncInt (.fin s m (en : Int)) ∧ truncInt (.fin s m (en : Int)) ≤ k.hi) := by omega
          simp [this]
        · have hs' : k.signed = false := by simpa using hs
          have hlo := lo_unsigned k hs'
          have hd := hdev hs' (truncInt (.fin s m (en : Int))) (by simp [Spec.exactInt?, hint])
          have : ¬ (k.lo ≤ truncInt (.fin s m (en : Int)) ∧ truncInt (.fin s m (en : Int)) ≤ k.hi) := by omega
          simp [this]
    · obtain ⟨d, rfl⟩ : ∃ d : Nat, e = -((d : Int) + 1) := ⟨(-e - 1).toNat, by omega⟩
      obtain ⟨hg, heq⟩ := small_case s m d hwf
      rw [hg, heq]
      have hneg : (-(-((d : Int) + 1))).toNat = d + 1 := by omega
      have hnn : ¬ (-((d : Int) + 1) ≥ 0) := by omega
      have hint : isIntegral m (-((d : Int) + 1)) = decide (m % 2^(d+1) = 0) := by
        unfold isIntegral; rw [if_neg hnn, hneg]
      simp only [Spec.exactInt?, hint]
      by_cases hm0 : m % 2^(d+1) = 0
      · simp only [hm0, decide_true, if_true]
        have hta : truncAbs m (-((d : Int) + 1)) = m / 2^(d+1) := by
          unfold truncAbs; rw [if_neg hnn, hneg]
        have hle : m / 2^(d+1) ≤ m := Nat.div_le_self _ _
        generalize hA : m / 2^(d+1) = a at *
        have : truncInt (.fin s m (-((d : Int) + 1))) ≤ 2^63 - 1 := by
          simp only [truncInt, hta]; cases s <;> simp <;> omega
        exact convertFromInt_int true _ k (by simpa using this)
      · simp [hm0]

theorem exactInt_f32_f64 (x : FV) : Spec.exactInt? (.f32 x) = Spec.exactInt? (.f64 x) := rfl

/-- **C16.numeric_exact.**  For every number Value (every Go payload kind, every double) and every numeric Go
    parameter type, outside the three listed regions the call path (`convertNumeric`) delivers exactly the value
    the property text demands or throws RangeError: no truncation, wrap or rounding for any width. -/
theorem numeric_exact (v : Num) (t : NT) (hwf : WF v) (hdev : devNum v t = []) :
    convertNumeric v t = Spec.convertNumeric v t := by
  cases v with
  | int k i => exact numeric_exact_int_source k i t hwf hdev
  | f64 x =>
    cases t with
    | i k =>
      have hd : k.signed = false → ∀ i, Spec.exactInt? (.f64 x) = some i → ¬ ((2^63 : Int) ≤ i ∧ i ≤ k.hi) := by
        intro hs i hi hc
        simp [devNum, Num.ty, hs, hi, hc] at hdev
        omega
      have := float_to_int_core x k hwf hd
      simpa [convertNumeric, Num.ty] using this
    | f64 => exact numeric_exact_float_to_float _ _ (by intro k i h; cases h) (by intro k h; cases h) hdev
    | f32 => exact numeric_exact_float_to_float _ _ (by intro k i h; cases h) (by intro k h; cases h) hdev
  | f32 x =>
    cases t with
    | i k =>
      have hd : k.signed = false → ∀ i, Spec.exactInt? (.f64 x) = some i → ¬ ((2^63 : Int) ≤ i ∧ i ≤ k.hi) := by
        intro hs i hi hc
        rw [← exactInt_f32_f64] at hi
        simp [devNum, Num.ty, hs, hi, hc] at hdev
        omega
      have := float_to_int_core x k hwf hd
      have hsp : Spec.convertNumeric (.f32 x) (.i k) = Spec.convertNumeric (.f64 x) (.i k) := rfl
      rw [hsp]
      simpa [convertNumeric, Num.ty] using this
    | f64 => exact numeric_exact_float_to_float _ _ (by intro k i h; cases h) (by intro k h; cases h) hdev
    | f32 => exact numeric_exact_float_to_float _ _ (by intro k i h; cases h) (by intro k h; cases h) hdev

/-- what "the same number" means for a delivered Go value -/
def Denotes (v r : Num) : Prop :=
  match r with
  | .int _ i => Spec.exactInt? v = some i
  | .f32 y => Spec.sameNumber v y = true
  | .f64 y => Spec.sameNumber v y = true

theorem sameNumber_self (x : FV) : Spec.sameNumber (.f64 x) x = true := by
  cases x with
  | nan => simp [Spec.sameNumber, isNaN]
  | inf s => simp [Spec.sameNumber, eqNum, cmpReal]
  | fin s m e => simp [Spec.sameNumber, eqNum, cmpReal]

/-- the spec really is "exact or error": whenever it delivers a value, that value has the target type and
    denotes the same number -/
theorem spec_delivers_exact (v : Num) (t : NT) (r : Num) (h : Spec.convertNumeric v t = .ok r) :
    r.ty = t ∧ Denotes v r := by
  cases t with
  | i k =>
    simp only [Spec.convertNumeric] at h
    split at h
    · rename_i i hi
      split at h
      · cases h; exact ⟨rfl, hi⟩
      · cases h
    · cases h
  | f64 =>
    cases v with
    | int k i =>
      simp only [Spec.convertNumeric] at h
      split at h
      · rename_i hs; cases h; exact ⟨rfl, hs⟩
      · cases h
    | f64 x => simp only [Spec.convertNumeric] at h; cases h; exact ⟨rfl, sameNumber_self x⟩
    | f32 x => simp only [Spec.convertNumeric] at h; cases h; exact ⟨rfl, sameNumber_self x⟩
  | f32 =>
    cases v with
    | int k i =>
      simp only [Spec.convertNumeric] at h
      split at h
      · rename_i hs; cases h; exact ⟨rfl, hs⟩
      · cases h
    | f64 x =>
      simp only [Spec.convertNumeric] at h
      split at h
      · cases h
      · split at h
        · rename_i hs; cases h; exact ⟨rfl, hs⟩
        · cases h
    | f32 x => simp only [Spec.convertNumeric] at h; cases h; exact ⟨rfl, sameNumber_self x⟩

/-- **C16.numeric_exact, consequence.**  Outside the listed regions a value that reaches the Go callee has the
    parameter's type and denotes exactly the JavaScript number that was passed. -/
theorem numeric_no_silent_change (v : Num) (t : NT) (r : Num) (hwf : WF v) (hdev : devNum v t = [])
    (h : convertNumeric v t = .ok r) : r.ty = t ∧ Denotes v r := by
  rw [numeric_exact v t hwf hdev] at h
  exact spec_delivers_exact v t r h

/-! ### arity and variadic shape (runtime.go:707-757) -/

/-- **C16.arity** (fixed signatures): a wrong argument count is a RangeError, whatever the arguments are;
    with the right count the callee receives the element-wise conversions. -/
theorem arity_fixed (L : Leaf) (ins : List GT) (args : List JV) :
    callWrapper L ⟨ins, false⟩ args =
      if args.length ≠ ins.length then .rangeErr
      else finishCall (deferredIn L args ins) (convArgs L args ins) := by
  simp [callWrapper]

/-- **C16.arity** (variadic signatures): fewer than the fixed parameters is a RangeError. -/
theorem arity_variadic (L : Leaf) (ins : List GT) (args : List JV) (h : args.length < ins.length - 1) :
    callWrapper L ⟨ins, true⟩ args = .rangeErr := by
  simp [callWrapper, h]

/-- **C16.variadic_shape**: with k ≠ 1 trailing arguments the variadic parameter is the slice of their
    element-wise conversions, in order. -/
theorem variadic_shape (L : Leaf) (ins : List GT) (args : List JV) (h : ¬ args.length < ins.length - 1)
    (hk : (args.drop (ins.length - 1)).length ≠ 1) :
    callWrapper L ⟨ins, true⟩ args =
      finishCall (deferredIn L (args.take (ins.length - 1)) (ins.take (ins.length - 1)) ||
          (((args.drop (ins.length - 1)).length ≠ 1) && (args.drop (ins.length - 1)).any (fun a => deferredPanic L a (ins.getLastD .any))))
      ((convArgs L (args.take (ins.length - 1)) (ins.take (ins.length - 1))).bind (fun fixed =>
        (convAll L (args.drop (ins.length - 1)) (ins.getLastD .any)).map (fun gs => fixed ++ [.slice (GVs.ofList gs)]))) := by
  simp only [callWrapper, h, if_false, Bool.true_eq_false, not_true_eq_false, not_false_eq_true, if_true]
  congr 2
  funext fixed
  cases hd : args.drop (ins.length - 1) with
  | nil => rfl
  | cons a rest =>
    cases rest with
    | nil => rw [hd] at hk; simp at hk
    | cons b r => rfl

/-- **C16.variadic_shape**, the "last argument is itself the slice" rule: exactly one trailing argument that
    converts to `[]T` is passed through as the whole variadic slice (CallSlice). -/
theorem variadic_last_is_slice (L : Leaf) (ins : List GT) (args : List JV) (a : JV) (s : GV)
    (h : ¬ args.length < ins.length - 1) (hd : args.drop (ins.length - 1) = [a])
    (hs : conv L a (.slice (ins.getLastD .any)) = .ok s) :
    callWrapper L ⟨ins, true⟩ args =
      finishCall (deferredIn L (args.take (ins.length - 1)) (ins.take (ins.length - 1)))
      ((convArgs L (args.take (ins.length - 1)) (ins.take (ins.length - 1))).bind (fun fixed => .ok (fixed ++ [s]))) := by
  simp only [callWrapper, h, if_false, Bool.true_eq_false, not_true_eq_false, not_false_eq_true, if_true, hd, hs,
    List.length_singleton, ne_eq, decide_false, Bool.false_and, Bool.or_false]

/-! ### containers: aliasing invariant of bridged slices -/

/-- steps that do not change either slice header (no append at `len`, no `length` change) -/
def KeepsHeaders (len : Nat) : SOp → Prop
  | .jsWrite i _ => i ≠ len
  | .jsSetLen n => n = len
  | .goAppend _ _ => False
  | _ => True

theorem write_hdr (s : SliceSt) (a i : Nat) (x : GV) :
    (s.write a i x).go = s.go ∧ (s.write a i x).js = s.js ∧ (s.write a i x).et = s.et := by
  simp [SliceSt.write]

theorem step_keeps (S : StoreSem) (s : SliceSt) (op : SOp) (h : KeepsHeaders s.js.len op) :
    (sliceStep S s op).1.go = s.go ∧ (sliceStep S s op).1.js = s.js := by
  cases op with
  | jsRead i => simp [sliceStep]
  | jsLen => simp [sliceStep]
  | goLen => simp [sliceStep]
  | goRead i => simp [sliceStep]
  | goWrite i x => simp only [sliceStep]; split <;> simp [SliceSt.write]
  | goAppend x nc => exact absurd h (by simp [KeepsHeaders])
  | jsWrite i v =>
    simp only [KeepsHeaders] at h
    simp only [sliceStep]
    split
    · by_cases h1 : i < s.js.len
      · simp [h1, SliceSt.write]
      · simp [h1, h]
    all_goals simp
  | jsSetLen n =>
    simp only [KeepsHeaders] at h
    simp [sliceStep, h]
  | jsDelete i => simp only [sliceStep]; split <;> simp [SliceSt.write]

/-- **C16.container_refines** (slices): as long as no step appends at `len` or changes `length`, the Go
    variable and the JavaScript object keep the SAME slice header over the same backing array, so after any
    history of reads, in-range writes and deletes from either side both observe identical contents.
    (Holds for the code's store semantics and for the spec's.) -/
theorem slice_history_aliased (S : StoreSem) (ops : List SOp) :
    ∀ (s : SliceSt), s.go = s.js → (∀ op ∈ ops, KeepsHeaders s.js.len op) →
      (sliceRun S s ops).1.go = (sliceRun S s ops).1.js ∧
      (sliceRun S s ops).1.view (sliceRun S s ops).1.go = (sliceRun S s ops).1.view (sliceRun S s ops).1.js := by
  induction ops with
  | nil => intro s h _; simp [sliceRun, h]
  | cons op rest ih =>
    intro s h hk
    have h1 := step_keeps S s op (hk op (by simp))
    simp only [sliceRun]
    split
    · -- failing step: state after the step
      rw [h1.1, h1.2, h]
      simp
    · have hs : (sliceStep S s op).1.go = (sliceStep S s op).1.js := by rw [h1.1, h1.2, h]
      have hk' : ∀ o ∈ rest, KeepsHeaders (sliceStep S s op).1.js.len o := by
        intro o ho; rw [h1.2]; exact hk o (by simp [ho])
      exact ih _ hs hk'

def intOf : GV → Option Int
  | .num (.int _ i) => some i
  | _ => none

/-- the hypothesis is needed: appending through the JavaScript object beyond capacity detaches it from the
    Go slice (Go slice semantics) – a later write is seen on one side only -/
example :
    ((sliceRun modelStore (SliceSt.init (.num (.i .int)) [.num (.int .int 1)] 1)
        [.jsWrite 1 (.num (.int .i64 2)), .jsWrite 0 (.num (.int .i64 9))]).1.view ⟨0, 1, 1⟩)[0]?.bind intOf = some 1 ∧
    ((sliceRun modelStore (SliceSt.init (.num (.i .int)) [.num (.int .int 1)] 1)
        [.jsWrite 1 (.num (.int .i64 2)), .jsWrite 0 (.num (.int .i64 9))]).1.view ⟨1, 2, 2⟩)[0]?.bind intOf = some 9 := by
  decide

/-! ### struct field lookup -/

theorem visible_eq (n : Str) : Spec.visible n = validGoStructName n := by
  cases n <;> rfl

theorem find_map_cons (i : Nat) (l : List (Str × List Nat)) (name : Str) :
    ((l.map (fun b => (b.1, i :: b.2))).find? (fun b => b.1 = name)).map (·.2) =
      ((l.find? (fun b => b.1 = name)).map (·.2)).map (i :: ·) := by
  rw [List.find?_map]
  simp [Function.comp_def, Option.map_map]

mutual
theorem lookupT (t : GT) (name : Str) :
    fieldIndexT t name = ((Spec.bindingsT t).find? (fun b => b.1 = name)).map (·.2) := by
  cases t with
  | struct fs => simp only [fieldIndexT, Spec.bindingsT]; exact lookupF fs 0 name
  | bool => simp [fieldIndexT, Spec.bindingsT]
  | num t => simp [fieldIndexT, Spec.bindingsT]
  | str => simp [fieldIndexT, Spec.bindingsT]
  | any => simp [fieldIndexT, Spec.bindingsT]
  | slice e => simp [fieldIndexT, Spec.bindingsT]
  | map e => simp [fieldIndexT, Spec.bindingsT]
  | ptr e => simp [fieldIndexT, Spec.bindingsT]
theorem lookupF (fs : Fields) (i : Nat) (name : Str) :
    fieldIndexF fs i name = ((Spec.bindingsF fs i).find? (fun b => b.1 = name)).map (·.2) := by
  cases fs with
  | nil => simp [fieldIndexF, Spec.bindingsF]
  | cons fname tag anon ty rest =>
    have ihr := lookupF rest (i+1) name
    have iht := lookupT ty name
    simp only [fieldIndexF, Spec.bindingsF, visible_eq]
    by_cases hv : validGoStructName fname = true
    · simp only [hv, Bool.not_true, Bool.false_eq_true, if_false]
      rw [List.find?_append, List.find?_append]
      cases anon with
      | false =>
        simp only [Bool.false_eq_true, if_false, List.find?_nil, Option.none_or]
        by_cases hd : tag = [45]
        · subst hd; simp [dash, ihr]
        · by_cases ht : tag = []
          · subst ht
            by_cases hn : fname = name
            · simp [dash, hn]
            · simp [dash, hn, ihr]
          · by_cases htn : tag = name
            · simp [dash, htn, show ¬ name = [45] from htn ▸ hd, show ¬ name = [] from htn ▸ ht]
            · by_cases hn : fname = name
              · simp [dash, hd, ht, htn, hn]
              · simp [dash, hd, ht, htn, hn, ihr]
      | true =>
        simp only [if_true]
        rw [iht]
        cases hfe : (Spec.bindingsT ty).find? (fun b => b.1 = name) with
        | some b =>
          have := find_map_cons i (Spec.bindingsT ty) name
          rw [hfe] at this
          cases hm : (List.map (fun b => (b.1, i :: b.2)) (Spec.bindingsT ty)).find? (fun b => b.1 = name) with
          | none => rw [hm] at this; simp at this
          | some c => rw [hm] at this; simp at this; simp [this]
        | none =>
          have := find_map_cons i (Spec.bindingsT ty) name
          rw [hfe] at this
          cases hm : (List.map (fun b => (b.1, i :: b.2)) (Spec.bindingsT ty)).find? (fun b => b.1 = name) with
          | some c => rw [hm] at this; simp at this
          | none =>
            simp only [Option.map_none, Option.none_or]
            by_cases hd : tag = [45]
            · subst hd; simp [dash, ihr]
            · by_cases ht : tag = []
              · subst ht
                by_cases hn : fname = name
                · simp [dash, hn]
                · simp [dash, hn, ihr]
              · by_cases htn : tag = name
                · simp [dash, htn, show ¬ name = [45] from htn ▸ hd, show ¬ name = [] from htn ▸ ht]
                · by_cases hn : fname = name
                  · simp [dash, hd, ht, htn, hn]
                  · simp [dash, hd, ht, htn, hn, ihr]
    · simp only [hv, Bool.not_false, if_true]
      simpa using ihr
end

/-- **C16.struct_lookup**: for every struct type description, `fieldIndexByName` resolves a property name to
    the first binding, in declaration order with embedded structs searched depth-first, among
    {json tag, Go field name} of the fields whose Go name starts with A-Z (unexported names are hidden; a
    `json:"-"` field contributes only its embedded bindings). -/
theorem struct_lookup (t : GT) (name : Str) : fieldIndexByName t name = Spec.fieldLookup t name := by
  simp only [fieldIndexByName, Spec.fieldLookup]
  exact lookupT t.base name

/-! ### kernel-checked witnesses: every deviation region is inhabited and the model really deviates there -/

/-- 0.1 as a double -/
def d0_1 : FV := .fin false 7205759403792794 (-56)

-- call_f64_to_f32_rounds: f32fn(0.1) is rounded, the property demands RangeError
example : devNum (.f64 d0_1) .f32 = ["call_f64_to_f32_rounds"] ∧
    convertNumeric (.f64 d0_1) .f32 = .ok (.f32 (.fin false 13421773 (-27))) ∧
    Spec.convertNumeric (.f64 d0_1) .f32 = .rangeErr := by decide

-- call_int_to_float_rounds: f64fn(9007199254740993) receives 9007199254740992
example : devNum (.int .i64 9007199254740993) .f64 = ["call_int_to_float_rounds"] ∧
    convertNumeric (.int .i64 9007199254740993) .f64 = .ok (.f64 (.fin false 4503599627370496 1)) ∧
    Spec.convertNumeric (.int .i64 9007199254740993) .f64 = .rangeErr := by decide

-- call_float_ge_2p63_to_uint_rejected: u64fn(2^63) throws although 2^63 is a uint64
example : devNum (.f64 (.fin false 1 63)) (.i .u64) = ["call_float_ge_2p63_to_uint_rejected"] ∧
    convertNumeric (.f64 (.fin false 1 63)) (.i .u64) = .rangeErr ∧
    Spec.convertNumeric (.f64 (.fin false 1 63)) (.i .u64) = .ok (.int .u64 9223372036854775808) := by decide

/-- outcome class and integer payload of a result (GV has no decidable equality) -/
def resKind : Res GV → Nat × Option Int
  | .ok (.num (.int _ i)) => (0, some i)
  | .ok _ => (0, none)
  | .rangeErr => (1, none)
  | .typeErr => (2, none)
  | .goPanic => (3, none)

def intT : GT := .num (.i .int)

-- store_negative_fraction_truncates: s[0] = -1.5 on []int stores -1
example : devStore (.num (.f64 (.fin true 3 (-1)))) intT = ["store_negative_fraction_truncates"] ∧
    resKind (toReflectValue (.num (.f64 (.fin true 3 (-1)))) intT) = (0, some (-1)) ∧
    resKind (Spec.convertCallParameter (.num (.f64 (.fin true 3 (-1)))) intT) = (1, none) := by decide

-- (fixed by bb377a4, former region store_error_is_go_panic) s[0] = 1.5 on []int now is a RangeError, as the property demands
example : devStore (.num (.f64 (.fin false 3 (-1)))) intT = [] ∧
    resKind (toReflectValue (.num (.f64 (.fin false 3 (-1)))) intT) = (1, none) ∧
    resKind (Spec.convertCallParameter (.num (.f64 (.fin false 3 (-1)))) intT) = (1, none) := by decide

-- store_inf_to_f32_rejected: s[0] = Infinity on []float32 throws although Inf is a float32
example : devStore (.num (.f64 (.inf false))) (.num .f32) = ["store_inf_to_f32_rejected"] ∧
    resKind (toReflectValue (.num (.f64 (.inf false))) (.num .f32)) = (1, none) ∧
    resKind (Spec.convertCallParameter (.num (.f64 (.inf false))) (.num .f32)) = (0, none) := by decide

-- store_fraction_guard_rejects_bool_string: s[0] = 1.5 on []bool throws RangeError
example : devStore (.num (.f64 (.fin false 3 (-1)))) .bool = ["store_fraction_guard_rejects_bool_string"] ∧
    resKind (toReflectValue (.num (.f64 (.fin false 3 (-1)))) .bool) = (1, none) ∧
    resKind (Spec.convertCallParameter (.num (.f64 (.fin false 3 (-1)))) .bool) = (0, none) := by decide

-- store_nan_becomes_zero
example : devStore (.num (.f64 .nan)) intT = ["store_nan_becomes_zero"] ∧
    resKind (toReflectValue (.num (.f64 .nan)) intT) = (0, some 0) ∧
    resKind (Spec.convertCallParameter (.num (.f64 .nan)) intT) = (1, none) := by decide

-- store_2p63_wraps: s[0] = 2^63 on []int stores MinInt64
example : devStore (.num (.f64 (.fin false 1 63))) intT = ["store_2p63_wraps"] ∧
    resKind (toReflectValue (.num (.f64 (.fin false 1 63))) intT) = (0, some (-9223372036854775808)) ∧
    resKind (Spec.convertCallParameter (.num (.f64 (.fin false 1 63))) intT) = (1, none) := by decide

-- store_coerces_non_number: s[0] = true stores 1, the call path throws TypeError
example : devStore (.bool true) intT = ["store_coerces_non_number"] ∧
    resKind (toReflectValue (.bool true) intT) = (0, some 1) ∧
    resKind (Spec.convertCallParameter (.bool true) intT) = (2, none) := by decide

-- store_float32_value_go_panic
example : devStore (.num (.f32 one)) intT = ["store_float32_value_go_panic"] ∧
    resKind (toReflectValue (.num (.f32 one)) intT) = (3, none) ∧
    resKind (Spec.convertCallParameter (.num (.f32 one)) intT) = (0, some 1) := by decide

-- store_int_via_float_rounds: s[0] = 9007199254740993 on []int64 stores 9007199254740992
example : devStore (.num (.int .i64 9007199254740993)) (.num (.i .i64)) = ["store_int_via_float_rounds"] ∧
    resKind (toReflectValue (.num (.int .i64 9007199254740993)) (.num (.i .i64))) = (0, some 9007199254740992) ∧
    resKind (Spec.convertCallParameter (.num (.int .i64 9007199254740993)) (.num (.i .i64))) = (0, some 9007199254740993) := by decide

-- store_nil_into_interface_go_panic
example : devStore .undef .any = ["store_nil_into_interface_go_panic"] ∧
    resKind (toReflectValue .undef .any) = (3, none) ∧ resKind (Spec.convertCallParameter .undef .any) = (0, none) := by decide

-- call_array_hole_becomes_zero: intSliceFn([1,,3])
example : devConv (.arr (.cons (.num (.int .i64 1)) (.hole .nil))) (.slice intT) = ["call_array_hole_becomes_zero"] ∧
    resKind (convertCallParameter (.arr (.cons (.num (.int .i64 1)) (.hole .nil))) (.slice intT)) = (0, none) ∧
    resKind (Spec.convertCallParameter (.arr (.cons (.num (.int .i64 1)) (.hole .nil))) (.slice intT)) = (2, none) := by decide

-- call_pointer_to_interface_go_panic
example : devConv (.num (.int .i64 5)) (.ptr .any) = ["call_pointer_to_interface_go_panic"] ∧
    resKind (convertCallParameter (.num (.int .i64 5)) (.ptr .any)) = (3, none) ∧
    resKind (Spec.convertCallParameter (.num (.int .i64 5)) (.ptr .any)) = (0, none) := by decide

-- call_number_to_string_gofmt: strFn(1000000*1) receives "1e+06"
example : devConv (.num (.f64 (.fin false 1000000 0))) .str = ["call_number_to_string_gofmt"] ∧
    goFmtV (.f64 (.fin false 1000000 0)) = some [49, 101, 43, 48, 54] ∧
    jsNumToString (.f64 (.fin false 1000000 0)) = some [49, 48, 48, 48, 48, 48, 48] := by decide

-- non-vacuity of numeric_exact: ordinary calls meet its hypotheses
example : WF (.f64 (.fin false 5 0)) ∧ devNum (.f64 (.fin false 5 0)) (.i .i8) = [] ∧
    convertNumeric (.f64 (.fin false 5 0)) (.i .i8) = .ok (.int .i8 5) := by
  refine ⟨by simp [WF, WFf], by decide, by decide⟩

end OttoVerif.C16.Thm
