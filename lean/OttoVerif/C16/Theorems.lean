/-
  C16/Theorems — the ledger for property C16.  Every `theorem` in this file is audited
  (`#print axioms` ⊆ {propext, Classical.choice, Quot.sound}) on every run.
-/
import OttoVerif.C16.Spec
namespace OttoVerif.C16.Thm
open OttoVerif.F64 OttoVerif.C16

/-- same Go type in, same value out (runtime.go:216) -/
theorem convertNumeric_same_type (v : Num) : convertNumeric v v.ty = .ok v := by
  simp [convertNumeric]

end OttoVerif.C16.Thm
