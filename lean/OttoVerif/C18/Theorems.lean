/-  C18/Theorems — the ledger for property C18 (every theorem here is audited).  Placeholder. -/
namespace OttoVerif.C18.Thm
end OttoVerif.C18.Thm
