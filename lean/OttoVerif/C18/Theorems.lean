/-
  C18/Theorems — ledger for property C18.
-/
import OttoVerif.C18.Model
import OttoVerif.C18.GenFacts
import OttoVerif.C01.Theorems
import OttoVerif.C01.Concrete
namespace OttoVerif.C18.Thm
open OttoVerif.C18 OttoVerif.C01

/-- a stack as the runtime builds it: depths count down to 0 -/
def WFStack : Stack → Prop
  | [] => True
  | [d] => d = 0
  | d :: e :: s => d = e + 1 ∧ WFStack (e :: s)

theorem enter_leave (limit : Nat) (s s' : Stack) (h : enter limit s = .ok s') : leave s' = s := by
  cases s with
  | nil => simp [enter] at h; subst h; rfl
  | cons d t =>
    simp only [enter] at h
    split at h
    · cases h
    · injection h with h; subst h; rfl

/-- C18.unwind_restores (scope part): whatever happens inside – normal completion, a panic of any
    kind at any point of any nesting, or the stack-limit RangeError – every call path leaves the
    scope chain exactly as it found it.  By mutual structural induction on the call tree. -/
theorem run_restores (limit : Nat) :
    (∀ (a : Act) (s : Stack), (runAct limit a s).1 = s) ∧ (∀ (as : Acts) (s : Stack), (runActs limit as s).1 = s) := by
  suffices h : ∀ n, (∀ (a : Act), sizeOf a ≤ n → ∀ s, (runAct limit a s).1 = s) ∧
      (∀ (as : Acts), sizeOf as ≤ n → ∀ s, (runActs limit as s).1 = s) from
    ⟨fun a s => (h (sizeOf a)).1 a (Nat.le_refl _) s, fun as s => (h (sizeOf as)).2 as (Nat.le_refl _) s⟩
  intro n
  induction n with
  | zero =>
    constructor
    · intro a ha; cases a <;> simp at ha <;> omega
    · intro as ha; cases as <;> simp at ha <;> omega
  | succ n ih =>
    constructor
    · intro a ha s
      cases a with
      | panicHere => simp [runAct]
      | haltHere => simp [runAct]
      | catching body =>
        simp only [runAct]
        have hb := ih.2 body (by simp at ha; omega) s
        cases hr : runActs limit body s with
        | mk s' out =>
          rw [hr] at hb
          simp only at hb
          subst hb
          cases out <;> rfl
      | call body =>
        simp only [runAct]
        cases he : enter limit s with
        | rangeError => rfl
        | ok s' =>
          have hb := ih.2 body (by simp at ha; omega) s'
          simp only
          rw [show (runActs limit body s') = ((runActs limit body s').1, (runActs limit body s').2) from rfl]
          simp only [hb]
          exact enter_leave limit s s' he
    · intro as ha s
      cases as with
      | nil => simp [runActs]
      | cons a rest =>
        simp only [runActs]
        have h1 := ih.1 a (by simp at ha; omega) s
        cases hr : runAct limit a s with
        | mk s' out =>
          rw [hr] at h1
          simp only at h1
          subst h1
          cases out with
          | done => exact ih.2 rest (by simp at ha; omega) s'
          | panicked => rfl
          | rangeError => rfl
          | halted => rfl

/-! ### the panic of an interrupt function (fix fd4edef: `rt.halting`) -/

/-- C18.halt_not_caught: a try statement (or anything else that ends abnormal exits) around a body
    that is halted by an interrupt function's panic is halted itself – and only then -/
theorem halt_not_caught (limit : Nat) (body : Acts) (s : Stack) :
    (runAct limit (.catching body) s).2 = .halted ↔ (runActs limit body s).2 = .halted := by
  simp only [runAct]
  cases hr : runActs limit body s with
  | mk s' out => cases out <;> simp

/-- … while every other abnormal exit of the body ends there -/
theorem other_exits_caught (limit : Nat) (body : Acts) (s : Stack)
    (h : (runActs limit body s).2 ≠ .halted) : (runAct limit (.catching body) s).2 = .done := by
  generalize hr : runActs limit body s = r at h
  obtain ⟨s', out⟩ := r
  cases out <;> simp_all [runAct]

/-- a halt ends the enclosing call: the deferred leaveScope runs, nothing else -/
theorem halt_through_call (limit : Nat) (body : Acts) (s s' : Stack) (he : enter limit s = .ok s')
    (h : (runActs limit body s').2 = .halted) : runAct limit (.call body) s = (s, .halted) := by
  have hr := (run_restores limit).1 (.call body) s
  simp only [runAct, he] at hr ⊢
  cases hb : runActs limit body s' with
  | mk s'' out =>
    rw [hb] at h hr
    simp only at h hr
    subst h
    simp [hr]

/-- … and whatever would have come next does not run -/
theorem halt_skips_rest (limit : Nat) (a : Act) (rest : Acts) (s : Stack)
    (h : (runAct limit a s).2 = .halted) : runActs limit (.cons a rest) s = (s, .halted) := by
  have hr := (run_restores limit).1 a s
  simp only [runActs]
  cases ha : runAct limit a s with
  | mk s' out =>
    rw [ha] at h hr
    simp only at h hr
    subst h; subst hr
    rfl

/-- C18.halt_escapes: under any number of try statements and calls, with no stack limit in the way, the
    halt comes out as a halt and the scope chain is as it was -/
theorem halt_escapes (n : Nat) : ∀ (s : Stack), runAct 0 (haltNest n) s = (s, .halted) := by
  induction n with
  | zero => intro s; rfl
  | succ n ih =>
    intro s
    have inner : ∀ t, runActs 0 (.cons (.catching (.cons (haltNest n) .nil)) .nil) t = (t, .halted) := by
      intro t
      apply halt_skips_rest
      rw [halt_not_caught]
      rw [halt_skips_rest 0 (haltNest n) .nil t (by rw [ih t])]
    have hcall : runAct 0 (.call (.cons (.catching (.cons (haltNest n) .nil)) .nil)) s = (s, .halted) := by
      cases he : enter 0 s with
      | rangeError => cases s <;> simp [enter] at he
      | ok s' => exact halt_through_call 0 _ s s' he (by rw [inner s'])
    have houter : runActs 0 (.cons (.call (.cons (.catching (.cons (haltNest n) .nil)) .nil)) .nil) s = (s, .halted) :=
      halt_skips_rest 0 _ .nil s (by rw [hcall])
    have hs := (run_restores 0).1 (haltNest (n+1)) s
    have h2 : (runAct 0 (haltNest (n+1)) s).2 = .halted := by
      show (runAct 0 (.catching _) s).2 = .halted
      rw [halt_not_caught, houter]
    exact Prod.ext hs h2

example : runAct 0 (haltNest 3) [0] = ([0], .halted) := by decide
-- the same position reached by an ordinary panic is caught by the innermost try
example : (runAct 0 (.catching (.cons (.call (.cons .panicHere .nil)) .nil)) [0]).2 = .done := by decide
example : (runAct 0 (.catching (.cons (.call (.cons .haltHere .nil)) .nil)) [0]).2 = .halted := by decide

/-- the guard: with a limit L > 0 no scope ever gets depth ≥ L -/
theorem enter_bound (limit : Nat) (hl : limit ≠ 0) (s s' : Stack) (hs : ∀ d ∈ s, d < limit)
    (h : enter limit s = .ok s') (h0 : 0 < limit) : ∀ d ∈ s', d < limit := by
  cases s with
  | nil => simp [enter] at h; subst h; intro d hd; simp at hd; omega
  | cons e t =>
    simp only [enter] at h
    split at h
    · cases h
    · rename_i hc
      injection h with h; subst h
      intro d hd
      simp only [List.mem_cons] at hd
      rcases hd with hd | hd | hd
      · subst hd; simp only [not_and, Nat.not_le] at hc; have := hc hl; omega
      · subst hd; exact hs _ (by simp)
      · exact hs d (by simp [hd])

/-- C18.depth_exact: from the global scope (depth 0, as `Run` establishes it), `d+1` nested calls
    succeed exactly when `d + 1 < L`, and otherwise end in the RangeError (for `L ≠ 0`); the limit
    admits exactly `L − 1` nested calls. -/
theorem depth_exact (limit : Nat) (hl : limit ≠ 0) : ∀ (d b : Nat) (t : Stack),
    (runAct limit (nest d) (b :: t)).2 = (if b + d + 1 < limit then Outcome.done else Outcome.rangeError) := by
  intro d
  induction d with
  | zero =>
    intro b t
    simp only [nest, runAct, enter]
    by_cases h : b + 1 ≥ limit
    · simp [hl, h]
    · simp [hl, h, runActs]
  | succ d ih =>
    intro b t
    simp only [nest, runAct, enter]
    by_cases h : b + 1 ≥ limit
    · simp [hl, h]; omega
    · simp only [hl, ne_eq, not_false_eq_true, h, and_false, if_false, runActs]
      have := ih (b+1) (b :: t)
      cases hr : runAct limit (nest d) ((b + 1) :: b :: t) with
      | mk s' out =>
        rw [hr] at this
        simp only at this
        subst this
        by_cases h2 : b + 1 + d + 1 < limit
        · simp [h2]; omega
        · simp [h2]; omega

/-- the limit after any history: whatever ran before on this runtime and however it ended – overflows
    caught by the script or swallowed by a host function included – the next call tree meets exactly
    the scope chain it would have met without that history, hence (depth_exact) the same admitted nesting -/
theorem limit_unchanged_by_history (limit : Nat) (before : Acts) (a : Act) (s : Stack) :
    runAct limit a (runActs limit before s).1 = runAct limit a s := by
  rw [(run_restores limit).2 before s]

theorem admitted_unchanged_by_history (limit : Nat) (before : Acts) (s : Stack) :
    admitted limit (runActs limit before s).1 = admitted limit s := by
  rw [(run_restores limit).2 before s]

example : admitted 5 (runActs 5 (caughtOverflows 5 3) [0]).1 = 4 := by decide
example : (runActs 5 (caughtOverflows 5 3) [0]).2 = .done := by decide

example : (runAct 3 (nest 1) [0]).2 = .done := by decide
example : (runAct 3 (nest 2) [0]).2 = .rangeError := by decide
example : (runAct 0 (nest 40) [0]).2 = .done := by decide

/-- C18.labels_rest_any_sem: instance of C01.labels_at_rest for every expression semantics – in
    particular for one in which an injected foreign panic makes the k-th expression evaluation throw:
    after the abnormal exit `rt.labels` is empty. -/
theorem labels_rest_any_sem {St : Type} (S : Sem St) (n m : Nat) (ss : Stmts) (σ : St) (hwl : wlList [] ss = true)
    (hs : specProgram S m ss σ ≠ .fuel) :
    match ottoProgram S n ss σ with
    | .ok _ L' _ => L' = []
    | .throw _ L' _ => L' = []
    | .fuel => True :=
  OttoVerif.C01.Thm.labels_at_rest S n m ss σ hwl hs

/-! ### A non-panicking interrupt function that runs script on the interrupted runtime

The statement poll (cmpl_evaluate_statement.go:16) sits between a label push and the loop the label
belongs to, while the label waits in `rt.labels`.  `pollReenter` is the poll as the code does it since
fix 1eacd10: the pending labels are set aside, the function's script runs from none, they are put
back.  `pollReenterOld` is the code before: the nested statements run on the pending labels. -/

def pollReenter {St : Type} (S : Sem St) (n : Nat) (ss : Stmts) (pending : List String) (σ : St) :
    Option (List String × St) :=
  match ottoProgram S n ss σ with
  | .ok _ _ σ' => some (pending, σ')
  | .throw _ _ σ' => some (pending, σ')      -- Run hands the exception to the function as an error
  | .fuel => none

def pollReenterOld {St : Type} (S : Sem St) (n : Nat) (ss : Stmts) (pending : List String) (σ : St) :
    Option (List String × St) :=
  match ottoList S n ss pending σ (.val .undef) with
  | .ok _ L' σ' => some (L', σ')
  | .throw _ L' σ' => some (L', σ')
  | .fuel => none

/-- whatever script the interrupt function runs, the labels pending for the interrupted statement
    are the ones it finds afterwards -/
theorem reenter_keeps_labels {St : Type} (S : Sem St) (n : Nat) (ss : Stmts) (pending : List String) (σ : St)
    (r : List String × St) (h : pollReenter S n ss pending σ = some r) : r.1 = pending := by
  unfold pollReenter at h
  split at h <;> simp at h <;> (try (rw [← h]))

/-- and the nested script itself is not affected by them: it starts from no pending labels and
    (labels_rest_any_sem) leaves none behind, so what is put back is exactly what was set aside -/
theorem reenter_nested_rest {St : Type} (S : Sem St) (n m : Nat) (ss : Stmts) (σ : St)
    (hwl : wlList [] ss = true) (hs : specProgram S m ss σ ≠ .fuel) :
    match ottoProgram S n ss σ with
    | .ok _ L' _ => L' = []
    | .throw _ L' _ => L' = []
    | .fuel => True := labels_rest_any_sem S n m ss σ hwl hs

/-- the defect repaired by 1eacd10, on the model: a nested block statement takes the pending label -/
example : (pollReenterOld OttoVerif.C01.concreteSem 5 (.cons (.block .nil) .nil) ["L"] default).map (·.1)
    = some [] := by decide
example : (pollReenter OttoVerif.C01.concreteSem 5 (.cons (.block .nil) .nil) ["L"] default).map (·.1)
    = some ["L"] := by decide

/-! ### Copies have a handle of their own -/

/-- a copy polls its own channel — whatever the embedder installs on it afterwards — and never the
    template's: an interrupt sent to the template cannot be consumed by a copy, a copy can be halted -/
theorem copy_polls_own (t : Handle) (fresh : Nat) (c : Option Nat) (others : List Handle)
    (hfresh : ∀ x ∈ others, x.id ≠ fresh) :
    polled ({ t.copy fresh with intr := c } :: others) { t.copy fresh with intr := c } = c := by
  simp [polled, Handle.copy, List.find?]

theorem copy_has_no_channel (t : Handle) (fresh : Nat) : (t.copy fresh).intr = none := rfl
theorem copy_back_is_itself (t : Handle) (fresh : Nat) : (t.copy fresh).back = (t.copy fresh).id := rfl

example : polled [{ id := 2, intr := some 9, back := 2 }, { id := 1, intr := some 7, back := 1 }]
    { id := 2, intr := some 9, back := 2 } = some 9 := by decide
/-- the seeded variants: a copy whose back pointer names the template polls the template's channel -/
example : polled [{ id := 2, intr := some 9, back := 1 }, { id := 1, intr := some 7, back := 1 }]
    { id := 2, intr := some 9, back := 1 } = some 7 := by decide

/-! Regenerated facts about the current sources (GenFacts.lean is rewritten from /repo on every run). -/

/-- every `enter…Scope` call site is immediately followed by a deferred `leaveScope` -/
theorem scope_sites_paired : Gen.scopeSites.all (fun s => s.2.2) = true := by decide

/-- the call sites are the ones the model assumes (a new unpaired path would show up here) -/
theorem scope_sites_expected :
    Gen.scopeSites.map (fun s => (s.1, s.2.1)) =
      [("builtin.go", "builtinGlobalEval"), ("cmpl_evaluate.go", "cmplEvaluateNodeProgram"), ("otto.go", "Eval"),
       ("otto.go", "ContextSkip"), ("otto.go", "Call"), ("type_function.go", "call"), ("type_function.go", "call")] := by decide

/-- the label pushed by a labelled statement is popped by a defer -/
theorem label_push_deferred_pop : Gen.labelPushDeferredPop = true := by decide

/-- the interrupt channel is polled first thing in the statement and expression evaluators and in
    the empty-body branch of the `for` loop -/
theorem poll_sites : Gen.pollAtTop = [("cmplEvaluateNodeExpression", true), ("cmplEvaluateNodeStatement", true)] ∧
    Gen.forEmptyBodyPoll = true := by decide

/-- the statement poll sets the labels pending for the statement aside around the received function
    and puts them back (x := rt.labels; rt.labels = nil; value(); rt.labels = x): `pollReenter` is the
    code, not `pollReenterOld` -/
theorem poll_keeps_labels : Gen.stmtPollKeepsLabels = true := by decide

/-- the model's `haltHere` / `catching` is the code: each of the four polls (statement, expression, empty `for`
    body, `pollInterrupt` of the built-ins' loops) hands the received function to
    `rt.interrupt`; `interrupt` is `defer func(){ if c := recover(); c != nil { rt.halting, rt.haltValue = true, c;
    panic(c) } }(); function()` (so rt.halting/haltValue say that, and with what, the function panicked); and the
    deferred function of tryCatchEvaluate is `if c := recover(); c != nil { if rt.halting { if samePanic(c,
    rt.haltValue) { panic(c) } … } … }`: that very value is passed on before anything else is done with it -/
theorem halt_not_recovered : Gen.interruptPolls = 4 ∧ Gen.pollsRunInterrupt = true ∧
    Gen.interruptNotesPanic = true ∧ Gen.tryLetsHaltPass = true := by decide

/-- the loops of built-ins whose trip count is a length the script chooses (up to 2^32−1 iterations without a
    statement being evaluated) poll the channel themselves, once in 65536 iterations (fix a37105a): the
    thirteen Array.prototype methods that walk an array-like without allocating, and the shrinking of `length` -/
theorem native_loops_poll : Gen.nativeLoopPolls =
    [("arrayDefineOwnProperty", 1), ("arraySortQuickPartition", 1), ("builtinArrayEvery", 1), ("builtinArrayFilter", 1),
     ("builtinArrayForEach", 1), ("builtinArrayIndexOf", 1), ("builtinArrayLastIndexOf", 1), ("builtinArrayReduce", 2),
     ("builtinArrayReduceRight", 2), ("builtinArrayReverse", 1), ("builtinArrayShift", 1), ("builtinArraySome", 1),
     ("builtinArraySplice", 3), ("builtinArrayUnshift", 1)] := by decide

/-- Otto.Copy is `out := &Otto{runtime: o.runtime.clone()}; out.runtime.otto = out; return out`: the
    model's `Handle.copy` (no field of the template's handle is carried over, the back pointer is the copy) -/
theorem copy_fresh_handle : Gen.copyFreshHandle = true := by decide

/-- every evaluator loop that runs script statements calls the statement/expression evaluator
    (hence polls) in each iteration -/
theorem loops_poll : Gen.evaluatorLoops.all (fun l => l.2) = true := by decide

/-- the scope chain head (`.scope`) is assigned by `enterScope` and `leaveScope` only: every way of
    entering a scope (function, global, eval, native call) goes through the one place that checks the
    stack limit and numbers the depth — the premise under which `depth_exact` speaks about the code -/
theorem scope_writers_expected : Gen.scopeWriters = ["runtime.go:enterScope", "runtime.go:leaveScope"] := by decide

end OttoVerif.C18.Thm
