/-
  C18/Model — the logic of clean unwinding.
  (1) the scope stack: runtime.go:71 enterScope (with the stack-limit test), :84 leaveScope, and the
      `enter…Scope(); defer leaveScope()` discipline of every call path (type_function.go:176/206,
      cmpl_evaluate.go:9, otto.go:308/448/546, builtin.go:25) as a call tree executed with deferred leaves;
  (2) abnormal exits of the statement evaluator are the C01 model's `throw` results: a foreign panic
      injected at an evaluation step is an expression evaluation that throws.
-/
import OttoVerif.C01.Model
namespace OttoVerif.C18

/-- the chain of active scopes, innermost first, each with its `depth` field -/
abbrev Stack := List Nat

inductive Enter where
  | ok (s : Stack)
  | rangeError            -- panic(rt.panicRangeError("Maximum call stack size exceeded"))
deriving DecidableEq, Repr

/-- enterScope (runtime.go:71): `limit = 0` means no limit -/
def enter (limit : Nat) : Stack → Enter
  | [] => .ok [0]
  | d :: s => if limit ≠ 0 ∧ d + 1 ≥ limit then .rangeError else .ok ((d + 1) :: d :: s)

/-- leaveScope (runtime.go:84) -/
def leave : Stack → Stack
  | [] => []
  | _ :: s => s

/- what happens inside a call, abstractly: nested calls, or a panic of any kind at this point -/
mutual
inductive Act where
  | call (body : Acts)        -- enter; defer leave; body
  | panicHere                 -- JS exception, host panic … anything that unwinds and a script try may catch
  | haltHere                  -- the panic of a function received on the Interrupt channel (runtime.go `interrupt`
                              -- notes it in `rt.halting`; tryCatchEvaluate then returns without recovering)
  | catching (body : Acts)    -- try { body } catch …, or a host function swallowing the error of Value.Call
inductive Acts where
  | nil
  | cons (a : Act) (rest : Acts)
end

inductive Outcome | done | panicked | rangeError | halted deriving DecidableEq, Repr

/- run one action; returns the stack afterwards and how it ended.  `defer leaveScope()` runs on
   every exit of the call. -/
mutual
def runAct (limit : Nat) : Act → Stack → Stack × Outcome
  | .panicHere, s => (s, .panicked)
  | .haltHere, s => (s, .halted)
  | .call body, s =>
    match enter limit s with
    | .rangeError => (s, .rangeError)                 -- the guard panics before the scope is pushed
    | .ok s' =>
      let (s'', out) := runActs limit body s'
      (leave s'', out)                                -- deferred leave, whatever `out` is
  | .catching body, s =>
    match runActs limit body s with
    | (s', .halted) => (s', .halted)                  -- rt.halting: the deferred recover is skipped
    | (s', _) => (s', .done)                          -- the abnormal exit ends here; execution goes on
def runActs (limit : Nat) : Acts → Stack → Stack × Outcome
  | .nil, s => (s, .done)
  | .cons a rest, s =>
    match runAct limit a s with
    | (s', .done) => runActs limit rest s'
    | r => r
end

/-- `d` nested calls -/
def nest : Nat → Act
  | 0 => .call .nil
  | d+1 => .call (.cons (nest d) .nil)

/-- a halt underneath `n` layers of try-inside-call-inside-try -/
def haltNest : Nat → Act
  | 0 => .haltHere
  | n+1 => .catching (.cons (.call (.cons (.catching (.cons (haltNest n) .nil)) .nil)) .nil)

/-- `k` overflows, each caught where it happened to be (depth `c` below the current scope) -/
def caughtOverflows (limit : Nat) : Nat → Acts
  | 0 => .nil
  | k+1 => .cons (.catching (.cons (nest (limit + 3)) .nil)) (caughtOverflows limit k)

/-- how many nested calls the limit admits from stack `s`: the d in 0 … limit+3 with `nest d` completing -/
def admitted (limit : Nat) (s : Stack) : Nat :=
  ((List.range (limit + 4)).filter (fun d => (runAct limit (nest d) s).2 == .done)).length

/-! ### Handles: the `Otto` value an embedder holds (otto.go: `runtime`, `Interrupt`) and the back pointer
`runtime.otto` through which the evaluator finds the channel it polls and the handle host functions are given -/

structure Handle where
  id : Nat                    -- identity of the Otto value
  intr : Option Nat           -- its Interrupt channel (identity), none = nil
  back : Nat                  -- runtime.otto: the handle the runtime polls / passes to host functions
deriving DecidableEq, Repr

/-- Otto.Copy (otto.go:635): a fresh handle around the cloned runtime, no channel, back pointer to itself -/
def Handle.copy (_ : Handle) (fresh : Nat) : Handle := { id := fresh, intr := none, back := fresh }

/-- the channel a runtime polls: the one of the handle its back pointer names -/
def polled (hs : List Handle) (h : Handle) : Option Nat :=
  match hs.find? (fun x => x.id == h.back) with
  | some x => x.intr
  | none => none

end OttoVerif.C18
