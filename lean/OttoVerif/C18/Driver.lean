/-
  C18/Driver — line protocol front end (core-only).
    inject <k> <intry|free> <vars|-> <program>   a foreign panic injected at evaluation step k of the C01-language program
    hostpanic <j> <intry|free> <vars|-> <program>  the j-th call of the host function `log` panics with a Go value
    swallow <0|1|2|3|closed>                     what Go callers may do with a halt; a closed Interrupt channel
    halt <k> <intry|free> <vars|-> <program>     an interrupt function that panics, delivered through the real channel at step k
    depth <L> <d> <leaf>            stack limit L, d nested script calls whose innermost enters further scopes (leaf kind)
    interrupt <shape>               a halting interrupt sent while a script spins
    depthseq <L> <k> <script|host>  k caught stack overflows in one Run, the admitted nesting probed after each
    icopy <variant>                 interrupt channel and host-function handle of runtimes made by Copy()
    reenter <k> <vars> <program>    a NON-panicking interrupt function delivered at step k that runs script on the
                                    interrupted runtime (Run, Call, Eval): the program must go on unperturbed
-/
import OttoVerif.Base.Proto
import OttoVerif.C01.Driver
import OttoVerif.C18.Model
namespace OttoVerif.C18.Driver
open OttoVerif.C01 OttoVerif.C18

mutual
def hasTryS : Stmt → Bool
  | .tryS .. => true
  | .block ss => hasTryL ss
  | .ifS _ t e => hasTryS t || hasTryS e
  | .whileS _ b => hasTryS b
  | .doWhile b _ => hasTryS b
  | .forS _ _ _ b => hasTryS b
  | .labelled _ s => hasTryS s
  | .switchS _ cs => hasTryC cs
  | .withS _ b => hasTryS b
  | _ => false
def hasTryL : Stmts → Bool
  | .nil => false
  | .cons s ss => hasTryS s || hasTryL ss
def hasTryC : Cases → Bool
  | .nil => false
  | .cons _ b cs => hasTryL b || hasTryC cs
end

/-- further scopes the leaf expression enters, nested (harness/cmd/c18 depthLeaves, same order) -/
def leafExtra (leaf : String) : Option Nat :=
  match leaf.toNat? with
  | some n => [0, 1, 2, 2, 2, 1, 0, 0, 1, 1, 1, 2, 1, 2, 2, 1, 1, 1, 1, 1, 2, 1, 2, 0, 1, 0, 1, 0][n]?
  | none => none

def handle (ws : List String) : String :=
  match ws with
  | ["hostpanic", _k, where_, _vars, prog] | ["inject", _k, where_, _vars, prog] =>
    match OttoVerif.C01.Driver.parseSX prog.toList with
    | some (.node "P" ss, []) =>
      match OttoVerif.C01.Driver.stmtsOf ss with
      | none => "bad-op"
      | some p =>
        -- the property: the panic comes out of Run, the runtime is at rest, effects before the exit
        -- are intact and nothing ran afterwards, later scripts run normally
        let spec := "escapes;rest:ok;trace:exact-prefix;follow:ok"
        -- `intry` = the harness saw tryCatchEvaluate on the Go stack at step k of the unperturbed run
        if where_ = "intry" ∧ hasTryL p then
          -- tryCatchEvaluate recovers ANY panic value (runtime.go:118): inside a try the foreign panic is
          -- converted and the script may continue
          "escapes-or-caught;rest:ok;trace:any;follow:ok " ++ spec ++ " trycatch_foreign"
        else spec ++ " " ++ spec ++ " -"
    | _ => "bad-op"
  | ["halt", _k, _where, _vars, prog] =>
    match OttoVerif.C01.Driver.parseSX prog.toList with
    | some (.node "P" _, []) =>
      -- Theorems.halt_not_caught / halt_through_call / halt_skips_rest / halt_escapes: no try statement ends
      -- the halt (runtime.go `interrupt` + tryCatchEvaluate), every call on the way leaves its scope, nothing
      -- else runs – inside a try block or not
      let spec := "escapes;rest:ok;trace:exact-prefix;follow:ok"
      spec ++ " " ++ spec ++ " -"
    | _ => "bad-op"
  | "depth" :: l :: d :: leaf :: rest =>
    -- d script calls, the innermost of which enters `extra` further nested scopes (a native function,
    -- a native calling back into script, call/apply + target, constructors, getters, eval …): a chain of
    -- d + extra nested calls, started from the scope chain the API entry leaves: Run / Eval / Otto.Call
    -- enter a global scope first ([0]); Value.Call / Object.Call with nothing running do not ([])
    let extra : Option Nat := leafExtra leaf
    let start : Option Stack := match rest with
      | [] | ["run"] | ["eval"] | ["ottocall"] => some [0]
      | ["valuecall"] | ["objectcall"] => some []
      | _ => none
    match l.toNat?, d.toNat?, extra, start with
    | some L, some (d+1), some x, some st =>
      let out := (runAct L (nest (d + x)) st).2
      let tok := match out with
        | .done => "ok;rest:ok;follow:ok"
        | _ => "RangeError;catchable;rest:ok;follow:ok"
      -- spec (SetStackDepthLimit: "an upper limit to the depth of the JavaScript stack"): at most L scopes,
      -- the global one included when the entry has one
      let spec := if L = 0 ∨ st.length + d + 1 + x ≤ L then "ok;rest:ok;follow:ok" else "RangeError;catchable;rest:ok;follow:ok"
      tok ++ " " ++ spec ++ " -"
    | _, _, _, _ => "bad-op"
  | ["depthseq", l, k, _how] =>
    -- k stack overflows caught one after the other inside ONE Run (by the script's try/catch or by a host
    -- function swallowing Value.Call's error), each followed by a probe of how deep calls may nest
    match l.toNat?, k.toNat? with
    | some L, some k =>
      let probe (j : Nat) : Nat := admitted L (runActs L (caughtOverflows L j) [0]).1
      let model := String.intercalate "," ((List.range (k + 1)).map (fun j => toString (probe j)))
      let spec := String.intercalate "," ((List.range (k + 1)).map (fun _ => toString (L - 1)))
      model ++ ";rest:ok;follow:ok " ++ spec ++ ";rest:ok;follow:ok -"
    | _, _ => "bad-op"
  | ["icopy", v] =>
    -- Theorems.copy_polls_own / copy_has_no_channel / copy_back_is_itself + fact copy_fresh_handle
    let t := match v with
      | "0" | "2" => "copy:halted;rest:ok;follow:ok"
      | "1" => "copy:1999000,<nil>,stolen=0;template:1999000,<nil>,calls=1;rest:ok;follow:ok"
      | "3" => "copy:1999000,<nil>,stolen=0;halted;template:1999000,<nil>,calls=1;rest:ok;follow:ok"
      | "4" => "copy:string,template:undefined;then:copy:copy,template:template"
      | _ => "bad-op"
    if t = "bad-op" then t else t ++ " " ++ t ++ " -"
  | ["swallow", v] =>
    -- a halt that a Go caller recovered is over (the next panic is an ordinary one: `other_exits_caught`); one it
    -- lets pass or panics with again is still the halt (`halt_not_caught`); a closed channel delivers nothing
    let t := match v with
      | "0" => "returned:caught:TypeError:_from_host;then:1,<nil>;rest:ok;follow:ok"
      | "1" | "3" | "tostring" | "tostring-call" => "halted;rest:ok;follow:ok"
      | "2" => "returned:returned;then:1,<nil>;rest:ok;follow:ok"
      | "after-halt" => "halted;same-as-fresh;rest:ok;follow:ok"
      | "closed" => "returned:110,<nil>;rest:ok;follow:ok"
      | "rethrow-error" => "returned:RangeError,true,TypeError,true,ReferenceError,<nil>;rest:ok;follow:ok"
      | _ => "bad-op"
    if t = "bad-op" then t else t ++ " " ++ t ++ " -"
  | ["reenter", _k, _vars, _prog] =>
    -- Theorems.reenter_keeps_labels: the nested run starts from no pending labels, ends with none
    -- (labels_rest_any_sem) and the pending ones are put back (fact poll_keeps_labels)
    let t := "same;trace:same;rest:ok;follow:ok"; t ++ " " ++ t ++ " -"
  | ["interrupt", _shape, "free"] => "halted;rest:ok;follow:ok;again:halted halted;rest:ok;follow:ok;again:halted -"
  | ["interrupt", _shape, "intry"] => "halted;rest:ok;follow:ok;again:halted halted;rest:ok;follow:ok;again:halted -"
  | _ => "bad-op"

end OttoVerif.C18.Driver
