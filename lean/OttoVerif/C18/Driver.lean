/-  C18/Driver — line protocol front end (core-only).  Placeholder until the property is built. -/
import OttoVerif.Base.Proto
namespace OttoVerif.C18.Driver

def handle (_ws : List String) : String := "bad-op"

end OttoVerif.C18.Driver
