/-
  C20/Model — why separate runtimes cannot interfere: the ownership argument as a transition system.
  A world is one shared, never-written part `sh : Sh` (package-level tables, compiled node trees,
  parsed programs, regexps) and one private heap per runtime.  A step of runtime `i` is ANY function
  of the shared part and of runtime i's own heap (H1: it touches no other heap; H2: it does not
  write the shared part).  Whether the code satisfies H1/H2 is what the regenerated facts
  (Theorems.lean, `Gen`) and the race-detector harness establish; this file proves what follows.
-/
namespace OttoVerif.C20

structure Sys (Sh H O : Type) where
  /-- one evaluation step of runtime `i` -/
  step : Nat → Sh → H → H × O

variable {Sh H O : Type}

/-- state of the world during a schedule: private heaps and per-runtime output traces (oldest first) -/
structure World (H O : Type) where
  heap : Nat → H
  out : Nat → List O

def World.upd (w : World H O) (i : Nat) (h : H) (o : O) : World H O :=
  { heap := fun j => if j = i then h else w.heap j
    out := fun j => if j = i then w.out j ++ [o] else w.out j }

/-- run a schedule (the order in which the Go scheduler lets the runtimes' goroutines step) -/
def run (sys : Sys Sh H O) (sh : Sh) : List Nat → World H O → World H O
  | [], w => w
  | i :: rest, w =>
    let (h, o) := sys.step i sh (w.heap i)
    run sys sh rest (w.upd i h o)

/-- run runtime `i` alone for `n` steps -/
def alone (sys : Sys Sh H O) (sh : Sh) (i : Nat) : Nat → H × List O → H × List O
  | 0, s => s
  | n+1, (h, os) =>
    let (h', o) := sys.step i sh h
    alone sys sh i n (h', os ++ [o])

def count (i : Nat) : List Nat → Nat
  | [] => 0
  | j :: rest => (if j = i then 1 else 0) + count i rest

end OttoVerif.C20
