/-
  C20/Theorems — ledger for property C20.
-/
import OttoVerif.C20.Model
import OttoVerif.C20.GenFacts
namespace OttoVerif.C20.Thm
open OttoVerif.C20
variable {Sh H O : Type}

theorem alone_step (sys : Sys Sh H O) (sh : Sh) (i n : Nat) (h : H) (os : List O) :
    alone sys sh i (n+1) (h, os) = alone sys sh i n ((sys.step i sh h).1, os ++ [(sys.step i sh h).2]) := rfl

/-- C20.interleaving_independent: for EVERY schedule, every runtime ends with the heap and the output
    trace it would have had running its own steps alone – whatever the interleaving. -/
theorem interleaving_independent (sys : Sys Sh H O) (sh : Sh) :
    ∀ (sched : List Nat) (w : World H O) (i : Nat),
      ((run sys sh sched w).heap i, (run sys sh sched w).out i) =
        alone sys sh i (count i sched) (w.heap i, w.out i) := by
  intro sched
  induction sched with
  | nil => intro w i; rfl
  | cons j rest ih =>
    intro w i
    simp only [run]
    rw [ih]
    by_cases hji : j = i
    · subst hji
      simp only [count, if_true, World.upd]
      rw [Nat.add_comm, alone_step]
    · have hij : ¬ i = j := fun h => hji h.symm
      simp only [count, hji, if_false, Nat.zero_add, World.upd, hij]

/-- two schedules with the same number of steps per runtime are indistinguishable -/
theorem schedule_irrelevant (sys : Sys Sh H O) (sh : Sh) (s1 s2 : List Nat) (w : World H O) (i : Nat)
    (h : count i s1 = count i s2) :
    ((run sys sh s1 w).heap i, (run sys sh s1 w).out i) = ((run sys sh s2 w).heap i, (run sys sh s2 w).out i) := by
  rw [interleaving_independent, interleaving_independent, h]

/-- C20.script_reuse: a compiled Script is part of the shared, never-written state: evaluating it
    again from an equal heap gives an equal result, on any runtime and after any other activity. -/
theorem script_reuse (sys : Sys Sh H O) (sh : Sh) (sched1 sched2 : List Nat) (w1 w2 : World H O) (i j n : Nat)
    (hstep : sys.step i = sys.step j)              -- the same program on both runtimes
    (hheap : (run sys sh sched1 w1).heap i = (run sys sh sched2 w2).heap j) :
    (alone sys sh i n ((run sys sh sched1 w1).heap i, [])) = (alone sys sh j n ((run sys sh sched2 w2).heap j, [])) := by
  rw [hheap]
  generalize (run sys sh sched2 w2).heap j = h0
  generalize ([] : List O) = os
  induction n generalizing h0 os with
  | zero => rfl
  | succ n ih => simp only [alone_step, hstep]; exact ih _ _

example : count 1 [0, 1, 1, 2, 1] = 3 := by decide

/-! ## Regenerated facts (go/types over the current sources) instantiating H1/H2 -/

/-- F1: package-level variables are written only by `init` functions and by the documented
    registration API `registry.Register` -/
def f1Allowed (e : String × String × String × String) : Bool :=
  e.2.2.2 == "init" || (e.1 == "registry" && e.2.1 == "registry" && e.2.2.2 == "Register")

theorem globals_written_only_at_init : Gen.f1.all f1Allowed = true := by decide

/-- F2: fields of compiled node trees are written only by the compiler (cmpl_parse.go methods of
    `compiler`), fields of ast nodes only by the parser (methods of `parser`, ParseFileWithSourceMap)
    and the comment map (methods of Comments/CommentMap, used while parsing), file.File/FileSet only by
    their construction API -/
def f2Allowed (e : String × String × String × String) : Bool :=
  (e.1 == "otto" && e.2.2.1 == "compiler") ||
  (e.1 == "parser" && (e.2.2.1 == "parser" || e.2.2.2 == "ParseFileWithSourceMap")) ||
  (e.1 == "ast" && (e.2.2.1 == "Comments" || e.2.2.1 == "CommentMap")) ||
  (e.1 == "file" && ((e.2.2.1 == "File" && e.2.2.2 == "WithSourceMap") || (e.2.2.1 == "FileSet" && e.2.2.2 == "AddFile")))

theorem shared_trees_written_only_by_constructors : Gen.f2.all f2Allowed = true := by decide

/-- F3: the only package-level variable whose address escapes is the sentinel `nilGetSetObject`,
    in exactly the known places (where it is stored as a marker and compared - fromPropertyDescriptor only compares, since fix f48e83f - never written through) -/
theorem address_escapes_expected :
    Gen.f3 = [("otto", "nilGetSetObject", "", "objectDefineOwnProperty"),
              ("otto", "nilGetSetObject", "", "toPropertyDescriptor"),
              ("otto", "nilGetSetObject", "runtime", "fromPropertyDescriptor"),
              ("otto", "nilGetSetObject", "runtime", "newErrorObject"),
              ("otto", "nilGetSetObject", "runtime", "newErrorObjectError"),
              ("otto", "nilGetSetObject", "runtime", "newNativeFunctionObject"),
              ("otto", "nilGetSetObject", "runtime", "newNodeFunctionObject")] := by decide

/-- F4: the only pointer-receiver methods called on package-level variables are the
    concurrency-safe matching methods of compiled regexps, and the registration API of `underscore` -/
def f4Allowed (e : String × String × String × String) : Bool :=
  (e.1 == "underscore" && e.2.1 == "entry") ||
  e.2.2.1 == "/MatchString" || e.2.2.1 == "/ReplaceAllString" || e.2.2.1 == "/ReplaceAllFunc" ||
  e.2.2.1 == "/FindStringSubmatch" || e.2.2.1 == "parser/MatchString" ||
  e.2.2.1 == "/FindStringIndex" || e.2.2.1 == "/FindString" || e.2.2.1 == "/FindAllStringSubmatchIndex" || e.2.2.1 == "/FindStringSubmatchIndex"

theorem global_method_calls_readonly : Gen.f4.all f4Allowed = true := by decide

end OttoVerif.C20.Thm
