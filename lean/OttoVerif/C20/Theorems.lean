/-  C20/Theorems — the ledger for property C20 (every theorem here is audited).  Placeholder. -/
namespace OttoVerif.C20.Thm
end OttoVerif.C20.Thm
