/-
  C20/Driver — line protocol front end (core-only).
    conc <mode> <N> <seed> <reps>   N runtimes run generated programs concurrently under the race detector
  The expected observation is fixed by the property: no data race, and every runtime's outcome equal
  to its sequential baseline.
-/
import OttoVerif.Base.Proto
namespace OttoVerif.C20.Driver

def handle (ws : List String) : String :=
  match ws with
  | ["conc", _mode, _n, _seed, _reps] => "norace;same norace;same -"
  | _ => "bad-op"

end OttoVerif.C20.Driver
