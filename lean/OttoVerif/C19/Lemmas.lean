/-
  C19/Lemmas — helper lemmas for the C19 ledger (core-only; no Mathlib needed).
-/
import OttoVerif.C19.Spec
namespace OttoVerif.C19.Thm
open OttoVerif.C19

def nonneg (f : Frame) : Bool := decide (f.offset ≥ 0)

theorem walkOuter_unlimited (s : Stack) (limit : Int) (h : limit ≤ 0) :
    walkOuter s limit = s.filter nonneg := by
  induction s generalizing limit with
  | nil => simp [walkOuter]
  | cons f r ih =>
    have h1 : limit - 1 ≠ 0 := by omega
    have h2 : limit - 1 ≤ 0 := by omega
    simp only [walkOuter, h1, if_false, List.filter_cons, nonneg]
    by_cases hf : f.offset ≥ 0
    · simp [hf, ih _ h2]
    · simp [hf, ih _ h2]

theorem walkOuter_limited (s : Stack) (n : Nat) :
    walkOuter s ((n : Int) + 1) = (s.take n).filter nonneg := by
  induction s generalizing n with
  | nil => simp [walkOuter]
  | cons f r ih =>
    cases n with
    | zero => simp [walkOuter]
    | succ k =>
      have h1 : ((k + 1 : Nat) : Int) + 1 - 1 ≠ 0 := by omega
      have h2 : ((k + 1 : Nat) : Int) + 1 - 1 = (k : Int) + 1 := by omega
      have h3 : ((k : Int) + 1 ≠ 0) := by omega
      simp only [walkOuter, h2, List.take_succ_cons, List.filter_cons, nonneg]
      by_cases hf : f.offset ≥ 0
      · simp [hf, ih k, h3]
      · simp [hf, ih k, h3]


/-- what `parser.position` makes of the loop result, for a string of length `n` -/
def fin (res : Nat × Int) (n : Nat) : Nat × Nat :=
  (1 + res.1, if res.2 ≥ 0 then ((n : Int) - res.2).toNat else 1 + n)

def colAt (j : Nat) (last : Int) : Nat := if last ≥ 0 then ((j : Int) - last).toNat else 1 + j

theorem isLSPS_len (b : Nat) (r : Src) (h : isLSPS b r = true) : 2 ≤ r.length := by
  match r, h with
  | _ :: _ :: _, _ => simp

theorem ltsLen_other (b : Nat) (r : Src) (h10 : b ≠ 10) (h13 : b ≠ 13) :
    Spec.ltsLen (b :: r) = if isLSPS b r then 3 else 0 := by
  unfold Spec.ltsLen isLSPS
  simp only [h10, h13, if_false]
  split <;> simp_all [and_assoc]

theorem ltsLen_cr (r : Src) : Spec.ltsLen (13 :: r) = if r.head? = some 10 then 2 else 1 := by
  unfold Spec.ltsLen
  cases r with
  | nil => simp
  | cons b2 r2 => simp

theorem walk_lts (b : Nat) (r : Src) (l c n : Nat) (h : Spec.ltsLen (b :: r) = n + 1) :
    Spec.walk (b :: r) 0 l c = Spec.walk r n (l + 1) 1 := by
  rw [Spec.walk, h]

theorem walk_plain (b : Nat) (r : Src) (l c : Nat) (h : Spec.ltsLen (b :: r) = 0) :
    Spec.walk (b :: r) 0 l c = Spec.walk r 0 l (c + 1) := by
  rw [Spec.walk, h]

theorem walk_skip (b : Nat) (r : Src) (k l c : Nat) :
    Spec.walk (b :: r) (k + 1) l c = Spec.walk r k l c := by
  rw [Spec.walk]

def PA (r : Src) : Prop :=
  ∀ (i line : Nat) (last : Int) (skip : Nat), skip ≤ r.length → -1 ≤ last → last < (i : Int) + skip →
    (skip > 0 → last = (i : Int) + skip - 1) →
    fin (lcLoop r i line last false skip) (i + r.length) = Spec.walk r skip (line + 1) (colAt (i + skip) last)

def PB (r : Src) : Prop :=
  ∀ (i line : Nat),
    fin (lcLoop r (i + 1) line (i : Int) true 0) (i + 1 + r.length) =
      Spec.walk r (if r.head? = some 10 then 1 else 0) (line + 1) 1

theorem sim (r : Src) : PA r ∧ PB r := by
  induction r with
  | nil =>
    constructor
    · intro i line last skip hs h1 h2 h3
      have : skip = 0 := by simpa using hs
      subst this
      simp [lcLoop, fin, Spec.walk, colAt, Nat.add_comm]
    · intro i line
      simp [lcLoop, fin, Spec.walk]
      omega
  | cons b r ih =>
    obtain ⟨ihA, ihB⟩ := ih
    have hA : PA (b :: r) := by
      intro i line last skip hs h1 h2 h3
      cases skip with
      | succ s =>
        simp only [lcLoop, Spec.walk]
        have := ihA (i + 1) line last s (by simpa using hs) h1 (by omega) (by intro hs0; have := h3 (by omega); omega)
        simp only [List.length_cons]
        rw [show i + (r.length + 1) = i + 1 + r.length by omega, this, show i + 1 + s = i + (s + 1) by omega]
      | zero =>
        simp only [List.length_cons]
        rw [show i + (r.length + 1) = i + 1 + r.length by omega]
        by_cases h13 : b = 13
        · subst h13
          have hB := ihB i (line + 1)
          simp only [lcLoop, if_true]
          rw [hB]
          by_cases hh : r.head? = some 10
          · rw [walk_lts 13 r _ _ 1 (by rw [ltsLen_cr]; simp [hh])]; simp [hh]
          · rw [walk_lts 13 r _ _ 0 (by rw [ltsLen_cr]; simp [hh])]; simp [hh]
        · by_cases h10 : b = 10
          · subst h10
            have := ihA (i + 1) (line + 1) (i : Int) 0 (by omega) (by omega) (by omega) (by omega)
            simp only [lcLoop, h13, if_false, if_true]
            simp only [Bool.false_eq_true, if_false]
            rw [this, walk_lts 10 r _ _ 0 (by simp [Spec.ltsLen])]
            simp [colAt]
          · simp only [lcLoop, h13, h10, if_false]
            have hl := ltsLen_other b r h10 h13
            by_cases hls : isLSPS b r = true
            · have hlen := isLSPS_len b r hls
              have := ihA (i + 1) (line + 1) ((i : Int) + 2) 2 hlen (by omega) (by omega) (by omega)
              simp only [hls, if_true] at hl ⊢
              rw [this, walk_lts b r _ _ 2 hl]
              congr 1
              simp only [colAt]
              split <;> omega
            · have hls' : isLSPS b r = false := by simpa using hls
              have := ihA (i + 1) line last 0 (by omega) h1 (by omega) (by omega)
              simp only [hls', Bool.false_eq_true, if_false] at hl ⊢
              rw [this, walk_plain b r _ _ hl]
              congr 1
              simp only [colAt]
              split <;> omega
    refine ⟨hA, ?_⟩
    intro i line
    by_cases h10 : b = 10
    · subst h10
      have := ihA (i + 1 + 1) line (((i + 1 : Nat) : Int)) 0 (by omega) (by omega) (by omega) (by omega)
      simp only [lcLoop, List.head?_cons, if_true, List.length_cons]
      simp only [show (10 : Nat) ≠ 13 by decide, if_false]
      rw [show i + 1 + (r.length + 1) = i + 1 + 1 + r.length by omega, this, walk_skip]
      congr 1
      simp only [colAt]
      split <;> omega
    · have hp : lcLoop (b :: r) (i + 1) line (i : Int) true 0 = lcLoop (b :: r) (i + 1) line (i : Int) false 0 := by
        simp [lcLoop, h10]
      have := hA (i + 1) line (i : Int) 0 (by omega) (by omega) (by omega) (by omega)
      rw [hp, this]
      have hh : ¬ (b :: r).head? = some 10 := by simp [h10]
      simp only [hh, if_false]
      congr 1
      simp only [colAt]
      split <;> omega






/-- the column `file.Position` computes for a prefix `p`, when the column at its start was `c` -/
def colLF (p : Src) (c : Nat) : Nat :=
  match lastIndexLF p with
  | some j => p.length - j
  | none => c + p.length

theorem lastIndexLF_lt (p : Src) (j : Nat) (h : lastIndexLF p = some j) : j < p.length := by
  induction p generalizing j with
  | nil => simp [lastIndexLF] at h
  | cons b r ih =>
    simp only [lastIndexLF] at h
    cases hr : lastIndexLF r with
    | some k => rw [hr] at h; simp at h; have := ih k hr; simp; omega
    | none => rw [hr] at h; simp at h; simp; omega

theorem colLF_cons (b : Nat) (p : Src) (c : Nat) :
    colLF (b :: p) c = match lastIndexLF p with
      | some _ => colLF p c
      | none => if b = 10 then p.length + 1 else c + (p.length + 1) := by
  simp only [colLF, lastIndexLF]
  cases hr : lastIndexLF p with
  | some k => simp
  | none => by_cases hb : b = 10 <;> simp [hb]

theorem isLSPS_ne (b : Nat) (r : Src) (h : b ≠ 0xE2) : isLSPS b r = false := by
  unfold isLSPS
  split <;> simp [h]

theorem clean_crlf (r : Src) : Spec.clean (13 :: 10 :: r) = Spec.clean r := by
  simp [Spec.clean, isLSPS_ne 10 r (by decide)]

theorem clean_other (b : Nat) (r : Src) (h13 : b ≠ 13) (hc : Spec.clean (b :: r) = true) :
    isLSPS b r = false ∧ Spec.clean r = true := by
  simp only [Spec.clean, h13, if_false] at hc
  cases hl : isLSPS b r <;> simp_all

theorem walk_clean (n : Nat) : ∀ (p : Src), p.length ≤ n → Spec.clean p = true → ∀ l c,
    Spec.walk p 0 l c = (l + countLF p, colLF p c) := by
  induction n with
  | zero =>
    intro p hp _ l c
    have : p = [] := by cases p <;> simp_all
    subst this
    simp [Spec.walk, countLF, colLF, lastIndexLF]
  | succ n ih =>
    intro p hp hc l c
    cases p with
    | nil => simp [Spec.walk, countLF, colLF, lastIndexLF]
    | cons b r =>
      have hr : r.length ≤ n := by simpa using hp
      by_cases h13 : b = 13
      · subst h13
        cases r with
        | nil => simp [Spec.clean] at hc
        | cons b2 r2 =>
          by_cases h10 : b2 = 10
          · subst h10
            rw [clean_crlf] at hc
            have hr2 : r2.length ≤ n := by simp only [List.length_cons] at hr; omega
            have := ih r2 hr2 hc (l + 1) 1
            rw [walk_lts 13 (10 :: r2) l c 1 (by simp [Spec.ltsLen]), walk_skip, this]
            simp only [countLF, colLF_cons]
            simp only [colLF, lastIndexLF]
            cases hj : lastIndexLF r2 with
            | some k => simp; omega
            | none => simp; exact ⟨by omega, Nat.add_comm _ _⟩
          · simp [Spec.clean, h10] at hc
      · obtain ⟨hls, hcr⟩ := clean_other b r h13 hc
        by_cases h10 : b = 10
        · subst h10
          have := ih r hr hcr (l + 1) 1
          rw [walk_lts 10 r l c 0 (by simp [Spec.ltsLen]), this]
          simp only [countLF, colLF_cons]
          simp only [colLF]
          cases hj : lastIndexLF r with
          | some k => simp; omega
          | none => simp; omega
        · have hl := ltsLen_other b r h10 h13
          simp only [hls, Bool.false_eq_true, if_false] at hl
          have := ih r hr hcr l (c + 1)
          rw [walk_plain b r l c hl, this]
          simp only [countLF, colLF_cons, h10, if_false]
          simp only [colLF]
          cases hj : lastIndexLF r with
          | some k => simp
          | none => simp; omega


end OttoVerif.C19.Thm
