/-
  C19/Lemmas — helper lemmas for the C19 ledger (core-only; no Mathlib needed).
-/
import OttoVerif.C19.Spec
namespace OttoVerif.C19.Thm
open OttoVerif.C19

def nonneg (f : Frame) : Bool := decide (f.offset ≥ 0)

theorem walkOuter_unlimited (s : Stack) (limit : Int) (h : limit ≤ 0) :
    walkOuter s limit = s.filter nonneg := by
  induction s generalizing limit with
  | nil => simp [walkOuter]
  | cons f r ih =>
    have h1 : limit - 1 ≠ 0 := by omega
    have h2 : limit - 1 ≤ 0 := by omega
    simp only [walkOuter, h1, if_false, List.filter_cons, nonneg]
    by_cases hf : f.offset ≥ 0
    · simp [hf, ih _ h2]
    · simp [hf, ih _ h2]

theorem walkOuter_limited (s : Stack) (n : Nat) :
    walkOuter s ((n : Int) + 1) = (s.take n).filter nonneg := by
  induction s generalizing n with
  | nil => simp [walkOuter]
  | cons f r ih =>
    cases n with
    | zero => simp [walkOuter]
    | succ k =>
      have h1 : ((k + 1 : Nat) : Int) + 1 - 1 ≠ 0 := by omega
      have h2 : ((k + 1 : Nat) : Int) + 1 - 1 = (k : Int) + 1 := by omega
      have h3 : ((k : Int) + 1 ≠ 0) := by omega
      simp only [walkOuter, h2, List.take_succ_cons, List.filter_cons, nonneg]
      by_cases hf : f.offset ≥ 0
      · simp [hf, ih k, h3]
      · simp [hf, ih k, h3]


/-- what `parser.position` makes of the loop result, for a string of length `n` -/
def fin (res : Nat × Int) (n : Nat) : Nat × Nat :=
  (1 + res.1, if res.2 ≥ 0 then ((n : Int) - res.2).toNat else 1 + n)

def colAt (j : Nat) (last : Int) : Nat := if last ≥ 0 then ((j : Int) - last).toNat else 1 + j

theorem isLSPS_len (b : Nat) (r : Src) (h : isLSPS b r = true) : 2 ≤ r.length := by
  match r, h with
  | _ :: _ :: _, _ => simp

theorem ltsLen_other (b : Nat) (r : Src) (h10 : b ≠ 10) (h13 : b ≠ 13) :
    Spec.ltsLen (b :: r) = if isLSPS b r then 3 else 0 := by
  unfold Spec.ltsLen isLSPS
  simp only [h10, h13, if_false]
  split <;> simp_all [and_assoc]

theorem ltsLen_cr (r : Src) : Spec.ltsLen (13 :: r) = if r.head? = some 10 then 2 else 1 := by
  unfold Spec.ltsLen
  cases r with
  | nil => simp
  | cons b2 r2 => simp

theorem walk_lts (b : Nat) (r : Src) (l c n : Nat) (h : Spec.ltsLen (b :: r) = n + 1) :
    Spec.walk (b :: r) 0 l c = Spec.walk r n (l + 1) 1 := by
  rw [Spec.walk, h]

theorem walk_plain (b : Nat) (r : Src) (l c : Nat) (h : Spec.ltsLen (b :: r) = 0) :
    Spec.walk (b :: r) 0 l c = Spec.walk r 0 l (c + 1) := by
  rw [Spec.walk, h]

theorem walk_skip (b : Nat) (r : Src) (k l c : Nat) :
    Spec.walk (b :: r) (k + 1) l c = Spec.walk r k l c := by
  rw [Spec.walk]

def PA (r : Src) : Prop :=
  ∀ (i line : Nat) (last : Int) (skip : Nat), skip ≤ r.length → -1 ≤ last → last < (i : Int) + skip →
    (skip > 0 → last = (i : Int) + skip - 1) →
    fin (lcLoop r i line last false skip) (i + r.length) = Spec.walk r skip (line + 1) (colAt (i + skip) last)

def PB (r : Src) : Prop :=
  ∀ (i line : Nat),
    fin (lcLoop r (i + 1) line (i : Int) true 0) (i + 1 + r.length) =
      Spec.walk r (if r.head? = some 10 then 1 else 0) (line + 1) 1

theorem sim (r : Src) : PA r ∧ PB r := by
  induction r with
  | nil =>
    constructor
    · intro i line last skip hs h1 h2 h3
      have : skip = 0 := by simpa using hs
      subst this
      simp [lcLoop, fin, Spec.walk, colAt, Nat.add_comm]
    · intro i line
      simp [lcLoop, fin, Spec.walk]
      omega
  | cons b r ih =>
    obtain ⟨ihA, ihB⟩ := ih
    have hA : PA (b :: r) := by
      intro i line last skip hs h1 h2 h3
      cases skip with
      | succ s =>
        simp only [lcLoop, Spec.walk]
        have := ihA (i + 1) line last s (by simpa using hs) h1 (by omega) (by intro hs0; have := h3 (by omega); omega)
        simp only [List.length_cons]
        rw [show i + (r.length + 1) = i + 1 + r.length by omega, this, show i + 1 + s = i + (s + 1) by omega]
      | zero =>
        simp only [List.length_cons]
        rw [show i + (r.length + 1) = i + 1 + r.length by omega]
        by_cases h13 : b = 13
        · subst h13
          have hB := ihB i (line + 1)
          simp only [lcLoop, if_true]
          rw [hB]
          by_cases hh : r.head? = some 10
          · rw [walk_lts 13 r _ _ 1 (by rw [ltsLen_cr]; simp [hh])]; simp [hh]
          · rw [walk_lts 13 r _ _ 0 (by rw [ltsLen_cr]; simp [hh])]; simp [hh]
        · by_cases h10 : b = 10
          · subst h10
            have := ihA (i + 1) (line + 1) (i : Int) 0 (by omega) (by omega) (by omega) (by omega)
            simp only [lcLoop, h13, if_false, if_true]
            simp only [Bool.false_eq_true, if_false]
            rw [this, walk_lts 10 r _ _ 0 (by simp [Spec.ltsLen])]
            simp [colAt]
          · simp only [lcLoop, h13, h10, if_false]
            have hl := ltsLen_other b r h10 h13
            by_cases hls : isLSPS b r = true
            · have hlen := isLSPS_len b r hls
              have := ihA (i + 1) (line + 1) ((i : Int) + 2) 2 hlen (by omega) (by omega) (by omega)
              simp only [hls, if_true] at hl ⊢
              rw [this, walk_lts b r _ _ 2 hl]
              congr 1
              simp only [colAt]
              split <;> omega
            · have hls' : isLSPS b r = false := by simpa using hls
              have := ihA (i + 1) line last 0 (by omega) h1 (by omega) (by omega)
              simp only [hls', Bool.false_eq_true, if_false] at hl ⊢
              rw [this, walk_plain b r _ _ hl]
              congr 1
              simp only [colAt]
              split <;> omega
    refine ⟨hA, ?_⟩
    intro i line
    by_cases h10 : b = 10
    · subst h10
      have := ihA (i + 1 + 1) line (((i + 1 : Nat) : Int)) 0 (by omega) (by omega) (by omega) (by omega)
      simp only [lcLoop, List.head?_cons, if_true, List.length_cons]
      simp only [show (10 : Nat) ≠ 13 by decide, if_false]
      rw [show i + 1 + (r.length + 1) = i + 1 + 1 + r.length by omega, this, walk_skip]
      congr 1
      simp only [colAt]
      split <;> omega
    · have hp : lcLoop (b :: r) (i + 1) line (i : Int) true 0 = lcLoop (b :: r) (i + 1) line (i : Int) false 0 := by
        simp [lcLoop, h10]
      have := hA (i + 1) line (i : Int) 0 (by omega) (by omega) (by omega) (by omega)
      rw [hp, this]
      have hh : ¬ (b :: r).head? = some 10 := by simp [h10]
      simp only [hh, if_false]
      congr 1
      simp only [colAt]
      split <;> omega






/-- what `file.Position` makes of its loop result, for a prefix of length `n` -/
def finF (res : Nat × Int) (n : Nat) : Nat × Nat := (res.1 + 1, ((n : Int) - res.2).toNat)

/-- `file.Position`'s loop and the §7.3 walk move in lock step (same skip counter, same line, same column) -/
theorem fp_sim (r : Src) : ∀ (i line : Nat) (last : Int) (skip : Nat), skip ≤ r.length → -1 ≤ last →
    last < (i : Int) + skip → (skip > 0 → last = (i : Int) + skip - 1) →
    finF (fpLoop r i line last skip) (i + r.length) = Spec.walk r skip (line + 1) (colAt (i + skip) last) := by
  induction r with
  | nil =>
    intro i line last skip hs h1 h2 h3
    have : skip = 0 := by simpa using hs
    subst this
    simp only [fpLoop, finF, Spec.walk, colAt, List.length_nil, Nat.add_zero]
    congr 1
    split <;> omega
  | cons b r ih =>
    intro i line last skip hs h1 h2 h3
    simp only [List.length_cons]
    rw [show i + (r.length + 1) = i + 1 + r.length by omega]
    cases skip with
    | succ s =>
      simp only [fpLoop, walk_skip]
      have := ih (i + 1) line last s (by simpa using hs) h1 (by omega) (by intro hs0; have := h3 (by omega); omega)
      rw [this, show i + 1 + s = i + (s + 1) by omega]
    | zero =>
      by_cases h13 : b = 13
      · subst h13
        simp only [fpLoop, if_true]
        by_cases hh : r.head? = some 10
        · have hlen : 1 ≤ r.length := by cases r <;> simp_all
          have := ih (i + 1) (line + 1) ((i : Int) + 1) 1 hlen (by omega) (by omega) (by omega)
          simp only [hh, if_true]
          rw [this, walk_lts 13 r _ _ 1 (by rw [ltsLen_cr]; simp [hh])]
          congr 1
          simp only [colAt]; split <;> omega
        · have := ih (i + 1) (line + 1) (i : Int) 0 (by omega) (by omega) (by omega) (by omega)
          simp only [hh, if_false]
          rw [this, walk_lts 13 r _ _ 0 (by rw [ltsLen_cr]; simp [hh])]
          congr 1
          simp only [colAt]; split <;> omega
      · by_cases h10 : b = 10
        · subst h10
          have := ih (i + 1) (line + 1) (i : Int) 0 (by omega) (by omega) (by omega) (by omega)
          simp only [fpLoop, h13, if_false, if_true]
          rw [this, walk_lts 10 r _ _ 0 (by simp [Spec.ltsLen])]
          congr 1
          simp only [colAt]; split <;> omega
        · simp only [fpLoop, h13, h10, if_false]
          have hl := ltsLen_other b r h10 h13
          by_cases hls : isLSPS b r = true
          · have hlen := isLSPS_len b r hls
            have := ih (i + 1) (line + 1) ((i : Int) + 2) 2 hlen (by omega) (by omega) (by omega)
            simp only [hls, if_true] at hl ⊢
            rw [this, walk_lts b r _ _ 2 hl]
            congr 1
            simp only [colAt]; split <;> omega
          · have hls' : isLSPS b r = false := by simpa using hls
            have := ih (i + 1) line last 0 (by omega) h1 (by omega) (by omega)
            simp only [hls', Bool.false_eq_true, if_false] at hl ⊢
            rw [this, walk_plain b r _ _ hl]
            congr 1
            simp only [colAt]; split <;> omega

end OttoVerif.C19.Thm
