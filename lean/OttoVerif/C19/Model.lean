/-
  C19/Model — transcription of otto's error / position / stack-trace code (core-only imports).

  Sources are `List Nat` = the UTF-8 bytes of the Go string.  Offsets are Go `int`s (modelled as `Int`;
  the 64-bit wrap-around of `limit--` at MinInt64 is out of scope).

  Go's `for index, chr := range str` decodes UTF-8; the only runes `lineCount` looks at are U+000A, U+000D
  (single bytes < 0x80, never part of a longer encoding) and U+2028/U+2029 (exactly the byte sequences
  E2 80 A8 / E2 80 A9, whose lead byte E2 is never a continuation byte, so the sequence is always at a
  decoding boundary).  Every other rune – valid or not – only clears `pair`.  The byte-level loop below is
  therefore the same function; the harness re-validates this on random (also invalid) UTF-8 per sample.
-/
namespace OttoVerif.C19

abbrev Src := List Nat

/-! ## file/file.go: `(*File).Position` -/

/-- `strings.HasPrefix(src[index:], "\u2028")` / `"\u2029"`: the bytes E2 80 A8 / E2 80 A9 at this index -/
def isLSPS (b : Nat) (r : Src) : Bool :=
  match r with
  | b2 :: b3 :: _ => b = 0xE2 && b2 = 0x80 && (b3 = 0xA8 || b3 = 0xA9)
  | _ => false

/-- the loop of `Position` over `src[:offset]`; state = (index, line, last) plus `skip` = bytes the loop steps over
    after `index++` / `index += 2` -/
def fpLoop : Src → Nat → Nat → Int → Nat → Nat × Int
  | [], _, line, last, _ => (line, last)
  | _ :: r, i, line, last, skip + 1 => fpLoop r (i + 1) line last skip
  | b :: r, i, line, last, 0 =>
    if b = 13 then
      (if r.head? = some 10 then fpLoop r (i + 1) (line + 1) (i + 1) 1      -- case '\r' followed by '\n': index++; line, last = line+1, index
       else fpLoop r (i + 1) (line + 1) i 0)                                -- case lone '\r'
    else if b = 10 then fpLoop r (i + 1) (line + 1) i 0                     -- case '\n'
    else if isLSPS b r then fpLoop r (i + 1) (line + 1) (i + 2) 2           -- case U+2028 / U+2029: index += 2
    else fpLoop r (i + 1) line last 0

/-- file/file.go `Position(idx)`: `none` = nil.  (Source maps are not modelled: `fl.sm == nil`.) -/
def filePosition (src : Src) (base : Int) (idx : Int) : Option (Nat × Nat) :=
  let offset := idx - base
  if offset ≥ (src.length : Int) ∨ offset < 0 then none
  else
    let off := offset.toNat
    let (line, last) := fpLoop (src.take off) 0 0 (-1) 0     -- src := fl.src[:offset]; line, last := 0, -1
    some (line + 1, ((off : Int) - last).toNat)              -- Line = line + 1; Column = offset - last

/-! ## parser/parser.go:299 `lineCount`, :323 `(*parser).position` -/

/-- the loop of `lineCount`; state = (index, line, last, pair) plus `skip` = bytes of the current
    (3-byte) rune that `range` still steps over -/
def lcLoop : Src → Nat → Nat → Int → Bool → Nat → Nat × Int
  | [], _, line, last, _, _ => (line, last)
  | _ :: r, i, line, last, pair, skip + 1 => lcLoop r (i + 1) line last pair skip
  | b :: r, i, line, last, pair, 0 =>
    if b = 13 then lcLoop r (i + 1) (line + 1) i true 0                         -- case '\r': line++; last = index; pair = true; continue
    else if b = 10 then lcLoop r (i + 1) (if pair then line else line + 1) i false 0   -- case '\n': if !pair {line++}; last = index
    else if isLSPS b r then lcLoop r (i + 1) (line + 1) (i + 2) false 2         -- case U+2028, U+2029: line++; last = index + 2
    else lcLoop r (i + 1) line last false 0                                      -- pair = false

def lineCount (s : Src) : Nat × Int := lcLoop s 0 0 (-1) false 0

/-- `(*parser).position(idx)` with `offset = idx - base` already taken; precondition `offset ≤ len(str)` -/
def parserPosition (src : Src) (offset : Nat) : Nat × Nat :=
  let str := src.take offset
  let (line, last) := lineCount str
  (1 + line, if last ≥ 0 then (offset - last).toNat else 1 + str.length)

/-! ## error.go: frames, `newError`, `location`, `format` -/

structure Frame where
  callee : String
  native : Bool := false
  file : Option Nat := none       -- index into the file table; `none` = nil
  offset : Int := 0
deriving Repr, DecidableEq

/-- the scope chain, innermost (`rt.scope`) first; each scope carries one frame -/
abbrev Stack := List Frame

/-- error.go:150 `for range stackFramesToPop { if curScope.outer != nil { curScope = curScope.outer } }` -/
def popScopes : Nat → Stack → Stack
  | 0, s => s
  | n + 1, _ :: g :: r => popScopes n (g :: r)
  | _ + 1, s => s

/-- error.go:176 the loop over `curScope.outer`; `limit` is the value before `limit--` -/
def walkOuter : Stack → Int → List Frame
  | [], _ => []
  | f :: r, limit =>
    if limit - 1 = 0 then []                                        -- if limit--; limit == 0 { break }
    else if f.offset ≥ 0 then f :: walkOuter r (limit - 1)           -- if curScope.frame.offset >= 0 { append }
    else walkOuter r (limit - 1)

/-- error.go:139 `newError`: the trace captured for an error raised in `stack` (`atv` = trailing `at` argument) -/
def newErrorTrace (stack : Stack) (limit : Int) (pop : Nat) (atv : Option Int) : List Frame :=
  match popScopes pop stack with
  | [] => []                                                          -- rt.scope == nil
  | f :: outer =>
    let frm := match atv with
      | some a => { f with offset := a }                              -- frm.offset = int(atv)
      | none => f
    frm :: walkOuter outer limit

/-- one file of the runtime: name and source; every file is parsed with base 1 (parser.go:179, fileSet == nil) -/
structure FileEnt where
  name : String
  src : Src

/-- result of `frame.location()`, kept structured -/
inductive Loc
  | unknown                 -- "<unknown>"
  | native                  -- "<native code>"  (built-ins carry no nativeFile/nativeLine)
  | at (file : String) (line col : Nat)
deriving Repr, DecidableEq

structure FrameOut where
  callee : String
  loc : Loc
deriving Repr, DecidableEq

/-- error.go:66 `frame.location()` -/
def location (files : List FileEnt) (fr : Frame) : FrameOut :=
  let loc :=
    if fr.native then Loc.native
    else match fr.file with
      | none => Loc.unknown
      | some k => match files[k]? with
        | none => Loc.unknown
        | some fe => match filePosition fe.src 1 (fr.offset) with
          | none => Loc.unknown
          | some (l, c) => Loc.at (if fe.name = "" then "<anonymous>" else fe.name) l c
  { callee := fr.callee, loc := loc }

/-- error.go:34 `ottoError.format` (also builtin_error.go:15 `Error.prototype.toString`) -/
def format (name message : String) : String :=
  if name.length = 0 then message
  else if message.length = 0 then name
  else name ++ ": " ++ message

/-! ## the evaluator's call paths, as far as frames are concerned -/

/-- syntactic class of a callee expression (cmpl_evaluate_expression.go:209-217, :278-286) -/
inductive Form | ident | dot | bracket | other
deriving Repr, DecidableEq

/-- `atv`: the callee's idx for identifier / dot / bracket callees, else -1 -/
def atvOf (f : Form) (off : Int) : Int :=
  match f with
  | .other => -1
  | _ => off

/-- how a function activation comes about -/
inductive Via
  | direct                      -- `callee(...)` on a script function            (object.call, nodeFunctionObject)
  | construct                   -- `new callee(...)` on a script function        (defaultConstruct → object.call)
  | viaNative (n : String)      -- `callee(...)` on a native that calls the script function (forEach, call, apply, sort …)
  | bound                       -- `callee(...)` on a bound function              (bindFunctionObject: passthrough, no scope)
  | implicit                    -- getter / toString / valueOf invoked by the runtime: no call expression is evaluated
  | nativeOnly                  -- `callee(...)` on a native function which is itself the activation (it raises)
  | evalDirect                  -- direct `eval("…")`: builtinGlobalEval with call.eval: no scope is entered; the eval code runs in the caller's scope
  | evalIndirect                -- `callee("…")` where callee evaluates to eval: native scope "eval", then enterGlobalScope for the eval code
deriving Repr, DecidableEq

/-- how control leaves a piece of code: by completing, or by a JavaScript exception (a Go panic that unwinds) -/
inductive Exit | normal | throw
deriving Repr, DecidableEq

/-- statements already completed in the calling activation before the call site -/
inductive Pre
  | doneCall (f : Form) (off : Int)      -- an earlier call expression that returned (leaves its `atv` in frame.offset)
  /-- an earlier direct `eval("…")` of source `file`, finished: the call site is recorded and the eval code runs in
      this very scope; `inner` = call sites (idx in the eval source) of calls the eval code completed; `exit` = how
      the eval code ended – `throw`: by an exception that a `try`/`catch` of this same activation caught -/
  | directEval (off : Int) (file : Nat) (inner : List Int) (exit : Exit)
deriving Repr, DecidableEq

/- the argument list of a call expression, as far as frames are concerned: which arguments are themselves
   calls (or `new`) that return before the outer call is made – nested to any depth -/
mutual
inductive Arg
  | lit                                          -- literal, identifier, member access, function literal: no call is made
  | call (f : Form) (off : Int) (args : Args)    -- a call / `new` expression with its own argument list; it returns
  | evalDirect (off : Int) (file : Nat)          -- a direct `eval("…")` used as an argument
  deriving Repr, DecidableEq
inductive Args
  | nil
  | cons (a : Arg) (rest : Args)
  deriving Repr, DecidableEq
end

structure Level where
  via : Via
  form : Form
  name : String          -- the function's own name (`fn.node.name`, "" for anonymous; native: `fn.name`)
  off : Int              -- idx of the call site's callee expression
  pre : List Pre := []
  file : Nat := 0        -- the file the activation's code was parsed from (`fn.node.file`; for eval code: the eval source)
  args : Args := .nil    -- the argument list of the call expression that makes this activation
deriving Repr, DecidableEq


def setTopOffset (o : Int) : Stack → Stack
  | [] => []
  | f :: r => { f with offset := o } :: r

def setTopFile (k : Nat) : Stack → Stack
  | [] => []
  | f :: r => { f with file := some k } :: r

/-- `scp.frame.file, scp.frame.offset = frm.file, frm.offset` -/
def restoreTop (saved : Frame) : Stack → Stack
  | [] => []
  | f :: r => { f with file := saved.file, offset := saved.offset } :: r

/-- cmpl_evaluate.go:14-24, `cmplEvaluateNodeProgram(node, eval=true)` run in the scope whose frame is `saved`:
    `frm := rt.scope.frame; defer restore(frm)`, then `rt.scope.frame.file = node.file` and the body (whose calls
    write their sites into the same frame).  The restore is DEFERRED: it runs when the body returns and equally
    while a panic – a JavaScript exception thrown by the eval code – unwinds through this function.  `exit` is
    therefore not consulted. -/
def evalProgram (k : Nat) (inner : List Int) (_exit : Exit) (saved : Frame) (s : Stack) : Stack :=
  let body := inner.foldl (fun s o => setTopOffset o s) (setTopFile k s)
  restoreTop saved body

/-- a direct eval call expression, start to finish: the call site is recorded (offset = idx of `eval`), no scope is
    entered (builtin.go:22-28), the eval program runs in the caller's frame -/
def directEvalCall (off : Int) (k : Nat) (inner : List Int) (exit : Exit) (s : Stack) : Stack :=
  match setTopOffset off s with
  | [] => []
  | f :: r => evalProgram k inner exit f (f :: r)

def runPre : List Pre → Stack → Stack
  | [], s => s
  | .doneCall f off :: ps, s => runPre ps (setTopOffset (atvOf f off) s)            -- rt.scope.frame.offset = int(atv); callee enters and leaves
  | .directEval off k inner exit :: ps, s => runPre ps (directEvalCall off k inner exit s)

/- cmpl_evaluate_expression.go:185-191 / :263-266: the arguments are evaluated left to right, in the calling
    activation.  An argument that is itself a call evaluates *its* arguments, then records *its* call site in the
    same frame (`rt.scope.frame.offset = int(atv)`, :233/:297), runs its callee and returns – the single per-frame
   offset keeps that value. -/
mutual
def evalArg : Arg → Stack → Stack
  | .lit, s => s
  | .call f off as, s => setTopOffset (atvOf f off) (evalArgs as s)
  | .evalDirect off k, s => directEvalCall off k [] .normal s    -- as `Pre.directEval`: file and call site restored afterwards
def evalArgs : Args → Stack → Stack
  | .nil, s => s
  | .cons a r, s => evalArgs r (evalArg a s)
end

/-- type_function.go:207 frame of a script function activation -/
def nodeFrame (name : String) (file : Nat) : Frame := { callee := name, file := some file }
/-- type_function.go:177 frame of a native function activation -/
def nativeFrame (name : String) : Frame := { callee := name, native := true, file := none }

/-- the scope chain after entering one more activation.  Order as in cmplEvaluateNodeCallExpression /
    cmplEvaluateNodeNewExpression: callee, then the argument list (`evalArgs`), then the callable check, and only
    then – immediately before `call` / `construct` – `rt.scope.frame.offset = int(atv)` (:233, :297). -/
def enterLevel (lv : Level) (s : Stack) : Stack :=
  let s := runPre lv.pre s
  let s := evalArgs lv.args s
  match lv.via with
  | .direct | .construct | .bound => nodeFrame lv.name lv.file :: setTopOffset (atvOf lv.form lv.off) s
  | .viaNative n => nodeFrame lv.name lv.file :: nativeFrame n :: setTopOffset (atvOf lv.form lv.off) s
  | .implicit => nodeFrame lv.name lv.file :: s
  | .nativeOnly => nativeFrame lv.name :: setTopOffset (atvOf lv.form lv.off) s
  -- builtin.go:22-28 + cmpl_evaluate.go:14: no scope; `rt.scope.frame.file = node.file` hits the caller's frame
  | .evalDirect => setTopFile lv.file (setTopOffset (atvOf lv.form lv.off) s)
  -- type_function.go:177 (native frame "eval"), builtin.go:25 enterGlobalScope (fresh frame), cmpl_evaluate.go:14
  | .evalIndirect => { callee := "", file := some lv.file } :: nativeFrame "eval" :: setTopOffset (atvOf lv.form lv.off) s

def enterLevels : List Level → Stack → Stack
  | [], s => s
  | lv :: ls, s => enterLevels ls (enterLevel lv s)

/-- how the error is raised inside the innermost activation -/
inductive Raise
  | withAt (off : Int)                 -- `newError(…, at(idx))`: unresolvable identifier, member of undefined/null
  | nonFn (f : Form) (off : Int)       -- call / new of a non-function: `at(atv)`
  | siteBare (f : Form) (off : Int)    -- raised inside a native constructor or a direct eval (no scope of its own): the call site is recorded, no `at`
  | bare (off : Int)                   -- raised by an operator or a native without `at`; `off` is where the construct is (unused by the code)
deriving Repr, DecidableEq

/-- cmplEvaluateNodeProgram (eval=false): enterGlobalScope; frame.file = node.file -/
def globalStack (file : Nat) : Stack := [{ callee := "", file := some file }]

def raiseTrace (limit : Int) (pre : List Pre) (r : Raise) (s : Stack) : List Frame :=
  let s := runPre pre s
  match r with
  | .withAt off => newErrorTrace s limit 0 (some off)
  | .nonFn f off => newErrorTrace s limit 0 (some (atvOf f off))
  | .siteBare f off => newErrorTrace (setTopOffset (atvOf f off) s) limit 0 none
  | .bare _ => newErrorTrace s limit 0 none

structure Scenario where
  levels : List Level        -- outermost first
  pre : List Pre             -- completed statements in the innermost activation before the raising construct
  raise : Raise
deriving Repr, DecidableEq

/-- frames of the error as the code computes them (file 0 = the program) -/
def traceFrames (limit : Int) (sc : Scenario) : List Frame :=
  raiseTrace limit sc.pre sc.raise (enterLevels sc.levels (globalStack 0))

def trace (files : List FileEnt) (limit : Int) (sc : Scenario) : List FrameOut :=
  (traceFrames limit sc).map (location files)

/-! ## the configured limits of a runtime and `Copy()` -/

/-- runtime.go:66-67 `stackLimit`, `traceLimit` -/
structure Limits where
  trace : Int
  stack : Int
deriving Repr, DecidableEq

/-- otto.go:246 `New()`: `traceLimit = 10`; no stack-depth limit -/
def newLimits : Limits := { trace := 10, stack := 0 }

/-- clone.go:19-24 `(*runtime).clone`: `stackLimit: rt.stackLimit, traceLimit: rt.traceLimit` -/
def cloneLimits (l : Limits) : Limits := { stack := l.stack, trace := l.trace }

/-- `Copy()` applied `n` times -/
def cloneN : Nat → Limits → Limits
  | 0, l => l
  | n + 1, l => cloneN n (cloneLimits l)

/-- the scope chain of `depth` nested script calls below the global code, each call site recorded at `off` -/
def nestStack (depth : Nat) (off : Int) : Stack :=
  List.replicate (depth + 1) { callee := "r", file := some 0, offset := off }

/-- frames in the trace of an error raised at the bottom of `depth` nested calls on a runtime with limits `l` -/
def traceCount (l : Limits) (depth : Nat) : Nat :=
  (newErrorTrace (nestStack depth 1) l.trace 0 (some 1)).length

/-! ## building the message of an engine error -/

/-- sites that raise a TypeError because a value is not callable -/
inductive MsgSite
  | callResult | newResult                                   -- cmpl_evaluate_expression.go:246 / :315  `"%v is not a function", vl`
  | forEach | map | filter | some | every | reduce | reduceRight | sort   -- builtin_array.go  `"… %q …", call.Argument(0)`
  | fnCall | fnApply | fnBind                                -- builtin_function.go:75/108/125  `%q, call.This`
  | objToLocale | arrToLocale | dateToJSON                   -- builtin_object.go:85, builtin_array.go:69, builtin_date.go:91
  | definePropGetter                                         -- toPropertyDescriptor: a literal text
  | identCallee | memberCallee                               -- cmpl_evaluate_expression.go:248  `%q, name` (the NAME, not the value)
deriving Repr, DecidableEq

/-- does the site hand the offending VALUE to `newError` as a format operand? -/
def passesValue : MsgSite → Bool
  | .definePropGetter | .identCallee | .memberCallee => false
  | _ => true

/-- script functions run while the message is built, when the offending value is an object with a scripted
    toString: none.  error.go `describeOperands` replaces every operand that is an object Value by a text made
    without script code (a function's source text as the built-in Function.prototype.toString gives it, any
    other object as "[object <Class>]") before `fmt.Sprintf` sees it. -/
def messageScriptCalls (_s : MsgSite) : List String := []

/-! ## several errors alive at once -/

/-- error.go:139-190: `newError` builds `err.trace` by appending to the new error's own (nil) slice, so every error
    owns its frames.  The errors a runtime has created so far, oldest first, each with the trace it holds: -/
abbrev ErrorStore := List (List Frame)

/-- creating one more error (in the situation `sc`) adds its trace and touches no other -/
def createError (limit : Int) (store : ErrorStore) (sc : Scenario) : ErrorStore :=
  store ++ [traceFrames limit sc]

def createErrors (limit : Int) : ErrorStore → List Scenario → ErrorStore
  | store, [] => store
  | store, sc :: r => createErrors limit (createError limit store sc) r

/-- what `Error.stack` / `otto.Error.String()` of the i-th error shows when it is read now -/
def readTrace (store : ErrorStore) (i : Nat) : Option (List Frame) := store[i]?

/-! ## which error the interpreter raises for which situation (the `panicXxxError` call sites) -/

inductive ErrKind
  | unresolvable      -- type_reference.go: `'x' is not defined`
  | callNonFn         -- cmpl_evaluate_expression.go:228/230
  | newNonFn          -- cmpl_evaluate_expression.go:292/294
  | memberUndefined   -- cmpl_evaluate_expression.go:173/253 (objectCoerce)
  | memberNull
  | arrayLenCtor      -- `new Array(-1)`        type_array.go / builtin_array.go: panicRangeError()
  | arrayLenSet       -- `a.length = -1`        type_array.go: panicRangeError()
  | radix             -- builtin_number.go:37
  | fixedPrecision    -- builtin_number.go:54
  | expPrecision      -- builtin_number.go:73
  | precPrecision     -- builtin_number.go:89
  | evalSyntax        -- runtime.go:866 parseThrow
  | functionSyntax    -- builtin_function.go → parseThrow
  | instanceofNonObj  -- evaluate.go:122
  | inNonObj          -- evaluate.go:129
  | cyclicJSON        -- builtin_json.go
  | uriMalformed      -- builtin.go
  | frozenWrite       -- a built-in writes to a frozen / non-extensible object with throw = true: `typeErrorResult` → panicTypeError()
deriving Repr, DecidableEq

/-- (constructor name passed to `newError`, message is non-empty) -/
def errTable : ErrKind → String × Bool
  | .unresolvable => ("ReferenceError", true)
  | .callNonFn => ("TypeError", true)
  | .newNonFn => ("TypeError", true)
  | .memberUndefined => ("TypeError", true)
  | .memberNull => ("TypeError", true)
  | .arrayLenCtor => ("RangeError", false)
  | .arrayLenSet => ("RangeError", false)
  | .radix => ("RangeError", true)
  | .fixedPrecision => ("RangeError", true)
  | .expPrecision => ("RangeError", true)
  | .precPrecision => ("RangeError", true)
  | .evalSyntax => ("SyntaxError", true)
  | .functionSyntax => ("SyntaxError", true)
  | .instanceofNonObj => ("TypeError", true)
  | .inNonObj => ("TypeError", true)
  | .cyclicJSON => ("TypeError", true)
  | .uriMalformed => ("URIError", true)
  | .frozenWrite => ("TypeError", false)

/-- type_error.go:29 `newErrorObjectError`: the prototype chosen for the script-visible object, by `err.name` -/
def protoFor (name : String) : String :=
  if name = "EvalError" then "EvalError"
  else if name = "TypeError" then "TypeError"
  else if name = "RangeError" then "RangeError"
  else if name = "ReferenceError" then "ReferenceError"
  else if name = "SyntaxError" then "SyntaxError"
  else if name = "URIError" then "URIError"
  else "Error"

/-- what a script sees in `catch (e)`: `e.name` (inherited from the prototype), the constructors `C` with
    `e instanceof C`, and whether `e.message` is a non-empty string -/
structure Caught where
  name : String
  instanceOf : List String
  hasMessage : Bool
deriving Repr, DecidableEq

def caught (k : ErrKind) : Caught :=
  let (n, m) := errTable k
  let p := protoFor n
  { name := p, instanceOf := if p = "Error" then ["Error"] else [p, "Error"], hasMessage := m }

/-- what a script has done to the GLOBAL BINDING of a native error constructor before the engine raises that class -/
inductive Rebind
  | untouched
  | toFunction      -- `TypeError = function (m) { … }`
  | toNonFunction   -- `TypeError = 42`
  | deleted         -- `delete this.TypeError`
deriving Repr, DecidableEq

/-- type_error.go:26-45 `newErrorObjectError` picks `rt.global.TypeErrorPrototype` … – fields of the runtime's private
    table of intrinsics, filled when the runtime is made.  The global object's properties are not consulted, so
    the history of the binding does not enter. -/
def caughtAfter (_h : Rebind) (k : ErrKind) : Caught := caught k

/-! ## what `Run` returns for an uncaught exception: `catchPanic` + `Error.Error()` -/

/-- the thrown value, as far as `catchPanic` distinguishes -/
inductive Thrown
  /-- a primitive; `text` = its ToString -/
  | prim (text : String)
  /-- an object whose internal value is an `ottoError` (made by a native error constructor or raised by the
      interpreter): the name/message captured at creation, and the *current* `name` / `message` properties
      (`none` = undefined) -/
  | errObj (capName capMsg : String) (curName curMsg : Option String)
  /-- any other object; `text` = result of its ToString (which runs `toString`/`valueOf`) -/
  | obj (text : String)
  /-- an object whose [[Class]] is "Error" but which holds no `ottoError`: the seven prototype objects
      (Error.prototype, TypeError.prototype, …); `text` = result of its ToString -/
  | errClass (text : String)
deriving Repr, DecidableEq

/-- error.go:235-256 + :102 -/
def runErrorText : Thrown → String
  | .prim t => t                               -- errors.New(caught.string())
  | .errObj n m _ _ => format n m              -- &Error{vl}; Error() = format()
  | .obj t => t
  | .errClass t => t                           -- no ottoError inside: falls through to errors.New(caught.string())

/-- what every user of `catchPanic` (Run, Eval, Otto.Call/Get/Set, Value.Call/ToString/ToFloat/…/Export,
    Object.Get/Set/Call/MarshalJSON) hands back for a thrown value that nothing caught: `none` = a nil error,
    else (the error is an `*otto.Error`, its text).  Every arm of `case Value:` assigns `err`. -/
def catchPanicErr : Thrown → Option (Bool × String)
  | .prim t => some (false, t)
  | .errObj n m _ _ => some (true, format n m)
  | .obj t => some (false, t)
  | .errClass t => some (false, t)

/-- file/file.go `(*FileSet).Position(idx)`: the first file with `idx <= base + len(src)`; idx goes on to
    `(*File).Position` unchanged (which subtracts the file's base).  `files` = (base, src) in the order of `AddFile`. -/
def fileSetPosition : List (Int × Src) → Int → Option (Nat × Nat)
  | [], _ => none
  | (base, src) :: r, idx =>
    if idx ≤ base + src.length then filePosition src base idx else fileSetPosition r idx

/-- `(*FileSet).AddFile`: the bases of consecutive files (`nextBase` = last.base + len(last.src) + 1, first = 1) -/
def addFiles : Int → List Src → List (Int × Src)
  | _, [] => []
  | base, s :: r => (base, s) :: addFiles (base + s.length + 1) r

/-! ## error objects made with a message: constructors (with / without `new`) and `Otto.Make*Error` -/

inductive Route
  | new_      -- `new C(msg)`            builtinNewXxxError → rt.newXxxError(msg)            (builtin_error.go)
  | call      -- `C(msg)`                builtinXxxError: a native activation `C` is entered first
  | make      -- `Otto.MakeCustomError(name, msg)` / `MakeTypeError(msg)` … from a Go host function (otto.go:394-414)
deriving Repr, DecidableEq

/-- the six NativeError names that `rt.newError` (global.go:158-172) routes to their own constructor functions -/
def isNativeSub (name : String) : Bool :=
  name = "EvalError" || name = "TypeError" || name = "RangeError" || name = "ReferenceError" ||
  name = "SyntaxError" || name = "URIError"

/-- what is observable of such an object -/
structure ErrObs where
  runText : String      -- text of the error `Run` returns when the object is thrown and not caught
  msgIsString : Bool    -- `typeof e.message == "string"` (else "undefined")
  msg : String          -- `e.message` when it is a string
  ownMessage : Bool     -- `e.hasOwnProperty("message")`
  ownName : Bool        -- `e.hasOwnProperty("name")`
  str : String          -- `String(e)`
  stackHead : String    -- first line of `e.stack`
  nativeTop : Bool      -- the first frame of `e.stack` is the constructor's own native activation
deriving Repr, DecidableEq

/-- type_error.go:3-12 `newErrorObject`: `newError(rt, name, pop, "%s", message.string())` – the message is an
    OPERAND of the format `%s`, so it arrives unchanged – and the own `message` is `stringValue(err.message)`.
    global.go:174-179: an own `name` only for names other than "Error" and the six NativeError names.
    builtin_error.go: every constructor called as a function passes `stackFramesToPop = 1`, so its own native
    activation is not in the trace. -/
def errObs (_r : Route) (ctor : String) (arg : Option String) : ErrObs :=
  let m := arg.getD ""
  { runText := format ctor m
    msgIsString := true
    msg := m
    ownMessage := arg.isSome
    ownName := !(ctor = "Error" || isNativeSub ctor)
    str := format ctor m
    stackHead := format ctor m
    nativeTop := false }

/-! ## `Error.prototype.toString` on an arbitrary this value (builtin_error.go:15-42) -/

inductive ThisKind
  | undef | null
  | prim                                  -- a number, string or boolean
  | object (name msg : Option String)     -- an object and its `name` / `message` properties (`none` = undefined)
deriving Repr, DecidableEq

/-- `none` = a TypeError is thrown.  `call.thisObject()` is `toObject(this)`: it throws for null and throws for null.
    An undefined this never arrives:
    `Function.prototype.call/apply` hand the global object to the callee instead (also to built-ins).
    builtin_error.go:16: a this value that is not an object is rejected. -/
def errorProtoToString : ThisKind → Option String
  | .undef => some (format "Error" "")
  | .null => none
  | .prim => none
  | .object n m => some (format (n.getD "Error") (m.getD ""))

/-! ## engine errors whose text embeds user text -/

inductive EngineMsg
  | evalToken (tok : String)     -- `eval(tok)`, tok a punctuator that cannot start a statement: parseThrow (runtime.go:865)
  | jsonChar (c : String)        -- `JSON.parse(c)`, c one character that cannot start a JSON text (builtin_json.go:31)
  | unresolvable (name : String) -- an undeclared identifier is read  (type_reference.go: `'%s' is not defined`)
  | notFunction (name : String)  -- `o[name]()` on a non-function     (cmpl_evaluate_expression.go:230 `%q is not a function`)
deriving Repr, DecidableEq

/-- (class name, message).  The first two pass the complete error text as the operand of `"%s"`, the last two pass
    the user text as an operand of a literal format: user text is never interpreted. -/
def engineMsg : EngineMsg → String × String
  | .evalToken t => ("SyntaxError", "(anonymous): Line 1:1 Unexpected token " ++ t)
  | .jsonChar c => ("SyntaxError", "invalid character '" ++ c ++ "' looking for beginning of value")
  | .unresolvable n => ("ReferenceError", "'" ++ n ++ "' is not defined")
  | .notFunction n => ("TypeError", "\"" ++ n ++ "\" is not a function")

end OttoVerif.C19
