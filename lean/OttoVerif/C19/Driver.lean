/-
  C19/Driver — line protocol front end (core-only).
    pos <srchex|-> <idx>                     file.Position(idx) on a file with base 1
    ppos <srchex|-> <off>                    parser.position at byte offset off (0 ≤ off ≤ len)
    synerr <off> <srchex>                    a program whose first syntax error is the token at byte offset off
    trace <limit> <fname|-> <srchex> <levels|-> <pre|-> <raise> <errkind>
    cls <errkind>                            what `catch (e)` sees for an interpreter-raised error
    runerr prim <texthex> …                  text of the error returned by Run for an uncaught thrown value
  reply: <model> <spec> <dev>
-/
import OttoVerif.Base.Proto
import OttoVerif.C19.Spec
namespace OttoVerif.C19.Driver
open OttoVerif.Proto OttoVerif.C19

/-- hex pairs → bytes, linear (Proto.bytes? is quadratic on the long sources of trace requests) -/
def hexPairs : List Char → List Nat → Option (List Nat)
  | [], acc => some acc.reverse
  | [_], _ => none
  | a :: b :: r, acc => match hexDigit? a, hexDigit? b with
    | some x, some y => hexPairs r ((x * 16 + y) :: acc)
    | _, _ => none

def src? (t : String) : Option Src := if t = "-" then some [] else hexPairs t.toList []
def name? (t : String) : String := if t = "-" then "" else t

def posOut : Option (Nat × Nat) → String
  | none => "nil"
  | some (l, c) => toString l ++ ":" ++ toString c

def form? : String → Option Form
  | "id" => some .ident | "dot" => some .dot | "brk" => some .bracket | "oth" => some .other | _ => none

def pre1? (t : String) : Option Pre :=
  match t.splitOn ":" with
  | ["c", f, o] => do let f ← form? f; let o ← int? o; pure (.doneCall f o)
  | ["e", o] => do let o ← int? o; pure (.directEval o 1 [] .normal)
  -- x:<off>:<file>:<inner call sites joined by `.` | ->:<n|t>
  | ["x", o, k, inner, ex] => do
    let o ← int? o; let k ← k.toNat?
    let inner ← if inner = "-" then some [] else (inner.splitOn ".").mapM int?
    let ex ← if ex = "n" then some Exit.normal else if ex = "t" then some Exit.throw else none
    pure (.directEval o k inner ex)
  | _ => none

def pres? (t : String) : Option (List Pre) :=
  if t = "-" then some [] else (t.splitOn "+").mapM pre1?

/- argument lists:  Args ::= "(" Arg* ")"   Arg ::= "l" | "c." form "." off Args | "e." off "."
   (self-delimiting; `e` evals always use file 1, the source "1") -/
def takeWhileC (p : Char → Bool) : List Char → List Char × List Char
  | [] => ([], [])
  | c :: r => if p c then let (a, b) := takeWhileC p r; (c :: a, b) else ([], c :: r)

mutual
partial def parseArg : List Char → Option (Arg × List Char)
  | 'l' :: r => some (.lit, r)
  | 'c' :: '.' :: r =>
    let (fs, r) := takeWhileC (· != '.') r
    match r with
    | '.' :: r =>
      let (ds, r) := takeWhileC Char.isDigit r
      match form? (String.ofList fs), (String.ofList ds).toNat?, parseArgs r with
      | some f, some o, some (as, r) => some (.call f o as, r)
      | _, _, _ => none
    | _ => none
  | 'e' :: '.' :: r =>
    let (ds, r) := takeWhileC Char.isDigit r
    match (String.ofList ds).toNat?, r with
    | some o, '.' :: r => some (.evalDirect o 1, r)
    | _, _ => none
  | _ => none
partial def parseArgList : List Char → Option (Args × List Char)
  | ')' :: r => some (.nil, r)
  | cs => match parseArg cs with
    | some (a, r) => match parseArgList r with
      | some (as, r) => some (.cons a as, r)
      | none => none
    | none => none
partial def parseArgs : List Char → Option (Args × List Char)
  | '(' :: r => parseArgList r
  | _ => none
end

def args? (t : String) : Option Args :=
  if t = "-" then some .nil else
  match parseArgs t.toList with
  | some (as, []) => some as
  | _ => none

def head? : String → Option Spec.Head
  | "-" => some .any | "id" => some .ident | "new" => some .new_ | "arr" => some .arr | "str" => some .str
  | "obj" => some .obj | "num" => some .num | "this" => some .this_ | _ => none

def via? (t : String) : Option Via :=
  match t.splitOn ":" with
  | ["d"] => some .direct | ["n"] => some .construct | ["b"] => some .bound | ["i"] => some .implicit
  | ["N"] => some .nativeOnly | ["v", n] => some (.viaNative n)
  | ["ed"] => some .evalDirect | ["ei"] => some .evalIndirect | _ => none

/-- a level and the kind of token its call-site offset must point at -/
def level? (t : String) : Option (Level × Spec.Head) :=
  match t.splitOn "," with
  | [v, f, n, o, p, fl, as, hd] => do
    let v ← via? v; let f ← form? f; let o ← int? o; let p ← pres? p; let fl ← fl.toNat?; let as ← args? as
    let hd ← head? hd
    pure ({ via := v, form := f, name := name? n, off := o, pre := p, file := fl, args := as }, hd)
  | _ => none

def levels? (t : String) : Option (List (Level × Spec.Head)) :=
  if t = "-" then some [] else (t.splitOn ";").mapM level?

/-- the file in which each level's call site lies (the file of the enclosing activation) -/
def siteFiles : Nat → List (Level × Spec.Head) → List (Nat × Int × Spec.Head)
  | _, [] => []
  | cur, (lv, h) :: r =>
    let inner := match lv.via with
      | .nativeOnly => cur
      | _ => lv.file
    (cur, lv.off, h) :: siteFiles inner r

def headsOK (files : List FileEnt) (sites : List (Nat × Int × Spec.Head)) : Bool :=
  sites.all (fun (k, off, h) => match files[k]? with
    | some fe => Spec.headAt fe.src off h
    | none => h == .any)

def raise? (t : String) : Option Raise :=
  match t.splitOn ":" with
  | ["at", o] => (int? o).map .withAt
  | ["at", o, _h] => (int? o).map .withAt
  | ["nf", f, o] => do let f ← form? f; let o ← int? o; pure (.nonFn f o)
  | ["nf", f, o, _h] => do let f ← form? f; let o ← int? o; pure (.nonFn f o)
  | ["sb", f, o] => do let f ← form? f; let o ← int? o; pure (.siteBare f o)
  | ["bare", o] => (int? o).map .bare
  | _ => none

def kind? : String → Option ErrKind
  | "unresolvable" => some .unresolvable | "callNonFn" => some .callNonFn | "newNonFn" => some .newNonFn
  | "memberUndefined" => some .memberUndefined | "memberNull" => some .memberNull
  | "arrayLenCtor" => some .arrayLenCtor | "arrayLenSet" => some .arrayLenSet | "radix" => some .radix
  | "fixedPrecision" => some .fixedPrecision | "expPrecision" => some .expPrecision | "precPrecision" => some .precPrecision
  | "evalSyntax" => some .evalSyntax | "functionSyntax" => some .functionSyntax
  | "instanceofNonObj" => some .instanceofNonObj | "inNonObj" => some .inNonObj
  | "cyclicJSON" => some .cyclicJSON | "uriMalformed" => some .uriMalformed
  | "frozenWrite" => some .frozenWrite | _ => none

def locOut : Loc → String
  | .unknown => "unknown"
  | .native => "native"
  | .at f l c => (if f = "<anonymous>" then "anon" else f) ++ ":" ++ toString l ++ ":" ++ toString c

def frameOut (f : FrameOut) : String := f.callee ++ "@" ++ locOut f.loc
def framesOut (fs : List FrameOut) : String := if fs.isEmpty then "none" else ";".intercalate (fs.map frameOut)
def flag (b : Bool) : String := if b then "m1" else "m0"

def caughtOut (c : Caught) : String := c.name ++ "," ++ "+".intercalate c.instanceOf ++ "," ++ flag c.hasMessage

def join (ds : List String) : String := if ds.isEmpty then "-" else ",".intercalate ds

/-- deviation regions of a trace request: decidable predicates over the request only -/
def traceDev (sc : Scenario) (k : ErrKind) : String :=
  join (Spec.traceDevs sc ++ (if (errTable k).2 then [] else ["msg_empty"]))

def strOut (s : String) : String := "s:" ++ bytesOut (s.toUTF8.toList.map (·.toNat))
def str? (t : String) : Option String :=
  if t = "-" then some "" else
  match bytes? t with
  | some bs => String.fromUTF8? (ByteArray.mk (bs.map (fun n => UInt8.ofNat n)).toArray)
  | none => none

/-- `-` = absent, `e` = the empty string, else hex of the string -/
def optStr? (t : String) : Option (Option String) :=
  if t = "-" then some none else if t = "e" then some (some "") else (str? t).map some

def reply (m s dev : String) : String := m ++ " " ++ s ++ " " ++ dev

/-- (levels, raise) pairs of a `life` request -/
def lifeScenarios : List String → Option (List Scenario)
  | [] => some []
  | ls :: r :: rest => do
    let lvh ← levels? ls; let raise ← raise? r; let more ← lifeScenarios rest
    pure ({ levels := lvh.map (·.1), pre := [], raise := raise } :: more)
  | _ => none

def handle (ws : List String) : String :=
  match ws with
  | ["pos", s, i] => match src? s, int? i with
    | some src, some idx =>
      reply (posOut (filePosition src 1 idx)) (posOut (Spec.positionAt src (idx - 1))) "-"
    | _, _ => "bad-op"
  | ["ppos", s, o] => match src? s, o.toNat? with
    | some src, some off =>
      if off ≤ src.length then reply (posOut (some (parserPosition src off))) (posOut (some (Spec.position src off))) "-"
      else "bad-op"
    | _, _ => "bad-op"
  | ["synerr", o, s] => match src? s, o.toNat? with
    | some src, some off =>
      if off ≤ src.length then reply (posOut (some (parserPosition src off))) (posOut (some (Spec.position src off))) "-"
      else "bad-op"
    | _, _ => "bad-op"
  | ["trace", lim, fname, s, ls, pre, r, k] =>
    -- s = hex sources joined by `/`: the program, then the fixed pre-statement eval source "1", then eval-level sources
    match int? lim, (s.splitOn "/").mapM src?, levels? ls, pres? pre, raise? r, kind? k, str? fname with
    | some limit, some (src :: more), some lvh, some pre, some raise, some kind, some fname =>
      let levels := lvh.map (·.1)
      let sc : Scenario := { levels := levels, pre := pre, raise := raise }
      let files : List FileEnt := { name := fname, src := src } :: more.map (fun s => { name := "", src := s })
      -- the file of the innermost activation (where the raising construct is)
      let innerFile := (levels.foldl (fun cur lv => match lv.via with | .nativeOnly => cur | _ => lv.file) 0)
      let rhead : Spec.Head := match r.splitOn ":" with
        | ["at", _, h] => (head? h).getD .any
        | ["nf", _, _, h] => (head? h).getD .any
        | _ => .any
      if !(headsOK files (siteFiles 0 lvh ++ [(innerFile, Spec.raiseOff raise, rhead)])) then
        "offset-does-not-point-at-the-declared-token offset-does-not-point-at-the-declared-token -" else
      let (mn, mm) := errTable kind
      let m := mn ++ "|" ++ flag mm ++ "|" ++ framesOut (trace files limit sc)
      let sp := Spec.errClass kind ++ "|" ++ flag true ++ "|" ++ framesOut (Spec.trace files limit sc)
      reply m sp (traceDev sc kind)
    | _, _, _, _, _, _, _ => "bad-op"
  | "life" :: _mode :: lim :: s :: rest =>
    -- k errors created one after the other on one runtime (situations `rest` = levels, raise, …) in the program `s`;
    -- every trace is read after ALL of them exist
    match int? lim, src? s, lifeScenarios rest with
    | some limit, some src, some scs =>
      let files : List FileEnt := [{ name := "", src := src }]
      let store := createErrors limit [] scs
      let m := "#".intercalate ((List.range scs.length).map (fun i =>
        match readTrace store i with
        | some fs => framesOut (fs.map (location files))
        | none => "missing"))
      let sp := "#".intercalate ((Spec.tracesLater files limit scs).map framesOut)
      let dev := join ((scs.map Spec.traceDevs).flatten.eraseDups)
      reply m sp dev
    | _, _, _ => "bad-op"
  | ["rebind", k, how, _site] =>
    let h : Option Rebind := match how with
      | "none" => some .untouched | "fn" => some .toFunction | "nonfn" => some .toNonFunction | "del" => some .deleted | _ => none
    match kind? k, h with
    | some kind, some h =>
      -- observed against the constructor / prototype SAVED before the rebinding: e.name, instanceof saved,
      -- [[Prototype]] === saved prototype, e.constructor === saved, String(e) has the class prefix
      let out := fun (c : Caught) => c.name ++ "," ++ "+".intercalate c.instanceOf
      reply (out (caughtAfter h kind)) (out (Spec.caughtAfter h kind)) "-"
    | _, _ => "bad-op"
  | ["sidefx", site, _mode] =>
    let st : Option MsgSite := match site with
      | "callResult" => some .callResult | "newResult" => some .newResult | "forEach" => some .forEach | "map" => some .map
      | "filter" => some .filter | "some" => some .some | "every" => some .every | "reduce" => some .reduce
      | "reduceRight" => some .reduceRight | "sort" => some .sort | "fnCall" => some .fnCall | "fnApply" => some .fnApply
      | "fnBind" => some .fnBind | "objToLocale" => some .objToLocale | "arrToLocale" => some .arrToLocale
      | "dateToJSON" => some .dateToJSON | "definePropGetter" => some .definePropGetter
      | "identCallee" => some .identCallee | "memberCallee" => some .memberCallee | _ => none
    match st with
    | some st =>
      let out := fun (l : List String) => "TypeError|" ++ (if l.isEmpty then "-" else ",".intercalate l)
      reply (out (messageScriptCalls st)) (out (Spec.messageScriptCalls st)) "-"
    | none => "bad-op"
  | ["uthrow", _via, kind, txtAt] =>
    -- the text token is followed by `@` + the JS expression that builds the thrown value (for the harness only)
    let txt := (txtAt.splitOn "@").headD "-"
    -- kind: p (primitive) | o (other object) | c (class Error without ottoError) | i:<Ctor>:<msg tok> (error instance)
    let th : Option Thrown := match kind.splitOn ":" with
      | ["p"] => (optStr? txt).bind (fun o => o.map Thrown.prim)
      | ["o"] => (optStr? txt).bind (fun o => o.map Thrown.obj)
      | ["c"] => (optStr? txt).bind (fun o => o.map Thrown.errClass)
      | ["i", c, m] => match optStr? m with
        | some m => some (.errObj c (m.getD "") (some c) (some (m.getD "")))
        | none => none
      | _ => none
    match th with
    | some th =>
      let out := fun (o : Option (Bool × String)) => match o with
        | none => "nil"
        | some (e, t) => (if e then "E:" else "S:") ++ strOut t
      reply (out (catchPanicErr th)) (out (Spec.uncaughtErr th)) "-"
    | none => "bad-op"
  | ["fspos", a, b, i] =>
    match src? a, src? b, int? i with
    | some a, some b, some idx =>
      let fs := addFiles 1 [a, b]
      reply (posOut (fileSetPosition fs idx)) (posOut (Spec.fileSetPosition fs idx))
        "-"
    | _, _, _ => "bad-op"
  | ["etostr", k] =>
    let tk : Option ThisKind := match k with
      | "undef" => some .undef | "null" => some .null | "num" => some .prim | "str" => some .prim | "bool" => some .prim
      | "obj" => some (.object none none) | "objn" => some (.object (some "N") none) | "objm" => some (.object none (some "M"))
      | "objnm" => some (.object (some "N") (some "M")) | "obje" => some (.object (some "") (some "M")) | _ => none
    match tk with
    | some tk =>
      let out := fun (o : Option String) => match o with | none => "throw:TypeError" | some s => strOut s
      reply (out (errorProtoToString tk)) (out (Spec.errorProtoToString tk)) (if tk = .undef then "tostring_non_object_this" else "-")
    | none => "bad-op"
  | ["emsg", "engine", k, t] =>
    match str? t with
    | some t =>
      let em : Option EngineMsg := match k with
        | "evaltok" => some (.evalToken t) | "json" => some (.jsonChar t)
        | "ident" => some (.unresolvable t) | "nonfn" => some (.notFunction t) | _ => none
      match em with
      | some em =>
        let out := fun (p : String × String) => p.1 ++ "|" ++ strOut p.2
        reply (out (engineMsg em)) (out (Spec.engineMsg em)) "-"
      | none => "bad-op"
    | none => "bad-op"
  | ["emsg", r, ctor, m] =>
    let route : Option Route := match r with | "new" => some .new_ | "call" => some .call | "make" => some .make | _ => none
    match route, optStr? m with
    | some route, some arg =>
      let out := fun (o : ErrObs) =>
        "run=" ++ strOut o.runText ++ "|mt=" ++ (if o.msgIsString then "string" else "undefined") ++
        "|m=" ++ (if o.msgIsString then strOut o.msg else "-") ++ "|om=" ++ (if o.ownMessage then "1" else "0") ++
        "|on=" ++ (if o.ownName then "1" else "0") ++ "|s=" ++ strOut o.str ++ "|h=" ++ strOut o.stackHead ++
        "|nt=" ++ (if o.nativeTop then "1" else "0")
      reply (out (errObs route ctor arg)) (out (Spec.errObs route ctor arg)) "-"
    | _, _ => "bad-op"
  | ["climit", tl, sl, n, d] =>
    -- trace limit tl (`d` = the default of New()), stack-depth limit sl, n × Copy(), error below d nested calls
    match (if tl = "d" then some newLimits.trace else int? tl), int? sl, n.toNat?, d.toNat? with
    | some tl, some sl, some n, some d =>
      let m := traceCount (cloneN n { trace := tl, stack := sl }) d
      let sp := Spec.traceCount tl d
      reply (toString m ++ "," ++ toString m) (toString sp ++ "," ++ toString sp) "-"
    | _, _, _, _ => "bad-op"
  | ["cls", k, _variant] => match kind? k with
    | some kind => reply (caughtOut (caught kind)) (caughtOut (Spec.caught kind)) (if (errTable kind).2 then "-" else "msg_empty")
    | none => "bad-op"
  | ["runerr", "prim", t, _lit] => match optStr? t with
    | some (some t) => reply (strOut (runErrorText (.prim t))) (strOut (Spec.runErrorText (.prim t))) "-"
    | _ => "bad-op"
  | ["runerr", "obj", t] => match optStr? t with
    | some (some t) => reply (strOut (runErrorText (.obj t))) (strOut (Spec.runErrorText (.obj t))) "-"
    | _ => "bad-op"
  | ["runerr", "err", ctor, msg, setName, setMsg] =>
    -- `new <ctor>(msg)` (msg `-` = no argument), then optional assignments to e.name / e.message, then `throw e`
    match optStr? msg, optStr? setName, optStr? setMsg with
    | some msg, some sn, some sm =>
      let capMsg := msg.getD ""
      -- current properties: `name` is inherited from <ctor>.prototype, `message` is own if msg was given,
      -- else inherited from Error.prototype (""), unless assigned
      let curName := some (sn.getD ctor)
      let curMsg := some (sm.getD capMsg)
      let th := Thrown.errObj ctor capMsg curName curMsg
      let dev := if Spec.staleText th then "run_text_stale" else "-"
      reply (strOut (runErrorText th)) (strOut (Spec.runErrorText th)) dev
    | _, _, _ => "bad-op"
  | _ => "bad-op"

end OttoVerif.C19.Driver
