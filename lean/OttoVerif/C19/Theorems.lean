/-  C19/Theorems — the ledger for property C19 (every theorem here is audited).  Placeholder. -/
namespace OttoVerif.C19.Thm
end OttoVerif.C19.Thm
