/-
  C19/Theorems — the ledger for property C19.  Every `theorem` here is audited
  (`#print axioms` ⊆ {propext, Classical.choice, Quot.sound}) on every run.
-/
import OttoVerif.C19.Lemmas
namespace OttoVerif.C19.Thm
open OttoVerif.C19

/-! ## positions -/

/-- `parser.position` agrees with §7.3 on every source and every offset inside it. -/
theorem lineCount_spec (src : Src) (off : Nat) (h : off ≤ src.length) :
    parserPosition src off = Spec.position src off := by
  have hl : (src.take off).length = off := by simp [List.length_take]; omega
  have := (sim (src.take off)).1 0 0 (-1) 0 (by omega) (by omega) (by omega) (by omega)
  have hc : colAt (0 + 0) (-1) = 1 := by decide
  simp only [Nat.zero_add, hl] at this
  rw [Nat.zero_add] at hc
  rw [hc] at this
  simp only [parserPosition, lineCount, Spec.position, hl]
  rw [← this]
  simp [fin]


/-- a syntax error recorded by `(*parser).error(idx, …)` carries `p.position(idx)`: for every source and every
    offset in it this is the §7.3 line and column (all four line terminators, <CR><LF> counted once).
    (That the offset handed to `error` is the offending token's is established by the correspondence stream
    `synerr`, not proved.) -/
theorem syntax_error_position (src : Src) (off : Nat) (h : off ≤ src.length) :
    parserPosition src off = Spec.walk (src.take off) 0 1 1 := lineCount_spec src off h

/-- `file.Position` (which locates every run-time stack frame) agrees with §7.3 on every source and every idx:
    all four line terminators, <CR><LF> once; idx outside the source ↦ nil on both sides. -/
theorem position_spec_base (src : Src) (base idx : Int) :
    filePosition src base idx = Spec.positionAt src (idx - base) := by
  unfold filePosition Spec.positionAt
  by_cases hr : 0 ≤ idx - base ∧ idx - base < (src.length : Int)
  · have hn : ¬ (idx - base ≥ (src.length : Int) ∨ idx - base < 0) := by omega
    simp only [hn, hr, if_false]
    have hlen : (src.take (idx - base).toNat).length = (idx - base).toNat := by
      simp [List.length_take]; omega
    have := fp_sim (src.take (idx - base).toNat) 0 0 (-1) 0 (by omega) (by omega) (by omega) (by omega)
    have hc : colAt (0 + 0) (-1) = 1 := by decide
    rw [hc] at this
    simp only [Nat.zero_add, hlen] at this
    simp only [Spec.position, ← this, finF, if_true]
    rfl
  · have hn : (idx - base ≥ (src.length : Int) ∨ idx - base < 0) := by omega
    simp only [hn, hr, if_true, if_false]

theorem position_spec (src : Src) (idx : Int) :
    filePosition src 1 idx = Spec.positionAt src (idx - 1) := position_spec_base src 1 idx

/-- `(*FileSet).Position`: the file that contains idx, and the §7.3 position of idx in it – for every set of
    files and every idx -/
theorem fileset_position_spec (fs : List (Int × Src)) (idx : Int) :
    fileSetPosition fs idx = Spec.fileSetPosition fs idx := by
  induction fs with
  | nil => rfl
  | cons f r ih =>
    obtain ⟨base, src⟩ := f
    simp only [fileSetPosition, Spec.fileSetPosition, position_spec_base, ih]

/-- the two position functions of otto now agree with each other (run-time frames vs. syntax errors) -/
theorem positions_agree (src : Src) (off : Nat) (h : off < src.length) :
    filePosition src 1 ((off : Int) + 1) = some (parserPosition src off) := by
  rw [position_spec, lineCount_spec src off (by omega)]
  have : (0 : Int) ≤ (off : Int) + 1 - 1 ∧ (off : Int) + 1 - 1 < (src.length : Int) := by omega
  simp [Spec.positionAt, h]

/-- lone <CR>, <LS>, <CR><LF> -/
example : filePosition [0x61, 13, 0x62] 1 3 = some (2, 1) ∧ filePosition [0xE2, 0x80, 0xA8, 0x62] 1 4 = some (2, 1) ∧
    filePosition [0x61, 13, 10, 0x62, 10, 0x63] 1 6 = some (3, 1) := by decide

/-! ## stack traces -/

/-- the frame the code should hold for an activation -/
def frameOfAct (a : Spec.Act) : Frame :=
  { callee := a.name, native := a.native, file := if a.native then none else some a.file, offset := a.cur }

def FileOK (f : Frame) (fl : Nat) : Prop := f.file = if f.native then none else some fl

theorem setTopOffset_cons (o : Int) (f : Frame) (r : Stack) :
    setTopOffset o (f :: r) = { f with offset := o } :: r := rfl

theorem foldl_setTopOffset (inner : List Int) : ∀ (f : Frame) (rest : Stack),
    ∃ o, inner.foldl (fun s o => setTopOffset o s) (f :: rest) = { f with offset := o } :: rest := by
  induction inner with
  | nil => intro f rest; exact ⟨f.offset, rfl⟩
  | cons a r ih =>
    intro f rest
    obtain ⟨o, ho⟩ := ih { f with offset := a } rest
    exact ⟨o, by simpa [List.foldl, setTopOffset] using ho⟩

/-- A direct eval gives the calling frame back exactly as it was at the eval call site – its own file, and the
    position of the `eval(…)` call – whatever calls the eval code made and HOWEVER it ended: by completing, or by
    throwing an exception (caught further out).  Positions of later errors in that activation are therefore
    those of the enclosing source. -/
theorem direct_eval_restores_frame (off : Int) (k : Nat) (inner : List Int) (exit : Exit) (f : Frame) (rest : Stack) :
    directEvalCall off k inner exit (f :: rest) = { f with offset := off } :: rest := by
  obtain ⟨o, ho⟩ := foldl_setTopOffset inner { f with offset := off, file := some k } rest
  simp only [directEvalCall, setTopOffset_cons, evalProgram, setTopFile]
  rw [ho]
  simp [restoreTop]

/-- the straight-line variant (restore written after the body instead of deferred) is skipped by a throw: the
    frame keeps the eval source and the eval code's last call site -/
example :
    let f : Frame := { callee := "f", file := some 0, offset := 40 }
    let inlineRestore (exit : Exit) (saved : Frame) (s : Stack) : Stack :=
      let body := [7].foldl (fun s o => setTopOffset o s) (setTopFile 2 s)
      match exit with | .normal => restoreTop saved body | .throw => body
    inlineRestore .throw f [f] = [{ f with file := some 2, offset := 7 }] ∧
    evalProgram 2 [7] .throw f [f] = [f] ∧ evalProgram 2 [7] .normal f [f] = [f] := by decide

/-- completed statements (calls, direct evals) leave nothing behind in the frame but an offset -/
theorem runPre_shape (pre : List Pre) : ∀ (f : Frame) (rest : Stack),
    ∃ o, runPre pre (f :: rest) = { f with offset := o } :: rest := by
  induction pre with
  | nil => intro f rest; exact ⟨f.offset, rfl⟩
  | cons p ps ih =>
    intro f rest
    cases p with
    | doneCall fm off =>
      obtain ⟨o, ho⟩ := ih { f with offset := atvOf fm off } rest
      exact ⟨o, by simp [runPre, setTopOffset, ho]⟩
    | directEval off k inner exit =>
      obtain ⟨o, ho⟩ := ih { f with offset := off } rest
      exact ⟨o, by simp [runPre, direct_eval_restores_frame, ho]⟩

/- Evaluating an argument list – calls, `new` and direct evals nested in arguments to any depth – touches nothing
   but the offset of the calling frame. -/
mutual
theorem evalArg_shape : ∀ (a : Arg) (f : Frame) (rest : Stack),
    ∃ o, evalArg a (f :: rest) = { f with offset := o } :: rest
  | .lit, f, rest => ⟨f.offset, rfl⟩
  | .call fm off as, f, rest => by
    obtain ⟨o, ho⟩ := evalArgs_shape as f rest
    exact ⟨atvOf fm off, by simp [evalArg, ho, setTopOffset]⟩
  | .evalDirect off _, f, rest => ⟨off, by simp [evalArg, direct_eval_restores_frame]⟩
theorem evalArgs_shape : ∀ (as : Args) (f : Frame) (rest : Stack),
    ∃ o, evalArgs as (f :: rest) = { f with offset := o } :: rest
  | .nil, f, rest => ⟨f.offset, rfl⟩
  | .cons a r, f, rest => by
    obtain ⟨o, ho⟩ := evalArg_shape a f rest
    obtain ⟨o2, ho2⟩ := evalArgs_shape r { f with offset := o } rest
    exact ⟨o2, by simp [evalArgs, ho, ho2]⟩
end

def LevelOK (lv : Level) : Prop :=
  lv.form ≠ .other ∧ lv.via ≠ .implicit ∧ lv.via ≠ .evalDirect

theorem atvOf_recorded (fm : Form) (off : Int) (h : fm ≠ .other) : atvOf fm off = off := by
  cases fm <;> simp_all [atvOf]

theorem stack_shape (ls : List Level) : ∀ (top : Frame) (fl : Nat) (rest : Stack) (cur : Int), FileOK top fl →
    (∀ lv ∈ ls, LevelOK lv) →
    setTopOffset cur (enterLevels ls (top :: rest)) =
      ((Spec.acts top.callee top.native fl ls cur).reverse.map frameOfAct) ++ rest := by
  induction ls with
  | nil =>
    intro top fl rest cur hf _
    simp only [enterLevels, setTopOffset_cons, Spec.acts, List.reverse_cons, List.reverse_nil, List.nil_append,
      List.map_cons, List.map_nil, List.cons_append, frameOfAct]
    congr 1
    cases top; simp_all [FileOK]
  | cons lv ls ih =>
    intro top fl rest cur hf hall
    have hlv : LevelOK lv := hall lv (by simp)
    have hls : ∀ l ∈ ls, LevelOK l := fun l hl => hall l (by simp [hl])
    obtain ⟨hform, hvia, hvia2⟩ := hlv
    obtain ⟨o1, ho1⟩ := runPre_shape lv.pre top rest
    obtain ⟨o, ho⟩ := evalArgs_shape lv.args { top with offset := o1 } rest
    rw [show ({ ({ top with offset := o1 } : Frame) with offset := o } : Frame) = { top with offset := o } from rfl] at ho
    have htop : ({ top with offset := lv.off } : Frame) = frameOfAct { name := top.callee, native := top.native, file := fl, cur := lv.off } := by
      cases top; simp_all [FileOK, frameOfAct]
    simp only [enterLevels, enterLevel, ho1, ho, setTopOffset_cons, atvOf_recorded _ _ hform]
    cases hv : lv.via with
    | implicit => exact absurd hv hvia
    | direct =>
      simp only [Spec.acts, hv]
      rw [ih (nodeFrame lv.name lv.file) lv.file _ cur (by simp [FileOK, nodeFrame]) hls]
      simp [nodeFrame, htop]
    | construct =>
      simp only [Spec.acts, hv]
      rw [ih (nodeFrame lv.name lv.file) lv.file _ cur (by simp [FileOK, nodeFrame]) hls]
      simp [nodeFrame, htop]
    | bound =>
      simp only [Spec.acts, hv]
      rw [ih (nodeFrame lv.name lv.file) lv.file _ cur (by simp [FileOK, nodeFrame]) hls]
      simp [nodeFrame, htop]
    | viaNative n =>
      simp only [Spec.acts, hv]
      rw [ih (nodeFrame lv.name lv.file) lv.file _ cur (by simp [FileOK, nodeFrame]) hls]
      simp [nodeFrame, htop, nativeFrame, frameOfAct]
    | nativeOnly =>
      simp only [Spec.acts, hv]
      rw [ih (nativeFrame lv.name) 0 _ cur (by simp [FileOK, nativeFrame]) hls]
      simp [nativeFrame, htop]
    | evalDirect => exact absurd hv hvia2
    | evalIndirect =>
      simp only [Spec.acts, hv]
      rw [ih { callee := "", file := some lv.file } lv.file _ cur (by simp [FileOK]) hls]
      simp [htop, nativeFrame, frameOfAct]

/-- all activations but the innermost, outermost first -/
def outerActs (name : String) (native : Bool) (file : Nat) : List Level → List Spec.Act
  | [] => []
  | lv :: ls =>
    let here : Spec.Act := { name := name, native := native, file := file, cur := lv.off }
    match lv.via with
    | .viaNative n => here :: { name := n, native := true, file := 0, cur := 0 } :: outerActs lv.name false lv.file ls
    | .nativeOnly => here :: outerActs lv.name true 0 ls
    | .evalDirect => here :: outerActs "" false lv.file ls
    | .evalIndirect => here :: { name := "eval", native := true, file := 0, cur := 0 } :: outerActs "" false lv.file ls
    | _ => here :: outerActs lv.name false lv.file ls

def innerAct (name : String) (native : Bool) (file : Nat) : List Level → Int → Spec.Act
  | [], cur => { name := name, native := native, file := file, cur := cur }
  | lv :: ls, cur =>
    match lv.via with
    | .nativeOnly => innerAct lv.name true 0 ls cur
    | .evalDirect => innerAct "" false lv.file ls cur
    | .evalIndirect => innerAct "" false lv.file ls cur
    | _ => innerAct lv.name false lv.file ls cur

theorem acts_split (ls : List Level) : ∀ (name : String) (native : Bool) (fl : Nat) (cur : Int),
    Spec.acts name native fl ls cur = outerActs name native fl ls ++ [innerAct name native fl ls cur] := by
  induction ls with
  | nil => intro name native fl cur; rfl
  | cons lv ls ih =>
    intro name native fl cur
    cases hv : lv.via <;> simp [Spec.acts, outerActs, innerAct, hv, ih]

theorem outerActs_nonneg (ls : List Level) : ∀ (name : String) (native : Bool) (fl : Nat),
    (∀ lv ∈ ls, 0 ≤ lv.off) → ∀ a ∈ outerActs name native fl ls, 0 ≤ a.cur := by
  induction ls with
  | nil => intro _ _ _ _ a ha; simp [outerActs] at ha
  | cons lv ls ih =>
    intro name native fl hall a ha
    have h0 : 0 ≤ lv.off := hall lv (by simp)
    have hls : ∀ l ∈ ls, 0 ≤ l.off := fun l hl => hall l (by simp [hl])
    cases hv : lv.via <;> simp only [outerActs, hv, List.mem_cons] at ha <;>
      (rcases ha with ha | ha) <;> first
        | (subst ha; simpa using h0)
        | exact ih _ _ _ hls a ha
        | (rcases ha with ha | ha <;> first | (subst ha; simp) | exact ih _ _ _ hls a ha)

theorem innerAct_native (ls : List Level) : ∀ (name : String) (native : Bool) (fl : Nat) (cur : Int),
    (innerAct name native fl ls cur).native =
      (match ls.getLast? with | some lv => lv.via == .nativeOnly | none => native) := by
  induction ls with
  | nil => intro _ _ _ _; rfl
  | cons lv ls ih =>
    intro name native fl cur
    cases ls with
    | nil => cases hv : lv.via <;> simp [innerAct, hv]
    | cons l2 ls2 =>
      rw [List.getLast?_cons_cons, innerAct]
      cases hv : lv.via <;> rw [ih] <;>
        (cases hg : (l2 :: ls2).getLast? with
          | none => simp at hg
          | some x => rfl)

theorem innerAct_cur (ls : List Level) : ∀ (name : String) (native : Bool) (fl : Nat) (cur : Int),
    (innerAct name native fl ls cur).cur = cur := by
  induction ls with
  | nil => intro _ _ _ _; rfl
  | cons lv ls ih => intro name native fl cur; cases hv : lv.via <;> simp [innerAct, hv, ih]

/-- The call site survives the argument list: when a call through a recorded callee is made, the calling frame
    holds the position of *that* call – whatever calls (nested to any depth, `new` included) its arguments
    contained and whatever ran before it in the frame.  (The assignment `rt.scope.frame.offset = int(atv)` comes
    after argument evaluation, immediately before `call`.) -/
theorem call_site_after_args (lv : Level) (f : Frame) (rest : Stack)
    (hform : lv.form ≠ .other) (hvia : lv.via = .direct ∨ lv.via = .construct ∨ lv.via = .bound) :
    enterLevel lv (f :: rest) = nodeFrame lv.name lv.file :: { f with offset := lv.off } :: rest := by
  obtain ⟨o1, ho1⟩ := runPre_shape lv.pre f rest
  obtain ⟨o, ho⟩ := evalArgs_shape lv.args { f with offset := o1 } rest
  rcases hvia with h | h | h <;>
    simp [enterLevel, ho1, ho, h, setTopOffset_cons, atvOf_recorded _ _ hform]

/-- Every ACTIVE frame reports the call still in progress: below the innermost activation the scope chain is,
    frame by frame, (function name, site of the call it is currently making), for every nesting of activations
    and every nesting of completed calls in their argument lists. -/
theorem active_frames_report_call_in_progress (ls : List Level) (hok : ∀ lv ∈ ls, LevelOK lv) :
    (enterLevels ls (globalStack 0)).tail = (outerActs "" false 0 ls).reverse.map frameOfAct := by
  have := stack_shape ls { callee := "", file := some 0 } 0 [] 0 (by simp [FileOK]) hok
  simp only [acts_split, List.reverse_append, List.reverse_cons, List.reverse_nil, List.nil_append,
    List.cons_append, List.map_cons, List.append_nil] at this
  cases hS : enterLevels ls (globalStack 0) with
  | nil => rw [show globalStack 0 = [{ callee := "", file := some 0 }] from rfl] at hS; rw [hS] at this; simp [setTopOffset] at this
  | cons g r =>
    rw [show globalStack 0 = [{ callee := "", file := some 0 }] from rfl] at hS
    rw [hS, setTopOffset_cons] at this
    exact (List.cons.inj this).2

/-- the order matters: recording the site *before* the arguments are evaluated (as a hoisted assignment would)
    leaves the position of the argument's call `id(2)` (20) in the frame instead of the outer call's (5) -/
example :
    let f : Frame := { callee := "outer", file := some 0 }
    let args : Args := .cons .lit (.cons (.call .ident 20 .nil) .nil)
    setTopOffset 5 (evalArgs args [f]) = [{ f with offset := 5 }] ∧
    evalArgs args (setTopOffset 5 [f]) = [{ f with offset := 20 }] := by decide

theorem cons_walkOuter (x : Frame) (T : Stack) (limit : Int) (h : ∀ f ∈ T, nonneg f = true) :
    x :: walkOuter T limit = Spec.applyLimit limit (x :: T) := by
  by_cases hl : limit ≤ 0
  · rw [walkOuter_unlimited T limit hl, List.filter_eq_self.mpr h]
    have : ¬ limit ≥ 1 := by omega
    simp [Spec.applyLimit, this]
  · obtain ⟨n, hn⟩ : ∃ n : Nat, limit = (n : Int) + 1 := ⟨(limit - 1).toNat, by omega⟩
    subst hn
    rw [walkOuter_limited, List.filter_eq_self.mpr (fun f hf => h f (List.mem_of_mem_take hf))]
    have h1 : (n : Int) + 1 ≥ 1 := by omega
    have h2 : ((n : Int) + 1).toNat = n + 1 := by omega
    simp [Spec.applyLimit, h1, h2]

theorem loc_act (files : List FileEnt) (a : Spec.Act) :
    location files (frameOfAct a) = Spec.actOut files a := by
  cases hn : a.native with
  | true => simp [location, frameOfAct, Spec.actOut, hn]
  | false =>
    simp only [location, frameOfAct, Spec.actOut, hn, Bool.false_eq_true, if_false]
    cases hf : files[a.file]? with
    | none => rfl
    | some fe =>
      simp only []
      rw [position_spec fe.src a.cur]
      cases Spec.positionAt fe.src (a.cur - 1) with
      | none => rfl
      | some p => rfl

theorem applyLimit_map {α β : Type} (g : α → β) (limit : Int) (l : List α) :
    (Spec.applyLimit limit l).map g = Spec.applyLimit limit (l.map g) := by
  unfold Spec.applyLimit
  split <;> simp [List.map_take]

theorem trace_complete_partial (files : List FileEnt) (limit : Int) (sc : Scenario)
    (hdev : Spec.traceDevs sc = [])
    (hoff : ∀ lv ∈ sc.levels, 0 ≤ lv.off) :
    trace files limit sc = Spec.trace files limit sc := by
  -- unpack the region predicates
  simp only [Spec.traceDevs, List.append_eq_nil_iff] at hdev
  obtain ⟨⟨⟨h1, h2⟩, h3⟩, h4⟩ := hdev
  have h1 : Spec.devUnrecorded sc = false := by cases h : Spec.devUnrecorded sc <;> simp_all
  have h2 : Spec.devImplicit sc = false := by cases h : Spec.devImplicit sc <;> simp_all
  have h3 : Spec.devDirectEvalFrame sc = false := by cases h : Spec.devDirectEvalFrame sc <;> simp_all
  have h4 : Spec.devErrPos sc = false := by cases h : Spec.devErrPos sc <;> simp_all
  have hlv : ∀ lv ∈ sc.levels, LevelOK lv := by
    intro lv hm
    simp only [Spec.devUnrecorded, List.any_eq_false] at h1
    simp only [Spec.devImplicit, List.any_eq_false] at h2
    simp only [Spec.devDirectEvalFrame, List.any_eq_false] at h3
    have a1 := h1 lv hm
    have a2 := h2 lv hm
    have a3 := h3 lv hm
    refine ⟨?_, ?_, ?_⟩
    · intro hf; simp_all
    · intro hv; simp_all
    · intro hv; simp_all
  -- the scope chain at the raising construct
  have hS : ∀ cur, setTopOffset cur (enterLevels sc.levels (globalStack 0)) =
      frameOfAct (innerAct "" false 0 sc.levels cur) :: (outerActs "" false 0 sc.levels).reverse.map frameOfAct := by
    intro cur
    have := stack_shape sc.levels { callee := "", file := some 0 } 0 [] cur (by simp [FileOK]) hlv
    simpa [globalStack, acts_split] using this
  -- outer frames all pass the `offset >= 0` filter
  have hT : ∀ f ∈ (outerActs "" false 0 sc.levels).reverse.map frameOfAct, nonneg f = true := by
    intro f hf
    simp only [List.mem_map, List.mem_reverse] at hf
    obtain ⟨a, ha, rfl⟩ := hf
    have := outerActs_nonneg sc.levels "" false 0 hoff a ha
    simpa [nonneg, frameOfAct] using this
  have hinner : (innerAct "" false 0 sc.levels (Spec.raiseOff sc.raise)).native = Spec.innermostNative sc.levels := by
    rw [innerAct_native]; rfl
  -- shape of the spec side
  have hspec : Spec.trace files limit sc = Spec.applyLimit limit
      ((frameOfAct (innerAct "" false 0 sc.levels (Spec.raiseOff sc.raise)) ::
        (outerActs "" false 0 sc.levels).reverse.map frameOfAct).map (location files)) := by
    simp only [Spec.trace, acts_split, List.reverse_append, List.reverse_cons, List.reverse_nil, List.nil_append,
      List.cons_append, List.map_cons, List.map_map]
    congr 2
    · rw [loc_act]
    · apply List.map_congr_left
      intro a _
      simp only [Function.comp]
      rw [loc_act]
  -- the code side: head frame (possibly with a different offset when native) followed by the walk
  have hcode : ∃ x : Frame, location files x =
        location files (frameOfAct (innerAct "" false 0 sc.levels (Spec.raiseOff sc.raise))) ∧
      traceFrames limit sc = x :: walkOuter ((outerActs "" false 0 sc.levels).reverse.map frameOfAct) limit := by
    -- name the scope chain
    cases hSt : enterLevels sc.levels (globalStack 0) with
    | nil => have := hS 0; rw [hSt] at this; simp [setTopOffset] at this
    | cons f rest =>
      have hS' : ∀ cur, ({ f with offset := cur } : Frame) = frameOfAct (innerAct "" false 0 sc.levels cur) ∧
          rest = (outerActs "" false 0 sc.levels).reverse.map frameOfAct := by
        intro cur
        have := hS cur
        rw [hSt, setTopOffset_cons] at this
        exact List.cons.inj this
      have hrest := (hS' 0).2
      obtain ⟨o, ho⟩ := runPre_shape sc.pre f rest
      simp only [traceFrames, raiseTrace, hSt, ho]
      cases hr : sc.raise with
      | withAt off =>
        refine ⟨{ f with offset := off }, by rw [(hS' off).1]; simp [Spec.raiseOff, hr], ?_⟩
        simp [newErrorTrace, popScopes, hrest]
      | nonFn fm off =>
        have hfm : fm ≠ .other := by
          intro hfm; subst hfm; simp [Spec.devErrPos, hr] at h4
        refine ⟨{ f with offset := off }, by rw [(hS' off).1]; simp [Spec.raiseOff, hr], ?_⟩
        simp [newErrorTrace, popScopes, hrest, atvOf_recorded _ _ hfm]
      | siteBare fm off =>
        have hfm : fm ≠ .other := by
          intro hfm; subst hfm; simp [Spec.devErrPos, hr] at h4
        refine ⟨{ f with offset := off }, by rw [(hS' off).1]; simp [Spec.raiseOff, hr], ?_⟩
        simp [newErrorTrace, popScopes, hrest, atvOf_recorded _ _ hfm, setTopOffset_cons]
      | bare off =>
        have hnat : Spec.innermostNative sc.levels = true := by
          simpa [Spec.devErrPos, hr] using h4
        have hfn : f.native = true := by
          have := (hS' (Spec.raiseOff sc.raise)).1
          have h2 := congrArg Frame.native this
          simp only [frameOfAct] at h2
          rw [hinner, hnat] at h2
          exact h2
        refine ⟨{ f with offset := o }, ?_, ?_⟩
        · rw [← (hS' (Spec.raiseOff (.bare off))).1]
          simp [location, hfn]
        · simp [newErrorTrace, popScopes, hrest]
  obtain ⟨x, hx, hcode⟩ := hcode
  rw [hspec, trace, hcode, List.map_cons, hx, ← List.map_cons, cons_walkOuter _ _ _ hT, applyLimit_map]


/-- `newError`: with every outer scope recorded, the trace is the scope chain cut to the limit;
    a limit ≤ 0 never reaches `limit == 0` after `limit--`, i.e. means "no limit". -/
theorem trace_limit (f : Frame) (outer : Stack) (limit : Int) (atv : Option Int)
    (h : ∀ g ∈ outer, g.offset ≥ 0) :
    (newErrorTrace (f :: outer) limit 0 atv).length =
      if limit ≥ 1 then min limit.toNat (outer.length + 1) else outer.length + 1 := by
  have hn : ∀ g ∈ outer, nonneg g = true := fun g hg => by simpa [nonneg] using h g hg
  simp only [newErrorTrace, popScopes]
  rw [cons_walkOuter _ _ _ hn]
  unfold Spec.applyLimit
  split <;> simp [List.length_take]

/-- `Copy()` hands the configured limits on unchanged, however often it is applied -/
theorem cloneN_limits (n : Nat) (l : Limits) : cloneN n l = l := by
  induction n generalizing l with
  | zero => rfl
  | succ n ih => simp only [cloneN]; rw [ih]; cases l; rfl

/-- `trace_limit` for copies: on a runtime obtained by any number of `Copy()`s from one configured with trace
    limit `l.trace` (and any stack-depth limit), an error below `depth` nested calls has exactly
    `min(limit, depth + 1)` frames for a limit ≥ 1 and all `depth + 1` frames for a limit ≤ 0 – the same as on the
    original. -/
theorem trace_limit_copy (n : Nat) (l : Limits) (depth : Nat) :
    traceCount (cloneN n l) depth = Spec.traceCount l.trace depth ∧
    Spec.traceCount l.trace depth = (if l.trace ≥ 1 then min l.trace.toNat (depth + 1) else depth + 1) := by
  rw [cloneN_limits]
  have hs : Spec.traceCount l.trace depth = (if l.trace ≥ 1 then min l.trace.toNat (depth + 1) else depth + 1) := by
    unfold Spec.traceCount Spec.applyLimit
    split <;> simp [List.length_take]
  refine ⟨?_, hs⟩
  rw [hs]
  unfold traceCount nestStack
  rw [List.replicate_succ]
  have h := trace_limit { callee := "r", file := some 0, offset := 1 }
    (List.replicate depth { callee := "r", file := some 0, offset := 1 }) l.trace (some 1)
    (by intro g hg; rw [List.eq_of_mem_replicate hg]; decide)
  simpa using h

/-- in general a positive limit bounds the scopes *visited*, not the frames kept: scopes whose offset is
    negative are skipped but still count -/
theorem trace_limit_visits (f : Frame) (outer : Stack) (n : Nat) (atv : Option Int) :
    (newErrorTrace (f :: outer) ((n : Int) + 1) 0 atv).tail = (outer.take n).filter nonneg := by
  simp [newErrorTrace, popScopes, walkOuter_limited]


/-- apart from the innermost frame, a frame whose recorded offset is negative (call through a callee that is
    not an identifier / dot / bracket expression records -1) never appears in a trace: the caller is dropped -/
theorem trace_drops_unrecorded (s : Stack) (limit : Int) : ∀ f ∈ walkOuter s limit, f.offset ≥ 0 := by
  induction s generalizing limit with
  | nil => intro f hf; simp [walkOuter] at hf
  | cons g r ih =>
    intro f hf
    simp only [walkOuter] at hf
    split at hf
    · simp at hf
    · split at hf
      · rcases List.mem_cons.mp hf with h | h
        · subst h; assumption
        · exact ih _ f h
      · exact ih _ f hf

/-- `SetStackTraceLimit(0)` (or any negative limit) means no limit: `limit--` never meets 0 -/
theorem trace_limit_zero_unlimited (f : Frame) (outer : Stack) (limit : Int) (h : limit ≤ 0) :
    newErrorTrace (f :: outer) limit 0 none = f :: outer.filter nonneg := by
  simp [newErrorTrace, popScopes, walkOuter_unlimited outer limit h]


/-- non-vacuity of `trace_complete_partial`: f calls g through a method, g reads an undefined variable -/
example :
    let src : Src := [102, 117, 110, 99, 116, 105, 111, 110, 32, 103, 40, 41, 123, 32, 122, 122, 122, 32, 125, 10, 118, 97, 114, 32, 111, 32, 61, 32, 123, 109, 58, 32, 102, 117, 110, 99, 116, 105, 111, 110, 32, 102, 40, 41, 123, 32, 103, 40, 41, 32, 125, 125, 10, 111, 46, 109, 40, 41]  -- 'function g(){ zzz }\nvar o = {m: function f(){ g() }}\no.m()'
    let sc : Scenario := { levels := [⟨.direct, .dot, "f", 54, [], 0, .nil⟩, ⟨.direct, .ident, "g", 47, [], 0, .nil⟩], pre := [], raise := .withAt 15 }
    Spec.traceDevs sc = [] ∧
    trace [⟨"", src⟩] 10 sc =
      [⟨"g", .at "<anonymous>" 1 15⟩, ⟨"f", .at "<anonymous>" 2 27⟩, ⟨"", .at "<anonymous>" 3 1⟩] := by
  decide

/-- Dev `trace_unrecorded_callee`: the caller of an IIFE disappears from the trace. -/
example :
    let src : Src := [102, 117, 110, 99, 116, 105, 111, 110, 32, 102, 40, 41, 123, 32, 40, 102, 117, 110, 99, 116, 105, 111, 110, 40, 41, 123, 32, 122, 122, 122, 32, 125, 41, 40, 41, 32, 125, 10, 102, 40, 41]  -- 'function f(){ (function(){ zzz })() }\nf()'
    let sc : Scenario := { levels := [⟨.direct, .ident, "f", 39, [], 0, .nil⟩, ⟨.direct, .other, "", 16, [], 0, .nil⟩], pre := [], raise := .withAt 28 }
    Spec.traceDevs sc = ["trace_unrecorded_callee"] ∧
    trace [⟨"", src⟩] 10 sc ≠ Spec.trace [⟨"", src⟩] 10 sc := by
  decide

/-- Dev `trace_implicit_call: a getter is entered without any call site being recorded in f`. -/
example :
    let src : Src := [118, 97, 114, 32, 111, 32, 61, 32, 123, 103, 101, 116, 32, 120, 40, 41, 123, 32, 122, 122, 122, 59, 32, 125, 125, 59, 10, 102, 117, 110, 99, 116, 105, 111, 110, 32, 102, 40, 41, 123, 32, 111, 46, 120, 59, 32, 125, 10, 102, 40, 41, 59]  -- 'var o = {get x(){ zzz; }};\nfunction f(){ o.x; }\nf();'
    let sc : Scenario := { levels := [⟨.direct, .ident, "f", 49, [], 0, .nil⟩, ⟨.implicit, .other, "", 42, [], 0, .nil⟩], pre := [], raise := .withAt 19 }
    Spec.traceDevs sc = ["trace_implicit_call"] ∧
    trace [⟨"", src⟩, ⟨"", [0x31]⟩] 10 sc ≠ Spec.trace [⟨"", src⟩, ⟨"", [0x31]⟩] 10 sc := by
  decide

/-- a completed direct eval no longer disturbs the frame: positions after it are found in the function's own file -/
example :
    let src : Src := [102, 117, 110, 99, 116, 105, 111, 110, 32, 102, 40, 41, 123, 32, 101, 118, 97, 108, 40, 34, 49, 34, 41, 59, 10, 32, 122, 122, 122, 59, 32, 125, 10, 102, 40, 41, 59]  -- 'function f(){ eval("1");\n zzz; }\nf();'
    let sc : Scenario := { levels := [⟨.direct, .ident, "f", 34, [], 0, .nil⟩], pre := [.directEval 15 1 [] .normal], raise := .withAt 27 }
    Spec.traceDevs sc = [] ∧
    trace [⟨"", src⟩, ⟨"", [0x31]⟩] 10 sc = [⟨"f", .at "<anonymous>" 2 2⟩, ⟨"", .at "<anonymous>" 3 1⟩] := by
  decide

/-- Dev `trace_direct_eval_frame`: code running inside a direct eval has no frame of its own; it is reported under
    the caller's name and the position of the `eval(…)` call is not in the trace. -/
example :
    let src : Src := [102, 117, 110, 99, 116, 105, 111, 110, 32, 102, 40, 41, 123, 32, 101, 118, 97, 108, 40, 34, 122, 122, 122, 59, 34, 41, 59, 32, 125, 10, 102, 40, 41, 59]  -- 'function f(){ eval("zzz;"); }\nf();'
    let sc : Scenario := { levels := [⟨.direct, .ident, "f", 31, [], 0, .nil⟩, ⟨.evalDirect, .ident, "", 15, [], 2, .nil⟩], pre := [], raise := .withAt 1 }
    Spec.traceDevs sc = ["trace_direct_eval_frame"] ∧
    trace [⟨"", src⟩, ⟨"", [0x31]⟩, ⟨"", [122, 122, 122, 59]⟩] 10 sc ≠ Spec.trace [⟨"", src⟩, ⟨"", [0x31]⟩, ⟨"", [122, 122, 122, 59]⟩] 10 sc := by
  decide

/-- Dev `errpos_no_at: instanceof on a non-object reports no position`. -/
example :
    let src : Src := [102, 117, 110, 99, 116, 105, 111, 110, 32, 102, 40, 41, 123, 10, 32, 32, 49, 32, 105, 110, 115, 116, 97, 110, 99, 101, 111, 102, 32, 50, 59, 32, 125, 10, 102, 40, 41, 59]  -- 'function f(){\n  1 instanceof 2; }\nf();'
    let sc : Scenario := { levels := [⟨.direct, .ident, "f", 35, [], 0, .nil⟩], pre := [], raise := .bare 17 }
    Spec.traceDevs sc = ["errpos_no_at"] ∧
    trace [⟨"", src⟩, ⟨"", [0x31]⟩] 10 sc ≠ Spec.trace [⟨"", src⟩, ⟨"", [0x31]⟩] 10 sc := by
  decide

/-! ## messages are data -/

theorem format_eq_toString (n m : String) : format n m = Spec.errorToString (some n) (some m) := by
  simp [format, Spec.errorToString]

/-- The message given to an error constructor – with or without `new`, or through `Otto.Make*Error` – is data:
    whatever it looks like (its own class name and ": " in front, format verbs, newlines, nothing at all) it is what
    `e.message`, `String(e)`, the first line of `e.stack` and the error returned by `Run` show. -/
theorem error_message_is_data (r : Route) (ctor m : String) :
    (errObs r ctor (some m)).msg = m ∧ (errObs r ctor (some m)).runText = Spec.errorToString (some ctor) (some m) ∧
    (errObs r ctor (some m)).str = Spec.errorToString (some ctor) (some m) ∧
    (errObs r ctor (some m)).stackHead = Spec.errorToString (some ctor) (some m) := by
  simp [errObs, format_eq_toString]

/-- error objects made with a message are exactly as §15.11 describes them, by every route: own `message` =
    the argument as a string (also the empty one), `name` inherited (own only for custom names), and the constructor
    called as a function leaves no frame of its own -/
theorem errObs_eq (r : Route) (ctor : String) (arg : Option String) :
    errObs r ctor arg = Spec.errObs r ctor arg := by
  simp [errObs, Spec.errObs, format_eq_toString]

/-- engine errors name the offending user text verbatim (no format verbs are interpreted) -/
theorem engine_msg_eq (em : EngineMsg) : engineMsg em = Spec.engineMsg em := by
  cases em <;> rfl

/-- `Error.prototype.toString` follows §15.11.4.4 on every this value except primitives (region
    `tostring_non_object_this`: an undefined this arrives as the global object) -/
theorem error_proto_toString (k : ThisKind) (hu : k ≠ .undef) :
    errorProtoToString k = Spec.errorProtoToString k := by
  cases k with
  | undef => exact absurd rfl hu
  | null => rfl
  | prim => rfl
  | object n m => simp [errorProtoToString, Spec.errorProtoToString, format_eq_toString]; cases n <;> cases m <;> rfl

/-- Dev `tostring_non_object_this`: `Error.prototype.toString.call(undefined)` -/
example : errorProtoToString .undef = some "Error" ∧ Spec.errorProtoToString .undef = none := by decide

/-! ## classes -/

theorem error_class (k : ErrKind) :
    (caught k).name = Spec.errClass k ∧ (caught k).instanceOf = [Spec.errClass k, "Error"] := by
  cases k <;> decide

theorem error_class_full (k : ErrKind) (h : (errTable k).2 = true) : caught k = Spec.caught k := by
  cases k <;> first | rfl | (simp [errTable] at h)


/-- Dev `msg_empty`: an invalid array length raises a RangeError with an empty message. -/
example : caught .arrayLenCtor ≠ Spec.caught .arrayLenCtor ∧ (errTable .arrayLenCtor).2 = false := by decide

/-! ## text of the error returned by Run -/

theorem run_error_text (t : Thrown) (h : Spec.staleText t = false) :
    runErrorText t = Spec.runErrorText t := by
  cases t with
  | prim s => rfl
  | obj s => rfl
  | errClass s => rfl
  | errObj n m cn cm =>
    simp [Spec.staleText] at h
    obtain ⟨h1, h2⟩ := h
    subst h1; subst h2
    simp [runErrorText, Spec.runErrorText, format, Spec.errorToString]

example : Spec.staleText (.errObj "Error" "x" (some "Foo") (some "x")) = true ∧
    runErrorText (.errObj "Error" "x" (some "Foo") (some "x")) ≠ Spec.runErrorText (.errObj "Error" "x" (some "Foo") (some "x")) := by
  decide


/-! ## uncaught exceptions reach Go -/

/-- an exception that nothing caught always reaches Go as an error: no kind of thrown value – primitive, plain
    object, error instance, or an object of class "Error" that is not an instance (the prototype objects) – leaves
    `err` nil, through any of the API functions built on `catchPanic` -/
theorem uncaught_never_nil (t : Thrown) : (catchPanicErr t).isSome = true := by
  cases t <;> rfl

/-- … and the error is the spec's: an `*otto.Error` exactly for error instances, with the text 'Name: message' (or
    ToString) of the thrown value, unless name / message were reassigned after creation (`run_text_stale`) -/
theorem uncaught_err_eq (t : Thrown) (h : Spec.staleText t = false) : catchPanicErr t = Spec.uncaughtErr t := by
  have ht := run_error_text t h
  cases t with
  | prim s => rfl
  | obj s => rfl
  | errClass s => rfl
  | errObj n m cn cm =>
    simp only [runErrorText] at ht
    simp only [catchPanicErr, Spec.uncaughtErr, ht]

/-! ## several errors alive at once -/

theorem createErrors_append (limit : Int) (scs : List Scenario) : ∀ store : ErrorStore,
    createErrors limit store scs = store ++ scs.map (traceFrames limit) := by
  induction scs with
  | nil => intro store; simp [createErrors]
  | cons sc r ih => intro store; simp [createErrors, createError, ih]

/-- An error keeps the trace of its own creation: whatever errors the runtime created before (`earlier`) and however
    many it creates afterwards (`later` – engine-raised or constructed, caught or not), reading the error's trace
    gives the frames `newError` computed for it. -/
theorem trace_survives_later_errors (limit : Int) (earlier later : List Scenario) (sc : Scenario) :
    readTrace (createErrors limit [] (earlier ++ sc :: later)) earlier.length = some (traceFrames limit sc) := by
  simp [readTrace, createErrors_append]

/-- … and therefore, outside the regions, what is read later is the spec trace of that error -/
theorem traces_later_eq (files : List FileEnt) (limit : Int) (scs : List Scenario)
    (h : ∀ sc ∈ scs, Spec.traceDevs sc = [] ∧ ∀ lv ∈ sc.levels, 0 ≤ lv.off) :
    (createErrors limit [] scs).map (fun fs => fs.map (location files)) = Spec.tracesLater files limit scs := by
  simp only [createErrors_append, List.nil_append, List.map_map, Spec.tracesLater]
  apply List.map_congr_left
  intro sc hsc
  have := trace_complete_partial files limit sc (h sc hsc).1 (h sc hsc).2
  simpa [trace] using this

/-- a shared scratch buffer would not do: if every error held a view of one buffer that the next `newError`
    refills, the earlier error would show the later error's frames -/
example :
    let f1 : Frame := { callee := "first", file := some 0, offset := 10 }
    let f2 : Frame := { callee := "second", file := some 0, offset := 20 }
    let own : ErrorStore := [[f1], [f2]]
    let shared : ErrorStore := [[f2].take 1, [f2]]          -- view of length 1 into the refilled buffer
    readTrace own 0 = some [f1] ∧ readTrace shared 0 = some [f2] := by decide

/-! ## building the message of an engine error -/

/-- no script runs while the message of a "not callable / not a function" TypeError is built, at any site, whatever
    the offending value is -/
theorem message_no_script (s : MsgSite) : messageScriptCalls s = Spec.messageScriptCalls s := rfl

/-! ## the class of an engine error does not depend on the global binding -/

/-- whatever a script did to the global name of a native error constructor (reassigned it to another function or to
    a non-function, deleted it), an error of that class raised by the engine afterwards has the original class: name,
    `instanceof` the original constructor and Error – the §15.11 table of `error_class` holds after every history -/
theorem class_independent_of_global_binding (h : Rebind) (k : ErrKind) :
    caughtAfter h k = caught k ∧ Spec.caughtAfter h k = Spec.caught k ∧
    (caughtAfter h k).name = Spec.errClass k ∧ (caughtAfter h k).instanceOf = [Spec.errClass k, "Error"] ∧
    ((errTable k).2 = true → caughtAfter h k = Spec.caughtAfter h k) := by
  refine ⟨rfl, rfl, (error_class k).1, (error_class k).2, ?_⟩
  intro hm
  exact error_class_full k hm

end OttoVerif.C19.Thm
