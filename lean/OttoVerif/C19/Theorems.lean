/-
  C19/Theorems — the ledger for property C19.  Every `theorem` here is audited
  (`#print axioms` ⊆ {propext, Classical.choice, Quot.sound}) on every run.
-/
import OttoVerif.C19.Lemmas
namespace OttoVerif.C19.Thm
open OttoVerif.C19

/-! ## positions -/

/-- `parser.position` agrees with §7.3 on every source and every offset inside it. -/
theorem lineCount_spec (src : Src) (off : Nat) (h : off ≤ src.length) :
    parserPosition src off = Spec.position src off := by
  have hl : (src.take off).length = off := by simp [List.length_take]; omega
  have := (sim (src.take off)).1 0 0 (-1) 0 (by omega) (by omega) (by omega) (by omega)
  have hc : colAt (0 + 0) (-1) = 1 := by decide
  simp only [Nat.zero_add, hl] at this
  rw [Nat.zero_add] at hc
  rw [hc] at this
  simp only [parserPosition, lineCount, Spec.position, hl]
  rw [← this]
  simp [fin]


/-- `file.Position` agrees with §7.3 wherever no lone <CR>, <LS> or <PS> precedes the offset. -/
theorem position_lf (src : Src) (idx : Int) (h : Spec.cleanAt src (idx - 1) = true) :
    filePosition src 1 idx = Spec.positionAt src (idx - 1) := by
  unfold filePosition Spec.positionAt
  by_cases hr : 0 ≤ idx - 1 ∧ idx - 1 < (src.length : Int)
  · have hn : ¬ (idx - 1 ≥ (src.length : Int) ∨ idx - 1 < 0) := by omega
    simp only [hn, hr, if_false]
    simp only [Spec.cleanAt, hr] at h
    have hlen : (src.take (idx - 1).toNat).length = (idx - 1).toNat := by
      simp [List.length_take]; omega
    have := walk_clean _ (src.take (idx - 1).toNat) (Nat.le_refl _) h 1 1
    simp only [Spec.position, this, colLF, hlen]
    cases hj : lastIndexLF (src.take (idx - 1).toNat) with
    | some k => simp; omega
    | none => simp; omega
  · have hn : (idx - 1 ≥ (src.length : Int) ∨ idx - 1 < 0) := by omega
    simp only [hn, hr, if_true, if_false]


/-- Dev `position_cr`: after a lone <CR> (or <LS>/<PS>) `file.Position` stays on the old line. -/
example : Spec.cleanAt [0x61, 13, 0x62] 2 = false ∧
    filePosition [0x61, 13, 0x62] 1 3 ≠ Spec.positionAt [0x61, 13, 0x62] 2 := by decide
example : filePosition [0xE2, 0x80, 0xA8, 0x62] 1 4 = some (1, 4) ∧ Spec.positionAt [0xE2, 0x80, 0xA8, 0x62] 3 = some (2, 1) := by decide
/-- non-vacuity: <CR><LF> line ends are inside the proved region -/
example : Spec.cleanAt [0x61, 13, 10, 0x62, 10, 0x63] 5 = true ∧ filePosition [0x61, 13, 10, 0x62, 10, 0x63] 1 6 = some (3, 1) := by decide

/-! ## classes -/

theorem error_class (k : ErrKind) :
    (caught k).name = Spec.errClass k ∧ (caught k).instanceOf = [Spec.errClass k, "Error"] := by
  cases k <;> decide

theorem error_class_full (k : ErrKind) (h : (errTable k).2 = true) : caught k = Spec.caught k := by
  cases k <;> first | rfl | (simp [errTable] at h)


/-- Dev `msg_empty`: an invalid array length raises a RangeError with an empty message. -/
example : caught .arrayLenCtor ≠ Spec.caught .arrayLenCtor ∧ (errTable .arrayLenCtor).2 = false := by decide

/-! ## text of the error returned by Run -/

theorem run_error_text (t : Thrown) (h : Spec.staleText t = false) :
    runErrorText t = Spec.runErrorText t := by
  cases t with
  | prim s => rfl
  | obj s => rfl
  | errObj n m cn cm =>
    simp [Spec.staleText] at h
    obtain ⟨h1, h2⟩ := h
    subst h1; subst h2
    simp [runErrorText, Spec.runErrorText, format, Spec.errorToString]

example : Spec.staleText (.errObj "Error" "x" (some "Foo") (some "x")) = true ∧
    runErrorText (.errObj "Error" "x" (some "Foo") (some "x")) ≠ Spec.runErrorText (.errObj "Error" "x" (some "Foo") (some "x")) := by
  decide


end OttoVerif.C19.Thm
