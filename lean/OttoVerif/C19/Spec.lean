/-
  C19/Spec — what ES5 and the property text demand (core-only imports; shares only data types with the Model).

  * Line/column: ES5 §7.3.  LineTerminatorSequence ::  <LF> | <CR>[lookahead ∉ <LF>] | <LS> | <PS> | <CR><LF>.
    "A line terminator … should be considered a single character for the purpose of reporting line numbers"
    for <CR><LF>.  Lines are numbered from 1; the column is 1 + the number of source bytes since the end of the
    last LineTerminatorSequence (otto's API counts columns in bytes of the Go string in both of its position
    functions; the column unit is taken from there, the line structure from §7.3).
  * Classes: §15.11.6 / §15.11.7 and the clauses that raise each error.
  * Traces (not in ES5; fixed by the property text): innermost first, every active call, name of the function,
    file:line:column of the place where that activation currently is (its call site of the next inner
    activation, or the raising construct for the innermost one), truncated to the configured limit.
-/
import OttoVerif.C19.Model
namespace OttoVerif.C19.Spec
open OttoVerif.C19

/-! ## §7.3 positions -/

/-- length in bytes of the LineTerminatorSequence at the head of `s` (0 = none).
    <LS> = U+2028 = E2 80 A8, <PS> = U+2029 = E2 80 A9 in UTF-8. -/
def ltsLen : Src → Nat
  | [] => 0
  | b :: r =>
    if b = 10 then 1
    else if b = 13 then (match r with
      | b2 :: _ => if b2 = 10 then 2 else 1
      | [] => 1)
    else match r with
      | b2 :: b3 :: _ => if b = 0xE2 ∧ b2 = 0x80 ∧ (b3 = 0xA8 ∨ b3 = 0xA9) then 3 else 0
      | _ => 0

/-- read `s` from position (line, col); `k` = bytes of the current LineTerminatorSequence still to pass -/
def walk : Src → Nat → Nat → Nat → Nat × Nat
  | [], _, l, c => (l, c)
  | _ :: r, k + 1, l, c => walk r k l c
  | b :: r, 0, l, c =>
    match ltsLen (b :: r) with
    | 0 => walk r 0 l (c + 1)            -- an ordinary source byte: next column
    | n + 1 => walk r n (l + 1) 1        -- a line terminator sequence: next line, column 1

/-- (line, column) of byte offset `off` of `src` (both from 1) -/
def position (src : Src) (off : Nat) : Nat × Nat := walk (src.take off) 0 1 1

/-- the position of a token that exists in the source: offsets outside `0 ≤ off < len` denote nothing -/
def positionAt (src : Src) (off : Int) : Option (Nat × Nat) :=
  if 0 ≤ off ∧ off < src.length then some (position src off.toNat) else none

/-! ## §15.11 classes -/

/-- the native error constructor ES5 prescribes for each situation -/
def errClass : ErrKind → String
  | .unresolvable => "ReferenceError"        -- §8.7.1 GetValue step 3
  | .callNonFn => "TypeError"                -- §11.2.3 step 5
  | .newNonFn => "TypeError"                 -- §11.2.2 step 3/4
  | .memberUndefined => "TypeError"          -- §11.2.1 step 5, §9.10 CheckObjectCoercible
  | .memberNull => "TypeError"
  | .arrayLenCtor => "RangeError"            -- §15.4.2.2
  | .arrayLenSet => "RangeError"             -- §15.4.5.1 step 3.c
  | .radix => "RangeError"                   -- §15.7.4.2
  | .fixedPrecision => "RangeError"          -- §15.7.4.5 step 2
  | .expPrecision => "RangeError"            -- §15.7.4.6 step 7
  | .precPrecision => "RangeError"           -- §15.7.4.7 step 8
  | .evalSyntax => "SyntaxError"             -- §15.1.2.1 step 2
  | .functionSyntax => "SyntaxError"         -- §15.3.2.1 step 8/9
  | .instanceofNonObj => "TypeError"         -- §11.8.6 step 5
  | .inNonObj => "TypeError"                 -- §11.8.7 step 5
  | .cyclicJSON => "TypeError"               -- §15.12.3 Str/JO step 1
  | .uriMalformed => "URIError"              -- §15.1.3
  | .frozenWrite => "TypeError"              -- §8.12.5 [[Put]] / §8.12.9 with Throw = true (§15.4.4.7 push step 6 …)

/-- §15.11.7: `new NativeError` has [[Prototype]] NativeError.prototype, whose [[Prototype]] is Error.prototype
    (§15.11.7.7) and whose `name` is the constructor's name (§15.11.7.9); the property text adds: non-empty message. -/
def caught (k : ErrKind) : Caught :=
  { name := errClass k, instanceOf := [errClass k, "Error"], hasMessage := true }

/-- §15.11.7.2 / the raising clauses: the [[Prototype]] of an error the engine raises is "the original NativeError
    prototype object, the one that is the initial value of NativeError.prototype" – whatever the global name is
    bound to by now (reassigned to another function or to a non-function, or deleted) -/
def caughtAfter (_h : Rebind) (k : ErrKind) : Caught := caught k

/-! ## text of an uncaught exception -/

/-- §15.11.4.4 Error.prototype.toString -/
def errorToString (name msg : Option String) : String :=
  let n := name.getD "Error"
  let m := msg.getD ""
  if n = "" then m else if m = "" then n else n ++ ": " ++ m

/-- 'Name: message' of the thrown value (for values that are not error objects: their ToString) -/
def runErrorText : Thrown → String
  | .prim t => t
  | .errObj _ _ n m => errorToString n m
  | .obj t => t
  | .errClass t => t

/-- an uncaught exception always comes back as an error (never nil), with the text above -/
def uncaughtErr (t : Thrown) : Option (Bool × String) :=
  some ((match t with | .errObj .. => true | _ => false), runErrorText t)

/-- a position in a file set: the file that contains idx (the set's own lookup rule: first file with
    idx ≤ base + length), and the §7.3 position of offset idx − base in it -/
def fileSetPosition : List (Int × Src) → Int → Option (Nat × Nat)
  | [], _ => none
  | (base, src) :: r, idx =>
    if idx ≤ base + src.length then positionAt src (idx - base) else fileSetPosition r idx

/-! ## traces -/

/-- one active activation as the property text sees it -/
structure Act where
  name : String
  native : Bool
  /-- the file its code comes from (index into the file table; unused for natives) -/
  file : Nat
  /-- where the activation currently is: its call site of the next inner activation, or the raising construct -/
  cur : Int

/-- activations outermost first; `name`/`native`/`file` describe the activation that contains the levels.
    Eval code is an activation of its own (ES5 §10.4.2: a new execution context), nameless, in the eval source. -/
def acts (name : String) (native : Bool) (file : Nat) : List Level → Int → List Act
  | [], cur => [{ name := name, native := native, file := file, cur := cur }]
  | lv :: ls, cur =>
    let here : Act := { name := name, native := native, file := file, cur := lv.off }
    match lv.via with
    | .viaNative n => here :: { name := n, native := true, file := 0, cur := 0 } :: acts lv.name false lv.file ls cur
    | .nativeOnly => here :: acts lv.name true 0 ls cur
    | .evalDirect => here :: acts "" false lv.file ls cur
    | .evalIndirect => here :: { name := "eval", native := true, file := 0, cur := 0 } :: acts "" false lv.file ls cur
    | _ => here :: acts lv.name false lv.file ls cur

def raiseOff : Raise → Int
  | .withAt o => o
  | .nonFn _ o => o
  | .siteBare _ o => o
  | .bare o => o

/-- the configured limit: a positive limit keeps that many frames; zero or negative means no limit -/
def applyLimit (limit : Int) (l : List α) : List α :=
  if limit ≥ 1 then l.take limit.toNat else l

def actOut (files : List FileEnt) (a : Act) : FrameOut :=
  { callee := a.name,
    loc := if a.native then Loc.native
           else match files[a.file]? with
             | none => Loc.unknown
             | some fe => match positionAt fe.src (a.cur - 1) with     -- idx = offset + base, base = 1
               | some (l, c) => Loc.at (if fe.name = "" then "<anonymous>" else fe.name) l c
               | none => Loc.unknown }

/-- the expected trace of a scenario: innermost first, truncated to the limit -/
def trace (files : List FileEnt) (limit : Int) (sc : Scenario) : List FrameOut :=
  applyLimit limit ((acts "" false 0 sc.levels (raiseOff sc.raise)).reverse.map (actOut files))

/-- ES5 raises these TypeErrors (§11.2.3 step 5, §11.2.2, §15.4.4.16-22, §15.3.4.3-5, §15.2.4.3, §15.9.5.44, §8.10.5)
    without converting the offending value: no script function runs -/
def messageScriptCalls (_s : MsgSite) : List String := []

/-- an error's trace is a fact about the moment it was created: whenever it is read – after later errors were
    created and caught, in a later Run, from Go – it is the trace of its own creation -/
def tracesLater (files : List FileEnt) (limit : Int) (scs : List Scenario) : List (List FrameOut) :=
  scs.map (trace files limit)

/-- the trace limit is part of a runtime's configuration and `Copy()` yields an equivalent runtime: a copy (of a
    copy …) cuts traces at the limit configured on the original -/
def traceCount (configured : Int) (depth : Nat) : Nat :=
  (applyLimit configured (List.replicate (depth + 1) ())).length

/-! ## what a reported offset denotes in the source text

  The offset reported for a call site or a failing member access is where the callee / member expression starts:
  at its first token (enclosing parentheses excluded) – the keyword `new` when the expression begins with a
  `new` expression, the opening bracket / quote / brace of a literal, `this`, or the first identifier. -/

inductive Head | any | ident | new_ | arr | str | obj | num | this_
deriving Repr, DecidableEq

def isIdentStart (b : Nat) : Bool :=
  (65 ≤ b && b ≤ 90) || (97 ≤ b && b ≤ 122) || b = 95 || b = 36

def startsWith (pre : List Nat) (s : Src) : Bool := (s.take pre.length) == pre

/-- does the source text at idx `off` (base 1) begin with a token of kind `h`? -/
def headAt (src : Src) (off : Int) (h : Head) : Bool :=
  if off < 1 then h == .any else
  let s := src.drop (off - 1).toNat
  match h with
  | .any => true
  | .ident => match s with | b :: _ => isIdentStart b | [] => false
  | .new_ => startsWith [110, 101, 119] s && (match s.drop 3 with | b :: _ => !isIdentStart b && !(48 ≤ b && b ≤ 57) | [] => false)
  | .arr => startsWith [91] s
  | .str => startsWith [34] s || startsWith [39] s
  | .obj => startsWith [123] s
  | .num => match s with | b :: _ => 48 ≤ b && b ≤ 57 | [] => false
  | .this_ => startsWith [116, 104, 105, 115] s

/-! ## error objects made with a message

  §15.11.1.1 / §15.11.2.1 (and §15.11.7.2/4 for NativeError): the [[Prototype]] is the constructor's prototype; if the
  argument is not undefined the object gets an OWN `message` = ToString(argument) – the argument is data, whatever
  it looks like.  `name` lives on the prototypes (§15.11.4.2, §15.11.7.9), so instances have no own `name` – except
  errors with a custom name (MakeCustomError), which can carry it nowhere else.  Calling a constructor as a function
  is the same as `new` (§15.11.1, §15.11.7.1): the constructor is not part of the trace of the error it makes. -/
def errObs (_r : Route) (ctor : String) (arg : Option String) : ErrObs :=
  let m := arg.getD ""
  let text := errorToString (some ctor) (some m)
  { runText := text
    msgIsString := true
    msg := m
    ownMessage := arg.isSome
    ownName := !(ctor = "Error" || isNativeSub ctor)
    str := text
    stackHead := text
    nativeTop := false }

/-- engine errors: the text names the offending user text verbatim -/
def engineMsg : EngineMsg → String × String
  | .evalToken t => ("SyntaxError", "(anonymous): Line 1:1 Unexpected token " ++ t)
  | .jsonChar c => ("SyntaxError", "invalid character '" ++ c ++ "' looking for beginning of value")
  | .unresolvable n => ("ReferenceError", "'" ++ n ++ "' is not defined")
  | .notFunction n => ("TypeError", "\"" ++ n ++ "\" is not a function")

/-- §15.11.4.4: step 2 "If Type(O) is not Object, throw a TypeError exception"; else steps 3-10 = `errorToString` -/
def errorProtoToString : ThisKind → Option String
  | .object n m => some (errorToString n m)
  | _ => none

/-! ## deviation regions: decidable predicates over a request (used by the driver and as theorem hypotheses) -/

/-- is the innermost activation a native one? -/
def innermostNative (ls : List Level) : Bool :=
  match ls.getLast? with
  | some lv => lv.via == .nativeOnly
  | none => false

/-- a call through a callee that is not an identifier / dot / bracket expression -/
def devUnrecorded (sc : Scenario) : Bool := sc.levels.any (fun lv => lv.via != .implicit && lv.form == .other)
/-- an activation entered without any call expression (getter, toString, valueOf) -/
def devImplicit (sc : Scenario) : Bool := sc.levels.any (fun lv => lv.via == .implicit)
/-- some active activation is direct eval code: it runs in its caller's scope and gets no frame of its own -/
def devDirectEvalFrame (sc : Scenario) : Bool := sc.levels.any (fun lv => lv.via == .evalDirect)
/-- the error is raised in script code without a usable `at` -/
def devErrPos (sc : Scenario) : Bool :=
  match sc.raise with
  | .bare _ => !innermostNative sc.levels
  | .nonFn .other _ => true
  | .siteBare .other _ => true
  | _ => innermostNative sc.levels
def traceDevs (sc : Scenario) : List String :=
  (if devUnrecorded sc then ["trace_unrecorded_callee"] else []) ++
  (if devImplicit sc then ["trace_implicit_call"] else []) ++
  (if devDirectEvalFrame sc then ["trace_direct_eval_frame"] else []) ++
  (if devErrPos sc then ["errpos_no_at"] else [])

/-- the name/message of an error object were changed after it was created -/
def staleText : Thrown → Bool
  | .errObj n m cn cm => !(cn == some n && cm == some m)
  | _ => false

end OttoVerif.C19.Spec
