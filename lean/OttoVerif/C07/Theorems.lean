/-
  C07/Theorems — the ledger for property C07.  Every `theorem` here is audited
  (`#print axioms` ⊆ {propext, Classical.choice, Quot.sound}) on every run.
-/
import OttoVerif.C07.Lemmas
namespace OttoVerif.C07.Thm
open OttoVerif.C07 OttoVerif.C07.Spec OttoVerif.C07.Driver OttoVerif.C07.Lem

/-! ## ToPropertyDescriptor (§8.10.5) -/

/-- property.go:123 `toPropertyDescriptor` accepts exactly the descriptor objects §8.10.5 accepts and
    yields the same Property Descriptor, for EVERY descriptor object (all 2·3³·2·4² field shapes,
    any value, any functions). -/
theorem toPropertyDescriptor_refines (d : DescArg) :
    (OttoVerif.C07.toPropertyDescriptor d).map absDesc = Spec.toPropertyDescriptor d := by
  cases d with
  | nonobj => rfl
  | obj d =>
    obtain ⟨e, c, w, v, g, s⟩ := d
    cases g <;> cases s <;> cases v <;>
      rcases w with _ | _ | _ <;> rcases e with _ | _ | _ <;> rcases c with _ | _ | _ <;>
      simp [OttoVerif.C07.toPropertyDescriptor, Spec.toPropertyDescriptor, gsSlot, gsField, setTrit, absDesc,
        topt, slotField, tset]

/-! ## [[DefineOwnProperty]] (§8.12.9), one property -/

/-- the single-property refinement statement -/
def PropGoal (prop d : MProp) : Prop :=
  devG prop d = false → devA2D prop d = false →
   (defineProp prop d).map (fun r => absProp (r.getD prop))
   = (sDefineProp (absProp prop) (absDesc d)).map (fun r => r.getD (absProp prop))

macro "unfold_model" : tactic => `(tactic|
  simp only [PropGoal, devG, devA2D, defineProp, defineSwitch, MProp.isEmpty, MProp.isGenericDescriptor, MProp.isDataDescriptor,
    MProp.isAccessorDescriptor, writable_eq, writeSet_eq, enumerable_eq, enumerateSet_eq, configurable_eq, mode222_eq, mergeMode_eq])

theorem fieldSame_none {α} [DecidableEq α] (c : Option α) : fieldSame none c = true := rfl
theorem fieldSame_some_none {α} [DecidableEq α] (x : α) : fieldSame (some x) none = false := by
  simp [fieldSame]
theorem fieldSame_some_some {α} [DecidableEq α] (x y : α) : fieldSame (some x) (some y) = decide (y = x) := by
  simp [fieldSame]; rfl

macro "unfold_spec" : tactic => `(tactic|
  simp only [sDefineProp, absProp, absDesc, allAbsent, subsumed, fieldSame_none, fieldSame_some_none, fieldSame_some_some, ofProp, validate, applyFields,
     Spec.isGenericDescriptor, Spec.isDataDescriptor, Spec.isAccessorDescriptor, SProp.configurable, SProp.enumerable, SProp.isData,
     Option.isSome, Option.isNone, Option.getD, slotField, slotFn, normSlot])

macro "trits" : tactic => `(tactic|
  (intro h1 h2 <;> first | rfl | exact Bool.noConfusion h1 | exact Bool.noConfusion h2))

theorem neqForms {α} [DecidableEq α] {a b : α} (h : a ≠ b) :
   (a != b) = true ∧ (b != a) = true ∧ (a == b) = false ∧ (b == a) = false ∧
   decide (a = b) = false ∧ decide (b = a) = false ∧ (some a != some b) = true ∧ (some b != some a) = true := by
  have h' : b ≠ a := fun e => h e.symm
  simp [h, h']


set_option maxHeartbeats 2000000 in
theorem caseVN (pv : Val) (pw pe pc dw de dc : Trit) : PropGoal ⟨.val pv, ⟨pw,pe,pc⟩⟩ ⟨.nil, ⟨dw,de,dc⟩⟩ := by
  unfold_model
  unfold_spec
  cases pw <;> cases pe <;> cases pc <;> cases dw <;> cases de <;> cases dc <;> trits

set_option maxHeartbeats 4000000 in
theorem caseVV (pv dv : Val) (pw pe pc dw de dc : Trit) : PropGoal ⟨.val pv, ⟨pw,pe,pc⟩⟩ ⟨.val dv, ⟨dw,de,dc⟩⟩ := by
  unfold_model
  unfold_spec
  by_cases hv : dv = pv
  · subst hv
    try simp only [bne_self_eq_false, beq_self_eq_true, eq_self, decide_true]
    cases pw <;> cases pe <;> cases pc <;> cases dw <;> cases de <;> cases dc <;> trits
  · obtain ⟨e1, e2, e3, e4, e5, e6, e7, e8⟩ := neqForms hv
    try simp only [e1, e2, e3, e4, e5, e6, e7, e8]
    cases pw <;> cases pe <;> cases pc <;> cases dw <;> cases de <;> cases dc <;> trits

set_option maxHeartbeats 2000000 in
theorem caseGN (pg ps : Slot) (hg : pg ≠ .nilObj) (hs : ps ≠ .nilObj) (pe pc dw de dc : Trit) :
    PropGoal ⟨.gs pg ps, ⟨.unset,pe,pc⟩⟩ ⟨.nil, ⟨dw,de,dc⟩⟩ := by
  unfold_model
  unfold_spec
  cases pg <;> cases ps <;> first | exact absurd rfl hg | exact absurd rfl hs |
   (cases pe <;> cases pc <;> cases dw <;> cases de <;> cases dc <;> trits)

set_option maxHeartbeats 2000000 in
theorem caseGV (pg ps : Slot) (hg : pg ≠ .nilObj) (hs : ps ≠ .nilObj) (dv : Val) (pe pc dw de dc : Trit) :
    PropGoal ⟨.gs pg ps, ⟨.unset,pe,pc⟩⟩ ⟨.val dv, ⟨dw,de,dc⟩⟩ := by
  unfold_model
  unfold_spec
  cases pg <;> cases ps <;> first | exact absurd rfl hg | exact absurd rfl hs |
   (cases pe <;> cases pc <;> cases dw <;> cases de <;> cases dc <;> trits)

set_option maxHeartbeats 4000000 in
theorem caseVG (pv : Val) (dg ds : Slot) (hd : dg ≠ .nil ∨ ds ≠ .nil) (pw pe pc de dc : Trit) :
    PropGoal ⟨.val pv, ⟨pw,pe,pc⟩⟩ ⟨.gs dg ds, ⟨.unset,de,dc⟩⟩ := by
  unfold_model
  unfold_spec
  try simp only [bne_self_eq_false, beq_self_eq_true, eq_self, decide_true]
  cases dg <;> cases ds <;> first | (exfalso; exact hd.elim (fun h => h rfl) (fun h => h rfl)) |
   (cases pw <;> cases pe <;> cases pc <;> cases de <;> cases dc <;> trits)

theorem slotNeq {k1 k2 : Fn} (h : k1 ≠ k2) :
    (Slot.fn k1 != Slot.fn k2) = true ∧ (Slot.fn k2 != Slot.fn k1) = true ∧
    (Slot.fn k1 == Slot.fn k2) = false ∧ (Slot.fn k2 == Slot.fn k1) = false ∧
    ((some k1 : Option Fn) != some k2) = true ∧ ((some k2 : Option Fn) != some k1) = true ∧
    decide ((some k1 : Option Fn) = some k2) = false ∧ decide ((some k2 : Option Fn) = some k1) = false := by
  have h' : k2 ≠ k1 := fun e => h e.symm
  simp [h, h']


def pslot : Option Fn → Slot
  | none => .nil
  | some k => .fn k

def dslot : Option (Option Fn) → Slot
  | none => .nil
  | some none => .nilObj
  | some (some k) => .fn k

set_option hygiene false in
macro "fin4" : tactic => `(tactic|
  ((try simp only [bne_self_eq_false, beq_self_eq_true, eq_self, decide_true]) <;>
   cases pe <;> cases pc <;> cases de <;> cases dc <;> trits))

macro "atom" h:ident : tactic => `(tactic|
  first
  | subst $h
  | (obtain ⟨e1, e2, e3, e4, e5, e6, e7, e8⟩ := slotNeq $h
     try simp only [e1, e2, e3, e4, e5, e6, e7, e8]))

set_option maxHeartbeats 16000000 in
theorem caseGG (a b : Option Fn) (x y : Option (Option Fn)) (hd : dslot x ≠ .nil ∨ dslot y ≠ .nil) (pe pc de dc : Trit) :
    PropGoal ⟨.gs (pslot a) (pslot b), ⟨.unset,pe,pc⟩⟩ ⟨.gs (dslot x) (dslot y), ⟨.unset,de,dc⟩⟩ := by
  rcases a with _ | k1 <;> rcases b with _ | k2 <;> rcases x with _ | _ | k3 <;> rcases y with _ | _ | k4 <;>
    simp only [pslot, dslot] at hd ⊢ <;>
    first
    | (exfalso; exact hd.elim (fun h => h rfl) (fun h => h rfl))
    | (unfold_model
       unfold_spec
       try simp only [reduceCtorEq, ↓reduceIte]
       first
       | (by_cases h13 : k1 = k3 <;> by_cases h24 : k2 = k4 <;> atom h13 <;> atom h24 <;> fin4)
       | (by_cases h13 : k1 = k3 <;> atom h13 <;> fin4)
       | (by_cases h24 : k2 = k4 <;> atom h24 <;> fin4)
       | fin4)

theorem pslot_slotFn {g : Slot} (h : g ≠ .nilObj) : pslot (slotFn g) = g := by
  cases g <;> first | rfl | exact absurd rfl h

theorem dslot_slotField (g : Slot) : dslot (slotField g) = g := by cases g <;> rfl

/-- **[[DefineOwnProperty]] on an existing property** (object_class.go:337-441 vs §8.12.9 steps 5-13):
    for EVERY well-formed stored property and EVERY descriptor `toPropertyDescriptor` can produce,
    outside the two single-property deviation regions otto rejects exactly when ES5 rejects and
    the property written has exactly the ES5 attributes. -/
theorem defineProp_refines (prop d : MProp) (hp : WFProp prop) (hd : WFDesc d) : PropGoal prop d := by
  obtain ⟨pval, ⟨pw, pe, pc⟩⟩ := prop
  obtain ⟨dval, ⟨dw, de, dc⟩⟩ := d
  cases pval with
  | nil => exact hp.elim
  | val pv =>
    cases dval with
    | nil => exact caseVN pv pw pe pc dw de dc
    | val dv => exact caseVV pv dv pw pe pc dw de dc
    | gs dg ds =>
      obtain ⟨hw, hne⟩ := hd
      simp only at hw
      subst hw
      exact caseVG pv dg ds hne pw pe pc de dc
  | gs pg ps =>
    obtain ⟨hg, hs, hw⟩ := hp
    simp only at hw
    subst hw
    cases dval with
    | nil => exact caseGN pg ps hg hs pe pc dw de dc
    | val dv => exact caseGV pg ps hg hs dv pe pc dw de dc
    | gs dg ds =>
      obtain ⟨hw, hne⟩ := hd
      simp only at hw
      subst hw
      have := caseGG (slotFn pg) (slotFn ps) (slotField dg) (slotField ds)
        (by rw [dslot_slotField, dslot_slotField]; exact hne) pe pc de dc
      rw [pslot_slotFn hg, pslot_slotFn hs, dslot_slotField, dslot_slotField] at this
      exact this

/-! ## lifting to objects -/

theorem alookup_absProps (n : Name) (l : List (Name × MProp)) :
    alookup n (absProps l) = (alookup n l).map absProp := by
  induction l with
  | nil => rfl
  | cons kp t ih =>
    obtain ⟨k, p⟩ := kp
    simp only [absProps, List.map, alookup] at ih ⊢
    split <;> simp_all

theorem absProps_aupsert (n : Name) (p : MProp) (l : List (Name × MProp)) :
    absProps (aupsert n p l) = aupsert n (absProp p) (absProps l) := by
  induction l with
  | nil => rfl
  | cons kp t ih =>
    obtain ⟨k, q⟩ := kp
    simp only [absProps, List.map, aupsert] at ih ⊢
    split <;> simp_all

theorem aupsert_self {α} (n : Name) (x : α) (l : List (Name × α)) (h : alookup n l = some x) :
    aupsert n x l = l := by
  induction l with
  | nil => simp [alookup] at h
  | cons kp t ih =>
    obtain ⟨k, q⟩ := kp
    simp only [alookup] at h
    simp only [aupsert]
    split
    · rename_i hk; simp [hk] at h; simp [h]
    · rename_i hk; simp [hk] at h; simp [ih h]

/-- every stored property of the object is well formed -/
def WFObj (o : MObj) : Prop := ∀ n p, alookup n o.props = some p → WFProp p

theorem createProp_refines (d : MProp) (hd : WFDesc d) : absProp (createProp d) = sCreateProp (absDesc d) := by
  obtain ⟨dval, ⟨dw, de, dc⟩⟩ := d
  cases dval with
  | nil => cases dw <;> cases de <;> cases dc <;> rfl
  | val v => cases dw <;> cases de <;> cases dc <;> rfl
  | gs g s =>
    obtain ⟨hw, hne⟩ := hd
    simp only at hw
    subst hw
    cases g <;> cases s <;> first | (exfalso; exact hne.elim (fun h => h rfl) (fun h => h rfl)) |
      (cases de <;> cases dc <;> rfl)

/-- **[[DefineOwnProperty]] refines §8.12.9** for every object, name and descriptor: same
    accept/reject and the abstraction of the resulting object is the ES5 result, outside
    `Dev_generic_loses_writable` and `Dev_acc_to_data_keeps_accessor`. -/
theorem defineOwnProperty_refines (o : MObj) (n : Name) (d : MProp) (ho : WFObj o) (hd : WFDesc d)
    (h1 : devGenericAt o n d = false) (h2 : devAccToDataAt o n d = false) :
    (defineOwn o n d).map absObj = Spec.defineOwn (absObj o) n (absDesc d) := by
  obtain ⟨proto, ext, props⟩ := o
  rw [sDefineOwn_eq]
  simp only [devGenericAt, devAccToDataAt] at h1 h2
  rw [defineOwn_eq] at h1 h2 ⊢
  simp only [absObj, alookup_absProps]
  cases hl : alookup n props with
  | none =>
    simp only [Option.map]
    cases ext <;> simp [absObj, absProps_aupsert, createProp_refines d hd]
  | some prop =>
    rw [hl] at h1 h2
    simp only [Option.isSome_map] at h1 h2
    have hg := defineProp_refines prop d (ho n prop hl) hd h1 h2
    simp only [Option.map_some]
    have hl' : alookup n (absProps props) = some (absProp prop) := by rw [alookup_absProps, hl]; rfl
    cases hm : defineProp prop d with
    | none =>
      rw [hm] at hg
      cases hs : sDefineProp (absProp prop) (absDesc d) with
      | none => rfl
      | some r' => rw [hs] at hg; simp at hg
    | some r =>
      rw [hm] at hg
      cases hs : sDefineProp (absProp prop) (absDesc d) with
      | none => rw [hs] at hg; simp at hg
      | some r' =>
        rw [hs] at hg
        simp only [Option.map_some, Option.some.injEq] at hg ⊢
        cases r with
        | none =>
          cases r' with
          | none => rfl
          | some v =>
            simp only [Option.getD] at hg
            subst hg
            simp only [absObj, aupsert_self _ _ _ hl']
        | some p =>
          cases r' with
          | none =>
            simp only [Option.getD] at hg
            simp only [absObj, absProps_aupsert, hg, aupsert_self _ _ _ hl']
          | some v =>
            simp only [Option.getD] at hg
            simp only [absObj, absProps_aupsert, hg]

/-! ## whole steps -/


/-- every descriptor `toPropertyDescriptor` returns is well formed -/
theorem toPropertyDescriptor_wf (d : DescArg) (m : MProp) (h : OttoVerif.C07.toPropertyDescriptor d = some m) : WFDesc m := by
  cases d with
  | nonobj => simp [OttoVerif.C07.toPropertyDescriptor] at h
  | obj d =>
    obtain ⟨e, c, w, v, g, s⟩ := d
    revert h
    cases g <;> cases s <;> cases v <;>
      rcases w with _ | _ | _ <;> rcases e with _ | _ | _ <;> rcases c with _ | _ | _ <;>
      simp [OttoVerif.C07.toPropertyDescriptor, gsSlot, setTrit, tset] <;> intro h <;> subst h <;> simp [WFDesc]

/-- every object of the heap holds only well-formed properties -/
def WFHeap (h : MHeap) : Prop := ∀ (a : Nat) (o : MObj), h[a]? = some o → WFObj o

/-- **Object.defineProperty as a whole step** (builtin_object.go:117 vs §15.2.3.6): from any
    well-formed heap, outside the two single-property deviation regions, otto's step and the ES5
    step agree on the outcome (ok / TypeError) and the abstraction of otto's heap is the ES5 heap. -/
theorem step_defineProperty_refines (h : MHeap) (a : Addr) (n : Name) (d : DescArg) (hw : WFHeap h)
    (hdev : ∀ o desc, h[a]? = some o → OttoVerif.C07.toPropertyDescriptor d = some desc →
      devGenericAt o n desc = false ∧ devAccToDataAt o n desc = false) :
    absHeap (step h (.defn a n d)).1 = (Spec.step (absHeap h) (.defn a n d)).1 ∧
    (step h (.defn a n d)).2 = (Spec.step (absHeap h) (.defn a n d)).2 := by
  have hget : (absHeap h)[a]? = (h[a]?).map absObj := by simp [absHeap]
  simp only [step, Spec.step, hget]
  cases ho : h[a]? with
  | none => simp
  | some o =>
    have hpd := toPropertyDescriptor_refines d
    cases hd : OttoVerif.C07.toPropertyDescriptor d with
    | none => rw [hd] at hpd; simp only [Option.map_none] at hpd; simp [← hpd]
    | some desc =>
      rw [hd] at hpd
      simp only [Option.map_some] at hpd
      obtain ⟨h1, h2⟩ := hdev o desc ho hd
      have hr := defineOwnProperty_refines o n desc (hw a o ho) (toPropertyDescriptor_wf d desc hd) h1 h2
      simp only [Option.map_some, ← hpd]
      cases hm : defineOwn o n desc with
      | none => rw [hm] at hr; simp only [Option.map_none] at hr; simp [← hr]
      | some o' =>
        rw [hm] at hr
        simp only [Option.map_some] at hr
        simp [← hr, absHeap, List.map_set]

/-! ## Shape invariants of otto's [[DefineOwnProperty]] (hold for ALL inputs, also inside the Dev regions) -/

theorem akeys_aupsert_present {α} (n : Name) (x y : α) (l : List (Name × α)) (h : alookup n l = some y) :
    akeys (aupsert n x l) = akeys l := by
  induction l with
  | nil => simp [alookup] at h
  | cons kp t ih =>
    obtain ⟨k, q⟩ := kp
    simp only [alookup] at h
    simp only [aupsert]
    split
    · simp [akeys]
    · rename_i hk
      simp only [hk, if_false] at h
      have := ih h
      simp only [akeys, List.map] at this ⊢
      rw [this]

theorem akeys_aupsert_absent {α} (n : Name) (x : α) (l : List (Name × α)) (h : alookup n l = none) :
    akeys (aupsert n x l) = akeys l ++ [n] := by
  induction l with
  | nil => rfl
  | cons kp t ih =>
    obtain ⟨k, q⟩ := kp
    simp only [alookup] at h
    simp only [aupsert]
    split
    · rename_i hk; simp [hk] at h
    · rename_i hk
      simp only [hk, if_false] at h
      have := ih h
      simp only [akeys, List.map, List.cons_append] at this ⊢
      rw [this]

/-- **No growth without extensibility, insertion order kept** (object_class.go:311): whenever
    otto's [[DefineOwnProperty]] accepts, the prototype link and the extensible flag are untouched and
    the key sequence is either unchanged (the name existed) or – only if the object is extensible and
    the name was absent – the old sequence with the new name appended at the end. -/
theorem defineOwn_shape (o o' : MObj) (n : Name) (d : MProp) (h : defineOwn o n d = some o') :
    o'.proto = o.proto ∧ o'.ext = o.ext ∧
    (akeys o'.props = akeys o.props ∨
     (o.ext = true ∧ alookup n o.props = none ∧ akeys o'.props = akeys o.props ++ [n])) := by
  rw [defineOwn_eq] at h
  cases hl : alookup n o.props with
  | none =>
    rw [hl] at h
    simp only at h
    cases he : o.ext with
    | false => simp [he] at h
    | true =>
      simp only [he, Bool.not_true, Bool.false_eq_true, if_false, Option.some.injEq] at h
      subst h
      exact ⟨rfl, he.symm ▸ rfl, Or.inr ⟨rfl, rfl, akeys_aupsert_absent n _ _ hl⟩⟩
  | some prop =>
    rw [hl] at h
    simp only at h
    cases hm : defineProp prop d with
    | none => rw [hm] at h; simp at h
    | some r =>
      rw [hm] at h
      simp only [Option.map_some, Option.some.injEq] at h
      subst h
      cases r with
      | none => exact ⟨rfl, rfl, Or.inl rfl⟩
      | some p => exact ⟨rfl, rfl, Or.inl (akeys_aupsert_present n p prop _ hl)⟩

/-- a non-extensible object never gains a property through [[DefineOwnProperty]] -/
theorem defineOwn_nonextensible_no_growth (o o' : MObj) (n : Name) (d : MProp)
    (hne : o.ext = false) (h : defineOwn o n d = some o') : akeys o'.props = akeys o.props := by
  obtain ⟨_, _, hk⟩ := defineOwn_shape o o' n d h
  rcases hk with hk | ⟨he, _, _⟩
  · exact hk
  · rw [hne] at he; cases he
/-! ## Non-vacuity of the hypotheses -/

/-- a heap with a data and an accessor property … -/
def hNV : MHeap := [⟨none, true, [(0, ⟨.val 4, ⟨.on, .on, .on⟩⟩), (1, ⟨.gs (.fn 0) .nil, ⟨.unset, .unset, .on⟩⟩)]⟩]

/-- … is reachable by a history, -/
example : (step (step (step [] (.create none [])).1 (.put false 0 0 4)).1
    (.defn 0 1 (.obj ⟨none, some true, none, none, .fn 0, .absent⟩))).1 = hNV := by decide

/-- is well formed, -/
example : WFHeap hNV := by
  intro a o h
  cases a with
  | zero =>
    simp [hNV] at h
    subst h
    intro n p hp
    simp only [alookup] at hp
    split at hp
    · cases hp; trivial
    · split at hp
      · cases hp; exact ⟨by decide, by decide, rfl⟩
      · cases hp
  | succ a => simp [hNV] at h

/-- and a defineProperty step on it lies outside every region: the hypotheses of
    `step_defineProperty_refines` are met by a non-trivial instance. -/
example : devStep hNV (.defn 0 0 (.obj ⟨some false, none, some false, some 5, .absent, .absent⟩))
    (step hNV (.defn 0 0 (.obj ⟨some false, none, some false, some 5, .absent, .absent⟩))).1 = [] := by decide

/-! ## Deviation witnesses (each region really deviates; kernel-checked, replayed on the real code) -/

def dE : Desc := ⟨none, none, none, none, .absent, .absent⟩

/-- `o={}; o.a=1; Object.defineProperty(o,'a',{enumerable:false})` -/
def wGeneric : List Op := [.create none [], .put false 0 0 4, .defn 0 0 (.obj { dE with e := some false })]
example : run [] wGeneric ≠ Spec.run [] wGeneric := by decide
example : devRun [] wGeneric = ["generic_loses_writable"] := by decide

/-- `defineProperty(o,'a',{get:F0,configurable:true}); defineProperty(o,'a',{writable:true})` -/
def wAccToData : List Op :=
  [.create none [], .defn 0 0 (.obj { dE with c := some true, g := .fn 0 }), .defn 0 0 (.obj { dE with w := some true })]
example : run [] wAccToData ≠ Spec.run [] wAccToData := by decide
example : devRun [] wAccToData = ["acc_to_data_keeps_accessor"] := by decide

/-- `defineProperties(o,{a:{value:1},b:{get:5}})` leaves `a` defined -/
def wNotAtomic : List Op :=
  [.create none [], .defs 0 [(0, .obj { dE with v := some 4 }), (1, .obj { dE with g := .bad })]]
example : run [] wNotAtomic ≠ Spec.run [] wNotAtomic := by decide
example : devRun [] wNotAtomic = ["defineProperties_not_atomic"] := by decide

/-- `defineProperty(o,'a',{get:undefined})`: the former region `accessor_both_undefined` is closed by
    fix f48e83f (fromPropertyDescriptor decides by the stored value) – model = spec, no region. -/
def wBothUndef : List Op := [.create none [], .defn 0 0 (.obj { dE with g := .undef })]
example : run [] wBothUndef = Spec.run [] wBothUndef := by decide
example : devRun [] wBothUndef = [] := by decide

/-- `p={a:1}; c=Object.create(p); c.a=2; for (k in c)` enumerates `a` twice -/
def wForIn : List Op := [.create none [], .put false 0 0 4, .create (some 0) [], .put false 1 0 5]
example : run [] wForIn ≠ Spec.run [] wForIn := by decide
example : devRun [] wForIn = ["forin_shadowed"] := by decide

/-- `Object.preventExtensions(o); (function(){'use strict'; o.a=1})()` does not throw -/
def wStrict : List Op := [.create none [], .preventExt 0, .put true 0 0 4]
example : run [] wStrict ≠ Spec.run [] wStrict := by decide
example : devRun [] wStrict = ["strict_ignored"] := by decide

end OttoVerif.C07.Thm
