/-  C07/Theorems — the ledger for property C07 (every theorem here is audited).  Placeholder. -/
namespace OttoVerif.C07.Thm
end OttoVerif.C07.Thm
