/-
  C07/Theorems — the ledger for property C07.  Every `theorem` here is audited
  (`#print axioms` ⊆ {propext, Classical.choice, Quot.sound}) on every run.
-/
import OttoVerif.C07.Lemmas
namespace OttoVerif.C07.Thm
open OttoVerif.C07 OttoVerif.C07.Spec OttoVerif.C07.Driver OttoVerif.C07.Lem

/-! ## ToPropertyDescriptor (§8.10.5) -/

/-- property.go:123 `toPropertyDescriptor` accepts exactly the descriptor objects §8.10.5 accepts and
    yields the same Property Descriptor, for EVERY descriptor object (all 2·3³·2·4² field shapes,
    any value, any functions). -/
theorem toPropertyDescriptor_refines (d : DescArg) :
    (OttoVerif.C07.toPropertyDescriptor d).map absDesc = Spec.toPropertyDescriptor d := by
  cases d with
  | nonobj => rfl
  | obj d =>
    obtain ⟨e, c, w, v, g, s⟩ := d
    cases g <;> cases s <;> cases v <;>
      rcases w with _ | _ | _ <;> rcases e with _ | _ | _ <;> rcases c with _ | _ | _ <;>
      simp [OttoVerif.C07.toPropertyDescriptor, Spec.toPropertyDescriptor, gsSlot, gsField, setTrit, absDesc,
        topt, slotField, tset]

/-! ## Deviation witnesses (each region really deviates; kernel-checked, replayed on the real code) -/

def dE : Desc := ⟨none, none, none, none, .absent, .absent⟩

/-- `o={}; o.a=1; Object.defineProperty(o,'a',{enumerable:false})` -/
def wGeneric : List Op := [.create none [], .put false 0 0 4, .defn 0 0 (.obj { dE with e := some false })]
example : run [] wGeneric ≠ Spec.run [] wGeneric := by decide
example : devRun [] wGeneric = ["generic_loses_writable"] := by decide

/-- `defineProperty(o,'a',{get:F0,configurable:true}); defineProperty(o,'a',{writable:true})` -/
def wAccToData : List Op :=
  [.create none [], .defn 0 0 (.obj { dE with c := some true, g := .fn 0 }), .defn 0 0 (.obj { dE with w := some true })]
example : run [] wAccToData ≠ Spec.run [] wAccToData := by decide
example : devRun [] wAccToData = ["acc_to_data_keeps_accessor"] := by decide

/-- `defineProperties(o,{a:{value:1},b:{get:5}})` leaves `a` defined -/
def wNotAtomic : List Op :=
  [.create none [], .defs 0 [(0, .obj { dE with v := some 4 }), (1, .obj { dE with g := .bad })]]
example : run [] wNotAtomic ≠ Spec.run [] wNotAtomic := by decide
example : devRun [] wNotAtomic = ["defineProperties_not_atomic"] := by decide

/-- `defineProperty(o,'a',{get:undefined})` then getOwnPropertyDescriptor has no get/set keys -/
def wBothUndef : List Op := [.create none [], .defn 0 0 (.obj { dE with g := .undef })]
example : run [] wBothUndef ≠ Spec.run [] wBothUndef := by decide
example : devRun [] wBothUndef = ["accessor_both_undefined"] := by decide

/-- `p={a:1}; c=Object.create(p); c.a=2; for (k in c)` enumerates `a` twice -/
def wForIn : List Op := [.create none [], .put false 0 0 4, .create (some 0) [], .put false 1 0 5]
example : run [] wForIn ≠ Spec.run [] wForIn := by decide
example : devRun [] wForIn = ["forin_shadowed"] := by decide

/-- `Object.preventExtensions(o); (function(){'use strict'; o.a=1})()` does not throw -/
def wStrict : List Op := [.create none [], .preventExt 0, .put true 0 0 4]
example : run [] wStrict ≠ Spec.run [] wStrict := by decide
example : devRun [] wStrict = ["strict_ignored"] := by decide

end OttoVerif.C07.Thm
