/-
  C07/Theorems — the ledger for property C07.  Every `theorem` here is audited
  (`#print axioms` ⊆ {propext, Classical.choice, Quot.sound}) on every run.
-/
import OttoVerif.C07.Lemmas
namespace OttoVerif.C07.Thm
open OttoVerif.C07 OttoVerif.C07.Spec OttoVerif.C07.Driver OttoVerif.C07.Lem

/-! ## ToPropertyDescriptor (§8.10.5) -/

/-- property.go:123 `toPropertyDescriptor` accepts exactly the descriptor objects §8.10.5 accepts and
    yields the same Property Descriptor, for EVERY descriptor object (all 2·3³·2·4² field shapes,
    any value, any functions). -/
theorem toPropertyDescriptor_refines (d : DescArg) :
    (OttoVerif.C07.toPropertyDescriptor d).map absDesc = Spec.toPropertyDescriptor d := by
  cases d with
  | nonobj => rfl
  | obj d =>
    obtain ⟨e, c, w, v, g, s⟩ := d
    cases g <;> cases s <;> cases v <;>
      rcases w with _ | _ | _ <;> rcases e with _ | _ | _ <;> rcases c with _ | _ | _ <;>
      simp [OttoVerif.C07.toPropertyDescriptor, Spec.toPropertyDescriptor, gsSlot, gsField, setTrit, absDesc,
        topt, slotField, tset]

/-! ## lifting to objects -/

theorem alookup_absProps (n : Name) (l : List (Name × MProp)) :
    alookup n (absProps l) = (alookup n l).map absProp := by
  induction l with
  | nil => rfl
  | cons kp t ih =>
    obtain ⟨k, p⟩ := kp
    simp only [absProps, List.map, alookup] at ih ⊢
    split <;> simp_all

theorem absProps_aupsert (n : Name) (p : MProp) (l : List (Name × MProp)) :
    absProps (aupsert n p l) = aupsert n (absProp p) (absProps l) := by
  induction l with
  | nil => rfl
  | cons kp t ih =>
    obtain ⟨k, q⟩ := kp
    simp only [absProps, List.map, aupsert] at ih ⊢
    split <;> simp_all

theorem aupsert_self {α} (n : Name) (x : α) (l : List (Name × α)) (h : alookup n l = some x) :
    aupsert n x l = l := by
  induction l with
  | nil => simp [alookup] at h
  | cons kp t ih =>
    obtain ⟨k, q⟩ := kp
    simp only [alookup] at h
    simp only [aupsert]
    split
    · rename_i hk; simp [hk] at h; simp [h]
    · rename_i hk; simp [hk] at h; simp [ih h]

/-- every stored property of the object is well formed -/
def WFObj (o : MObj) : Prop := ∀ kp, kp ∈ o.props → WFProp kp.2

theorem alookup_mem {α} {n : Name} {x : α} {l : List (Name × α)} (h : alookup n l = some x) : (n, x) ∈ l := by
  induction l with
  | nil => simp [alookup] at h
  | cons kp t ih =>
    obtain ⟨k, q⟩ := kp
    simp only [alookup] at h
    split at h
    · rename_i hk; cases h; subst hk; exact List.mem_cons_self
    · exact List.mem_cons_of_mem _ (ih h)

theorem mem_aupsert {α} {n : Name} {x : α} {l : List (Name × α)} {kp : Name × α} (h : kp ∈ aupsert n x l) :
    kp = (n, x) ∨ kp ∈ l := by
  induction l with
  | nil => simp [aupsert] at h; exact Or.inl h
  | cons kq t ih =>
    obtain ⟨k, q⟩ := kq
    simp only [aupsert] at h
    split at h
    · rename_i hk
      rcases List.mem_cons.1 h with h | h
      · subst hk; exact Or.inl h
      · exact Or.inr (List.mem_cons_of_mem _ h)
    · rcases List.mem_cons.1 h with h | h
      · exact Or.inr (h ▸ List.mem_cons_self)
      · rcases ih h with h | h
        · exact Or.inl h
        · exact Or.inr (List.mem_cons_of_mem _ h)

theorem mem_aerase {α} {n : Name} {l : List (Name × α)} {kp : Name × α} (h : kp ∈ aerase n l) : kp ∈ l := by
  induction l with
  | nil => simp [aerase] at h
  | cons kq t ih =>
    obtain ⟨k, q⟩ := kq
    simp only [aerase] at h
    split at h
    · exact List.mem_cons_of_mem _ h
    · rcases List.mem_cons.1 h with h | h
      · exact h ▸ List.mem_cons_self
      · exact List.mem_cons_of_mem _ (ih h)

theorem createProp_refines (d : MProp) (hd : WFDesc d) : absProp (createProp d) = sCreateProp (absDesc d) := by
  obtain ⟨dval, ⟨dw, de, dc⟩⟩ := d
  cases dval with
  | nil => cases dw <;> cases de <;> cases dc <;> rfl
  | val v => cases dw <;> cases de <;> cases dc <;> rfl
  | gs g s =>
    obtain ⟨hw, hne⟩ := hd
    simp only at hw
    subst hw
    cases g <;> cases s <;> first | (exfalso; exact hne.elim (fun h => h rfl) (fun h => h rfl)) |
      (cases de <;> cases dc <;> rfl)

/-- **[[DefineOwnProperty]] refines §8.12.9** for every object, name and descriptor: same
    accept/reject and the abstraction of the resulting object is the ES5 result – no region excluded. -/
theorem defineOwnProperty_refines (o : MObj) (n : Name) (d : MProp) (ho : WFObj o) (hd : WFDesc d) :
    (defineOwn o n d).map absObj = Spec.defineOwn (absObj o) n (absDesc d) := by
  obtain ⟨proto, ext, props⟩ := o
  rw [sDefineOwn_eq]
  rw [defineOwn_eq]
  simp only [absObj, alookup_absProps]
  cases hl : alookup n props with
  | none =>
    simp only [Option.map]
    cases ext <;> simp [absObj, absProps_aupsert, createProp_refines d hd]
  | some prop =>
    have hg : PropGoal prop d := defineProp_refines prop d (ho _ (alookup_mem hl)) hd
    simp only [PropGoal] at hg
    simp only [Option.map_some]
    have hl' : alookup n (absProps props) = some (absProp prop) := by rw [alookup_absProps, hl]; rfl
    cases hm : defineProp prop d with
    | none =>
      rw [hm] at hg
      cases hs : sDefineProp (absProp prop) (absDesc d) with
      | none => rfl
      | some r' => rw [hs] at hg; simp at hg
    | some r =>
      rw [hm] at hg
      cases hs : sDefineProp (absProp prop) (absDesc d) with
      | none => rw [hs] at hg; simp at hg
      | some r' =>
        rw [hs] at hg
        simp only [Option.map_some, Option.some.injEq] at hg ⊢
        cases r with
        | none =>
          cases r' with
          | none => rfl
          | some v =>
            simp only [Option.getD] at hg
            subst hg
            simp only [absObj, aupsert_self _ _ _ hl']
        | some p =>
          cases r' with
          | none =>
            simp only [Option.getD] at hg
            simp only [absObj, absProps_aupsert, hg, aupsert_self _ _ _ hl']
          | some v =>
            simp only [Option.getD] at hg
            simp only [absObj, absProps_aupsert, hg]

/-! ## whole steps -/


/-- every descriptor `toPropertyDescriptor` returns is well formed -/
theorem toPropertyDescriptor_wf (d : DescArg) (m : MProp) (h : OttoVerif.C07.toPropertyDescriptor d = some m) : WFDesc m := by
  cases d with
  | nonobj => simp [OttoVerif.C07.toPropertyDescriptor] at h
  | obj d =>
    obtain ⟨e, c, w, v, g, s⟩ := d
    revert h
    cases g <;> cases s <;> cases v <;>
      rcases w with _ | _ | _ <;> rcases e with _ | _ | _ <;> rcases c with _ | _ | _ <;>
      simp [OttoVerif.C07.toPropertyDescriptor, gsSlot, setTrit, tset] <;> intro h <;> subst h <;> simp [WFDesc]

/-- every object of the heap holds only well-formed properties -/
def WFHeap (h : MHeap) : Prop := ∀ (a : Nat) (o : MObj), h[a]? = some o → WFObj o

/-- **Object.defineProperty as a whole step** (builtin_object.go:117 vs §15.2.3.6): from any
    well-formed heap otto's step and the ES5
    step agree on the outcome (ok / TypeError) and the abstraction of otto's heap is the ES5 heap. -/
theorem step_defineProperty_refines (h : MHeap) (a : Addr) (n : Name) (d : DescArg) (hw : WFHeap h) :
    absHeap (step h (.defn a n d)).1 = (Spec.step (absHeap h) (.defn a n d)).1 ∧
    (step h (.defn a n d)).2 = (Spec.step (absHeap h) (.defn a n d)).2 := by
  have hget : (absHeap h)[a]? = (h[a]?).map absObj := by simp [absHeap]
  simp only [step, Spec.step, hget]
  cases ho : h[a]? with
  | none => simp
  | some o =>
    have hpd := toPropertyDescriptor_refines d
    cases hd : OttoVerif.C07.toPropertyDescriptor d with
    | none => rw [hd] at hpd; simp only [Option.map_none] at hpd; simp [← hpd]
    | some desc =>
      rw [hd] at hpd
      simp only [Option.map_some] at hpd
      have hr := defineOwnProperty_refines o n desc (hw a o ho) (toPropertyDescriptor_wf d desc hd)
      simp only [Option.map_some, ← hpd]
      cases hm : defineOwn o n desc with
      | none => rw [hm] at hr; simp only [Option.map_none] at hr; simp [← hr]
      | some o' =>
        rw [hm] at hr
        simp only [Option.map_some] at hr
        simp [← hr, absHeap, List.map_set]

/-! ## more plumbing -/

theorem alookup_aupsert {α} (m n : Name) (x : α) (l : List (Name × α)) :
    alookup m (aupsert n x l) = if n = m then some x else alookup m l := by
  induction l with
  | nil => simp [aupsert, alookup]
  | cons kp t ih =>
    obtain ⟨k, q⟩ := kp
    simp only [aupsert]
    by_cases hk : k = n
    · subst hk
      simp only [if_true, alookup]
      by_cases hm : k = m <;> simp [hm]
    · simp only [hk, if_false, alookup, ih]
      by_cases hm : k = m
      · subst hm
        have : ¬ n = k := fun e => hk e.symm
        simp [this]
      · simp [hm]

theorem alookup_aerase {α} (m n : Name) (l : List (Name × α)) (hm : m ≠ n) :
    alookup m (aerase n l) = alookup m l := by
  induction l with
  | nil => rfl
  | cons kp t ih =>
    obtain ⟨k, q⟩ := kp
    simp only [aerase]
    by_cases hk : k = n
    · subst hk; simp [alookup, Ne.symm hm]
    · simp only [hk, if_false, alookup, ih]

theorem absProps_aerase (n : Name) (l : List (Name × MProp)) :
    absProps (aerase n l) = aerase n (absProps l) := by
  induction l with
  | nil => rfl
  | cons kp t ih =>
    obtain ⟨k, q⟩ := kp
    simp only [absProps, List.map, aerase] at ih ⊢
    split <;> simp_all

/-- lifting a one-property statement (for ANY spec descriptor `pd`) to the object -/
theorem defineOwn_lift (o : MObj) (n : Name) (d : MProp) (pd : PD) (prop : MProp)
    (hl : alookup n o.props = some prop)
    (hg : (defineProp prop d).map (fun r => absProp (r.getD prop))
        = (sDefineProp (absProp prop) pd).map (fun r => r.getD (absProp prop))) :
    (defineOwn o n d).map absObj = Spec.defineOwn (absObj o) n pd := by
  obtain ⟨proto, ext, props⟩ := o
  rw [sDefineOwn_eq, defineOwn_eq]
  simp only [absObj, alookup_absProps] at hl ⊢
  rw [hl]
  have hl' : alookup n (absProps props) = some (absProp prop) := by rw [alookup_absProps, hl]; rfl
  simp only [Option.map_some]
  cases hm : defineProp prop d with
  | none =>
    rw [hm] at hg
    cases hs : sDefineProp (absProp prop) pd with
    | none => rfl
    | some r' => rw [hs] at hg; simp at hg
  | some r =>
    rw [hm] at hg
    cases hs : sDefineProp (absProp prop) pd with
    | none => rw [hs] at hg; simp at hg
    | some r' =>
      rw [hs] at hg
      simp only [Option.map_some, Option.some.injEq] at hg ⊢
      cases r with
      | none =>
        cases r' with
        | none => rfl
        | some v =>
          simp only [Option.getD] at hg
          subst hg
          simp only [absObj, aupsert_self _ _ _ hl']
      | some p =>
        cases r' with
        | none =>
          simp only [Option.getD] at hg
          simp only [absObj, absProps_aupsert, hg, aupsert_self _ _ _ hl']
        | some v =>
          simp only [Option.getD] at hg
          simp only [absObj, absProps_aupsert, hg]

/-- [[DefineOwnProperty]] keeps every stored property well formed (unconditionally) -/
theorem defineOwn_wf (o o' : MObj) (n : Name) (d : MProp) (ho : WFObj o) (hd : WFDescW d)
    (h : defineOwn o n d = some o') : WFObj o' := by
  rw [defineOwn_eq] at h
  cases hl : alookup n o.props with
  | none =>
    rw [hl] at h
    simp only at h
    cases he : o.ext with
    | false => simp [he] at h
    | true =>
      simp only [he, Bool.not_true, Bool.false_eq_true, if_false, Option.some.injEq] at h
      subst h
      intro kp hkp
      rcases mem_aupsert hkp with h | h
      · subst h; exact createProp_wf d hd
      · exact ho kp h
  | some prop =>
    rw [hl] at h
    simp only [Option.isSome_map] at h
    cases hm : defineProp prop d with
    | none => rw [hm] at h; simp at h
    | some r =>
      rw [hm] at h
      simp only [Option.map_some, Option.some.injEq] at h
      subst h
      cases r with
      | none => exact ho
      | some p =>
        intro kp hkp
        rcases mem_aupsert hkp with h | h
        · subst h
          exact defineProp_wf prop d p (ho _ (alookup_mem hl)) hd hm
        · exact ho kp h

/-! ## prototype chains: [[GetProperty]] / [[Get]] / [[HasProperty]] -/

theorem absHeap_get (h : MHeap) (a : Nat) : (absHeap h)[a]? = (h[a]?).map absObj := by simp [absHeap]

theorem fuel_absHeap (h : MHeap) : fuel (absHeap h) = fuel h := by simp [fuel, absHeap]

/-- **[[GetProperty]] refines §8.12.2** along any prototype chain, for any fuel -/
theorem getProperty_refines (h : MHeap) (f : Nat) (x : Option Addr) (n : Name) :
    Spec.getProperty (absHeap h) f x n = (getProperty h f x n).map absProp := by
  induction f generalizing x with
  | zero => rfl
  | succ f ih =>
    cases x with
    | none => rfl
    | some a =>
      simp only [Spec.getProperty, getProperty, absHeap_get]
      cases h[a]? with
      | none => rfl
      | some o =>
        simp only [Option.map_some, absObj, alookup_absProps]
        cases alookup n o.props with
        | none => exact ih o.proto
        | some p => rfl

/-- prototypes always point to strictly older objects (so chains are finite and acyclic) -/
def ProtoOK (h : MHeap) : Prop := ∀ (a : Nat) (o : MObj) (p : Nat), h[a]? = some o → o.proto = some p → p < a

/-- more fuel than the address never changes the walk -/
theorem getProperty_fuel (h : MHeap) (hp : ProtoOK h) (n : Name) :
    ∀ (f f' a : Nat), a < f → a < f' → getProperty h f (some a) n = getProperty h f' (some a) n := by
  intro f
  induction f with
  | zero => intro f' a h1; omega
  | succ f ih =>
    intro f' a h1 h2
    cases f' with
    | zero => omega
    | succ f' =>
      simp only [getProperty]
      cases ho : h[a]? with
      | none => rfl
      | some o =>
        simp only []
        cases alookup n o.props with
        | some p => rfl
        | none =>
          simp only []
          cases hpr : o.proto with
          | none => cases f <;> cases f' <;> rfl
          | some p =>
            have hlt : (p : Nat) < a := hp a o p ho hpr
            exact ih f' p (Nat.lt_of_lt_of_le hlt (Nat.le_of_lt_succ h1)) (Nat.lt_of_lt_of_le hlt (Nat.le_of_lt_succ h2))

/-- the walk from an object = own property, else the walk from its prototype (with the same fuel) -/
theorem getProperty_unfold (h : MHeap) (hp : ProtoOK h) (a : Nat) (o : MObj) (n : Name) (ho : h[a]? = some o) :
    getProperty h (fuel h) (some a) n =
      match alookup n o.props with
      | some p => some p
      | none => match o.proto with
        | none => none
        | some pa => getProperty h (fuel h) (some pa) n := by
  have ha : a < h.length := by
    rcases Nat.lt_or_ge a h.length with hlt | hge
    · exact hlt
    · rw [List.getElem?_eq_none hge] at ho; cases ho
  simp only [fuel, getProperty, ho]
  cases alookup n o.props with
  | some p => rfl
  | none =>
    simp only []
    cases hpr : o.proto with
    | none => cases h.length <;> rfl
    | some pa =>
      have hlt : (pa : Nat) < a := hp a o pa ho hpr
      have h3 : pa < h.length := Nat.lt_trans hlt ha
      exact getProperty_fuel h hp n h.length (h.length + 1) pa h3 (Nat.lt_succ_of_lt h3)

/-- **[[Get]] refines §8.12.3** (getter called with the original receiver) -/
theorem get_refines (h : MHeap) (a : Addr) (n : Name) : Spec.get (absHeap h) a n = get h a n := by
  simp only [Spec.get, get, getProperty_refines, fuel_absHeap]
  cases getProperty h (fuel h) (some a) n with
  | none => rfl
  | some p =>
    obtain ⟨v, m⟩ := p
    cases v with
    | nil => rfl
    | val v => rfl
    | gs g s => cases g <;> rfl

/-- **[[HasProperty]] refines §8.12.6** -/
theorem hasProperty_refines (h : MHeap) (a : Addr) (n : Name) :
    (Spec.getProperty (absHeap h) (fuel (absHeap h)) (some a) n).isSome = (getProperty h (fuel h) (some a) n).isSome := by
  rw [getProperty_refines, fuel_absHeap, Option.isSome_map]

/-! ## Shape invariants of otto's [[DefineOwnProperty]] (hold for ALL inputs, also inside the Dev regions) -/

theorem akeys_aupsert_present {α} (n : Name) (x y : α) (l : List (Name × α)) (h : alookup n l = some y) :
    akeys (aupsert n x l) = akeys l := by
  induction l with
  | nil => simp [alookup] at h
  | cons kp t ih =>
    obtain ⟨k, q⟩ := kp
    simp only [alookup] at h
    simp only [aupsert]
    split
    · simp [akeys]
    · rename_i hk
      simp only [hk, if_false] at h
      have := ih h
      simp only [akeys, List.map] at this ⊢
      rw [this]

theorem akeys_aupsert_absent {α} (n : Name) (x : α) (l : List (Name × α)) (h : alookup n l = none) :
    akeys (aupsert n x l) = akeys l ++ [n] := by
  induction l with
  | nil => rfl
  | cons kp t ih =>
    obtain ⟨k, q⟩ := kp
    simp only [alookup] at h
    simp only [aupsert]
    split
    · rename_i hk; simp [hk] at h
    · rename_i hk
      simp only [hk, if_false] at h
      have := ih h
      simp only [akeys, List.map, List.cons_append] at this ⊢
      rw [this]

/-- **No growth without extensibility, insertion order kept** (object_class.go:311): whenever
    otto's [[DefineOwnProperty]] accepts, the prototype link and the extensible flag are untouched and
    the key sequence is either unchanged (the name existed) or – only if the object is extensible and
    the name was absent – the old sequence with the new name appended at the end. -/
theorem defineOwn_shape (o o' : MObj) (n : Name) (d : MProp) (h : defineOwn o n d = some o') :
    o'.proto = o.proto ∧ o'.ext = o.ext ∧
    (akeys o'.props = akeys o.props ∨
     (o.ext = true ∧ alookup n o.props = none ∧ akeys o'.props = akeys o.props ++ [n])) := by
  rw [defineOwn_eq] at h
  cases hl : alookup n o.props with
  | none =>
    rw [hl] at h
    simp only at h
    cases he : o.ext with
    | false => simp [he] at h
    | true =>
      simp only [he, Bool.not_true, Bool.false_eq_true, if_false, Option.some.injEq] at h
      subst h
      exact ⟨rfl, he.symm ▸ rfl, Or.inr ⟨rfl, rfl, akeys_aupsert_absent n _ _ hl⟩⟩
  | some prop =>
    rw [hl] at h
    simp only at h
    cases hm : defineProp prop d with
    | none => rw [hm] at h; simp at h
    | some r =>
      rw [hm] at h
      simp only [Option.map_some, Option.some.injEq] at h
      subst h
      cases r with
      | none => exact ⟨rfl, rfl, Or.inl rfl⟩
      | some p => exact ⟨rfl, rfl, Or.inl (akeys_aupsert_present n p prop _ hl)⟩

/-- a non-extensible object never gains a property through [[DefineOwnProperty]] -/
theorem defineOwn_nonextensible_no_growth (o o' : MObj) (n : Name) (d : MProp)
    (hne : o.ext = false) (h : defineOwn o n d = some o') : akeys o'.props = akeys o.props := by
  obtain ⟨_, _, hk⟩ := defineOwn_shape o o' n d h
  rcases hk with hk | ⟨he, _, _⟩
  · exact hk
  · rw [hne] at he; cases he
/-! ## step statements -/

/-- the invariants carried along a history -/
def Inv (h : MHeap) : Prop := WFHeap h ∧ ProtoOK h

/-- one step: the abstraction of otto's new heap is the ES5 heap, and outcome + setter calls agree -/
def StepRefines (h : MHeap) (op : Op) : Prop :=
  absHeap (step h op).1 = (Spec.step (absHeap h) op).1 ∧ (step h op).2 = (Spec.step (absHeap h) op).2

theorem absHeap_set (h : MHeap) (a : Nat) (o : MObj) : absHeap (h.set a o) = (absHeap h).set a (absObj o) := by
  simp [absHeap, List.map_set]

theorem inv_set (h : MHeap) (a : Nat) (o o' : MObj) (hi : Inv h) (ho : h[a]? = some o)
    (hw : WFObj o') (hp : o'.proto = o.proto) : Inv (h.set a o') := by
  obtain ⟨hwf, hpr⟩ := hi
  constructor
  · intro b q hq
    rw [List.getElem?_set] at hq
    split at hq
    · split at hq
      · cases hq; exact hw
      · cases hq
    · exact hwf b q hq
  · intro b q p hq hqp
    rw [List.getElem?_set] at hq
    split at hq
    · rename_i hab
      split at hq
      · cases hq; subst hab; rw [hp] at hqp; exact hpr a o p ho hqp
      · cases hq
    · exact hpr b q p hq hqp

/-! ## [[Delete]] (§8.12.7) and Object.preventExtensions (§15.2.3.10) -/

theorem configurable_abs (p : MProp) : (absProp p).configurable = p.configurable := by
  obtain ⟨v, ⟨w, e, c⟩⟩ := p
  cases v <;> simp [absProp, SProp.configurable]

theorem enumerable_abs (p : MProp) : (absProp p).enumerable = p.enumerable := by
  obtain ⟨v, ⟨w, e, c⟩⟩ := p
  cases v <;> simp [absProp, SProp.enumerable]

/-- **delete refines §8.12.7 / §11.4.1**: same result, same heap; outside `strict_ignored` also the
    same TypeError behaviour -/
theorem delete_refines (h : MHeap) (strict : Bool) (a : Addr) (n : Name)
    (hdev : devStrict h (.del strict a n) = false) : StepRefines h (.del strict a n) := by
  simp only [StepRefines, step, delete, Spec.step, Spec.delete, absHeap_get]
  cases ho : h[a]? with
  | none => simp
  | some o =>
    simp only [Option.map_some, absObj, alookup_absProps]
    cases hl : alookup n o.props with
    | none => simp
    | some prop =>
      simp only [Option.map_some, configurable_abs]
      cases hc : prop.configurable with
      | true => simp [absHeap_set, absObj, absProps_aerase]
      | false =>
        cases strict with
        | false => simp
        | true => simp [devStrict, ho, hl, hc] at hdev

theorem delete_inv (h : MHeap) (strict : Bool) (a : Addr) (n : Name) (hi : Inv h) :
    Inv (step h (.del strict a n)).1 := by
  simp only [step, delete]
  cases ho : h[a]? with
  | none => exact hi
  | some o =>
    simp only []
    cases hl : alookup n o.props with
    | none => exact hi
    | some prop =>
      simp only []
      split
      · exact inv_set h a o _ hi ho (fun kp hkp => hi.1 a o ho kp (mem_aerase hkp)) rfl
      · exact hi

theorem preventExt_refines (h : MHeap) (a : Addr) : StepRefines h (.preventExt a) := by
  simp only [StepRefines, step, Spec.step, absHeap_get]
  cases ho : h[a]? with
  | none => exact ⟨rfl, rfl⟩
  | some o => simp [absHeap_set, absObj]

theorem preventExt_inv (h : MHeap) (a : Addr) (hi : Inv h) : Inv (step h (.preventExt a)).1 := by
  simp only [step]
  cases ho : h[a]? with
  | none => exact hi
  | some o => exact inv_set h a o _ hi ho (hi.1 a o ho) rfl

/-! ## [[CanPut]] / [[Put]] (§8.12.4, §8.12.5) -/

/-- assignment to an own writable data property: otto redefines with the full current property
    carrying the new value, ES5 with `{[[Value]]: V}` – same result -/
theorem putOwn_prop (pv v : Val) (pe pc : Trit) :
    (defineProp ⟨.val pv, ⟨.on, pe, pc⟩⟩ ⟨.val v, ⟨.on, pe, pc⟩⟩).map (fun r => absProp (r.getD ⟨.val pv, ⟨.on, pe, pc⟩⟩))
    = (sDefineProp (absProp ⟨.val pv, ⟨.on, pe, pc⟩⟩) { noPD with value := some v }).map
        (fun r => r.getD (absProp ⟨.val pv, ⟨.on, pe, pc⟩⟩)) := by
  unfold_model
  unfold_spec
  simp only [noPD]
  unfold_spec
  by_cases hv : v = pv
  · subst hv
    try simp only [bne_self_eq_false, beq_self_eq_true, eq_self, decide_true]
    cases pe <;> cases pc <;> rfl
  · obtain ⟨e1, e2, e3, e4, e5, e6, e7, e8⟩ := neqForms hv
    try simp only [e1, e2, e3, e4, e5, e6, e7, e8]
    cases pe <;> cases pc <;> rfl

theorem writable_abs_val (v : Val) (m : Mode) : (MProp.mk (.val v) m).writable = tb m.w := by
  obtain ⟨w, e, c⟩ := m; simp

/-- **[[CanPut]] refines §8.12.4** (own / inherited, data / accessor, extensible flag) -/
theorem canPut_refines (h : MHeap) (o : MObj) (n : Name) :
    Spec.canPut (absHeap h) (absObj o) n = (canPutDetails h o n).1 := by
  obtain ⟨proto, ext, props⟩ := o
  simp only [Spec.canPut, canPutDetails, absObj, alookup_absProps]
  cases alookup n props with
  | some prop =>
    obtain ⟨v, ⟨w, e, c⟩⟩ := prop
    cases v with
    | nil => simp [absProp]
    | val v => simp [absProp]
    | gs g s => cases s <;> simp [absProp, slotFn]
  | none =>
    simp only [Option.map_none]
    cases proto with
    | none => rfl
    | some pa =>
      simp only [getProperty_refines, fuel_absHeap]
      cases getProperty h (fuel h) (some pa) n with
      | none => rfl
      | some prop =>
        obtain ⟨v, ⟨w, e, c⟩⟩ := prop
        cases v with
        | nil => cases ext <;> simp [absProp]
        | val v => cases ext <;> simp [absProp]
        | gs g s => cases s <;> simp [absProp, slotFn]

theorem getProperty_own (h : MHeap) (hp : ProtoOK h) (a : Nat) (o : MObj) (n : Name) (p : MProp)
    (ho : h[a]? = some o) (hl : alookup n o.props = some p) :
    getProperty h (fuel h) (some a) n = some p := by
  rw [getProperty_unfold h hp a o n ho, hl]

theorem getProperty_inherit (h : MHeap) (hp : ProtoOK h) (a : Nat) (o : MObj) (n : Name)
    (ho : h[a]? = some o) (hl : alookup n o.props = none) :
    getProperty h (fuel h) (some a) n =
      match o.proto with
      | none => none
      | some pa => getProperty h (fuel h) (some pa) n := by
  rw [getProperty_unfold h hp a o n ho, hl]

/-- the two "create a new own property" endings of [[Put]] agree (object level) -/
theorem putNew_refines (o : MObj) (n : Name) (v : Val) (ho : WFObj o) (hl : alookup n o.props = none) :
    (defineOwn o n ⟨.val v, ⟨.on, .on, .on⟩⟩).map absObj =
      Spec.defineOwn (absObj o) n { noPD with value := some v, writable := some true, enumerable := some true, configurable := some true } := by
  have := defineOwnProperty_refines o n ⟨.val v, ⟨.on, .on, .on⟩⟩ ho trivial
  simpa [absDesc, topt, noPD] using this

set_option hygiene false in
macro "put_new_tac" : tactic => `(tactic|
  (simp only [Option.map_none, Option.map_some, absProp]
   rw [← hnew]
   cases hm : defineOwn o n ⟨.val v, ⟨.on, .on, .on⟩⟩ with
   | none =>
     cases strict with
     | false => simp
     | true => have := hd rfl; simp [devStrict, ho, hcp, hm] at this
   | some o' => simp [absHeap_set]))

/-- **[[Put]] refines §8.12.5** (own data / own accessor / inherited data / inherited accessor /
    absent, extensible or not): same heap, same setter call, same outcome outside `strict_ignored` -/
theorem put_refines (h : MHeap) (strict : Bool) (a : Addr) (n : Name) (v : Val) (hi : Inv h)
    (hdev : devStrict h (.put strict a n v) = false) : StepRefines h (.put strict a n v) := by
  obtain ⟨hwf, hpo⟩ := hi
  simp only [StepRefines, step, put, Spec.step, Spec.put, absHeap_get]
  cases ho : h[a]? with
  | none => simp
  | some o =>
    have hd : strict = true → devStrict h (.put true a n v) = false := by
      intro hs; subst hs; exact hdev
    clear hdev
    simp only [Option.map_some, canPut_refines, getProperty_refines, fuel_absHeap]
    cases hl : alookup n o.props with
    | some prop =>
      rw [getProperty_own h hpo a o n prop ho hl]
      obtain ⟨pval, ⟨w, e, c⟩⟩ := prop
      cases pval with
      | nil => exact (hwf a o ho _ (alookup_mem hl)).elim
      | val pv =>
        have hcp : canPutDetails h o n = (tb w, some ⟨.val pv, ⟨w, e, c⟩⟩, none) := by
          simp [canPutDetails, hl]
        rw [hcp]
        have hown : alookup n (absObj o).props = some (.data pv (tb w) (tb e) (tb c)) := by
          simp [absObj, alookup_absProps, hl, absProp]
        rw [hown]
        cases w with
        | on =>
          simp only [tb, Bool.not_true, Bool.false_eq_true, if_false]
          have hr := defineOwn_lift o n ⟨.val v, ⟨.on, e, c⟩⟩ { noPD with value := some v } _ hl (putOwn_prop pv v e c)
          rw [← hr]
          cases hm : defineOwn o n ⟨.val v, ⟨.on, e, c⟩⟩ with
          | none =>
            cases strict with
            | false => simp
            | true => have := hd rfl; simp [devStrict, ho, hcp, tb, hm] at this
          | some o' => simp [absHeap_set]
        | off => cases strict with
          | false => simp [tb]
          | true => have := hd rfl; simp [devStrict, ho, hcp, tb] at this
        | unset => cases strict with
          | false => simp [tb]
          | true => have := hd rfl; simp [devStrict, ho, hcp, tb] at this
      | gs g s =>
        have hcp : canPutDetails h o n = ((slotFn s).isSome, some ⟨.gs g s, ⟨w, e, c⟩⟩, slotFn s) := by
          simp [canPutDetails, hl]
        rw [hcp]
        have hown : alookup n (absObj o).props = some (.acc (slotFn g) (slotFn s) (tb e) (tb c)) := by
          simp [absObj, alookup_absProps, hl, absProp]
        rw [hown]
        cases hs : slotFn s with
        | none => cases strict with
          | false => simp
          | true => have := hd rfl; simp [devStrict, ho, hcp, hs] at this
        | some k => simp [absProp, hs]
    | none =>
      have hown : alookup n (absObj o).props = none := by simp [absObj, alookup_absProps, hl]
      rw [hown, getProperty_inherit h hpo a o n ho hl]
      have hnew := putNew_refines o n v (hwf a o ho) hl
      cases hpr : o.proto with
      | none =>
        have hcp : canPutDetails h o n = (o.ext, none, none) := by simp [canPutDetails, hl, hpr]
        cases he : o.ext with
        | false =>
          rw [he] at hcp; rw [hcp]
          cases strict with
          | false => simp
          | true => have := hd rfl; simp [devStrict, ho, hcp] at this
        | true =>
          rw [he] at hcp; rw [hcp]
          put_new_tac
      | some pa =>
        simp only []
        cases hin : getProperty h (fuel h) (some pa) n with
        | none =>
          have hcp : canPutDetails h o n = (o.ext, none, none) := by simp [canPutDetails, hl, hpr, hin]
          cases he : o.ext with
          | false =>
            rw [he] at hcp; rw [hcp]
            cases strict with
            | false => simp
            | true => have := hd rfl; simp [devStrict, ho, hcp] at this
          | true =>
            rw [he] at hcp; rw [hcp]
            put_new_tac
        | some ip =>
          obtain ⟨ival, ⟨w, e, c⟩⟩ := ip
          cases ival with
          | gs g s =>
            have hcp : canPutDetails h o n = ((slotFn s).isSome, some ⟨.gs g s, ⟨w, e, c⟩⟩, slotFn s) := by
              simp [canPutDetails, hl, hpr, hin]
            rw [hcp]
            cases hs : slotFn s with
            | none => cases strict with
              | false => simp
              | true => have := hd rfl; simp [devStrict, ho, hcp, hs] at this
            | some k => simp [absProp, hs]
          | val iv =>
            have hcp : canPutDetails h o n = (if !o.ext then (false, none, none) else (tb w, none, none)) := by
              simp [canPutDetails, hl, hpr, hin]
            cases he : o.ext with
            | false =>
              simp only [he, Bool.not_false, if_true] at hcp; rw [hcp]
              cases strict with
              | false => simp
              | true => have := hd rfl; simp [devStrict, ho, hcp] at this
            | true =>
              simp only [he, Bool.not_true, Bool.false_eq_true, if_false] at hcp
              cases w with
              | on => simp only [tb] at hcp; rw [hcp]; (simp only [absProp]; put_new_tac)
              | off =>
                simp only [tb] at hcp; rw [hcp]
                cases strict with
                | false => simp
                | true => have := hd rfl; simp [devStrict, ho, hcp] at this
              | unset =>
                simp only [tb] at hcp; rw [hcp]
                cases strict with
                | false => simp
                | true => have := hd rfl; simp [devStrict, ho, hcp] at this
          | nil =>
            have hcp : canPutDetails h o n = (if !o.ext then (false, none, none) else (tb w, none, none)) := by
              simp [canPutDetails, hl, hpr, hin]
            cases he : o.ext with
            | false =>
              simp only [he, Bool.not_false, if_true] at hcp; rw [hcp]
              cases strict with
              | false => simp
              | true => have := hd rfl; simp [devStrict, ho, hcp] at this
            | true =>
              simp only [he, Bool.not_true, Bool.false_eq_true, if_false] at hcp
              cases w with
              | on => simp only [tb] at hcp; rw [hcp]; (simp only [absProp]; put_new_tac)
              | off =>
                simp only [tb] at hcp; rw [hcp]
                cases strict with
                | false => simp
                | true => have := hd rfl; simp [devStrict, ho, hcp] at this
              | unset =>
                simp only [tb] at hcp; rw [hcp]
                cases strict with
                | false => simp
                | true => have := hd rfl; simp [devStrict, ho, hcp] at this

/-- a successful define on object `a` keeps the heap invariants -/
theorem inv_define (h : MHeap) (a : Nat) (o o' : MObj) (n : Name) (d : MProp) (hi : Inv h) (ho : h[a]? = some o)
    (hd : WFDescW d) (hm : defineOwn o n d = some o') : Inv (h.set a o') :=
  inv_set h a o o' hi ho (defineOwn_wf o o' n d (hi.1 a o ho) hd hm) (defineOwn_shape o o' n d hm).1

theorem put_inv (h : MHeap) (strict : Bool) (a : Addr) (n : Name) (v : Val) (hi : Inv h) :
    Inv (step h (.put strict a n v)).1 := by
  simp only [step, put]
  cases ho : h[a]? with
  | none => exact hi
  | some o =>
    simp only []
    split
    · exact hi
    · exact hi
    · rename_i prop _
      cases hm : defineOwn o n { prop with value := .val v } with
      | none => exact hi
      | some o' => exact inv_define h a o o' n ⟨.val v, prop.mode⟩ hi ho (by simp [WFDescW]) hm
    · cases hm : defineOwn o n ⟨.val v, ⟨.on, .on, .on⟩⟩ with
      | none => exact hi
      | some o' => exact inv_define h a o o' n ⟨.val v, ⟨.on, .on, .on⟩⟩ hi ho (by simp [WFDescW]) hm

/-! ## Object.freeze / Object.seal (§15.2.3.8, §15.2.3.9) -/

/-- generalised lifting: any one-property result `R` (reject / keep / write) against any spec descriptor -/
theorem lift_result (o : MObj) (n : Name) (pd : PD) (prop : MProp) (R : Option (Option MProp))
    (hl : alookup n o.props = some prop)
    (hg : R.map (fun r => absProp (r.getD prop)) = (sDefineProp (absProp prop) pd).map (fun r => r.getD (absProp prop))) :
    (R.map (fun r => match r with | none => o | some p => { o with props := aupsert n p o.props })).map absObj
      = Spec.defineOwn (absObj o) n pd := by
  obtain ⟨proto, ext, props⟩ := o
  rw [sDefineOwn_eq]
  simp only [absObj, alookup_absProps] at hl ⊢
  rw [hl]
  have hl' : alookup n (absProps props) = some (absProp prop) := by rw [alookup_absProps, hl]; rfl
  simp only [Option.map_some]
  cases R with
  | none =>
    cases hs : sDefineProp (absProp prop) pd with
    | none => rfl
    | some r' => rw [hs] at hg; simp at hg
  | some r =>
    cases hs : sDefineProp (absProp prop) pd with
    | none => rw [hs] at hg; simp at hg
    | some r' =>
      rw [hs] at hg
      simp only [Option.map_some, Option.some.injEq] at hg ⊢
      cases r with
      | none =>
        cases r' with
        | none => rfl
        | some v =>
          simp only [Option.getD] at hg
          subst hg
          simp only [absObj, aupsert_self _ _ _ hl']
      | some p =>
        cases r' with
        | none =>
          simp only [Option.getD] at hg
          simp only [absObj, absProps_aupsert, hg, aupsert_self _ _ _ hl']
        | some v =>
          simp only [Option.getD] at hg
          simp only [absObj, absProps_aupsert, hg]

/-- the descriptor otto's freeze passes to defineOwnProperty, and whether it calls it at all -/
def freezeDesc (prop : MProp) : MProp × Bool :=
  let u1 := prop.isDataDescriptor && prop.writable
  let p1 := if u1 then prop.writeOff else prop
  let u2 := p1.configurable
  let p2 := if u2 then p1.configureOff else p1
  (p2, u1 || u2)

/-- §15.2.3.9 step 2.a-2.c -/
def sFreezeDesc (p : SProp) : PD :=
  let d := ofProp p
  let d := if Spec.isDataDescriptor d && d.writable == some true then { d with writable := some false } else d
  if d.configurable == some true then { d with configurable := some false } else d

def FreezeGoal (prop : MProp) : Prop :=
  (if (freezeDesc prop).2 then defineProp prop (freezeDesc prop).1 else some none).map (fun r => absProp (r.getD prop))
  = (sDefineProp (absProp prop) (sFreezeDesc (absProp prop))).map (fun r => r.getD (absProp prop))

macro "unfold_freeze" : tactic => `(tactic|
  (simp only [FreezeGoal, freezeDesc, sFreezeDesc, defineProp, defineSwitch, MProp.isEmpty, MProp.isGenericDescriptor, MProp.isDataDescriptor,
    MProp.isAccessorDescriptor, writable_eq, writeSet_eq, enumerable_eq, enumerateSet_eq, configurable_eq, writeOff_eq, configureOff_eq,
    mode222_eq, mergeMode_eq]))

macro "freeze_simp" : tactic => `(tactic|
  simp [FreezeGoal, freezeDesc, sFreezeDesc, defineProp, defineSwitch, MProp.isEmpty, MProp.isGenericDescriptor, MProp.isDataDescriptor,
    MProp.isAccessorDescriptor, mergeMode_eq, tritMerge, sDefineProp, absProp, ofProp, allAbsent, subsumed, fieldSame, validate, applyFields,
    Spec.isGenericDescriptor, Spec.isDataDescriptor, Spec.isAccessorDescriptor, SProp.configurable, SProp.enumerable, SProp.isData,
    tb, tset, topt, onbit, slotFn, normSlot])

theorem freezeV (pv : Val) (pw pe pc : Trit) : FreezeGoal ⟨.val pv, ⟨pw, pe, pc⟩⟩ := by
  cases pw <;> cases pe <;> cases pc <;> freeze_simp

theorem freezeG (pg ps : Slot) (hg : pg ≠ .nilObj) (hs : ps ≠ .nilObj) (pe pc : Trit) :
    FreezeGoal ⟨.gs pg ps, ⟨.unset, pe, pc⟩⟩ := by
  cases pg <;> cases ps <;> first | exact absurd rfl hg | exact absurd rfl hs |
    (cases pe <;> cases pc <;> freeze_simp)

theorem freeze_prop (prop : MProp) (hp : WFProp prop) : FreezeGoal prop := by
  obtain ⟨v, ⟨w, e, c⟩⟩ := prop
  cases v with
  | nil => exact hp.elim
  | val v => exact freezeV v w e c
  | gs g s =>
    obtain ⟨hg, hs, hw⟩ := hp
    simp only at hw
    subst hw
    exact freezeG g s hg hs e c

theorem freezeDesc_value (prop : MProp) : (freezeDesc prop).1.value = prop.value := by
  obtain ⟨v, ⟨w, e, c⟩⟩ := prop
  simp only [freezeDesc, writeOff_eq, configureOff_eq]
  split <;> split <;> simp_all [writeOff_eq, configureOff_eq]

theorem freezeDesc_wfw (prop : MProp) (hp : WFProp prop) : WFDescW (freezeDesc prop).1 := by
  obtain ⟨v, ⟨w, e, c⟩⟩ := prop
  cases v with
  | nil => exact hp.elim
  | val v => simp only [WFDescW, freezeDesc_value]
  | gs g s =>
    obtain ⟨_, _, hw⟩ := hp
    simp only at hw
    subst hw
    cases e <;> cases c <;> simp [WFDescW, freezeDesc, MProp.isDataDescriptor, tb, tset]

/-- one iteration of otto's freeze loop on a present property -/
def freezeStep (o : MObj) (n : Name) (prop : MProp) : Option MObj :=
  if (freezeDesc prop).2 then defineOwn o n (freezeDesc prop).1 else some o

theorem freezeLoop_cons (o : MObj) (n : Name) (ns : List Name) :
    freezeLoop o (n :: ns) =
      match alookup n o.props with
      | none => freezeLoop o ns
      | some prop =>
        match freezeStep o n prop with
        | none => (o, true)
        | some o' => freezeLoop o' ns := by
  simp only [freezeLoop, freezeStep, freezeDesc]
  cases alookup n o.props with
  | none => rfl
  | some prop =>
    simp only []
    split <;> split <;> (try simp_all) <;> (first | rfl | (split <;> rfl))

theorem sFreezeLoop_cons (o : SObj) (n : Name) (ns : List Name) :
    Spec.freezeLoop o (n :: ns) =
      match alookup n o.props with
      | none => Spec.freezeLoop o ns
      | some p =>
        match Spec.defineOwn o n (sFreezeDesc p) with
        | none => (o, true)
        | some o' => Spec.freezeLoop o' ns := by
  simp only [Spec.freezeLoop, sFreezeDesc]
  cases alookup n o.props <;> rfl

theorem freezeStep_refines (o : MObj) (n : Name) (prop : MProp) (ho : WFObj o) (hl : alookup n o.props = some prop) :
    (freezeStep o n prop).map absObj = Spec.defineOwn (absObj o) n (sFreezeDesc (absProp prop)) := by
  have hR := lift_result o n (sFreezeDesc (absProp prop)) prop _ hl (freeze_prop prop (ho _ (alookup_mem hl)))
  simp only [freezeStep]
  by_cases hf : (freezeDesc prop).2 = true
  · simp only [hf, if_true] at hR ⊢
    rw [defineOwn_eq, hl]
    exact hR
  · simp only [hf] at hR ⊢
    exact hR

theorem freezeStep_wf (o o' : MObj) (n : Name) (prop : MProp) (ho : WFObj o) (hl : alookup n o.props = some prop)
    (h : freezeStep o n prop = some o') : WFObj o' ∧ o'.proto = o.proto ∧ o'.ext = o.ext ∧ akeys o'.props = akeys o.props := by
  simp only [freezeStep] at h
  split at h
  · have hs := defineOwn_shape o o' n _ h
    refine ⟨defineOwn_wf o o' n _ ho (freezeDesc_wfw prop (ho _ (alookup_mem hl))) h, hs.1, hs.2.1, ?_⟩
    rcases hs.2.2 with hk | ⟨_, hn, _⟩
    · exact hk
    · rw [hl] at hn; cases hn
  · cases h; exact ⟨ho, rfl, rfl, rfl⟩

/-- **the freeze loop refines §15.2.3.9 step 2** and keeps the object well formed -/
theorem freezeLoop_refines : ∀ (ns : List Name) (o : MObj), WFObj o →
    (absObj (freezeLoop o ns).1, (freezeLoop o ns).2) = Spec.freezeLoop (absObj o) ns ∧
    WFObj (freezeLoop o ns).1 ∧ (freezeLoop o ns).1.proto = o.proto ∧
    (freezeLoop o ns).1.ext = o.ext ∧ akeys (freezeLoop o ns).1.props = akeys o.props := by
  intro ns
  induction ns with
  | nil => intro o ho; exact ⟨rfl, ho, rfl, rfl, rfl⟩
  | cons n ns ih =>
    intro o ho
    have hlk : alookup n (absObj o).props = (alookup n o.props).map absProp := by simp [absObj, alookup_absProps]
    rw [freezeLoop_cons, sFreezeLoop_cons, hlk]
    cases hl : alookup n o.props with
    | none => exact ih o ho
    | some prop =>
      simp only [Option.map_some]
      rw [← freezeStep_refines o n prop ho hl]
      cases hs : freezeStep o n prop with
      | none => exact ⟨rfl, ho, rfl, rfl, rfl⟩
      | some o' =>
        obtain ⟨hw', hp', he', hk'⟩ := freezeStep_wf o o' n prop ho hl hs
        obtain ⟨h1, h2, h3, h4, h5⟩ := ih o' hw'
        exact ⟨h1, h2, h3.trans hp', h4.trans he', h5.trans hk'⟩

theorem akeys_absProps (l : List (Name × MProp)) : akeys (absProps l) = akeys l := by
  simp [akeys, absProps, List.map_map, Function.comp_def]

/-- **Object.freeze refines §15.2.3.9** as a whole step, and keeps the invariants -/
theorem freeze_refines (h : MHeap) (a : Addr) (hi : Inv h) :
    StepRefines h (.freeze a) ∧ Inv (step h (.freeze a)).1 := by
  simp only [StepRefines, step, Spec.step, absHeap_get]
  cases ho : h[a]? with
  | none => exact ⟨⟨rfl, rfl⟩, hi⟩
  | some o =>
    obtain ⟨h1, h2, h3, _, _⟩ := freezeLoop_refines (akeys o.props) o (hi.1 a o ho)
    have hk : akeys (absObj o).props = akeys o.props := by simp [absObj, akeys_absProps]
    simp only [Option.map_some, hk, ← h1]
    cases hr : freezeLoop o (akeys o.props) with
    | mk o' b =>
      rw [hr] at h2 h3
      cases b with
      | true => exact ⟨by simp [absHeap_set], inv_set h a o o' hi ho h2 h3⟩
      | false => exact ⟨by simp [absHeap_set, absObj], inv_set h a o _ hi ho h2 h3⟩

/-! ### seal -/

/-- the descriptor otto's seal passes to defineOwnProperty, and whether it calls it at all -/
def sealDesc (prop : MProp) : MProp × Bool := (prop.configureOff, prop.configurable)

/-- §15.2.3.8 step 2.a-2.c -/
def sSealDesc (p : SProp) : PD :=
  let d := ofProp p
  if p.configurable then { d with configurable := some false } else d

def SealGoal (prop : MProp) : Prop :=
  (if (sealDesc prop).2 then defineProp prop (sealDesc prop).1 else some none).map (fun r => absProp (r.getD prop))
  = (sDefineProp (absProp prop) (sSealDesc (absProp prop))).map (fun r => r.getD (absProp prop))

macro "seal_simp" : tactic => `(tactic|
  simp [SealGoal, sealDesc, sSealDesc, defineProp, defineSwitch, MProp.isEmpty, MProp.isGenericDescriptor, MProp.isDataDescriptor,
    MProp.isAccessorDescriptor, mergeMode_eq, tritMerge, sDefineProp, absProp, ofProp, allAbsent, subsumed, fieldSame, validate, applyFields,
    Spec.isGenericDescriptor, Spec.isDataDescriptor, Spec.isAccessorDescriptor, SProp.configurable, SProp.enumerable, SProp.isData,
    tb, tset, topt, onbit, slotFn, normSlot])

theorem sealV (pv : Val) (pw pe pc : Trit) : SealGoal ⟨.val pv, ⟨pw, pe, pc⟩⟩ := by
  cases pw <;> cases pe <;> cases pc <;> seal_simp

theorem sealG (pg ps : Slot) (hg : pg ≠ .nilObj) (hs : ps ≠ .nilObj) (pe pc : Trit) :
    SealGoal ⟨.gs pg ps, ⟨.unset, pe, pc⟩⟩ := by
  cases pg <;> cases ps <;> first | exact absurd rfl hg | exact absurd rfl hs |
    (cases pe <;> cases pc <;> seal_simp)

theorem seal_prop (prop : MProp) (hp : WFProp prop) : SealGoal prop := by
  obtain ⟨v, ⟨w, e, c⟩⟩ := prop
  cases v with
  | nil => exact hp.elim
  | val v => exact sealV v w e c
  | gs g s =>
    obtain ⟨hg, hs, hw⟩ := hp
    simp only at hw
    subst hw
    exact sealG g s hg hs e c

theorem sealDesc_value (prop : MProp) : (sealDesc prop).1.value = prop.value := by
  obtain ⟨v, ⟨w, e, c⟩⟩ := prop
  simp [sealDesc]

theorem sealDesc_wfw (prop : MProp) (hp : WFProp prop) : WFDescW (sealDesc prop).1 := by
  obtain ⟨v, ⟨w, e, c⟩⟩ := prop
  cases v with
  | nil => exact hp.elim
  | val v => simp [WFDescW, sealDesc]
  | gs g s =>
    obtain ⟨_, _, hw⟩ := hp
    simp only at hw
    subst hw
    simp [WFDescW, sealDesc]

def sealStep (o : MObj) (n : Name) (prop : MProp) : Option MObj :=
  if (sealDesc prop).2 then defineOwn o n (sealDesc prop).1 else some o

theorem sealLoop_cons (o : MObj) (n : Name) (ns : List Name) :
    sealLoop o (n :: ns) =
      match alookup n o.props with
      | none => sealLoop o ns
      | some prop =>
        match sealStep o n prop with
        | none => (o, true)
        | some o' => sealLoop o' ns := by
  simp only [sealLoop, sealStep, sealDesc]
  cases alookup n o.props with
  | none => rfl
  | some prop =>
    simp only []
    by_cases hc : prop.configurable = true
    · simp only [hc, if_true]
      cases defineOwn o n prop.configureOff <;> rfl
    · simp only [hc]
      rfl

theorem sSealLoop_cons (o : SObj) (n : Name) (ns : List Name) :
    Spec.sealLoop o (n :: ns) =
      match alookup n o.props with
      | none => Spec.sealLoop o ns
      | some p =>
        match Spec.defineOwn o n (sSealDesc p) with
        | none => (o, true)
        | some o' => Spec.sealLoop o' ns := by
  simp only [Spec.sealLoop, sSealDesc]
  cases alookup n o.props <;> rfl

theorem sealStep_refines (o : MObj) (n : Name) (prop : MProp) (ho : WFObj o) (hl : alookup n o.props = some prop) :
    (sealStep o n prop).map absObj = Spec.defineOwn (absObj o) n (sSealDesc (absProp prop)) := by
  have hR := lift_result o n (sSealDesc (absProp prop)) prop _ hl (seal_prop prop (ho _ (alookup_mem hl)))
  simp only [sealStep]
  by_cases hf : (sealDesc prop).2 = true
  · simp only [hf, if_true] at hR ⊢
    rw [defineOwn_eq, hl]
    exact hR
  · simp only [hf] at hR ⊢
    exact hR

theorem sealStep_wf (o o' : MObj) (n : Name) (prop : MProp) (ho : WFObj o) (hl : alookup n o.props = some prop)
    (h : sealStep o n prop = some o') : WFObj o' ∧ o'.proto = o.proto ∧ o'.ext = o.ext ∧ akeys o'.props = akeys o.props := by
  simp only [sealStep] at h
  split at h
  · have hs := defineOwn_shape o o' n _ h
    refine ⟨defineOwn_wf o o' n _ ho (sealDesc_wfw prop (ho _ (alookup_mem hl))) h, hs.1, hs.2.1, ?_⟩
    rcases hs.2.2 with hk | ⟨_, hn, _⟩
    · exact hk
    · rw [hl] at hn; cases hn
  · cases h; exact ⟨ho, rfl, rfl, rfl⟩

/-- **the seal loop refines §15.2.3.8 step 2** and keeps the object well formed -/
theorem sealLoop_refines : ∀ (ns : List Name) (o : MObj), WFObj o →
    (absObj (sealLoop o ns).1, (sealLoop o ns).2) = Spec.sealLoop (absObj o) ns ∧
    WFObj (sealLoop o ns).1 ∧ (sealLoop o ns).1.proto = o.proto ∧
    (sealLoop o ns).1.ext = o.ext ∧ akeys (sealLoop o ns).1.props = akeys o.props := by
  intro ns
  induction ns with
  | nil => intro o ho; exact ⟨rfl, ho, rfl, rfl, rfl⟩
  | cons n ns ih =>
    intro o ho
    have hlk : alookup n (absObj o).props = (alookup n o.props).map absProp := by simp [absObj, alookup_absProps]
    rw [sealLoop_cons, sSealLoop_cons, hlk]
    cases hl : alookup n o.props with
    | none => exact ih o ho
    | some prop =>
      simp only [Option.map_some]
      rw [← sealStep_refines o n prop ho hl]
      cases hs : sealStep o n prop with
      | none => exact ⟨rfl, ho, rfl, rfl, rfl⟩
      | some o' =>
        obtain ⟨hw', hp', he', hk'⟩ := sealStep_wf o o' n prop ho hl hs
        obtain ⟨h1, h2, h3, h4, h5⟩ := ih o' hw'
        exact ⟨h1, h2, h3.trans hp', h4.trans he', h5.trans hk'⟩

/-- **Object.seal refines §15.2.3.8** as a whole step, and keeps the invariants -/
theorem seal_refines (h : MHeap) (a : Addr) (hi : Inv h) :
    StepRefines h (.seal a) ∧ Inv (step h (.seal a)).1 := by
  simp only [StepRefines, step, Spec.step, absHeap_get]
  cases ho : h[a]? with
  | none => exact ⟨⟨rfl, rfl⟩, hi⟩
  | some o =>
    obtain ⟨h1, h2, h3, _, _⟩ := sealLoop_refines (akeys o.props) o (hi.1 a o ho)
    have hk : akeys (absObj o).props = akeys o.props := by simp [absObj, akeys_absProps]
    simp only [Option.map_some, hk, ← h1]
    cases hr : sealLoop o (akeys o.props) with
    | mk o' b =>
      rw [hr] at h2 h3
      cases b with
      | true => exact ⟨by simp [absHeap_set], inv_set h a o o' hi ho h2 h3⟩
      | false => exact ⟨by simp [absHeap_set, absObj], inv_set h a o _ hi ho h2 h3⟩

/-! ## Object.defineProperty / defineProperties / create (§15.2.3.5-7) -/

/-- Object.defineProperty in `StepRefines` form, with the invariants -/
theorem defn_refines (h : MHeap) (a : Addr) (n : Name) (d : DescArg) (hi : Inv h) :
    StepRefines h (.defn a n d) ∧ Inv (step h (.defn a n d)).1 := by
  refine ⟨step_defineProperty_refines h a n d hi.1, ?_⟩
  simp only [step]
  cases ho : h[a]? with
  | none => exact hi
  | some o =>
    simp only []
    cases hd : OttoVerif.C07.toPropertyDescriptor d with
    | none => exact hi
    | some desc =>
      simp only []
      cases hm : defineOwn o n desc with
      | none => exact hi
      | some o' =>
        exact inv_define h a o o' n desc hi ho (WFDesc.weak (toPropertyDescriptor_wf d desc hd)) hm

/-- all descriptors of the list convert -/
def allConv (l : List (Name × DescArg)) : Prop := ∀ nd ∈ l, (OttoVerif.C07.toPropertyDescriptor nd.2).isSome = true

/-- the converted list of §15.2.3.7 step 5 -/
def convOf : List (Name × DescArg) → List (Name × PD)
  | [] => []
  | (n, d) :: t => (n, match OttoVerif.C07.toPropertyDescriptor d with | some m => absDesc m | none => noPD) :: convOf t

theorem convertList_all (l : List (Name × DescArg)) (h : allConv l) : convertList l = some (convOf l) := by
  induction l with
  | nil => rfl
  | cons nd t ih =>
    obtain ⟨n, d⟩ := nd
    have h1 := h (n, d) List.mem_cons_self
    have h2 := ih (fun x hx => h x (List.mem_cons_of_mem _ hx))
    have hpd := toPropertyDescriptor_refines d
    cases hd : OttoVerif.C07.toPropertyDescriptor d with
    | none => rw [hd] at h1; cases h1
    | some m =>
      rw [hd] at hpd
      simp only [Option.map_some] at hpd
      simp only [convertList, ← hpd, h2, convOf, hd]

theorem convertList_notAll (l : List (Name × DescArg)) (h : ¬ allConv l) : convertList l = none := by
  induction l with
  | nil => exact absurd (fun _ hx => by cases hx) h
  | cons nd t ih =>
    obtain ⟨n, d⟩ := nd
    have hpd := toPropertyDescriptor_refines d
    cases hd : OttoVerif.C07.toPropertyDescriptor d with
    | none => rw [hd] at hpd; simp only [Option.map_none] at hpd; simp only [convertList, ← hpd]
    | some m =>
      have : ¬ allConv t := by
        intro ht
        apply h
        intro x hx
        rcases List.mem_cons.1 hx with hx | hx
        · subst hx; simp [hd]
        · exact ht x hx
      simp only [convertList, ih this]
      cases Spec.toPropertyDescriptor d <;> rfl

theorem defineList_throws (l : List (Name × DescArg)) (h : ¬ allConv l) : ∀ o : MObj, (defineList o l).2 = true := by
  induction l with
  | nil => exact absurd (fun _ hx => by cases hx) h
  | cons nd t ih =>
    obtain ⟨n, d⟩ := nd
    intro o
    simp only [defineList]
    cases hd : OttoVerif.C07.toPropertyDescriptor d with
    | none => rfl
    | some m =>
      have : ¬ allConv t := by
        intro ht
        apply h
        intro x hx
        rcases List.mem_cons.1 hx with hx | hx
        · subst hx; simp [hd]
        · exact ht x hx
      simp only []
      cases defineOwn o n m with
      | none => rfl
      | some o' => exact ih this o'

/-- **the define-one-at-a-time loop refines "convert all, then define all"** when every
    descriptor converts -/
theorem defineList_refines : ∀ (l : List (Name × DescArg)) (o : MObj), WFObj o → allConv l →
    (absObj (defineList o l).1, (defineList o l).2) = defineAll (absObj o) (convOf l) ∧
    WFObj (defineList o l).1 ∧ (defineList o l).1.proto = o.proto := by
  intro l
  induction l with
  | nil => intro o ho _; exact ⟨rfl, ho, rfl⟩
  | cons nd t ih =>
    obtain ⟨n, d⟩ := nd
    intro o ho hall
    have h1 := hall (n, d) List.mem_cons_self
    have hall' : allConv t := fun x hx => hall x (List.mem_cons_of_mem _ hx)
    cases hd : OttoVerif.C07.toPropertyDescriptor d with
    | none => rw [hd] at h1; cases h1
    | some m =>
      simp only [defineList, convOf, defineAll, hd]
      cases hm : defineOwn o n m with
      | none =>
        have hr := defineOwnProperty_refines o n m ho (toPropertyDescriptor_wf d m hd)
        rw [hm] at hr
        simp only [Option.map_none] at hr
        simp only [← hr]
        refine ⟨?_, ho, ?_⟩ <;> first | rfl | trivial
      | some o' =>
        have hr := defineOwnProperty_refines o n m ho (toPropertyDescriptor_wf d m hd)
        rw [hm] at hr
        simp only [Option.map_some] at hr
        simp only [← hr]
        have hw' := defineOwn_wf o o' n m ho (WFDesc.weak (toPropertyDescriptor_wf d m hd)) hm
        obtain ⟨i1, i2, i3⟩ := ih o' hw' hall'
        exact ⟨i1, i2, i3.trans (defineOwn_shape o o' n m hm).1⟩

/-- the converted list otto builds when every descriptor converts -/
def mconv : List (Name × DescArg) → List (Name × MProp)
  | [] => []
  | (n, d) :: t => (n, match OttoVerif.C07.toPropertyDescriptor d with | some m => m | none => ⟨.nil, ⟨.unset, .unset, .unset⟩⟩) :: mconv t

theorem convertAll_all (l : List (Name × DescArg)) (h : allConv l) : convertAll l = some (mconv l) := by
  induction l with
  | nil => rfl
  | cons nd t ih =>
    obtain ⟨n, d⟩ := nd
    have h1 := h (n, d) List.mem_cons_self
    have h2 := ih (fun x hx => h x (List.mem_cons_of_mem _ hx))
    cases hd : OttoVerif.C07.toPropertyDescriptor d with
    | none => rw [hd] at h1; cases h1
    | some m => simp only [convertAll, hd, h2, mconv]

theorem convertAll_notAll (l : List (Name × DescArg)) (h : ¬ allConv l) : convertAll l = none := by
  induction l with
  | nil => exact absurd (fun _ hx => by cases hx) h
  | cons nd t ih =>
    obtain ⟨n, d⟩ := nd
    cases hd : OttoVerif.C07.toPropertyDescriptor d with
    | none => simp only [convertAll, hd]
    | some m =>
      have : ¬ allConv t := by
        intro ht
        apply h
        intro x hx
        rcases List.mem_cons.1 hx with hx | hx
        · subst hx; simp [hd]
        · exact ht x hx
      simp only [convertAll, hd, ih this]

/-- when every descriptor converts, "convert all, then define" is the one-at-a-time loop -/
theorem defineConverted_mconv : ∀ (l : List (Name × DescArg)) (o : MObj), allConv l →
    defineConverted o (mconv l) = defineList o l := by
  intro l
  induction l with
  | nil => intro o _; rfl
  | cons nd t ih =>
    obtain ⟨n, d⟩ := nd
    intro o hall
    have h1 := hall (n, d) List.mem_cons_self
    cases hd : OttoVerif.C07.toPropertyDescriptor d with
    | none => rw [hd] at h1; cases h1
    | some m =>
      simp only [mconv, defineConverted, defineList, hd]
      cases defineOwn o n m with
      | none => rfl
      | some o' => exact ih o' (fun x hx => hall x (List.mem_cons_of_mem _ hx))

theorem list_set_self (h : MHeap) (a : Nat) (o : MObj) (ho : h[a]? = some o) : h.set a o = h := by
  apply List.ext_getElem?
  intro i
  by_cases hi : a = i
  · subst hi
    have ha : a < h.length := by
      rcases Nat.lt_or_ge a h.length with hlt | hge
      · exact hlt
      · rw [List.getElem?_eq_none hge] at ho; cases ho
    rw [List.getElem?_set]
    simp only [if_true, ha]
    exact ho.symm
  · simp [List.getElem?_set, hi]

/-- **Object.defineProperties refines §15.2.3.7** (all descriptors are converted before any property
    is defined), and keeps the invariants -/
theorem defs_refines (h : MHeap) (a : Addr) (l : List (Name × DescArg)) (hi : Inv h) :
    StepRefines h (.defs a l) ∧ Inv (step h (.defs a l)).1 := by
  simp only [StepRefines, step, Spec.step, absHeap_get]
  cases ho : h[a]? with
  | none => exact ⟨⟨rfl, rfl⟩, hi⟩
  | some o =>
    simp only [Option.map_some]
    by_cases hall : allConv l
    · obtain ⟨h1, h2, h3⟩ := defineList_refines l o (hi.1 a o ho) hall
      have hdp : Spec.defineProperties (absObj o) l = (absObj (defineList o l).1, (defineList o l).2) := by
        simp only [Spec.defineProperties, convertList_all l hall, h1]
      simp only [hdp, convertAll_all l hall, defineConverted_mconv l o hall]
      cases hr : defineList o l with
      | mk o' b =>
        rw [hr] at h2 h3
        exact ⟨by cases b <;> simp [absHeap_set], inv_set h a o o' hi ho h2 h3⟩
    · have hdp : Spec.defineProperties (absObj o) l = (absObj o, true) := by
        simp only [Spec.defineProperties, convertList_notAll _ hall]
      simp only [hdp, convertAll_notAll l hall]
      have hs : (absHeap h).set a (absObj o) = absHeap h := by
        rw [← absHeap_set, list_set_self h a o ho]
      exact ⟨by simp [hs], hi⟩

theorem inv_append (h : MHeap) (o' : MObj) (hi : Inv h) (hw : WFObj o')
    (hp : ∀ p : Nat, o'.proto = some p → p < h.length) : Inv (h ++ [o']) := by
  obtain ⟨hwf, hpr⟩ := hi
  constructor
  · intro b q hq
    rw [List.getElem?_append] at hq
    split at hq
    · exact hwf b q hq
    · rename_i hb
      cases hb' : b - h.length with
      | zero => rw [hb'] at hq; simp at hq; subst hq; exact hw
      | succ k => rw [hb'] at hq; simp at hq
  · intro b q p hq hqp
    rw [List.getElem?_append] at hq
    split at hq
    · exact hpr b q p hq hqp
    · rename_i hb
      cases hb' : b - h.length with
      | zero =>
        rw [hb'] at hq; simp at hq; subst hq
        have := hp p hqp
        omega
      | succ k => rw [hb'] at hq; simp at hq

theorem create_core (h : MHeap) (p : Option Addr) (l : List (Name × DescArg)) (hi : Inv h)
    (hp : ∀ q : Nat, p = some q → q < h.length) :
    (absHeap (if (defineList ⟨p, true, []⟩ l).2 = true then (h, Outcome.typeError, ([] : List Call))
        else (h ++ [(defineList ⟨p, true, []⟩ l).1], Outcome.ok, [])).1
      = (if (Spec.defineProperties ⟨p, true, []⟩ l).2 = true then (absHeap h, Outcome.typeError, ([] : List Call))
        else (absHeap h ++ [(Spec.defineProperties ⟨p, true, []⟩ l).1], Outcome.ok, [])).1 ∧
     (if (defineList ⟨p, true, []⟩ l).2 = true then (h, Outcome.typeError, ([] : List Call))
        else (h ++ [(defineList ⟨p, true, []⟩ l).1], Outcome.ok, [])).2
      = (if (Spec.defineProperties ⟨p, true, []⟩ l).2 = true then (absHeap h, Outcome.typeError, ([] : List Call))
        else (absHeap h ++ [(Spec.defineProperties ⟨p, true, []⟩ l).1], Outcome.ok, [])).2) ∧
    Inv (if (defineList ⟨p, true, []⟩ l).2 = true then (h, Outcome.typeError, ([] : List Call))
        else (h ++ [(defineList ⟨p, true, []⟩ l).1], Outcome.ok, [])).1 := by
  by_cases hall : allConv l
  · have hw0 : WFObj (⟨p, true, []⟩ : MObj) := fun kp hkp => by cases hkp
    obtain ⟨h1, h2, h3⟩ := defineList_refines l ⟨p, true, []⟩ hw0 hall
    have habs : absObj (⟨p, true, []⟩ : MObj) = ⟨p, true, []⟩ := rfl
    have hdp : Spec.defineProperties (⟨p, true, []⟩ : SObj) l = (absObj (defineList ⟨p, true, []⟩ l).1, (defineList ⟨p, true, []⟩ l).2) := by
      simp only [Spec.defineProperties, convertList_all l hall, h1, ← habs]
    simp only [hdp]
    cases hr : defineList ⟨p, true, []⟩ l with
    | mk o' b =>
      rw [hr] at h2 h3
      cases b with
      | true => exact ⟨⟨rfl, rfl⟩, hi⟩
      | false =>
        refine ⟨by simp [absHeap], inv_append h o' hi h2 ?_⟩
        intro q hq
        rw [h3] at hq
        exact hp q hq
  · have hdp : Spec.defineProperties (⟨p, true, []⟩ : SObj) l = (⟨p, true, []⟩, true) := by
      simp only [Spec.defineProperties, convertList_notAll _ hall]
    simp only [hdp]
    have := defineList_throws l hall ⟨p, true, []⟩
    simp only [this]
    exact ⟨⟨rfl, rfl⟩, hi⟩

/-- **Object.create refines §15.2.3.5** (a failed conversion discards the new object on both sides),
    and keeps the invariants -/
theorem create_refines (h : MHeap) (p : Option Addr) (l : List (Name × DescArg)) (hi : Inv h) :
    StepRefines h (.create p l) ∧ Inv (step h (.create p l)).1 := by
  have hlen : (absHeap h).length = h.length := by simp [absHeap]
  simp only [StepRefines, step, Spec.step, hlen]
  cases p with
  | none => simpa using create_core h none l hi (fun q hq => by cases hq)
  | some pa =>
    by_cases hpa : pa < h.length
    · simpa [hpa] using create_core h (some pa) l hi (fun q hq => by cases hq; exact hpa)
    · simp only [hpa, if_false]; exact ⟨⟨rfl, rfl⟩, hi⟩

/-! ## observations -/

/-- **fromPropertyDescriptor refines §8.10.4** on well-formed stored properties (after fix f48e83f) -/
theorem fromPropertyDescriptor_refines (p : MProp) (hp : WFProp p) :
    Spec.fromPropertyDescriptor (absProp p) = OttoVerif.C07.fromPropertyDescriptor p := by
  obtain ⟨v, ⟨w, e, c⟩⟩ := p
  cases v with
  | nil => exact hp.elim
  | val v => simp [Spec.fromPropertyDescriptor, OttoVerif.C07.fromPropertyDescriptor, absProp, MProp.isDataDescriptor]
  | gs g s => simp [Spec.fromPropertyDescriptor, OttoVerif.C07.fromPropertyDescriptor, absProp]

/-- **round trip** fromPropertyDescriptor ∘ (create from) toPropertyDescriptor: defining a fresh property
    from any accepted descriptor object and reading it back gives the §8.12.9-step-4 defaults -/
theorem descriptor_roundtrip (d : DescArg) (m : MProp) (h : OttoVerif.C07.toPropertyDescriptor d = some m) :
    OttoVerif.C07.fromPropertyDescriptor (createProp m) =
      Spec.fromPropertyDescriptor (sCreateProp (absDesc m)) := by
  have hw : WFDesc m := toPropertyDescriptor_wf d m h
  rw [← createProp_refines m hw, fromPropertyDescriptor_refines _ (createProp_wf m (WFDesc.weak hw))]

theorem ownKeys_abs (o : MObj) (all : Bool) : ownKeys (absObj o) all = enumerate o all := by
  simp only [ownKeys, enumerate, absObj, absProps, List.filter_map, List.map_map]
  congr 1
  apply List.filter_congr
  intro kp _
  simp [Function.comp, enumerable_abs]

theorem isSealed_abs (o : MObj) :
    ((absObj o).props.all (fun kp => !kp.2.configurable) && !(absObj o).ext) =
      (if o.ext then false else o.props.all (fun kp => !kp.2.configurable)) := by
  have : (absObj o).props.all (fun kp => !kp.2.configurable) = o.props.all (fun kp => !kp.2.configurable) := by
    simp [absObj, absProps, List.all_map, Function.comp_def, configurable_abs]
  rw [this]
  simp only [absObj]
  cases o.ext <;> simp

theorem frozen_prop_abs (p : MProp) (hp : WFProp p) :
    (match absProp p with | .data _ w _ c => !w && !c | .acc _ _ _ c => !c) = !(p.configurable || p.writable) := by
  obtain ⟨v, ⟨w, e, c⟩⟩ := p
  cases v with
  | nil => exact hp.elim
  | val v => cases w <;> cases c <;> simp [absProp, tb]
  | gs g s =>
    obtain ⟨_, _, hw⟩ := hp
    simp only at hw
    subst hw
    cases c <;> simp [absProp, tb]

theorem frozen_all_abs (l : List (Name × MProp)) (hl : ∀ kp, kp ∈ l → WFProp kp.2) :
    (absProps l).all (fun kp => match kp.2 with | .data _ w _ c => !w && !c | .acc _ _ _ c => !c)
      = l.all (fun kp => !(kp.2.configurable || kp.2.writable)) := by
  induction l with
  | nil => rfl
  | cons kp t ih =>
    have h1 := frozen_prop_abs kp.2 (hl kp List.mem_cons_self)
    have h2 := ih (fun x hx => hl x (List.mem_cons_of_mem _ hx))
    simp only [absProps, List.map, List.all_cons] at h2 ⊢
    rw [h1, h2]

theorem isFrozen_abs (o : MObj) (ho : WFObj o) :
    ((absObj o).props.all (fun kp => match kp.2 with | .data _ w _ c => !w && !c | .acc _ _ _ c => !c) && !(absObj o).ext) =
      (if o.ext then false else o.props.all (fun kp => !(kp.2.configurable || kp.2.writable))) := by
  have := frozen_all_abs o.props ho
  simp only [absObj] at this ⊢
  rw [this]
  cases o.ext <;> simp

theorem isSome_alookup_contains {α} (n : Name) (l : List (Name × α)) :
    (alookup n l).isSome = (akeys l).contains n := by
  induction l with
  | nil => rfl
  | cons kp t ih =>
    obtain ⟨k, q⟩ := kp
    simp only [alookup, akeys, List.map, List.contains_cons] at ih ⊢
    by_cases hk : k = n
    · subst hk; simp
    · have : (n == k) = false := by simp [Ne.symm hk]
      simp [hk, this, ih]

/-- `seen` (names) describes exactly the own properties of the objects at `prev` -/
def SeenRel (h : MHeap) (prev : List Addr) (seen : List Name) : Prop :=
  ∀ n, shadowedBy h prev n = seen.contains n

theorem seenRel_snoc (h : MHeap) (prev : List Addr) (seen : List Name) (a : Addr) (o : MObj)
    (hr : SeenRel h prev seen) (ho : h[a]? = some o) : SeenRel h (prev ++ [a]) (seen ++ akeys o.props) := by
  intro n
  have e : shadowedBy h (prev ++ [a]) n = (shadowedBy h prev n || (alookup n o.props).isSome) := by
    simp only [shadowedBy, List.any_append, List.any_cons, List.any_nil, Bool.or_false, ho]
  rw [e, hr n, isSome_alookup_contains, List.contains_append]

/-- **for-in refines §12.6.4** (after fix cb72f5e: own properties first, then the prototype's, a name
    is skipped when an earlier object of the chain has a property of that name) -/
theorem forIn_refines (h : MHeap) : ∀ (f : Nat) (x : Option Addr) (prev : List Addr) (seen : List Name),
    SeenRel h prev seen → Spec.forIn (absHeap h) f x seen = forIn h f x prev := by
  intro f
  induction f with
  | zero => intro x prev seen _; rfl
  | succ f ih =>
    intro x prev seen hr
    cases x with
    | none => rfl
    | some a =>
      simp only [Spec.forIn, forIn, absHeap_get]
      cases ho : h[a]? with
      | none => rfl
      | some o =>
        simp only [Option.map_some, ownKeys_abs]
        have hk : akeys (absObj o).props = akeys o.props := by simp [absObj, akeys_absProps]
        have hp : (absObj o).proto = o.proto := rfl
        rw [hk, hp, ih o.proto _ _ (seenRel_snoc h prev seen a o hr ho)]
        congr 1
        apply List.filter_congr
        intro n _
        rw [hr n]

theorem observeName_refines (h : MHeap) (a : Addr) (o : MObj) (ho : WFObj o) (n : Name) :
    Spec.observeName (absHeap h) a (absObj o) n = observeName h a o n := by
  have hlk : alookup n (absObj o).props = (alookup n o.props).map absProp := by simp [absObj, alookup_absProps]
  simp only [Spec.observeName, observeName, get_refines, hasProperty_refines, hlk]
  cases hl : alookup n o.props with
  | none => rfl
  | some p => simp [enumerable_abs, fromPropertyDescriptor_refines p (ho _ (alookup_mem hl))]

/-- every observation of one object (isExtensible/isSealed/isFrozen, keys, getOwnPropertyNames,
    for-in, and per name: value, in, hasOwnProperty, propertyIsEnumerable, own descriptor) agrees
    for a well-formed object -/
theorem observeObj_refines (h : MHeap) (a : Addr) (o : MObj) (ho : WFObj o) :
    Spec.observeObj (absHeap h) a (absObj o) = observeObj h a o := by
  have hk : akeys (absObj o).props = akeys o.props := by simp [absObj, akeys_absProps]
  simp only [Spec.observeObj, observeObj, isSealed_abs, isFrozen_abs o ho, ownKeys_abs, fuel_absHeap, hk,
    forIn_refines h (fuel h) (some a) [] [] (fun _ => rfl)]
  congr 1
  · exact isFrozen_abs o ho
  · apply List.map_congr_left
    intro n _
    exact observeName_refines h a o ho n

theorem observeFrom_refines (h : MHeap) : ∀ (l : List MObj) (k : Nat),
    (∀ (i : Nat) (o : MObj), l[i]? = some o → WFObj o) →
    Spec.observeFrom (absHeap h) k (l.map absObj) = observeFrom h k l := by
  intro l
  induction l with
  | nil => intro k _; rfl
  | cons o t ih =>
    intro k hk
    simp only [List.map, Spec.observeFrom, observeFrom]
    have h0 := hk 0 o rfl
    rw [observeObj_refines h k o h0]
    rw [ih (k + 1) (fun i q hq => hk (i + 1) q (by simpa using hq))]

/-- **all observations agree**: on a well-formed heap the observation vector logged after a
    step is the ES5 one -/
theorem observe_refines (h : MHeap) (hw : WFHeap h) : Spec.observe (absHeap h) = observe h := by
  simp only [Spec.observe, observe]
  have := observeFrom_refines h h 0 (fun i o hio => hw i o hio)
  simpa [absHeap] using this

/-! ## every step, every history -/

theorem append_nil_iff {α} (a b : List α) : a ++ b = [] ↔ a = [] ∧ b = [] := by
  cases a <;> simp

theorem ite_singleton_nil (c : Bool) (s : String) : (if c = true then [s] else []) = [] ↔ c = false := by
  cases c <;> simp

/-- the runtime-created start objects whose initial table is proved well formed and equal to the ES5 table
    (function prototype object, RegExp instance, Date instance); function objects and error instances carry the
    implementation's extra accessors `caller` / `stack`, stored with write digit 0, which the well-formedness
    invariant of these proofs (`gs ⇒ write digit unset`) does not cover – they are checked by correspondence only -/
def provedKind : Kind → Bool
  | .fproto | .regexp | .date => true
  | _ => false

def provedOp : Op → Bool
  | .native k => provedKind k
  | _ => true

/-- every start object of the history is of a proved kind (no restriction on the other operations) -/
def AllProved (ops : List Op) : Prop := ∀ op, op ∈ ops → provedOp op = true

theorem allProved_of_decide (ops : List Op) (h : ops.all provedOp = true) : AllProved ops := by
  intro op hop
  exact List.all_eq_true.1 h op hop

theorem native_refines (h : MHeap) (k : Kind) (hi : Inv h) (hp : provedOp (.native k) = true) :
    StepRefines h (.native k) ∧ Inv (step h (.native k)).1 := by
  have hlen : (absHeap h).length = h.length := by simp [absHeap]
  simp only [StepRefines, step, Spec.step, hlen]
  cases k with
  | fproto =>
    refine ⟨by simp [absHeap, nativeObj, Spec.nativeObj, absObj, absProps, absProp, tb], inv_append h _ hi ?_ (fun p hp => by cases hp)⟩
    intro kp hkp
    simp only [nativeObj, List.mem_cons, List.not_mem_nil, or_false] at hkp
    subst hkp; trivial
  | regexp =>
    refine ⟨by simp [absHeap, nativeObj, Spec.nativeObj, absObj, absProps, absProp, tb], inv_append h _ hi ?_ (fun p hp => by cases hp)⟩
    intro kp hkp
    simp only [nativeObj, List.mem_cons, List.not_mem_nil, or_false] at hkp
    rcases hkp with e | e | e | e | e <;> (subst e; trivial)
  | date =>
    refine ⟨by simp [absHeap, nativeObj, Spec.nativeObj, absObj, absProps], inv_append h _ hi ?_ (fun p hp => by cases hp)⟩
    intro kp hkp
    cases hkp
  | func => cases hp
  | terr => cases hp
  | err => cases hp

/-! ### object literals as start objects (§11.1.5) -/

theorem literalDesc_wf (m : LMember) : WFDesc (literalDesc m) := by
  obtain ⟨k, n, v⟩ := m
  cases k
  · trivial
  · exact ⟨rfl, Or.inl (by decide)⟩
  · exact ⟨rfl, Or.inr (by decide)⟩

theorem literalDesc_abs (m : LMember) : absDesc (literalDesc m) = literalPD m := by
  obtain ⟨k, n, v⟩ := m
  cases k <;> rfl

/-- the member-by-member construction of an object literal refines §11.1.5 step 5 and keeps the object well formed -/
theorem literalFold_refines : ∀ (ms : List LMember) (o : MObj), WFObj o →
    absObj (literalFold o ms) = Spec.literalFold (absObj o) ms ∧ WFObj (literalFold o ms) ∧
    (literalFold o ms).proto = o.proto := by
  intro ms
  induction ms with
  | nil => intro o ho; exact ⟨rfl, ho, rfl⟩
  | cons m t ih =>
    intro o ho
    simp only [literalFold, Spec.literalFold]
    have hr := defineOwnProperty_refines o m.2.1 (literalDesc m) ho (literalDesc_wf m)
    rw [literalDesc_abs] at hr
    rw [← hr]
    cases hm : defineOwn o m.2.1 (literalDesc m) with
    | none => exact ih o ho
    | some o' =>
      simp only [Option.map_some, Option.getD]
      have hw' := defineOwn_wf o o' m.2.1 _ ho (WFDesc.weak (literalDesc_wf m)) hm
      obtain ⟨i1, i2, i3⟩ := ih o' hw'
      exact ⟨i1, i2, i3.trans (defineOwn_shape o o' m.2.1 _ hm).1⟩

/-- **an object literal as a step**: outside the C04 region `object_literal_duplicate_property` the object otto
    builds is the ES5 one -/
theorem literal_refines (h : MHeap) (ms : List LMember) (hi : Inv h) (hd : devLiteral (.literal ms) = false) :
    StepRefines h (.literal ms) ∧ Inv (step h (.literal ms)).1 := by
  have hw0 : WFObj (⟨none, true, []⟩ : MObj) := fun kp hkp => by cases hkp
  obtain ⟨h1, h2, h3⟩ := literalFold_refines ms ⟨none, true, []⟩ hw0
  simp only [devLiteral] at hd
  simp only [StepRefines, step, Spec.step, hd, Bool.false_eq_true, if_false]
  have habs : absObj (⟨none, true, []⟩ : MObj) = ⟨none, true, []⟩ := rfl
  rw [habs] at h1
  refine ⟨by simp [absHeap, h1], inv_append h _ hi h2 ?_⟩
  intro p hp
  rw [h3] at hp
  cases hp

/-- **every modelled operation**: a step from a heap satisfying the invariants that is not in
    `strict_ignored` (the only region left) refines the ES5 step (same heap under abstraction, same outcome / TypeError,
    same setter calls) and re-establishes the invariants -/
theorem step_refines (h : MHeap) (op : Op) (hi : Inv h) (hp : provedOp op = true)
    (hd : devStep h op (step h op).1 = []) :
    StepRefines h op ∧ Inv (step h op).1 := by
  have hs : devStrict h op = false := by
    simp only [devStep, append_nil_iff] at hd
    cases hc : devStrict h op with
    | false => rfl
    | true => rw [hc] at hd; simp at hd
  have hl : devLiteral op = false := by
    simp only [devStep, append_nil_iff] at hd
    cases hc : devLiteral op with
    | false => rfl
    | true => rw [hc] at hd; simp at hd
  rcases op with ⟨ms⟩ | ⟨k⟩ | ⟨s, a, n, v⟩ | ⟨s, a, n⟩ | ⟨a, n, d⟩ | ⟨a, l⟩ | ⟨p, l⟩ | ⟨a⟩ | ⟨a⟩ | ⟨a⟩
  · exact literal_refines h ms hi hl
  · exact native_refines h k hi hp
  · exact ⟨put_refines h s a n v hi hs, put_inv h s a n v hi⟩
  · exact ⟨delete_refines h s a n hs, delete_inv h s a n hi⟩
  · exact defn_refines h a n d hi
  · exact defs_refines h a l hi
  · exact create_refines h p l hi
  · exact freeze_refines h a hi
  · exact seal_refines h a hi
  · exact ⟨preventExt_refines h a, preventExt_inv h a hi⟩

/-- **history_refines**: any finite history of the modelled operations, started on a heap satisfying
    the invariants, that stays outside the one remaining region `strict_ignored`, is observationally equal to ES5 –
    same outcome (incl. TypeError) and setter calls at every step and the same full observation
    vector after every step. -/
theorem history_refines_from : ∀ (ops : List Op) (h : MHeap), Inv h → AllProved ops → devRun h ops = [] →
    run h ops = Spec.run (absHeap h) ops := by
  intro ops
  induction ops with
  | nil => intro h _ _ _; rfl
  | cons op ops ih =>
    intro h hi hp hd
    simp only [devRun, append_nil_iff] at hd
    obtain ⟨⟨hs1, hs2⟩, hinv⟩ := step_refines h op hi (hp op List.mem_cons_self) hd.1
    have hobs := observe_refines (step h op).1 hinv.1
    simp only [run, Spec.run]
    rw [← hs1, ← hobs, ← ih (step h op).1 hinv (fun x hx => hp x (List.mem_cons_of_mem _ hx)) hd.2]
    cases hr : step h op with
    | mk h' oc =>
      cases hr' : Spec.step (absHeap h) op with
      | mk sh' soc =>
        rw [hr, hr'] at hs2
        simp only at hs2
        subst hs2
        rfl

theorem inv_nil : Inv ([] : MHeap) := ⟨fun a o h => by simp at h, fun a o p h => by simp at h⟩

/-- **history_refines** from the empty heap, exactly as the driver runs requests: if the driver reports
    `dev = -` for a history then model = spec on it. -/
theorem history_refines (ops : List Op) (hp : AllProved ops) (hd : devRun [] ops = []) :
    run [] ops = Spec.run [] ops :=
  history_refines_from ops [] inv_nil hp hd

/-! ## whole-history invariants of otto's object model -/

theorem PStable_iff (prop p' : MProp) :
    PStable prop p' ↔ tb p'.mode.c = false ∧ tb p'.mode.e = tb prop.mode.e ∧ isVal p'.value = isVal prop.value ∧
      (tb prop.mode.w = false → p'.value = prop.value ∧ tb p'.mode.w = false) := by
  simp only [PStable, Prod.mk.injEq]
  cases tb prop.mode.w <;> simp

theorem PStable.refl (prop : MProp) (hc : tb prop.mode.c = false) : PStable prop prop := by
  rw [PStable_iff]; exact ⟨hc, rfl, rfl, fun h => ⟨rfl, h⟩⟩

theorem PStable.trans {p q r : MProp} (h1 : PStable p q) (h2 : PStable q r) : PStable p r := by
  rw [PStable_iff] at *
  obtain ⟨a1, a2, a3, a4⟩ := h1
  obtain ⟨b1, b2, b3, b4⟩ := h2
  refine ⟨b1, b2.trans a2, b3.trans a3, fun hw => ?_⟩
  obtain ⟨c1, c2⟩ := a4 hw
  obtain ⟨d1, d2⟩ := b4 c2
  exact ⟨d1.trans c1, d2⟩

/-- how the key sequence (= propertyOrder) of one object may evolve: new names are appended at the
    end, deleted names are removed, nothing is ever reordered -/
inductive KeyEvol : List Name → List Name → Prop
  | refl (ks : List Name) : KeyEvol ks ks
  | snoc {ks ks' : List Name} (n : Name) : KeyEvol ks ks' → n ∉ ks' → KeyEvol ks (ks' ++ [n])
  | erase {ks ks' : List Name} (n : Name) : KeyEvol ks ks' → KeyEvol ks (ks'.erase n)

theorem KeyEvol.trans {a b c : List Name} (h1 : KeyEvol a b) (h2 : KeyEvol b c) : KeyEvol a c := by
  induction h2 with
  | refl => exact h1
  | snoc n _ hn ih => exact KeyEvol.snoc n ih hn
  | erase n _ ih => exact KeyEvol.erase n ih

/-- no key twice -/
theorem KeyEvol.nodup {a b : List Name} (h : KeyEvol a b) (ha : a.Nodup) : b.Nodup := by
  induction h with
  | refl => exact ha
  | snoc n _ hn ih =>
    rw [List.nodup_append]
    refine ⟨ih, by simp, ?_⟩
    intro x hx y hy
    simp at hy
    subst hy
    intro e
    subst e
    exact hn hx
  | erase n _ ih => exact ih.erase n

theorem akeys_aerase {α} (n : Name) (l : List (Name × α)) : akeys (aerase n l) = (akeys l).erase n := by
  induction l with
  | nil => rfl
  | cons kp t ih =>
    obtain ⟨k, q⟩ := kp
    simp only [aerase, akeys, List.map] at ih ⊢
    by_cases hk : k = n
    · subst hk; simp
    · have : (k == n) = false := by simp [hk]
      simp [hk, List.erase_cons, this, ih]

theorem not_mem_akeys_of_alookup_none {α} (n : Name) (l : List (Name × α)) (h : alookup n l = none) : n ∉ akeys l := by
  have := isSome_alookup_contains n l
  rw [h] at this
  intro hm
  have : (akeys l).contains n = true := by simpa using hm
  simp_all

/-- what every operation may do to one object -/
structure Evolves (o o' : MObj) : Prop where
  proto : o'.proto = o.proto
  ext : o.ext = false → o'.ext = false
  keys : KeyEvol (akeys o.props) (akeys o'.props)
  noGrowth : o.ext = false → ∀ k, k ∈ akeys o'.props → k ∈ akeys o.props
  stable : ∀ n prop, alookup n o.props = some prop → tb prop.mode.c = false →
    ∃ p', alookup n o'.props = some p' ∧ PStable prop p'

theorem Evolves.refl (o : MObj) : Evolves o o :=
  ⟨rfl, id, KeyEvol.refl _, fun _ _ h => h, fun _ prop h hc => ⟨prop, h, PStable.refl prop hc⟩⟩

theorem Evolves.trans {a b c : MObj} (h1 : Evolves a b) (h2 : Evolves b c) : Evolves a c := by
  refine ⟨h2.proto.trans h1.proto, fun h => h2.ext (h1.ext h), h1.keys.trans h2.keys,
    fun h k hk => h1.noGrowth h k (h2.noGrowth (h1.ext h) k hk), ?_⟩
  intro n prop hl hc
  obtain ⟨p', hl', hs'⟩ := h1.stable n prop hl hc
  have hc' : tb p'.mode.c = false := ((PStable_iff prop p').1 hs').1
  obtain ⟨p'', hl'', hs''⟩ := h2.stable n p' hl' hc'
  exact ⟨p'', hl'', hs'.trans hs''⟩

theorem configurable_tb (p : MProp) : p.configurable = tb p.mode.c := by
  obtain ⟨v, ⟨w, e, c⟩⟩ := p; simp

/-- **every accepted [[DefineOwnProperty]] is an allowed evolution** (no region excluded) -/
theorem defineOwn_evolves (o o' : MObj) (n : Name) (d : MProp) (ho : WFObj o)
    (hd : WFDesc d ∨ (WFDescW d ∧ ∀ prop, alookup n o.props = some prop → d.value = prop.value))
    (h : defineOwn o n d = some o') : Evolves o o' := by
  obtain ⟨hp, he, hk⟩ := defineOwn_shape o o' n d h
  have hkeys : KeyEvol (akeys o.props) (akeys o'.props) := by
    rcases hk with hk | ⟨_, hn, hk⟩
    · rw [hk]; exact KeyEvol.refl _
    · rw [hk]; exact KeyEvol.snoc n (KeyEvol.refl _) (not_mem_akeys_of_alookup_none n _ hn)
  refine ⟨hp, fun hx => he.trans hx, hkeys, ?_, ?_⟩
  · intro hx k hk'
    rcases hk with hk | ⟨hext, _, _⟩
    · rw [hk] at hk'; exact hk'
    · rw [hx] at hext; cases hext
  · intro m prop hl hc
    rw [defineOwn_eq] at h
    cases hln : alookup n o.props with
    | none =>
      rw [hln] at h
      simp only at h
      cases hx : o.ext with
      | false => simp [hx] at h
      | true =>
        simp only [hx, Bool.not_true, Bool.false_eq_true, if_false, Option.some.injEq] at h
        subst h
        have hmn : n ≠ m := by intro e; subst e; rw [hln] at hl; cases hl
        exact ⟨prop, by simp [alookup_aupsert, hmn, hl], PStable.refl prop hc⟩
    | some cur =>
      rw [hln] at h
      simp only at h
      cases hm : defineProp cur d with
      | none => rw [hm] at h; simp at h
      | some r =>
        rw [hm] at h
        simp only [Option.map_some, Option.some.injEq] at h
        subst h
        cases r with
        | none => exact ⟨prop, hl, PStable.refl prop hc⟩
        | some p =>
          by_cases hmn : n = m
          · subst hmn
            rw [hln] at hl
            cases hl
            refine ⟨p, by simp [alookup_aupsert], ?_⟩
            refine defineProp_stable prop d p (ho _ (alookup_mem hln)) ?_ hc hm
            rcases hd with hd | ⟨hd1, hd2⟩
            · exact Or.inl hd
            · exact Or.inr ⟨hd1, hd2 prop hln⟩
          · exact ⟨prop, by simp [alookup_aupsert, hmn, hl], PStable.refl prop hc⟩

theorem literalFold_evolves : ∀ (ms : List LMember) (o : MObj), WFObj o → Evolves o (literalFold o ms) := by
  intro ms
  induction ms with
  | nil => intro o _; exact Evolves.refl o
  | cons m t ih =>
    intro o ho
    simp only [literalFold]
    cases hm : defineOwn o m.2.1 (literalDesc m) with
    | none => exact ih o ho
    | some o' =>
      simp only [Option.getD]
      have hw' := defineOwn_wf o o' m.2.1 _ ho (WFDesc.weak (literalDesc_wf m)) hm
      exact (defineOwn_evolves o o' m.2.1 _ ho (Or.inl (literalDesc_wf m)) hm).trans (ih o' hw')

/-- heaps: every existing object evolves in an allowed way (new objects may be appended) -/
def HEvolves (h h' : MHeap) : Prop := ∀ (a : Nat) (o : MObj), h[a]? = some o → ∃ o', h'[a]? = some o' ∧ Evolves o o'

theorem HEvolves.refl (h : MHeap) : HEvolves h h := fun _ o ho => ⟨o, ho, Evolves.refl o⟩

theorem HEvolves.trans {a b c : MHeap} (h1 : HEvolves a b) (h2 : HEvolves b c) : HEvolves a c := by
  intro x o ho
  obtain ⟨o', ho', e1⟩ := h1 x o ho
  obtain ⟨o'', ho'', e2⟩ := h2 x o' ho'
  exact ⟨o'', ho'', e1.trans e2⟩

theorem hevolves_set (h : MHeap) (a : Nat) (o o' : MObj) (ho : h[a]? = some o) (he : Evolves o o') :
    HEvolves h (h.set a o') := by
  intro b q hq
  by_cases hab : a = b
  · subst hab
    rw [ho] at hq
    cases hq
    have ha : a < h.length := by
      rcases Nat.lt_or_ge a h.length with hlt | hge
      · exact hlt
      · rw [List.getElem?_eq_none hge] at ho; cases ho
    exact ⟨o', by simp [List.getElem?_set, ha], he⟩
  · exact ⟨q, by simp [List.getElem?_set, hab, hq], Evolves.refl q⟩

theorem hevolves_append (h : MHeap) (o' : MObj) : HEvolves h (h ++ [o']) := by
  intro b q hq
  have hb : b < h.length := by
    rcases Nat.lt_or_ge b h.length with hlt | hge
    · exact hlt
    · rw [List.getElem?_eq_none hge] at hq; cases hq
  exact ⟨q, by rw [List.getElem?_append_left hb]; exact hq, Evolves.refl q⟩

/-- changing only the extensible flag to false -/
theorem evolves_preventExt (o : MObj) : Evolves o { o with ext := false } :=
  ⟨rfl, fun _ => rfl, KeyEvol.refl _, fun _ _ h => h, fun _ prop h hc => ⟨prop, h, PStable.refl prop hc⟩⟩

/-- delete: only a configurable property disappears -/
theorem evolves_delete (o : MObj) (n : Name) (prop : MProp) (hl : alookup n o.props = some prop)
    (hc : prop.configurable = true) : Evolves o { o with props := aerase n o.props } := by
  refine ⟨rfl, id, ?_, ?_, ?_⟩
  · rw [akeys_aerase]; exact KeyEvol.erase n (KeyEvol.refl _)
  · intro _ k hk
    rw [akeys_aerase] at hk
    exact List.mem_of_mem_erase hk
  · intro m p hm hcm
    have hmn : m ≠ n := by
      intro e; subst e
      rw [hl] at hm; cases hm
      rw [configurable_tb] at hc
      rw [hc] at hcm; cases hcm
    exact ⟨p, by simp only [alookup_aerase m n _ hmn]; exact hm, PStable.refl p hcm⟩

/-- the define-one-at-a-time loop (Object.create): allowed evolution and well-formedness -/
theorem defineList_evolves : ∀ (l : List (Name × DescArg)) (o : MObj), WFObj o →
    Evolves o (defineList o l).1 ∧ WFObj (defineList o l).1 := by
  intro l
  induction l with
  | nil => intro o ho; exact ⟨Evolves.refl o, ho⟩
  | cons nd t ih =>
    obtain ⟨n, d⟩ := nd
    intro o ho
    simp only [defineList]
    cases hd : OttoVerif.C07.toPropertyDescriptor d with
    | none => exact ⟨Evolves.refl o, ho⟩
    | some m =>
      simp only
      cases hm : defineOwn o n m with
      | none => exact ⟨Evolves.refl o, ho⟩
      | some o' =>
        have hwd := toPropertyDescriptor_wf d m hd
        have hw' := defineOwn_wf o o' n m ho (WFDesc.weak hwd) hm
        obtain ⟨e2, w2⟩ := ih o' hw'
        exact ⟨(defineOwn_evolves o o' n m ho (Or.inl hwd) hm).trans e2, w2⟩

theorem convertAll_wf : ∀ (l : List (Name × DescArg)) (ds : List (Name × MProp)), convertAll l = some ds →
    ∀ nm, nm ∈ ds → WFDesc nm.2 := by
  intro l
  induction l with
  | nil => intro ds h nm hnm; simp only [convertAll, Option.some.injEq] at h; subst h; cases hnm
  | cons nd t ih =>
    obtain ⟨n, d⟩ := nd
    intro ds h nm hnm
    simp only [convertAll] at h
    cases hd : OttoVerif.C07.toPropertyDescriptor d with
    | none => rw [hd] at h; cases h
    | some m =>
      rw [hd] at h
      simp only at h
      cases hr : convertAll t with
      | none => rw [hr] at h; cases h
      | some r =>
        rw [hr] at h
        simp only [Option.some.injEq] at h
        subst h
        rcases List.mem_cons.1 hnm with e | e
        · subst e; exact toPropertyDescriptor_wf d m hd
        · exact ih r hr nm e

/-- Object.defineProperties step 7: allowed evolution and well-formedness -/
theorem defineConverted_evolves : ∀ (ds : List (Name × MProp)) (o : MObj), WFObj o → (∀ nm, nm ∈ ds → WFDesc nm.2) →
    Evolves o (defineConverted o ds).1 ∧ WFObj (defineConverted o ds).1 := by
  intro ds
  induction ds with
  | nil => intro o ho _; exact ⟨Evolves.refl o, ho⟩
  | cons nm t ih =>
    obtain ⟨n, m⟩ := nm
    intro o ho hwf
    simp only [defineConverted]
    have hwd : WFDesc m := hwf (n, m) List.mem_cons_self
    cases hm : defineOwn o n m with
    | none => exact ⟨Evolves.refl o, ho⟩
    | some o' =>
      have hw' := defineOwn_wf o o' n m ho (WFDesc.weak hwd) hm
      obtain ⟨e2, w2⟩ := ih o' hw' (fun x hx => hwf x (List.mem_cons_of_mem _ hx))
      exact ⟨(defineOwn_evolves o o' n m ho (Or.inl hwd) hm).trans e2, w2⟩

theorem freezeStep_evolves (o o' : MObj) (n : Name) (prop : MProp) (ho : WFObj o) (hl : alookup n o.props = some prop)
    (h : freezeStep o n prop = some o') : Evolves o o' := by
  simp only [freezeStep] at h
  split at h
  · refine defineOwn_evolves o o' n _ ho (Or.inr ⟨freezeDesc_wfw prop (ho _ (alookup_mem hl)), ?_⟩) h
    intro q hq; rw [hl] at hq; cases hq; exact freezeDesc_value prop
  · cases h; exact Evolves.refl o

theorem freezeLoop_evolves : ∀ (ns : List Name) (o : MObj), WFObj o → Evolves o (freezeLoop o ns).1 := by
  intro ns
  induction ns with
  | nil => intro o _; exact Evolves.refl o
  | cons n ns ih =>
    intro o ho
    rw [freezeLoop_cons]
    cases hl : alookup n o.props with
    | none => exact ih o ho
    | some prop =>
      simp only []
      cases hs : freezeStep o n prop with
      | none => exact Evolves.refl o
      | some o' =>
        exact (freezeStep_evolves o o' n prop ho hl hs).trans (ih o' (freezeStep_wf o o' n prop ho hl hs).1)

theorem sealStep_evolves (o o' : MObj) (n : Name) (prop : MProp) (ho : WFObj o) (hl : alookup n o.props = some prop)
    (h : sealStep o n prop = some o') : Evolves o o' := by
  simp only [sealStep] at h
  split at h
  · refine defineOwn_evolves o o' n _ ho (Or.inr ⟨sealDesc_wfw prop (ho _ (alookup_mem hl)), ?_⟩) h
    intro q hq; rw [hl] at hq; cases hq; exact sealDesc_value prop
  · cases h; exact Evolves.refl o

theorem sealLoop_evolves : ∀ (ns : List Name) (o : MObj), WFObj o → Evolves o (sealLoop o ns).1 := by
  intro ns
  induction ns with
  | nil => intro o _; exact Evolves.refl o
  | cons n ns ih =>
    intro o ho
    rw [sealLoop_cons]
    cases hl : alookup n o.props with
    | none => exact ih o ho
    | some prop =>
      simp only []
      cases hs : sealStep o n prop with
      | none => exact Evolves.refl o
      | some o' =>
        exact (sealStep_evolves o o' n prop ho hl hs).trans (ih o' (sealStep_wf o o' n prop ho hl hs).1)

/-- **every operation is an allowed evolution of every object** and keeps the heap invariants –
    unconditionally (also for the strict-mode operations otto treats as sloppy) -/
theorem step_evolves (h : MHeap) (op : Op) (hi : Inv h) (hp : provedOp op = true) :
    HEvolves h (step h op).1 ∧ Inv (step h op).1 := by
  rcases op with ⟨ms⟩ | ⟨k⟩ | ⟨s, a, n, v⟩ | ⟨s, a, n⟩ | ⟨a, n, d⟩ | ⟨a, l⟩ | ⟨p, l⟩ | ⟨a⟩ | ⟨a⟩ | ⟨a⟩
  · -- an object literal is appended (also inside the C04 region: the model object is built by defineOwn steps)
    have hw0 : WFObj (⟨none, true, []⟩ : MObj) := fun kp hkp => by cases hkp
    obtain ⟨_, h2, h3⟩ := literalFold_refines ms ⟨none, true, []⟩ hw0
    refine ⟨by simp only [step]; exact hevolves_append h _, ?_⟩
    simp only [step]
    refine inv_append h _ hi h2 ?_
    intro p hp'
    rw [h3] at hp'
    cases hp'
  · -- a runtime-created start object is appended
    exact ⟨by simp only [step]; exact hevolves_append h _, (native_refines h k hi hp).2⟩
  · -- put
    refine ⟨?_, put_inv h s a n v hi⟩
    simp only [step, put]
    cases ho : h[a]? with
    | none => exact HEvolves.refl h
    | some o =>
      simp only []
      split
      · exact HEvolves.refl h
      · exact HEvolves.refl h
      · rename_i prop _
        cases hm : defineOwn o n { prop with value := .val v } with
        | none => exact HEvolves.refl h
        | some o' =>
          exact hevolves_set h a o o' ho (defineOwn_evolves o o' n _ (hi.1 a o ho) (Or.inl (by simp [WFDesc])) hm)
      · cases hm : defineOwn o n ⟨.val v, ⟨.on, .on, .on⟩⟩ with
        | none => exact HEvolves.refl h
        | some o' =>
          exact hevolves_set h a o o' ho (defineOwn_evolves o o' n _ (hi.1 a o ho) (Or.inl (by simp [WFDesc])) hm)
  · -- delete
    refine ⟨?_, delete_inv h s a n hi⟩
    simp only [step, delete]
    cases ho : h[a]? with
    | none => exact HEvolves.refl h
    | some o =>
      simp only []
      cases hl : alookup n o.props with
      | none => exact HEvolves.refl h
      | some prop =>
        simp only []
        split
        · rename_i hc
          exact hevolves_set h a o _ ho (evolves_delete o n prop hl hc)
        · exact HEvolves.refl h
  · -- defineProperty
    simp only [step]
    cases ho : h[a]? with
    | none => exact ⟨HEvolves.refl h, hi⟩
    | some o =>
      simp only []
      cases hd : OttoVerif.C07.toPropertyDescriptor d with
      | none => exact ⟨HEvolves.refl h, hi⟩
      | some desc =>
        simp only []
        cases hm : defineOwn o n desc with
        | none => exact ⟨HEvolves.refl h, hi⟩
        | some o' =>
          have hwd := toPropertyDescriptor_wf d desc hd
          exact ⟨hevolves_set h a o o' ho (defineOwn_evolves o o' n desc (hi.1 a o ho) (Or.inl hwd) hm),
            inv_define h a o o' n desc hi ho (WFDesc.weak hwd) hm⟩
  · -- defineProperties
    simp only [step]
    cases ho : h[a]? with
    | none => exact ⟨HEvolves.refl h, hi⟩
    | some o =>
      simp only []
      cases hc : convertAll l with
      | none => exact ⟨HEvolves.refl h, hi⟩
      | some ds =>
        obtain ⟨he, hw⟩ := defineConverted_evolves ds o (hi.1 a o ho) (convertAll_wf l ds hc)
        exact ⟨hevolves_set h a o _ ho he, inv_set h a o _ hi ho hw he.proto⟩
  · -- create
    have hw0 : WFObj (⟨p, true, []⟩ : MObj) := fun kp hkp => by cases hkp
    obtain ⟨he, hw⟩ := defineList_evolves l ⟨p, true, []⟩ hw0
    have core : (∀ q : Nat, p = some q → q < h.length) →
        HEvolves h (if (defineList ⟨p, true, []⟩ l).2 = true then (h, Outcome.typeError, ([] : List Call))
          else (h ++ [(defineList ⟨p, true, []⟩ l).1], Outcome.ok, [])).1 ∧
        Inv (if (defineList ⟨p, true, []⟩ l).2 = true then (h, Outcome.typeError, ([] : List Call))
          else (h ++ [(defineList ⟨p, true, []⟩ l).1], Outcome.ok, [])).1 := by
      intro hp
      cases hb : (defineList ⟨p, true, []⟩ l).2 with
      | true => simp only [if_true]; exact ⟨HEvolves.refl h, hi⟩
      | false =>
        simp only [Bool.false_eq_true, if_false]
        refine ⟨hevolves_append h _, inv_append h _ hi hw ?_⟩
        intro q hq
        rw [he.proto] at hq
        exact hp q hq
    simp only [step]
    cases p with
    | none => simpa using core (fun q hq => by cases hq)
    | some pa =>
      by_cases hpa : pa < h.length
      · simpa [hpa] using core (fun q hq => by cases hq; exact hpa)
      · simp only [hpa, if_false]; exact ⟨HEvolves.refl h, hi⟩
  · -- freeze
    refine ⟨?_, (freeze_refines h a hi).2⟩
    simp only [step]
    cases ho : h[a]? with
    | none => exact HEvolves.refl h
    | some o =>
      have he := freezeLoop_evolves (akeys o.props) o (hi.1 a o ho)
      simp only []
      cases hr : freezeLoop o (akeys o.props) with
      | mk o' b =>
        rw [hr] at he
        cases b with
        | true => exact hevolves_set h a o o' ho he
        | false => exact hevolves_set h a o _ ho (he.trans (evolves_preventExt o'))
  · -- seal
    refine ⟨?_, (seal_refines h a hi).2⟩
    simp only [step]
    cases ho : h[a]? with
    | none => exact HEvolves.refl h
    | some o =>
      have he := sealLoop_evolves (akeys o.props) o (hi.1 a o ho)
      simp only []
      cases hr : sealLoop o (akeys o.props) with
      | mk o' b =>
        rw [hr] at he
        cases b with
        | true => exact hevolves_set h a o o' ho he
        | false => exact hevolves_set h a o _ ho (he.trans (evolves_preventExt o'))
  · -- preventExtensions
    refine ⟨?_, preventExt_inv h a hi⟩
    simp only [step]
    cases ho : h[a]? with
    | none => exact HEvolves.refl h
    | some o => exact hevolves_set h a o _ ho (evolves_preventExt o)

/-- the heap after a history -/
def heapAfter (h : MHeap) : List Op → MHeap
  | [] => h
  | op :: ops => heapAfter (step h op).1 ops

/-- **all histories**: every object present at the start evolves in an allowed way through any
    finite history – unconditionally -/
theorem history_evolves : ∀ (ops : List Op) (h : MHeap), Inv h → AllProved ops →
    HEvolves h (heapAfter h ops) ∧ Inv (heapAfter h ops) := by
  intro ops
  induction ops with
  | nil => intro h hi _; exact ⟨HEvolves.refl h, hi⟩
  | cons op ops ih =>
    intro h hi hp
    obtain ⟨h1, i1⟩ := step_evolves h op hi (hp op List.mem_cons_self)
    obtain ⟨h2, i2⟩ := ih _ i1 (fun x hx => hp x (List.mem_cons_of_mem _ hx))
    exact ⟨h1.trans h2, i2⟩

/-- **inv_nonextensible_no_growth**: a non-extensible object stays non-extensible and never gains a property -/
theorem inv_nonextensible_no_growth (ops : List Op) (h : MHeap) (hi : Inv h) (hp : AllProved ops)
    (a : Nat) (o : MObj) (ho : h[a]? = some o) (hne : o.ext = false) :
    ∃ o', (heapAfter h ops)[a]? = some o' ∧ o'.ext = false ∧ ∀ k, k ∈ akeys o'.props → k ∈ akeys o.props := by
  obtain ⟨o', ho', he⟩ := (history_evolves ops h hi hp).1 a o ho
  exact ⟨o', ho', he.ext hne, he.noGrowth hne⟩

/-- **inv_nonconfigurable_stable**: a non-configurable property is never deleted, never becomes configurable,
    keeps its enumerability and its kind (data / accessor); an accessor keeps its getter and setter -/
theorem inv_nonconfigurable_stable (ops : List Op) (h : MHeap) (hi : Inv h) (hp : AllProved ops)
    (a : Nat) (o : MObj) (n : Name) (prop : MProp) (ho : h[a]? = some o) (hl : alookup n o.props = some prop)
    (hc : prop.configurable = false) :
    ∃ o' p', (heapAfter h ops)[a]? = some o' ∧ alookup n o'.props = some p' ∧
      p'.configurable = false ∧ p'.enumerable = prop.enumerable ∧ isVal p'.value = isVal prop.value ∧
      (isVal prop.value = false → p'.value = prop.value) := by
  obtain ⟨o', ho', he⟩ := (history_evolves ops h hi hp).1 a o ho
  rw [configurable_tb] at hc
  obtain ⟨p', hl', hs⟩ := he.stable n prop hl hc
  rw [PStable_iff] at hs
  obtain ⟨s1, s2, s3, s4⟩ := hs
  refine ⟨o', p', ho', hl', by rw [configurable_tb]; exact s1, ?_, s3, ?_⟩
  · obtain ⟨v, ⟨w, e, c⟩⟩ := prop; obtain ⟨v', ⟨w', e', c'⟩⟩ := p'; simpa using s2
  · intro hv
    have hw := hi.1 a o ho _ (alookup_mem hl)
    obtain ⟨v, ⟨w, e, c⟩⟩ := prop
    cases v with
    | nil => exact hw.elim
    | val v => cases hv
    | gs g s =>
      have : w = .unset := hw.2.2
      subst this
      exact (s4 rfl).1

/-- **inv_nonwritable_stable**: the value of a non-writable, non-configurable data property never changes
    (and it never becomes writable again) -/
theorem inv_nonwritable_stable (ops : List Op) (h : MHeap) (hi : Inv h) (hp : AllProved ops)
    (a : Nat) (o : MObj) (n : Name) (v : Val) (m : Mode) (ho : h[a]? = some o)
    (hl : alookup n o.props = some ⟨.val v, m⟩)
    (hc : (MProp.mk (.val v) m).configurable = false) (hw : (MProp.mk (.val v) m).writable = false) :
    ∃ o' m', (heapAfter h ops)[a]? = some o' ∧ alookup n o'.props = some ⟨.val v, m'⟩ ∧
      (MProp.mk (.val v) m').writable = false ∧ (MProp.mk (.val v) m').configurable = false := by
  obtain ⟨o', ho', he⟩ := (history_evolves ops h hi hp).1 a o ho
  obtain ⟨w, e, c⟩ := m
  simp only [configurable_eq, writable_eq] at hc hw
  obtain ⟨p', hl', hs⟩ := he.stable n _ hl hc
  rw [PStable_iff] at hs
  obtain ⟨s1, _, _, s4⟩ := hs
  obtain ⟨hv, hw'⟩ := s4 hw
  obtain ⟨v', ⟨w', e', c'⟩⟩ := p'
  simp only at hv
  subst hv
  exact ⟨o', ⟨w', e', c'⟩, ho', hl', by simpa using hw', by simpa using s1⟩

/-- **inv_order**: the property order of an object only ever changes by appending a new name at the
    end or removing a deleted name (order = order of first creation of the present keys), and no
    key ever occurs twice -/
theorem inv_order (ops : List Op) (h : MHeap) (hi : Inv h) (hp : AllProved ops)
    (a : Nat) (o : MObj) (ho : h[a]? = some o) :
    ∃ o', (heapAfter h ops)[a]? = some o' ∧ KeyEvol (akeys o.props) (akeys o'.props) ∧
      ((akeys o.props).Nodup → (akeys o'.props).Nodup) := by
  obtain ⟨o', ho', he⟩ := (history_evolves ops h hi hp).1 a o ho
  exact ⟨o', ho', he.keys, he.keys.nodup⟩

/-! ## freeze / seal / preventExtensions establish their predicates -/

def frozenP (p : MProp) : Prop := tb p.mode.c = false ∧ tb p.mode.w = false

theorem freeze_prop_frozen (prop : MProp) (hp : WFProp prop) :
    ((freezeDesc prop).2 = false → frozenP prop) ∧
    (∀ p, defineProp prop (freezeDesc prop).1 = some (some p) → frozenP p) ∧
    (defineProp prop (freezeDesc prop).1 = some none → frozenP prop) := by
  obtain ⟨v, ⟨w, e, c⟩⟩ := prop
  cases v with
  | nil => exact hp.elim
  | val v =>
    cases w <;> cases e <;> cases c <;>
      simp [frozenP, freezeDesc, defineProp, defineSwitch, MProp.isEmpty, MProp.isGenericDescriptor, MProp.isDataDescriptor,
        MProp.isAccessorDescriptor, mergeMode_eq, tritMerge, tb, tset, onbit] <;> (intro p hp; subst hp; simp [tb])
  | gs g s =>
    obtain ⟨hg, hs, hw⟩ := hp
    simp only at hw
    subst hw
    cases g <;> cases s <;> first | exact absurd rfl hg | exact absurd rfl hs |
      (cases e <;> cases c <;>
        simp [frozenP, freezeDesc, defineProp, defineSwitch, MProp.isEmpty, MProp.isGenericDescriptor, MProp.isDataDescriptor,
          MProp.isAccessorDescriptor, mergeMode_eq, tritMerge, tb, tset, onbit, normSlot] <;> (intro p hp; subst hp; simp [tb]))

theorem mem_akeys_of_alookup {α} {n : Name} {x : α} {l : List (Name × α)} (h : alookup n l = some x) : n ∈ akeys l := by
  have := alookup_mem h
  simp only [akeys, List.mem_map]
  exact ⟨(n, x), this, rfl⟩

theorem alookup_of_mem_nodup {α} : ∀ (l : List (Name × α)), (akeys l).Nodup → ∀ kp, kp ∈ l → alookup kp.1 l = some kp.2 := by
  intro l
  induction l with
  | nil => intro _ kp h; cases h
  | cons kq t ih =>
    intro hnd kp hkp
    obtain ⟨k, q⟩ := kq
    simp only [akeys, List.map, List.nodup_cons] at hnd
    rcases List.mem_cons.1 hkp with h | h
    · subst h; simp [alookup]
    · have hne : k ≠ kp.1 := by
        intro e
        apply hnd.1
        simp only [List.mem_map]
        exact ⟨kp, h, e.symm⟩
      simp only [alookup, hne, if_false]
      exact ih hnd.2 kp h

theorem freezeStep_frozen (o o' : MObj) (n : Name) (prop : MProp) (ho : WFObj o) (hl : alookup n o.props = some prop)
    (h : freezeStep o n prop = some o') : ∃ p, alookup n o'.props = some p ∧ frozenP p := by
  obtain ⟨f1, f2, f3⟩ := freeze_prop_frozen prop (ho _ (alookup_mem hl))
  simp only [freezeStep] at h
  by_cases hf : (freezeDesc prop).2 = true
  · simp only [hf, if_true] at h
    rw [defineOwn_eq, hl] at h
    simp only at h
    cases hm : defineProp prop (freezeDesc prop).1 with
    | none => rw [hm] at h; simp at h
    | some r =>
      rw [hm] at h
      simp only [Option.map_some, Option.some.injEq] at h
      subst h
      cases r with
      | none => exact ⟨prop, hl, f3 hm⟩
      | some p => exact ⟨p, by simp [alookup_aupsert], f2 p hm⟩
  · simp only [hf] at h
    cases h
    exact ⟨prop, hl, f1 (by simpa using hf)⟩

theorem frozenP_stable {p p' : MProp} (hf : frozenP p) (hs : PStable p p') : frozenP p' := by
  rw [PStable_iff] at hs
  exact ⟨hs.1, (hs.2.2.2 hf.2).2⟩

/-- after a freeze loop that did not throw, every visited name holds a frozen property -/
theorem freezeLoop_frozen : ∀ (ns : List Name) (o : MObj), WFObj o → (freezeLoop o ns).2 = false →
    ∀ n, n ∈ ns → ∀ p, alookup n (freezeLoop o ns).1.props = some p → frozenP p := by
  intro ns
  induction ns with
  | nil => intro o _ _ n hn; cases hn
  | cons n0 t ih =>
    intro o ho hb n hn p hp
    rw [freezeLoop_cons] at hb hp
    cases hl : alookup n0 o.props with
    | none =>
      rw [hl] at hb hp
      simp only at hb hp
      rcases List.mem_cons.1 hn with e | hn'
      · subst e
        have hk := (freezeLoop_refines t o ho).2.2.2.2
        have := mem_akeys_of_alookup hp
        rw [hk] at this
        exact absurd this (not_mem_akeys_of_alookup_none n o.props hl)
      · exact ih o ho hb n hn' p hp
    | some prop =>
      rw [hl] at hb hp
      simp only at hb hp
      cases hs : freezeStep o n0 prop with
      | none => rw [hs] at hb; cases hb
      | some o1 =>
        rw [hs] at hb hp
        simp only at hb hp
        have hw1 := (freezeStep_wf o o1 n0 prop ho hl hs).1
        by_cases e : n = n0
        · subst e
          obtain ⟨p1, hl1, hf1⟩ := freezeStep_frozen o o1 n prop ho hl hs
          obtain ⟨p', hl', hs'⟩ := (freezeLoop_evolves t o1 hw1).stable n p1 hl1 hf1.1
          rw [hl'] at hp
          cases hp
          exact frozenP_stable hf1 hs'
        · rcases List.mem_cons.1 hn with e' | hn'
          · exact absurd e' e
          · exact ih o1 hw1 hb n hn' p hp

/-- **isFrozen (freeze o)**: when Object.freeze returns normally, the object is non-extensible and
    every own property is non-configurable and non-writable, i.e. `Object.isFrozen` observes true -/
theorem freeze_isFrozen (h : MHeap) (a : Addr) (o : MObj) (hi : Inv h) (ho : h[a]? = some o)
    (hnd : (akeys o.props).Nodup) (hok : (step h (.freeze a)).2.1 = .ok) :
    ∃ o', (step h (.freeze a)).1[a]? = some o' ∧ (observeObj (step h (.freeze a)).1 a o').isFrozen = true := by
  have hw := hi.1 a o ho
  have ha : a < h.length := by
    rcases Nat.lt_or_ge a h.length with hlt | hge
    · exact hlt
    · rw [List.getElem?_eq_none hge] at ho; cases ho
  obtain ⟨_, _, _, _, hk⟩ := freezeLoop_refines (akeys o.props) o hw
  have hfr := freezeLoop_frozen (akeys o.props) o hw
  simp only [step, ho] at hok ⊢
  cases hr : freezeLoop o (akeys o.props) with
  | mk o' b =>
    rw [hr] at hok hk hfr
    cases b with
    | true => simp at hok
    | false =>
      simp only at hk hfr ⊢
      refine ⟨{ o' with ext := false }, by simp [List.getElem?_set, ha], ?_⟩
      simp only [observeObj, Bool.false_eq_true, if_false, List.all_eq_true]
      intro kp hkp
      have hnd' : (akeys o'.props).Nodup := by rw [hk]; exact hnd
      have hl := alookup_of_mem_nodup o'.props hnd' kp hkp
      have hmem : kp.1 ∈ akeys o.props := by rw [← hk]; exact mem_akeys_of_alookup hl
      have := hfr trivial kp.1 hmem kp.2 hl
      generalize kp.2 = q at this
      obtain ⟨v, ⟨w, e, c⟩⟩ := q
      simp only [frozenP] at this
      simp [this.1, this.2]

def sealedP (p : MProp) : Prop := tb p.mode.c = false

theorem seal_prop_sealed (prop : MProp) (hp : WFProp prop) :
    ((sealDesc prop).2 = false → sealedP prop) ∧
    (∀ p, defineProp prop (sealDesc prop).1 = some (some p) → sealedP p) ∧
    (defineProp prop (sealDesc prop).1 = some none → sealedP prop) := by
  obtain ⟨v, ⟨w, e, c⟩⟩ := prop
  cases v with
  | nil => exact hp.elim
  | val v =>
    cases w <;> cases e <;> cases c <;>
      simp [sealedP, sealDesc, defineProp, defineSwitch, MProp.isEmpty, MProp.isGenericDescriptor, MProp.isDataDescriptor,
        MProp.isAccessorDescriptor, mergeMode_eq, tritMerge, tb, tset, onbit] <;> (intro p hp; subst hp; simp [tb])
  | gs g s =>
    obtain ⟨hg, hs, hw⟩ := hp
    simp only at hw
    subst hw
    cases g <;> cases s <;> first | exact absurd rfl hg | exact absurd rfl hs |
      (cases e <;> cases c <;>
        simp [sealedP, sealDesc, defineProp, defineSwitch, MProp.isEmpty, MProp.isGenericDescriptor, MProp.isDataDescriptor,
          MProp.isAccessorDescriptor, mergeMode_eq, tritMerge, tb, tset, onbit, normSlot] <;> (intro p hp; subst hp; simp [tb]))

theorem sealStep_sealed (o o' : MObj) (n : Name) (prop : MProp) (ho : WFObj o) (hl : alookup n o.props = some prop)
    (h : sealStep o n prop = some o') : ∃ p, alookup n o'.props = some p ∧ sealedP p := by
  obtain ⟨f1, f2, f3⟩ := seal_prop_sealed prop (ho _ (alookup_mem hl))
  simp only [sealStep] at h
  by_cases hf : (sealDesc prop).2 = true
  · simp only [hf, if_true] at h
    rw [defineOwn_eq, hl] at h
    simp only at h
    cases hm : defineProp prop (sealDesc prop).1 with
    | none => rw [hm] at h; simp at h
    | some r =>
      rw [hm] at h
      simp only [Option.map_some, Option.some.injEq] at h
      subst h
      cases r with
      | none => exact ⟨prop, hl, f3 hm⟩
      | some p => exact ⟨p, by simp [alookup_aupsert], f2 p hm⟩
  · simp only [hf] at h
    cases h
    exact ⟨prop, hl, f1 (by simpa using hf)⟩

theorem sealLoop_sealed : ∀ (ns : List Name) (o : MObj), WFObj o → (sealLoop o ns).2 = false →
    ∀ n, n ∈ ns → ∀ p, alookup n (sealLoop o ns).1.props = some p → sealedP p := by
  intro ns
  induction ns with
  | nil => intro o _ _ n hn; cases hn
  | cons n0 t ih =>
    intro o ho hb n hn p hp
    rw [sealLoop_cons] at hb hp
    cases hl : alookup n0 o.props with
    | none =>
      rw [hl] at hb hp
      simp only at hb hp
      rcases List.mem_cons.1 hn with e | hn'
      · subst e
        have hk := (sealLoop_refines t o ho).2.2.2.2
        have := mem_akeys_of_alookup hp
        rw [hk] at this
        exact absurd this (not_mem_akeys_of_alookup_none n o.props hl)
      · exact ih o ho hb n hn' p hp
    | some prop =>
      rw [hl] at hb hp
      simp only at hb hp
      cases hs : sealStep o n0 prop with
      | none => rw [hs] at hb; cases hb
      | some o1 =>
        rw [hs] at hb hp
        simp only at hb hp
        have hw1 := (sealStep_wf o o1 n0 prop ho hl hs).1
        by_cases e : n = n0
        · subst e
          obtain ⟨p1, hl1, hf1⟩ := sealStep_sealed o o1 n prop ho hl hs
          obtain ⟨p', hl', hs'⟩ := (sealLoop_evolves t o1 hw1).stable n p1 hl1 hf1
          rw [hl'] at hp
          cases hp
          exact ((PStable_iff p1 p).1 hs').1
        · rcases List.mem_cons.1 hn with e' | hn'
          · exact absurd e' e
          · exact ih o1 hw1 hb n hn' p hp

/-- **isSealed (seal o)** -/
theorem seal_isSealed (h : MHeap) (a : Addr) (o : MObj) (hi : Inv h) (ho : h[a]? = some o)
    (hnd : (akeys o.props).Nodup) (hok : (step h (.seal a)).2.1 = .ok) :
    ∃ o', (step h (.seal a)).1[a]? = some o' ∧ (observeObj (step h (.seal a)).1 a o').isSealed = true := by
  have hw := hi.1 a o ho
  have ha : a < h.length := by
    rcases Nat.lt_or_ge a h.length with hlt | hge
    · exact hlt
    · rw [List.getElem?_eq_none hge] at ho; cases ho
  obtain ⟨_, _, _, _, hk⟩ := sealLoop_refines (akeys o.props) o hw
  have hfr := sealLoop_sealed (akeys o.props) o hw
  simp only [step, ho] at hok ⊢
  cases hr : sealLoop o (akeys o.props) with
  | mk o' b =>
    rw [hr] at hok hk hfr
    cases b with
    | true => simp at hok
    | false =>
      simp only at hk hfr ⊢
      refine ⟨{ o' with ext := false }, by simp [List.getElem?_set, ha], ?_⟩
      simp only [observeObj, Bool.false_eq_true, if_false, List.all_eq_true]
      intro kp hkp
      have hnd' : (akeys o'.props).Nodup := by rw [hk]; exact hnd
      have hl := alookup_of_mem_nodup o'.props hnd' kp hkp
      have hmem : kp.1 ∈ akeys o.props := by rw [← hk]; exact mem_akeys_of_alookup hl
      have := hfr trivial kp.1 hmem kp.2 hl
      generalize kp.2 = q at this
      obtain ⟨v, ⟨w, e, c⟩⟩ := q
      simp only [sealedP] at this
      simp [this]

/-- **isExtensible (preventExtensions o) = false** -/
theorem preventExt_notExtensible (h : MHeap) (a : Addr) (o : MObj) (ho : h[a]? = some o) :
    ∃ o', (step h (.preventExt a)).1[a]? = some o' ∧ (observeObj (step h (.preventExt a)).1 a o').ext = false := by
  have ha : a < h.length := by
    rcases Nat.lt_or_ge a h.length with hlt | hge
    · exact hlt
    · rw [List.getElem?_eq_none hge] at ho; cases ho
  simp only [step, ho]
  exact ⟨{ o with ext := false }, by simp [List.getElem?_set, ha], rfl⟩

/-- a step leaves the heap alone, overwrites one slot, or appends the new object (create, or a start object) -/
theorem step_shape (h : MHeap) (op : Op) :
    (step h op).1 = h ∨ (∃ a x, (step h op).1 = h.set a x) ∨
    (∃ p l, op = .create p l ∧ (step h op).1 = h ++ [(defineList ⟨p, true, []⟩ l).1]) ∨
    (∃ k, op = .native k ∧ (step h op).1 = h ++ [nativeObj k h.length]) ∨
    (∃ ms, op = .literal ms ∧ (step h op).1 = h ++ [literalFold ⟨none, true, []⟩ ms]) := by
  rcases op with ⟨ms⟩ | ⟨k⟩ | ⟨s, a, n, v⟩ | ⟨s, a, n⟩ | ⟨a, n, d⟩ | ⟨a, l⟩ | ⟨p, l⟩ | ⟨a⟩ | ⟨a⟩ | ⟨a⟩ <;>
    simp only [step, put, delete] <;> repeat' split
  all_goals first
    | exact Or.inl rfl
    | exact Or.inr (Or.inl ⟨_, _, rfl⟩)
    | exact Or.inr (Or.inr (Or.inl ⟨_, _, rfl, rfl⟩))
    | exact Or.inr (Or.inr (Or.inr (Or.inl ⟨_, rfl, rfl⟩)))
    | exact Or.inr (Or.inr (Or.inr (Or.inr ⟨_, rfl, rfl⟩)))

theorem nativeObj_nodup (k : Kind) (a : Addr) : (akeys (nativeObj k a).props).Nodup := by
  cases k <;> simp [nativeObj, akeys]

/-- no object has a key twice -/
def NodupHeap (h : MHeap) : Prop := ∀ (a : Nat) (o : MObj), h[a]? = some o → (akeys o.props).Nodup

theorem step_nodup (h : MHeap) (op : Op) (hi : Inv h) (hp : provedOp op = true) (hn : NodupHeap h) :
    NodupHeap (step h op).1 := by
  intro a o' ho'
  by_cases hlt : a < h.length
  · have ho : h[a]? = some h[a] := List.getElem?_eq_getElem hlt
    obtain ⟨o'', ho'', he⟩ := (step_evolves h op hi hp).1 a _ ho
    rw [ho'] at ho''
    cases ho''
    exact he.keys.nodup (hn a _ ho)
  · have hge : h.length ≤ a := Nat.le_of_not_lt hlt
    rcases step_shape h op with e | ⟨b, x, e⟩ | ⟨p, l, eop, e⟩ | ⟨k, eop, e⟩ | ⟨ms, eop, e⟩
    · rw [e, List.getElem?_eq_none hge] at ho'; cases ho'
    · rw [e, List.getElem?_eq_none (by simpa using hge)] at ho'; cases ho'
    · subst eop
      rw [e] at ho'
      have hw0 : WFObj (⟨p, true, []⟩ : MObj) := fun kp hkp => by cases hkp
      have hev := (defineList_evolves l ⟨p, true, []⟩ hw0).1
      rw [List.getElem?_append_right hge] at ho'
      cases hd : a - h.length with
      | zero =>
        rw [hd] at ho'
        simp at ho'
        subst ho'
        exact hev.keys.nodup List.nodup_nil
      | succ k => rw [hd] at ho'; simp at ho'
    · subst eop
      rw [e] at ho'
      rw [List.getElem?_append_right hge] at ho'
      cases hd : a - h.length with
      | zero =>
        rw [hd] at ho'
        simp at ho'
        subst ho'
        exact nativeObj_nodup k _
      | succ j => rw [hd] at ho'; simp at ho'
    · subst eop
      rw [e] at ho'
      have hw0 : WFObj (⟨none, true, []⟩ : MObj) := fun kp hkp => by cases hkp
      have hev := literalFold_evolves ms ⟨none, true, []⟩ hw0
      rw [List.getElem?_append_right hge] at ho'
      cases hd : a - h.length with
      | zero =>
        rw [hd] at ho'
        simp at ho'
        subst ho'
        exact hev.keys.nodup List.nodup_nil
      | succ j => rw [hd] at ho'; simp at ho'

/-- **no key twice, ever**: every object of every heap reachable from the empty heap has pairwise
    distinct keys -/
theorem history_nodup : ∀ (ops : List Op) (h : MHeap), Inv h → AllProved ops → NodupHeap h →
    NodupHeap (heapAfter h ops) := by
  intro ops
  induction ops with
  | nil => intro h _ _ hn; exact hn
  | cons op ops ih =>
    intro h hi hp hn
    have hp0 := hp op List.mem_cons_self
    exact ih _ (step_evolves h op hi hp0).2 (fun x hx => hp x (List.mem_cons_of_mem _ hx)) (step_nodup h op hi hp0 hn)

theorem nodup_from_empty (ops : List Op) (hp : AllProved ops) : NodupHeap (heapAfter [] ops) :=
  history_nodup ops [] inv_nil hp (fun a o h => by simp at h)

/-! ## global bindings: declaration binding instantiation (§10.5) on the global object -/

theorem inv_single (g : MObj) (hw : WFObj g) (hp : g.proto = none) : Inv [g] := by
  constructor
  · intro a o h
    cases a with
    | zero => simp at h; subst h; exact hw
    | succ a => simp at h
  · intro a o p h hq
    cases a with
    | zero => simp at h; subst h; rw [hp] at hq; cases hq
    | succ a => simp at h

theorem headD_absHeap (h : MHeap) (g : MObj) : (absHeap h).headD (absObj g) = absObj (h.headD g) := by
  cases h <;> rfl

theorem headD_of_get (h : MHeap) (g o : MObj) (ho : h[0]? = some o) : h.headD g = o := by
  cases h with
  | nil => simp at ho
  | cons x t => simp at ho; subst ho; rfl

/-- a step on the one-object heap `[g]` (g the global object): the object at 0 afterwards -/
theorem single_step (g : MObj) (op : Op) (hw : WFObj g) (hp : g.proto = none) (hop : provedOp op = true) :
    WFObj ((step [g] op).1.headD g) ∧ ((step [g] op).1.headD g).proto = none := by
  have hi := inv_single g hw hp
  obtain ⟨he, hv⟩ := step_evolves [g] op hi hop
  obtain ⟨o', ho', hev⟩ := he 0 g rfl
  rw [headD_of_get _ g o' ho']
  exact ⟨hv.1 0 o' ho', hev.proto.trans hp⟩

/-- SetMutableBinding on the global object -/
theorem gSet_refines (g : MObj) (v : Val) (hw : WFObj g) (hp : g.proto = none) :
    (absObj (gSet g v).1, (gSet g v).2) = Spec.gSet (absObj g) v ∧ WFObj (gSet g v).1 ∧ (gSet g v).1.proto = none := by
  have hi := inv_single g hw hp
  have hr := put_refines [g] false 0 0 v hi rfl
  have hs := single_step g (.put false 0 0 v) hw hp rfl
  simp only [StepRefines, step] at hr hs
  have habs : absHeap [g] = [absObj g] := rfl
  rw [habs] at hr
  simp only [gSet, Spec.gSet, Spec.step] at hr ⊢
  obtain ⟨h1, h2⟩ := hr
  exact ⟨by rw [← h1, headD_absHeap, ← h2], hs.1, hs.2⟩

theorem gHas_abs (g : MObj) : Spec.gHas (absObj g) = gHas g := by
  simp [Spec.gHas, gHas, absObj, alookup_absProps]

theorem modeC (c : Bool) : (if c then Trit.on else Trit.off) = (if c then Trit.on else Trit.off) := rfl

/-- CreateMutableBinding for a name that is absent: the concrete result on both sides -/
theorem gCreate_absent (g : MObj) (c : Bool) (v : Val) (hl : alookup 0 g.props = none) :
    gCreate g c v = (if g.ext then { g with props := aupsert 0 ⟨.val v, ⟨.on, .on, if c then .on else .off⟩⟩ g.props } else g) := by
  simp only [gCreate, defineOwn_eq, hl, createProp]
  cases g.ext <;> rfl

theorem sgCreate_absent (g : SObj) (c : Bool) (hl : alookup 0 g.props = none) :
    Spec.gCreate g c = (if g.ext then { g with props := aupsert 0 (.data 0 true true c) g.props } else g) := by
  simp only [Spec.gCreate, Spec.gCreate?, sDefineOwn_eq, hl, sCreateProp]
  cases g.ext <;> simp [Spec.isGenericDescriptor, Spec.isDataDescriptor, Spec.isAccessorDescriptor, noPD]

theorem gHas_gCreate_absent (g : MObj) (c : Bool) (v : Val) (hl : alookup 0 g.props = none) :
    gHas (gCreate g c v) = g.ext := by
  rw [gCreate_absent g c v hl]
  cases he : g.ext with
  | false => simp [gHas, hl]
  | true => simp [gHas, alookup_aupsert]

theorem gCreate_nonext (g : MObj) (c : Bool) (v : Val) (hl : alookup 0 g.props = none) (he : g.ext = false) :
    gCreate g c v = g := by
  rw [gCreate_absent g c v hl, he]; rfl

/-- CreateMutableBinding succeeds exactly on an extensible global object (for an absent name) -/
theorem sgCreate?_absent (g : SObj) (c : Bool) (hl : alookup 0 g.props = none) :
    Spec.gCreate? g c = if g.ext then some (Spec.gCreate g c) else none := by
  simp only [Spec.gCreate, Spec.gCreate?, sDefineOwn_eq, hl]
  cases g.ext <;> simp

theorem alookup_aupsert_self {α} (n : Name) (x : α) (l : List (Name × α)) : alookup n (aupsert n x l) = some x := by
  simp [alookup_aupsert]

theorem aupsert_aupsert {α} (n : Name) (x y : α) (l : List (Name × α)) : aupsert n y (aupsert n x l) = aupsert n y l := by
  induction l with
  | nil => simp [aupsert]
  | cons kp t ih =>
    obtain ⟨k, q⟩ := kp
    by_cases hk : k = n
    · subst hk; simp [aupsert]
    · simp [aupsert, hk, ih]

/-- creating the binding with the function value at once (otto) = CreateMutableBinding(undefined) followed
    by SetMutableBinding (ES5 §10.5 steps 5.d, 5.f) -/
theorem gCreateFn_refines (g : MObj) (c : Bool) (hl : alookup 0 g.props = none) (hp : g.proto = none) :
    (absObj (gCreate g c fnVal), ([] : List Call)) = Spec.gSet (Spec.gCreate (absObj g) c) fnVal := by
  have hl' : alookup 0 (absObj g).props = none := by simp [absObj, alookup_absProps, hl]
  rw [gCreate_absent g c fnVal hl, sgCreate_absent (absObj g) c hl']
  obtain ⟨proto, ext, props⟩ := g
  simp only at hp hl
  subst hp
  cases ext with
  | false =>
    simp only [absObj] at hl' ⊢
    simp [Spec.gSet, Spec.put, Spec.canPut, hl', rejectOutcome]
  | true =>
    simp only [absObj] at hl' ⊢
    simp only [if_true, Bool.true_eq]
    simp [Spec.gSet, Spec.put, Spec.canPut, alookup_aupsert_self, sDefineOwn_eq, sDefineProp, allAbsent, subsumed, fieldSame, ofProp,
      noPD, SProp.configurable, validate, Spec.isGenericDescriptor, Spec.isDataDescriptor, Spec.isAccessorDescriptor, SProp.isData,
      applyFields, aupsert_aupsert, absProps_aupsert, absProp, tb, fnVal]
    cases c <;> simp [tb]

theorem gCreate_wf (g : MObj) (c : Bool) (v : Val) (hw : WFObj g) (hp : g.proto = none) :
    WFObj (gCreate g c v) ∧ (gCreate g c v).proto = none := by
  simp only [gCreate]
  cases hm : defineOwn g 0 ⟨.val v, ⟨.on, .on, if c then .on else .off⟩⟩ with
  | none => exact ⟨hw, hp⟩
  | some o' =>
    exact ⟨defineOwn_wf g o' 0 _ hw (by simp [WFDescW]) hm, (defineOwn_shape g o' 0 _ hm).1.trans hp⟩

theorem gCreateVar_refines (g : MObj) (c : Bool) (hl : alookup 0 g.props = none) :
    absObj (gCreate g c 0) = Spec.gCreate (absObj g) c := by
  have hl' : alookup 0 (absObj g).props = none := by simp [absObj, alookup_absProps, hl]
  rw [gCreate_absent g c 0 hl, sgCreate_absent (absObj g) c hl']
  obtain ⟨proto, ext, props⟩ := g
  cases ext <;> cases c <;> simp [absObj, absProps_aupsert, absProp, tb]

/-- an assignment to an unbound name creates a deletable binding = [[Put]] on the global object -/
theorem gAssignNew_refines (g : MObj) (v : Val) (hl : alookup 0 g.props = none) (hp : g.proto = none) :
    (absObj (gCreate g true v), ([] : List Call)) = Spec.gSet (absObj g) v := by
  have hl' : alookup 0 (absObj g).props = none := by simp [absObj, alookup_absProps, hl]
  rw [gCreate_absent g true v hl]
  obtain ⟨proto, ext, props⟩ := g
  simp only at hp hl
  subst hp
  simp only [absObj] at hl' ⊢
  cases ext with
  | false => simp [Spec.gSet, Spec.put, Spec.canPut, hl', rejectOutcome, Spec.getProperty, fuel]
  | true =>
    simp [Spec.gSet, Spec.put, Spec.canPut, hl', Spec.getProperty, fuel, sDefineOwn_eq, sCreateProp, noPD,
      Spec.isGenericDescriptor, Spec.isDataDescriptor, Spec.isAccessorDescriptor, absProps_aupsert, absProp, tb]

theorem lookup_abs0 (g : MObj) : alookup 0 (absObj g).props = (alookup 0 g.props).map absProp := by
  simp [absObj, alookup_absProps]

/-- **every global-binding operation refines ES5 §10.5 / §8.7.2 / §11.4.1** and keeps the global
    object well formed -/
theorem gStep_refines (g : MObj) (op : GOp) (hw : WFObj g) (hp : g.proto = none) :
    (absObj (gStep g op).1, (gStep g op).2) = Spec.gStep (absObj g) op ∧
    WFObj (gStep g op).1 ∧ (gStep g op).1.proto = none := by
  have hi := inv_single g hw hp
  have habs : absHeap [g] = [absObj g] := rfl
  cases op with
  | assign v =>
    simp only [gStep, Spec.gStep]
    cases hl : alookup 0 g.props with
    | none =>
      have hh : gHas g = false := by simp [gHas, hl]
      simp only [hh, Bool.not_false, if_true]
      have := gAssignNew_refines g v hl hp
      obtain ⟨w1, w2⟩ := gCreate_wf g true v hw hp
      refine ⟨?_, w1, w2⟩
      rw [← this]
    | some p =>
      have hh : gHas g = true := by simp [gHas, hl]
      simp only [hh, Bool.not_true, Bool.false_eq_true, if_false]
      obtain ⟨s1, s2, s3⟩ := gSet_refines g v hw hp
      refine ⟨?_, s2, s3⟩
      rw [← s1]
  | varDecl eval =>
    simp only [gStep, Spec.gStep, gHas_abs]
    cases hl : alookup 0 g.props with
    | none =>
      have hh : gHas g = false := by simp [gHas, hl]
      have hl' : alookup 0 (absObj g).props = none := by simp [absObj, alookup_absProps, hl]
      have hc? := sgCreate?_absent (absObj g) eval hl'
      have hgh := gHas_gCreate_absent g eval 0 hl
      obtain ⟨w1, w2⟩ := gCreate_wf g eval 0 hw hp
      cases hext : g.ext with
      | true =>
        have hext' : (absObj g).ext = true := hext
        simp only [hh, Bool.not_false, if_true, hc?, hext', hgh, hext]
        exact ⟨by rw [gCreateVar_refines g eval hl], w1, w2⟩
      | false =>
        have hext' : (absObj g).ext = false := hext
        simp only [hh, Bool.not_false, if_true, hc?, hext', hgh, hext, Bool.false_eq_true, if_false,
          gCreate_nonext g eval 0 hl hext, hh]
        refine ⟨?_, hw, hp⟩
        first | rfl | trivial
    | some p =>
      have hh : gHas g = true := by simp [gHas, hl]
      simp only [hh, Bool.not_true, Bool.false_eq_true, if_false]
      refine ⟨?_, hw, hp⟩
      first | rfl | trivial
  | varInit v =>
    simp only [gStep, Spec.gStep, gHas_abs]
    cases hl : alookup 0 g.props with
    | none =>
      have hh : gHas g = false := by simp [gHas, hl]
      have hl' : alookup 0 (absObj g).props = none := by simp [absObj, alookup_absProps, hl]
      have hc? := sgCreate?_absent (absObj g) false hl'
      have hgh := gHas_gCreate_absent g false 0 hl
      obtain ⟨w1, w2⟩ := gCreate_wf g false 0 hw hp
      cases hext : g.ext with
      | true =>
        have hext' : (absObj g).ext = true := hext
        simp only [hh, Bool.not_false, if_true, hc?, hext', hgh, hext, Bool.not_true, Bool.false_eq_true, if_false]
        obtain ⟨s1, s2, s3⟩ := gSet_refines (gCreate g false 0) v w1 w2
        refine ⟨?_, s2, s3⟩
        rw [← gCreateVar_refines g false hl, ← s1]
      | false =>
        have hext' : (absObj g).ext = false := hext
        simp only [hh, Bool.not_false, if_true, hc?, hext', hgh, hext, Bool.false_eq_true, if_false,
          gCreate_nonext g false 0 hl hext, hh]
        refine ⟨?_, hw, hp⟩
        first | rfl | trivial
    | some p =>
      have hh : gHas g = true := by simp [gHas, hl]
      simp only [hh, Bool.not_true, Bool.false_eq_true, if_false]
      obtain ⟨s1, s2, s3⟩ := gSet_refines g v hw hp
      refine ⟨?_, s2, s3⟩
      rw [← s1]
  | funDecl eval =>
    simp only [gStep, Spec.gStep, lookup_abs0]
    cases hl : alookup 0 g.props with
    | none =>
      have hl' : alookup 0 (absObj g).props = none := by simp [absObj, alookup_absProps, hl]
      have hc? := sgCreate?_absent (absObj g) eval hl'
      have hgh := gHas_gCreate_absent g eval fnVal hl
      obtain ⟨w1, w2⟩ := gCreate_wf g eval fnVal hw hp
      cases hext : g.ext with
      | true =>
        have hext' : (absObj g).ext = true := hext
        simp only [Option.map_none, hc?, hext', if_true, hgh, hext]
        refine ⟨?_, w1, w2⟩
        have := gCreateFn_refines g eval hl hp
        simp only [← this]
      | false =>
        have hext' : (absObj g).ext = false := hext
        have hh : gHas g = false := by simp [gHas, hl]
        simp only [Option.map_none, hc?, hext', hgh, hext, Bool.false_eq_true, if_false, gCreate_nonext g eval fnVal hl hext, hh]
        refine ⟨?_, hw, hp⟩
        first | rfl | trivial
    | some existing =>
      simp only [Option.map_some, configurable_abs]
      have hwe := hw _ (alookup_mem hl)
      cases hc : existing.configurable with
      | true =>
        simp only [if_true]
        have hd : WFDesc (⟨.val 0, ⟨.on, .on, if eval then .on else .off⟩⟩ : MProp) := trivial
        have hr := defineOwnProperty_refines g 0 _ hw hd
        have e : absDesc (⟨.val 0, ⟨.on, .on, if eval then .on else .off⟩⟩ : MProp) =
            { noPD with value := some 0, writable := some true, enumerable := some true, configurable := some eval } := by
          cases eval <;> rfl
        rw [e] at hr
        rw [← hr]
        cases hm : defineOwn g 0 ⟨.val 0, ⟨.on, .on, if eval then .on else .off⟩⟩ with
        | none => exact ⟨rfl, hw, hp⟩
        | some g1 =>
          simp only [Option.map_some]
          have w1 := defineOwn_wf g g1 0 _ hw (WFDesc.weak hd) hm
          have w2 := (defineOwn_shape g g1 0 _ hm).1.trans hp
          obtain ⟨s1, s2, s3⟩ := gSet_refines g1 fnVal w1 w2
          refine ⟨?_, s2, s3⟩
          rw [← s1]
      | false =>
        simp only [Bool.false_eq_true, if_false]
        obtain ⟨ev, ⟨w, e, c⟩⟩ := existing
        cases ev with
        | nil => exact hwe.elim
        | val pv =>
          cases w <;> cases e <;>
            simp only [absProp, tb, MProp.isAccessorDescriptor, writable_eq, enumerable_eq, Bool.false_or, Bool.not_true,
              Bool.not_false, Bool.or_false, Bool.or_true, Bool.false_eq_true, if_false, if_true] <;>
            first
            | exact ⟨trivial, hw, hp⟩
            | exact ⟨rfl, hw, hp⟩
            | (obtain ⟨s1, s2, s3⟩ := gSet_refines g fnVal hw hp
               exact ⟨by rw [← s1], s2, s3⟩)
        | gs gg ss =>
          have hwu : w = .unset := hwe.2.2
          subst hwu
          simp only [absProp, tb, MProp.isAccessorDescriptor, writable_eq, Bool.not_false, Bool.or_true, Bool.true_or, if_true]
          refine ⟨?_, hw, hp⟩
          first | rfl | trivial
  | del =>
    simp only [gStep, Spec.gStep]
    have hr := delete_refines [g] false 0 0 rfl
    have hs := single_step g (.del false 0 0) hw hp rfl
    simp only [StepRefines, step, Spec.step, habs] at hr hs
    obtain ⟨h1, h2⟩ := hr
    refine ⟨?_, hs.1, hs.2⟩
    rw [← h1, headD_absHeap, ← h2]
  | preventExt =>
    simp only [gStep, Spec.gStep]
    have hr := preventExt_refines [g] 0
    have hs := single_step g (.preventExt 0) hw hp rfl
    simp only [StepRefines, habs] at hr hs
    obtain ⟨h1, h2⟩ := hr
    refine ⟨?_, hs.1, hs.2⟩
    rw [← h1, headD_absHeap, ← h2]
  | «seal» =>
    simp only [gStep, Spec.gStep]
    have hr := (seal_refines [g] 0 hi).1
    have hs := single_step g (Op.seal 0) hw hp rfl
    simp only [StepRefines, habs] at hr hs
    obtain ⟨h1, h2⟩ := hr
    refine ⟨?_, hs.1, hs.2⟩
    rw [← h1, headD_absHeap, ← h2]
  | defn d =>
    simp only [gStep, Spec.gStep]
    have hr := (defn_refines [g] 0 0 d hi).1
    have hs := single_step g (.defn 0 0 d) hw hp rfl
    simp only [StepRefines, habs] at hr hs
    obtain ⟨h1, h2⟩ := hr
    refine ⟨?_, hs.1, hs.2⟩
    rw [← h1, headD_absHeap, ← h2]

/-- **global-binding histories refine ES5**: any sequence of programs doing identifier assignment,
    `var` / function declarations (global or eval code), `delete` and defineProperty on one global name gives
    the ES5 outcome (incl. TypeError), setter calls and the ES5 descriptor / value after every program -/
theorem gRun_refines : ∀ (ops : List GOp) (g : MObj), WFObj g → g.proto = none →
    gRun g ops = Spec.gRun (absObj g) ops := by
  intro ops
  induction ops with
  | nil => intro g _ _; rfl
  | cons op ops ih =>
    intro g hw hp
    obtain ⟨h1, h2, h3⟩ := gStep_refines g op hw hp
    have hobs : gObserve (gStep g op).1 = Spec.gObserve (absObj (gStep g op).1) := by
      simp only [gObserve, Spec.gObserve]
      exact (observeName_refines [(gStep g op).1] 0 (gStep g op).1 h2 0).symm
    simp only [gRun, Spec.gRun]
    have e1 : (Spec.gStep (absObj g) op).1 = absObj (gStep g op).1 := by rw [← h1]
    have e2 : (Spec.gStep (absObj g) op).2 = (gStep g op).2 := by rw [← h1]
    rw [e1, e2, ← hobs, ih _ h2 h3]

theorem gRun_refines_empty (ops : List GOp) : gRun ⟨none, true, []⟩ ops = Spec.gRun ⟨none, true, []⟩ ops :=
  gRun_refines ops ⟨none, true, []⟩ (fun kp h => by cases h) rfl

/-- **descriptor maps with side-effecting members**: names first, then every member read and converted (15.2.3.7 steps 3-5) -/
theorem mapWalk_refines (ents : List (Name × MAct)) : ∀ (fuel : Nat) (dels : List Bool) (acc : List Name) (i : Nat),
    mapWalk ents fuel dels acc i = Spec.mapWalk ents fuel dels acc i := by
  intro fuel
  induction fuel with
  | zero => intro _ _ _; rfl
  | succ f ih =>
    intro dels acc i
    simp only [mapWalk, Spec.mapWalk]
    cases ents[i]? with
    | none => rfl
    | some e =>
      obtain ⟨n, act⟩ := e
      simp only []
      split
      · rfl
      · cases act <;> simp only [ih]

theorem defineMap_refines (ents : List (Name × MAct)) : defineMap ents = Spec.defineMap ents := by
  simp only [defineMap, Spec.defineMap, mapWalk_refines]
  cases Spec.mapWalk ents (ents.length + 1) (ents.map fun _ => false) [] 0 <;> rfl

/-- not vacuous, and the formerly deviating histories now agree: `x = 1; function x(){}; delete x`,
    `eval('var x'); delete x` -/
example : gRun ⟨none, true, []⟩ [.assign 4, .funDecl false, .del] = Spec.gRun ⟨none, true, []⟩ [.assign 4, .funDecl false, .del] :=
  gRun_refines_empty _
example : ((gRun ⟨none, true, []⟩ [.assign 4, .funDecl false, .del])[2]?).map (·.1) = some (.bool false) := by decide
example : ((gRun ⟨none, true, []⟩ [.varDecl true, .del])[1]?).map (·.1) = some (.bool true) := by decide
/-- `Object.preventExtensions(this)`, then `var zq`: TypeError on both sides -/
example : ((gRun ⟨none, true, []⟩ [.preventExt, .varDecl false])[1]?).map (·.1) = some .typeError := by decide

/-! ## the §15.2.3 functions on a non-object argument -/

/-- every Object.* function of §15.2.3 except getOwnPropertyNames rejects a non-object first argument
    exactly as ES5 says (create accepts null) -/
theorem objFnPrim_refines (f : ObjFn) (a : PrimArg) (h : devPrim f = false) : objFnPrim f a = Spec.objFnPrim f a := by
  cases f <;> cases a <;> first | rfl | (exact absurd h (by decide))

/-- `Object.getOwnPropertyNames(1)` is [] (ES5: TypeError) -/
example : objFnPrim .getOwnPropertyNames .number ≠ Spec.objFnPrim .getOwnPropertyNames .number := by decide

/-! ## ToPropertyDescriptor read order, primitive bases, built-ins under a polluted prototype -/

/-- **the fields of a descriptor object are read in the order of §8.10.5** and the conflict TypeError comes last -/
theorem readOrder_refines (d : Desc) : readOrder d = Spec.readOrder d := by
  obtain ⟨e, c, w, v, g, s⟩ := d
  cases g <;> cases s <;> cases v <;> cases w <;> cases e <;> cases c <;> rfl

theorem builtinCreates_refines (b : Builtin) : builtinCreates b = Spec.builtinCreates b := by
  cases b <;> rfl

/-- the setter calls of [[Put]] are those of the special [[Put]] of §8.7.2 -/
theorem putPrimitive_eq_put (h : SHeap) (a : Addr) (n : Name) (v : Val) :
    Spec.putPrimitive h a n v = (Spec.put h a n v false).2.2 := by
  simp only [Spec.putPrimitive, Spec.put]
  cases h[a]? with
  | none => rfl
  | some o =>
    simp only []
    cases hc : Spec.canPut h o n with
    | false => simp
    | true =>
      simp only [Bool.not_true, Bool.false_eq_true, if_false]
      cases hl : alookup n o.props with
      | none =>
        simp only []
        cases hg : Spec.getProperty h (fuel h) (some a) n with
        | none => simp only []; cases Spec.defineOwn o n _ <;> rfl
        | some p =>
          cases p with
          | data => simp only []; cases Spec.defineOwn o n _ <;> rfl
          | acc g s e c => cases s <;> rfl
      | some p =>
        cases p with
        | data => simp only []; cases Spec.defineOwn o n _ <;> rfl
        | acc g s e c =>
          simp only []
          cases hg : Spec.getProperty h (fuel h) (some a) n with
          | none => simp only []; cases Spec.defineOwn o n _ <;> rfl
          | some q =>
            cases q with
            | data => simp only []; cases Spec.defineOwn o n _ <;> rfl
            | acc g' s' e' c' => cases s' <;> rfl

theorem defn_length (h : MHeap) (a : Addr) (n : Name) (d : DescArg) : (step h (.defn a n d)).1.length = h.length := by
  simp only [step]
  cases h[a]? with
  | none => rfl
  | some o =>
    simp only []
    cases OttoVerif.C07.toPropertyDescriptor d with
    | none => rfl
    | some desc =>
      simp only []
      cases defineOwn o n desc <;> simp

theorem inv_primHeap0 : Inv primHeap0 := by
  constructor
  · intro a o h kp hkp
    match a, h with
    | 0, h => simp [primHeap0] at h; subst h; cases hkp
    | 1, h => simp [primHeap0] at h; subst h; cases hkp
    | a + 2, h => simp [primHeap0] at h
  · intro a o p h hq
    match a, h with
    | 0, h => simp [primHeap0] at h; subst h; cases hq
    | 1, h => simp [primHeap0] at h; subst h; cases hq; exact Nat.zero_lt_one
    | a + 2, h => simp [primHeap0] at h

/-- **assignment and read through a primitive base refine §8.7.1 / §8.7.2**: for every descriptor defined on
    String/Number/Boolean.prototype or Object.prototype and every value, otto calls exactly the setter the
    special [[Put]] calls (with the wrapper as receiver), and the value read back and the prototype's own
    property are the ES5 ones -/
theorem primAssign_refines (level : Addr) (d : DescArg) (v : Val) :
    primAssign level d v = Spec.primAssign level d v := by
  have hi := inv_primHeap0
  obtain ⟨⟨hs1, hs2⟩, hinv⟩ := defn_refines primHeap0 level 0 d hi
  have hlen : (step primHeap0 (.defn level 0 d)).1.length = 2 := defn_length primHeap0 level 0 d
  have habs0 : absHeap primHeap0 = [⟨none, true, []⟩, ⟨some 0, true, []⟩] := rfl
  rw [habs0] at hs1 hs2
  simp only [primAssign, Spec.primAssign, putPrimitive_eq_put]
  generalize step primHeap0 (.defn level 0 d) = RM at *
  generalize Spec.step [⟨none, true, []⟩, ⟨some 0, true, []⟩] (.defn level 0 d) = RS at *
  have hw : WFObj primWrapper := fun kp hkp => by cases hkp
  have hinvw : Inv (RM.1 ++ [primWrapper]) := by
    refine inv_append _ primWrapper hinv hw ?_
    intro p hp
    simp only [primWrapper, Option.some.injEq] at hp
    rw [← hp, hlen]
    exact Nat.lt_succ_self 1
  have habsw : absHeap (RM.1 ++ [primWrapper]) = RS.1 ++ [⟨some 1, true, []⟩] := by
    rw [← hs1]; simp [absHeap, primWrapper, absObj, absProps]
  have hput := put_refines (RM.1 ++ [primWrapper]) false 2 0 v hinvw rfl
  simp only [StepRefines, step, Spec.step, habsw] at hput
  have hget := get_refines (RM.1 ++ [primWrapper]) 2 0
  rw [habsw] at hget
  have hout : RM.2.1 = RS.2.1 := by rw [hs2]
  have hcalls : (put (RM.1 ++ [primWrapper]) 2 0 v false).2.2 = (Spec.put (RS.1 ++ [⟨some 1, true, []⟩]) 2 0 v false).2.2 := by
    rw [hput.2]
  have hlk : RS.1[level]? = (RM.1[level]?).map absObj := by rw [← hs1, absHeap_get]
  rw [hout, hcalls, hget, hlk]
  cases ho : RM.1[level]? with
  | none => rfl
  | some o =>
    simp only [Option.map_some]
    have := observeName_refines RM.1 level o (hinv.1 level o ho) 0
    rw [hs1] at this
    rw [this]

/-! ## observers of prototype links -/

/-- isPrototypeOf (§15.2.4.6: a non-object argument gives false before the receiver is looked at),
    getPrototypeOf (§15.2.3.2) and instanceof (§15.3.5.3) agree with ES5 for every receiver and argument,
    except that an undefined receiver handed over by Function.prototype.call arrives as the global object -/
theorem protoLink_refines (r : PRecv) (a : PArg) (h : devCallUndefined r a = false) :
    isPrototypeOf r a = Spec.isPrototypeOf r a ∧ getPrototypeOf a = Spec.getPrototypeOf a ∧
    instanceOf r a = Spec.instanceOf r a := by
  cases r with
  | proto p => exact ⟨rfl, rfl, rfl⟩
  | null => exact ⟨rfl, rfl, rfl⟩
  | undefined => cases a <;> first | exact ⟨rfl, rfl, rfl⟩ | (exact absurd h (by decide))

/-- `Object.prototype.isPrototypeOf.call(undefined, {})` is false (ES5: TypeError) – region `call_undefined_this` -/
example : isPrototypeOf .undefined .plain ≠ Spec.isPrototypeOf .undefined .plain := by decide
/-- a primitive argument gives false even with a null receiver, and Number.prototype is not a prototype of 5 (seed M05) -/
example : isPrototypeOf .null .number = .f ∧ isPrototypeOf (.proto .numberP) .number = .f := by decide

/-! ## Non-vacuity of the hypotheses -/

/-- a heap with a data and an accessor property … -/
def hNV : MHeap := [⟨none, true, [(0, ⟨.val 4, ⟨.on, .on, .on⟩⟩), (1, ⟨.gs (.fn 0) .nil, ⟨.unset, .unset, .on⟩⟩)]⟩]

/-- … is reachable by a history, -/
example : (step (step (step [] (.create none [])).1 (.put false 0 0 4)).1
    (.defn 0 1 (.obj ⟨none, some true, none, none, .fn 0, .absent⟩))).1 = hNV := by decide

/-- is well formed, -/
example : WFHeap hNV := by
  intro a o h
  cases a with
  | zero =>
    simp [hNV] at h
    subst h
    intro kp hkp
    simp only [List.mem_cons, List.not_mem_nil, or_false] at hkp
    rcases hkp with h | h
    · subst h; trivial
    · subst h; exact ⟨by decide, by decide, rfl⟩
  | succ a => simp [hNV] at h

/-- and a defineProperty step on it is (trivially) outside the only region left: the hypotheses of
    `step_defineProperty_refines` are met by a non-trivial instance. -/
example : devStep hNV (.defn 0 0 (.obj ⟨some false, none, some false, some 5, .absent, .absent⟩))
    (step hNV (.defn 0 0 (.obj ⟨some false, none, some false, some 5, .absent, .absent⟩))).1 = [] := by decide

/-- `history_refines` is not vacuous: a 10-step history using every kind of operation (prototype
    chain, inherited setter, accessor definition, defineProperties, sloppy and strict put/delete,
    seal, freeze, preventExtensions) stays outside every region … -/
def hNV2 : List Op :=
  [.create none [(0, .obj ⟨some true, some true, some true, some 4, .absent, .absent⟩)],
   .create (some 0) [],
   .defn 0 1 (.obj ⟨some false, some true, none, none, .fn 0, .fn 1⟩),
   .put false 1 1 5,
   .defs 1 [(2, .obj ⟨some true, some false, some false, some 6, .absent, .absent⟩)],
   .put true 0 0 5,
   .del false 1 2,
   .seal 1,
   .freeze 0,
   .preventExt 1,
   .defn 0 0 (.obj ⟨none, none, none, some 5, .absent, .absent⟩)]
example : devRun [] hNV2 = [] := by decide
/-- … so the theorem applies to it (and the setter really is called through the prototype chain). -/
example : run [] hNV2 = Spec.run [] hNV2 := history_refines hNV2 (allProved_of_decide _ (by decide)) (by decide)
example : ((run [] hNV2)[3]?).map (·.calls) = some [(1, 1, 5)] := by decide

/-! ## Deviation witness of the one open region, and the former witnesses of the closed regions
     (now equalities: the regions were closed by `fix:` commits, model = spec on them) -/

def dE : Desc := ⟨none, none, none, none, .absent, .absent⟩

/-- `Object.preventExtensions(o); (function(){'use strict'; o.a=1})()` does not throw -/
def wStrict : List Op := [.create none [], .preventExt 0, .put true 0 0 4]
example : run [] wStrict ≠ Spec.run [] wStrict := by decide
example : devRun [] wStrict = ["strict_ignored"] := by decide

/-- closed: `o={}; o.a=1; Object.defineProperty(o,'a',{enumerable:false})` keeps `a` writable -/
def wGeneric : List Op := [.create none [], .put false 0 0 4, .defn 0 0 (.obj { dE with e := some false })]
example : run [] wGeneric = Spec.run [] wGeneric := history_refines wGeneric (allProved_of_decide _ (by decide)) (by decide)

/-- closed: `defineProperty(o,'a',{get:F0,configurable:true}); defineProperty(o,'a',{writable:true})` gives a data property -/
def wAccToData : List Op :=
  [.create none [], .defn 0 0 (.obj { dE with c := some true, g := .fn 0 }), .defn 0 0 (.obj { dE with w := some true })]
example : run [] wAccToData = Spec.run [] wAccToData := history_refines wAccToData (allProved_of_decide _ (by decide)) (by decide)

/-- closed: `defineProperties(o,{a:{value:1},b:{get:5}})` leaves `o` untouched -/
def wNotAtomic : List Op :=
  [.create none [], .defs 0 [(0, .obj { dE with v := some 4 }), (1, .obj { dE with g := .bad })]]
example : run [] wNotAtomic = Spec.run [] wNotAtomic := history_refines wNotAtomic (allProved_of_decide _ (by decide)) (by decide)

/-- closed (f48e83f): `defineProperty(o,'a',{get:undefined})` reports get/set -/
def wBothUndef : List Op := [.create none [], .defn 0 0 (.obj { dE with g := .undef })]
example : run [] wBothUndef = Spec.run [] wBothUndef := history_refines wBothUndef (allProved_of_decide _ (by decide)) (by decide)

/-- closed (cb72f5e): `p={a:1}; c=Object.create(p); c.a=2; for (k in c)` visits `a` once -/
def wForIn : List Op := [.create none [], .put false 0 0 4, .create (some 0) [], .put false 1 0 5]
example : run [] wForIn = Spec.run [] wForIn := history_refines wForIn (allProved_of_decide _ (by decide)) (by decide)

/-- start objects of the proved kinds: a function's prototype object, deleted constructor, sealed -/
def hNV3 : List Op := [.native .fproto, .del false 0 3, .native .regexp, .put false 1 10 5, .seal 0, .native .date, .freeze 2]
example : run [] hNV3 = Spec.run [] hNV3 := history_refines hNV3 (allProved_of_decide _ (by decide)) (by decide)

/-- the invariant theorems need no region hypothesis at all: they also cover a history inside `strict_ignored` -/
example : Inv (heapAfter [] wStrict) := (history_evolves wStrict [] inv_nil (allProved_of_decide _ (by decide))).2
example : NodupHeap (heapAfter [] hNV2) := nodup_from_empty hNV2 (allProved_of_decide _ (by decide))

/-- object literals as start objects: a repeated data key (`{b:1,a:2,b:3}`) is listed once, in first position, with the last value … -/
def hLit : List Op := [.literal [(.value, 1, 4), (.value, 0, 5), (.value, 1, 6)], .del false 0 1, .literal [(.get, 0, 0), (.set, 0, 0)], .put false 1 0 5]
example : run [] hLit = Spec.run [] hLit := history_refines hLit (allProved_of_decide _ (by decide)) (by decide)
example : (((run [] hLit)[0]?).bind (fun s => s.objs[0]?)).map (fun o => o.names) = some [1, 0] := by decide
/-- … and data-after-accessor is the C04 region `object_literal_duplicate_property` (ES5: SyntaxError) -/
def wLitDup : List Op := [.literal [(.get, 0, 0), (.value, 0, 4)]]
example : run [] wLitDup ≠ Spec.run [] wLitDup := by decide
example : devRun [] wLitDup = ["object_literal_duplicate_property"] := by decide

end OttoVerif.C07.Thm
