/-
  C07/Lemmas — helper definitions and lemmas for the C07 ledger: the octal mode arithmetic read as
  three trits, the abstraction from otto's property representation to ES5 attributes.
-/
import OttoVerif.C07.Driver
namespace OttoVerif.C07.Lem
open OttoVerif.C07 OttoVerif.C07.Spec

/-- how a stored trit is read by `writable()/enumerable()/configurable()`: 1 = true, 0 and 2 = false -/
def tb : Trit → Bool
  | .on => true
  | _ => false

/-- a descriptor trit as an optional attribute -/
def topt : Trit → Option Bool
  | .on => some true
  | .off => some false
  | .unset => none

/-- "the attribute is present in the descriptor" (digit 0 or 1) -/
def tset : Trit → Bool
  | .unset => false
  | _ => true

def onbit : Trit → Trit
  | .on => .on
  | _ => .off

/-! ### the literal bit formulas of property.go, digit by digit -/

macro "mode_cases" : tactic => `(tactic|
  (simp only [MProp.writable, MProp.writeSet, MProp.enumerable, MProp.enumerateSet, MProp.configurable,
     MProp.writeOff, MProp.configureOff, Mode.toNat, Trit.digit, modeWriteMask, modeEnumerateMask,
     modeConfigureMask, modeOnMask, modeSetMask] <;>
   first | decide | rfl | (congr 1 <;> decide)))

@[simp] theorem writable_eq (v : PV) (w e c : Trit) : (MProp.mk v ⟨w, e, c⟩).writable = tb w := by
  cases w <;> cases e <;> cases c <;> mode_cases
@[simp] theorem writeSet_eq (v : PV) (w e c : Trit) : (MProp.mk v ⟨w, e, c⟩).writeSet = tset w := by
  cases w <;> cases e <;> cases c <;> mode_cases
@[simp] theorem enumerable_eq (v : PV) (w e c : Trit) : (MProp.mk v ⟨w, e, c⟩).enumerable = tb e := by
  cases w <;> cases e <;> cases c <;> mode_cases
@[simp] theorem enumerateSet_eq (v : PV) (w e c : Trit) : (MProp.mk v ⟨w, e, c⟩).enumerateSet = tset e := by
  cases w <;> cases e <;> cases c <;> mode_cases
@[simp] theorem configurable_eq (v : PV) (w e c : Trit) : (MProp.mk v ⟨w, e, c⟩).configurable = tb c := by
  cases w <;> cases e <;> cases c <;> mode_cases
@[simp] theorem writeOff_eq (v : PV) (w e c : Trit) : (MProp.mk v ⟨w, e, c⟩).writeOff = ⟨v, ⟨.off, e, c⟩⟩ := by
  cases w <;> cases e <;> cases c <;> mode_cases
@[simp] theorem configureOff_eq (v : PV) (w e c : Trit) : (MProp.mk v ⟨w, e, c⟩).configureOff = ⟨v, ⟨w, e, .off⟩⟩ := by
  cases w <;> cases e <;> cases c <;> mode_cases
@[simp] theorem mode222_eq (w e c : Trit) : ((Mode.mk w e c).toNat == 0o222) = (!tset w && !tset e && !tset c) := by
  cases w <;> cases e <;> cases c <;> mode_cases

/-- object_class.go:415-437 on trits -/
def tritMerge (m1 m0 : Mode) (descIsData : Bool) : Mode :=
  ⟨ if tset m1.w then m1.w else (if descIsData then onbit m0.w else .unset),
    if tset m1.e then m1.e else onbit m0.e,
    if tset m1.c then m1.c else onbit m0.c ⟩

theorem mergeMode_eq (m1 m0 : Mode) (b : Bool) :
    Mode.ofNat (mergeMode m1.toNat m0.toNat b) = tritMerge m1 m0 b := by
  obtain ⟨w1, e1, c1⟩ := m1
  obtain ⟨w0, e0, c0⟩ := m0
  cases w1 <;> cases e1 <;> cases c1 <;> cases w0 <;> cases e0 <;> cases c0 <;> cases b <;> decide

/-! ### abstraction: otto's representation ↦ ES5 attributes -/

/-- a stored property read as ES5 attributes: trit 1 = true, trits 0 and 2 = false (DESIGN §C07) -/
def absProp (p : MProp) : SProp :=
  match p.value with
  | .val v => .data v (tb p.mode.w) (tb p.mode.e) (tb p.mode.c)
  | .gs g s => .acc (slotFn g) (slotFn s) (tb p.mode.e) (tb p.mode.c)
  | .nil => .data 0 (tb p.mode.w) (tb p.mode.e) (tb p.mode.c)

def absProps (l : List (Name × MProp)) : List (Name × SProp) := l.map (fun kp => (kp.1, absProp kp.2))

def absObj (o : MObj) : SObj := ⟨o.proto, o.ext, absProps o.props⟩

def absHeap (h : MHeap) : SHeap := h.map absObj

/-- a descriptor slot: nil = field absent, &nilGetSetObject = present and undefined -/
def slotField : Slot → Option (Option Fn)
  | .nil => none
  | .nilObj => some none
  | .fn k => some (some k)

/-- otto's `property`-as-descriptor read as an ES5 Property Descriptor -/
def absDesc (d : MProp) : PD :=
  { value := match d.value with | .val v => some v | _ => none
    writable := topt d.mode.w
    get := match d.value with | .gs g _ => slotField g | _ => none
    set := match d.value with | .gs _ s => slotField s | _ => none
    enumerable := topt d.mode.e
    configurable := topt d.mode.c }

end OttoVerif.C07.Lem
