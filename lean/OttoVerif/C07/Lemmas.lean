/-
  C07/Lemmas — helper definitions and lemmas for the C07 ledger: the octal mode arithmetic read as
  three trits, the abstraction from otto's property representation to ES5 attributes.
-/
import OttoVerif.C07.Driver
namespace OttoVerif.C07.Lem
open OttoVerif.C07 OttoVerif.C07.Spec

/-- how a stored trit is read by `writable()/enumerable()/configurable()`: 1 = true, 0 and 2 = false -/
def tb : Trit → Bool
  | .on => true
  | _ => false

/-- a descriptor trit as an optional attribute -/
def topt : Trit → Option Bool
  | .on => some true
  | .off => some false
  | .unset => none

/-- "the attribute is present in the descriptor" (digit 0 or 1) -/
def tset : Trit → Bool
  | .unset => false
  | _ => true

def onbit : Trit → Trit
  | .on => .on
  | _ => .off

/-! ### the literal bit formulas of property.go, digit by digit -/

macro "mode_cases" : tactic => `(tactic|
  (simp only [MProp.writable, MProp.writeSet, MProp.enumerable, MProp.enumerateSet, MProp.configurable,
     MProp.writeOff, MProp.configureOff, Mode.toNat, Trit.digit, modeWriteMask, modeEnumerateMask,
     modeConfigureMask, modeOnMask, modeSetMask] <;>
   first | decide | rfl | (congr 1 <;> decide)))

@[simp] theorem writable_eq (v : PV) (w e c : Trit) : (MProp.mk v ⟨w, e, c⟩).writable = tb w := by
  cases w <;> cases e <;> cases c <;> mode_cases
@[simp] theorem writeSet_eq (v : PV) (w e c : Trit) : (MProp.mk v ⟨w, e, c⟩).writeSet = tset w := by
  cases w <;> cases e <;> cases c <;> mode_cases
@[simp] theorem enumerable_eq (v : PV) (w e c : Trit) : (MProp.mk v ⟨w, e, c⟩).enumerable = tb e := by
  cases w <;> cases e <;> cases c <;> mode_cases
@[simp] theorem enumerateSet_eq (v : PV) (w e c : Trit) : (MProp.mk v ⟨w, e, c⟩).enumerateSet = tset e := by
  cases w <;> cases e <;> cases c <;> mode_cases
@[simp] theorem configurable_eq (v : PV) (w e c : Trit) : (MProp.mk v ⟨w, e, c⟩).configurable = tb c := by
  cases w <;> cases e <;> cases c <;> mode_cases
@[simp] theorem writeOff_eq (v : PV) (w e c : Trit) : (MProp.mk v ⟨w, e, c⟩).writeOff = ⟨v, ⟨.off, e, c⟩⟩ := by
  cases w <;> cases e <;> cases c <;> mode_cases
@[simp] theorem configureOff_eq (v : PV) (w e c : Trit) : (MProp.mk v ⟨w, e, c⟩).configureOff = ⟨v, ⟨w, e, .off⟩⟩ := by
  cases w <;> cases e <;> cases c <;> mode_cases
@[simp] theorem mode222_eq (w e c : Trit) : ((Mode.mk w e c).toNat == 0o222) = (!tset w && !tset e && !tset c) := by
  cases w <;> cases e <;> cases c <;> mode_cases

/-- object_class.go:415-437 on trits -/
def tritMerge (m1 m0 : Mode) (descIsData : Bool) : Mode :=
  ⟨ if tset m1.w then m1.w else (if descIsData then onbit m0.w else .unset),
    if tset m1.e then m1.e else onbit m0.e,
    if tset m1.c then m1.c else onbit m0.c ⟩

theorem mergeMode_eq (m1 m0 : Mode) (b : Bool) :
    Mode.ofNat (mergeMode m1.toNat m0.toNat b) = tritMerge m1 m0 b := by
  obtain ⟨w1, e1, c1⟩ := m1
  obtain ⟨w0, e0, c0⟩ := m0
  cases w1 <;> cases e1 <;> cases c1 <;> cases w0 <;> cases e0 <;> cases c0 <;> cases b <;> decide

/-! ### abstraction: otto's representation ↦ ES5 attributes -/

/-- a stored property read as ES5 attributes: trit 1 = true, trits 0 and 2 = false (DESIGN §C07) -/
def absProp (p : MProp) : SProp :=
  match p.value with
  | .val v => .data v (tb p.mode.w) (tb p.mode.e) (tb p.mode.c)
  | .gs g s => .acc (slotFn g) (slotFn s) (tb p.mode.e) (tb p.mode.c)
  | .nil => .data 0 (tb p.mode.w) (tb p.mode.e) (tb p.mode.c)

def absProps (l : List (Name × MProp)) : List (Name × SProp) := l.map (fun kp => (kp.1, absProp kp.2))

def absObj (o : MObj) : SObj := ⟨o.proto, o.ext, absProps o.props⟩

def absHeap (h : MHeap) : SHeap := h.map absObj

/-- a descriptor slot: nil = field absent, &nilGetSetObject = present and undefined -/
def slotField : Slot → Option (Option Fn)
  | .nil => none
  | .nilObj => some none
  | .fn k => some (some k)

/-- otto's `property`-as-descriptor read as an ES5 Property Descriptor -/
def absDesc (d : MProp) : PD :=
  { value := match d.value with | .val v => some v | _ => none
    writable := topt d.mode.w
    get := match d.value with | .gs g _ => slotField g | _ => none
    set := match d.value with | .gs _ s => slotField s | _ => none
    enumerable := topt d.mode.e
    configurable := topt d.mode.c }

/-! ### [[DefineOwnProperty]] on one existing property -/

/-- the `exists` branch of objectDefineOwnProperty (object_class.go:337-441) on one property:
    none = reject, some none = return true without writing, some (some p) = writeProperty p -/
def defineProp (prop d : MProp) : Option (Option MProp) :=
  if d.isEmpty then some none else
  let configurable := prop.configurable
  if !configurable && d.configurable then none
  else if !configurable && (d.enumerateSet && d.enumerable != prop.enumerable) then none
  else
    match defineSwitch prop d configurable with
    | none => none
    | some dvalue =>
      let value1 : PV := match dvalue with
        | .nil => prop.value
        | .gs g s => .gs (normSlot g) (normSlot s)
        | v => v
      let staysData := match value1 with | .val _ => true | _ => false
      let mode1 := Mode.ofNat (mergeMode d.mode.toNat prop.mode.toNat staysData)
      some (some ⟨value1, mode1⟩)

/-- §8.12.9 steps 5-13 on one existing property, same result convention -/
def sDefineProp (cur : SProp) (d : PD) : Option (Option SProp) :=
  if allAbsent d then some none
  else if subsumed d cur then some none
  else if !cur.configurable && d.configurable == some true then none
  else if !cur.configurable && (match d.enumerable with | some e => e != cur.enumerable | none => false) then none
  else
    match validate cur d with
    | none => none
    | some b => some (some (applyFields b d))

/-- the new property written when the name does not exist yet (object_class.go:324-335) -/
def createProp (d : MProp) : MProp :=
  ⟨match d.value with
    | .gs g s => .gs (normSlot g) (normSlot s)
    | .nil => .val 0
    | v => v, d.mode⟩

/-- §8.12.9 step 4 -/
def sCreateProp (d : PD) : SProp :=
  if Spec.isGenericDescriptor d || Spec.isDataDescriptor d then
    .data (d.value.getD 0) (d.writable.getD false) (d.enumerable.getD false) (d.configurable.getD false)
  else
    .acc (d.get.getD none) (d.set.getD none) (d.enumerable.getD false) (d.configurable.getD false)

theorem defineOwn_eq (o : MObj) (n : Name) (d : MProp) :
    defineOwn o n d =
      match alookup n o.props with
      | none => if !o.ext then none else some { o with props := aupsert n (createProp d) o.props }
      | some prop => (defineProp prop d).map (fun r => match r with
          | none => o
          | some p => { o with props := aupsert n p o.props }) := by
  unfold defineOwn defineProp createProp
  cases alookup n o.props with
  | none => rfl
  | some prop =>
    simp only []
    split
    · rfl
    · split
      · rfl
      · split
        · rfl
        · cases defineSwitch prop d prop.configurable <;> rfl

theorem sDefineOwn_eq (o : SObj) (n : Name) (d : PD) :
    Spec.defineOwn o n d =
      match alookup n o.props with
      | none => if !o.ext then none else some { o with props := aupsert n (sCreateProp d) o.props }
      | some cur => (sDefineProp cur d).map (fun r => match r with
          | none => o
          | some p => { o with props := aupsert n p o.props }) := by
  unfold Spec.defineOwn sDefineProp sCreateProp
  cases alookup n o.props with
  | none => rfl
  | some cur =>
    simp only []
    cases h1 : allAbsent d <;> cases h2 : subsumed d cur <;>
      cases h3 : (!cur.configurable && d.configurable == some true) <;>
      cases h4 : (!cur.configurable && (match d.enumerable with | some e => e != cur.enumerable | none => false)) <;>
      cases h5 : validate cur d <;> simp

/-- well-formed stored property: a value or a normalised getter/setter pair whose write trit is unset -/
def WFProp (p : MProp) : Prop :=
  match p.value with
  | .nil => False
  | .val _ => True
  | .gs g s => g ≠ .nilObj ∧ s ≠ .nilObj ∧ p.mode.w = .unset

/-- well-formed descriptor (everything toPropertyDescriptor can return) -/
def WFDesc (d : MProp) : Prop :=
  match d.value with
  | .gs g s => d.mode.w = .unset ∧ (g ≠ .nil ∨ s ≠ .nil)
  | _ => True

end OttoVerif.C07.Lem

/-! The heavy case enumerations live in this file (still namespace `Thm`, still audited) so that
    `Theorems.lean` stays quick to rebuild. -/
namespace OttoVerif.C07.Thm
open OttoVerif.C07 OttoVerif.C07.Spec OttoVerif.C07.Driver OttoVerif.C07.Lem

/-! ## [[DefineOwnProperty]] (§8.12.9), one property -/

/-- the single-property refinement statement -/
def PropGoal (prop d : MProp) : Prop :=
   (defineProp prop d).map (fun r => absProp (r.getD prop))
   = (sDefineProp (absProp prop) (absDesc d)).map (fun r => r.getD (absProp prop))

macro "unfold_model" : tactic => `(tactic|
  simp only [PropGoal, defineProp, defineSwitch, MProp.isEmpty, MProp.isGenericDescriptor, MProp.isDataDescriptor,
    MProp.isAccessorDescriptor, writable_eq, writeSet_eq, enumerable_eq, enumerateSet_eq, configurable_eq, mode222_eq, mergeMode_eq])

theorem fieldSame_none {α} [DecidableEq α] (c : Option α) : fieldSame none c = true := rfl
theorem fieldSame_some_none {α} [DecidableEq α] (x : α) : fieldSame (some x) none = false := by
  simp [fieldSame]
theorem fieldSame_some_some {α} [DecidableEq α] (x y : α) : fieldSame (some x) (some y) = decide (y = x) := by
  simp [fieldSame]; rfl

macro "unfold_spec" : tactic => `(tactic|
  simp only [sDefineProp, absProp, absDesc, allAbsent, subsumed, fieldSame_none, fieldSame_some_none, fieldSame_some_some, ofProp, validate, applyFields,
     Spec.isGenericDescriptor, Spec.isDataDescriptor, Spec.isAccessorDescriptor, SProp.configurable, SProp.enumerable, SProp.isData,
     Option.isSome, Option.isNone, Option.getD, slotField, slotFn, normSlot])

macro "trits" : tactic => `(tactic|
  (first | rfl))

theorem neqForms {α} [DecidableEq α] {a b : α} (h : a ≠ b) :
   (a != b) = true ∧ (b != a) = true ∧ (a == b) = false ∧ (b == a) = false ∧
   decide (a = b) = false ∧ decide (b = a) = false ∧ (some a != some b) = true ∧ (some b != some a) = true := by
  have h' : b ≠ a := fun e => h e.symm
  simp [h, h']


set_option maxHeartbeats 2000000 in
theorem caseVN (pv : Val) (pw pe pc dw de dc : Trit) : PropGoal ⟨.val pv, ⟨pw,pe,pc⟩⟩ ⟨.nil, ⟨dw,de,dc⟩⟩ := by
  unfold_model
  unfold_spec
  cases pw <;> cases pe <;> cases pc <;> cases dw <;> cases de <;> cases dc <;> trits

set_option maxHeartbeats 4000000 in
theorem caseVV (pv dv : Val) (pw pe pc dw de dc : Trit) : PropGoal ⟨.val pv, ⟨pw,pe,pc⟩⟩ ⟨.val dv, ⟨dw,de,dc⟩⟩ := by
  unfold_model
  unfold_spec
  by_cases hv : dv = pv
  · subst hv
    try simp only [bne_self_eq_false, beq_self_eq_true, eq_self, decide_true]
    cases pw <;> cases pe <;> cases pc <;> cases dw <;> cases de <;> cases dc <;> trits
  · obtain ⟨e1, e2, e3, e4, e5, e6, e7, e8⟩ := neqForms hv
    try simp only [e1, e2, e3, e4, e5, e6, e7, e8]
    cases pw <;> cases pe <;> cases pc <;> cases dw <;> cases de <;> cases dc <;> trits

set_option maxHeartbeats 2000000 in
theorem caseGN (pg ps : Slot) (hg : pg ≠ .nilObj) (hs : ps ≠ .nilObj) (pe pc dw de dc : Trit) :
    PropGoal ⟨.gs pg ps, ⟨.unset,pe,pc⟩⟩ ⟨.nil, ⟨dw,de,dc⟩⟩ := by
  unfold_model
  unfold_spec
  cases pg <;> cases ps <;> first | exact absurd rfl hg | exact absurd rfl hs |
   (cases pe <;> cases pc <;> cases dw <;> cases de <;> cases dc <;> trits)

set_option maxHeartbeats 2000000 in
theorem caseGV (pg ps : Slot) (hg : pg ≠ .nilObj) (hs : ps ≠ .nilObj) (dv : Val) (pe pc dw de dc : Trit) :
    PropGoal ⟨.gs pg ps, ⟨.unset,pe,pc⟩⟩ ⟨.val dv, ⟨dw,de,dc⟩⟩ := by
  unfold_model
  unfold_spec
  cases pg <;> cases ps <;> first | exact absurd rfl hg | exact absurd rfl hs |
   (cases pe <;> cases pc <;> cases dw <;> cases de <;> cases dc <;> trits)

set_option maxHeartbeats 4000000 in
theorem caseVG (pv : Val) (dg ds : Slot) (hd : dg ≠ .nil ∨ ds ≠ .nil) (pw pe pc de dc : Trit) :
    PropGoal ⟨.val pv, ⟨pw,pe,pc⟩⟩ ⟨.gs dg ds, ⟨.unset,de,dc⟩⟩ := by
  unfold_model
  unfold_spec
  try simp only [bne_self_eq_false, beq_self_eq_true, eq_self, decide_true]
  cases dg <;> cases ds <;> first | (exfalso; exact hd.elim (fun h => h rfl) (fun h => h rfl)) |
   (cases pw <;> cases pe <;> cases pc <;> cases de <;> cases dc <;> trits)

theorem slotNeq {k1 k2 : Fn} (h : k1 ≠ k2) :
    (Slot.fn k1 != Slot.fn k2) = true ∧ (Slot.fn k2 != Slot.fn k1) = true ∧
    (Slot.fn k1 == Slot.fn k2) = false ∧ (Slot.fn k2 == Slot.fn k1) = false ∧
    ((some k1 : Option Fn) != some k2) = true ∧ ((some k2 : Option Fn) != some k1) = true ∧
    decide ((some k1 : Option Fn) = some k2) = false ∧ decide ((some k2 : Option Fn) = some k1) = false := by
  have h' : k2 ≠ k1 := fun e => h e.symm
  simp [h, h']


def pslot : Option Fn → Slot
  | none => .nil
  | some k => .fn k

def dslot : Option (Option Fn) → Slot
  | none => .nil
  | some none => .nilObj
  | some (some k) => .fn k

set_option hygiene false in
macro "fin4" : tactic => `(tactic|
  ((try simp only [bne_self_eq_false, beq_self_eq_true, eq_self, decide_true]) <;>
   cases pe <;> cases pc <;> cases de <;> cases dc <;> trits))

macro "atom" h:ident : tactic => `(tactic|
  first
  | subst $h
  | (obtain ⟨e1, e2, e3, e4, e5, e6, e7, e8⟩ := slotNeq $h
     try simp only [e1, e2, e3, e4, e5, e6, e7, e8]))

set_option maxHeartbeats 16000000 in
theorem caseGG (a b : Option Fn) (x y : Option (Option Fn)) (hd : dslot x ≠ .nil ∨ dslot y ≠ .nil) (pe pc de dc : Trit) :
    PropGoal ⟨.gs (pslot a) (pslot b), ⟨.unset,pe,pc⟩⟩ ⟨.gs (dslot x) (dslot y), ⟨.unset,de,dc⟩⟩ := by
  rcases a with _ | k1 <;> rcases b with _ | k2 <;> rcases x with _ | _ | k3 <;> rcases y with _ | _ | k4 <;>
    simp only [pslot, dslot] at hd ⊢ <;>
    first
    | (exfalso; exact hd.elim (fun h => h rfl) (fun h => h rfl))
    | (unfold_model
       unfold_spec
       try simp only [reduceCtorEq, ↓reduceIte]
       first
       | (by_cases h13 : k1 = k3 <;> by_cases h24 : k2 = k4 <;> atom h13 <;> atom h24 <;> fin4)
       | (by_cases h13 : k1 = k3 <;> atom h13 <;> fin4)
       | (by_cases h24 : k2 = k4 <;> atom h24 <;> fin4)
       | fin4)

theorem pslot_slotFn {g : Slot} (h : g ≠ .nilObj) : pslot (slotFn g) = g := by
  cases g <;> first | rfl | exact absurd rfl h

theorem dslot_slotField (g : Slot) : dslot (slotField g) = g := by cases g <;> rfl

/-- **[[DefineOwnProperty]] on an existing property** (object_class.go:337-441 vs §8.12.9 steps 5-13):
    for EVERY well-formed stored property and EVERY descriptor `toPropertyDescriptor` can produce,
    otto rejects exactly when ES5 rejects (no region excluded since the `fix:` commits) and
    the property written has exactly the ES5 attributes. -/
theorem defineProp_refines (prop d : MProp) (hp : WFProp prop) (hd : WFDesc d) : PropGoal prop d := by
  obtain ⟨pval, ⟨pw, pe, pc⟩⟩ := prop
  obtain ⟨dval, ⟨dw, de, dc⟩⟩ := d
  cases pval with
  | nil => exact hp.elim
  | val pv =>
    cases dval with
    | nil => exact caseVN pv pw pe pc dw de dc
    | val dv => exact caseVV pv dv pw pe pc dw de dc
    | gs dg ds =>
      obtain ⟨hw, hne⟩ := hd
      simp only at hw
      subst hw
      exact caseVG pv dg ds hne pw pe pc de dc
  | gs pg ps =>
    obtain ⟨hg, hs, hw⟩ := hp
    simp only at hw
    subst hw
    cases dval with
    | nil => exact caseGN pg ps hg hs pe pc dw de dc
    | val dv => exact caseGV pg ps hg hs dv pe pc dw de dc
    | gs dg ds =>
      obtain ⟨hw, hne⟩ := hd
      simp only at hw
      subst hw
      have := caseGG (slotFn pg) (slotFn ps) (slotField dg) (slotField ds)
        (by rw [dslot_slotField, dslot_slotField]; exact hne) pe pc de dc
      rw [pslot_slotFn hg, pslot_slotFn hs, dslot_slotField, dslot_slotField] at this
      exact this

/-! ## well-formedness is preserved by [[DefineOwnProperty]] -/

/-- Boolean form of `WFProp` -/
def wfb (p : MProp) : Bool :=
  match p.value with
  | .nil => false
  | .val _ => true
  | .gs g s => (match g with | .nilObj => false | _ => true) && (match s with | .nilObj => false | _ => true) &&
      (match p.mode.w with | .unset => true | _ => false)

theorem wfb_iff (p : MProp) : wfb p = true ↔ WFProp p := by
  obtain ⟨v, ⟨w, e, c⟩⟩ := p
  cases v with
  | nil => simp [wfb, WFProp]
  | val v => simp [wfb, WFProp]
  | gs g s => cases g <;> cases s <;> cases w <;> simp [wfb, WFProp]

def WFGoal (prop d : MProp) : Prop :=
  (match defineProp prop d with | some (some p) => wfb p | _ => true) = true

macro "unfold_wf" : tactic => `(tactic|
  simp only [WFGoal, defineProp, defineSwitch, MProp.isEmpty, MProp.isGenericDescriptor, MProp.isDataDescriptor,
    MProp.isAccessorDescriptor, writable_eq, writeSet_eq, enumerable_eq, enumerateSet_eq, configurable_eq, mode222_eq, mergeMode_eq,
    normSlot])

macro "trits1" : tactic => `(tactic| (first | rfl))

set_option maxHeartbeats 2000000 in
theorem wfVN (pv : Val) (pw pe pc dw de dc : Trit) : WFGoal ⟨.val pv, ⟨pw,pe,pc⟩⟩ ⟨.nil, ⟨dw,de,dc⟩⟩ := by
  unfold_wf
  cases pw <;> cases pe <;> cases pc <;> cases dw <;> cases de <;> cases dc <;> trits1

set_option maxHeartbeats 4000000 in
theorem wfVV (pv dv : Val) (pw pe pc dw de dc : Trit) : WFGoal ⟨.val pv, ⟨pw,pe,pc⟩⟩ ⟨.val dv, ⟨dw,de,dc⟩⟩ := by
  unfold_wf
  by_cases hv : dv = pv
  · subst hv
    try simp only [bne_self_eq_false, beq_self_eq_true, eq_self, decide_true]
    cases pw <;> cases pe <;> cases pc <;> cases dw <;> cases de <;> cases dc <;> trits1
  · obtain ⟨e1, e2, e3, e4, e5, e6, e7, e8⟩ := neqForms hv
    try simp only [e1, e2, e3, e4, e5, e6, e7, e8]
    cases pw <;> cases pe <;> cases pc <;> cases dw <;> cases de <;> cases dc <;> trits1

set_option maxHeartbeats 2000000 in
theorem wfGN (pg ps : Slot) (hg : pg ≠ .nilObj) (hs : ps ≠ .nilObj) (pe pc dw de dc : Trit) :
    WFGoal ⟨.gs pg ps, ⟨.unset,pe,pc⟩⟩ ⟨.nil, ⟨dw,de,dc⟩⟩ := by
  unfold_wf
  cases pg <;> cases ps <;> first | exact absurd rfl hg | exact absurd rfl hs |
   (cases pe <;> cases pc <;> cases dw <;> cases de <;> cases dc <;> trits1)

set_option maxHeartbeats 2000000 in
theorem wfGV (pg ps : Slot) (dv : Val) (pe pc dw de dc : Trit) :
    WFGoal ⟨.gs pg ps, ⟨.unset,pe,pc⟩⟩ ⟨.val dv, ⟨dw,de,dc⟩⟩ := by
  unfold_wf
  cases pg <;> cases ps <;> cases pe <;> cases pc <;> cases dw <;> cases de <;> cases dc <;> trits1

set_option maxHeartbeats 4000000 in
theorem wfVG (pv : Val) (dg ds : Slot) (pw pe pc de dc : Trit) :
    WFGoal ⟨.val pv, ⟨pw,pe,pc⟩⟩ ⟨.gs dg ds, ⟨.unset,de,dc⟩⟩ := by
  unfold_wf
  cases dg <;> cases ds <;> cases pw <;> cases pe <;> cases pc <;> cases de <;> cases dc <;> trits1

set_option hygiene false in
macro "fin4w" : tactic => `(tactic|
  ((try simp only [bne_self_eq_false, beq_self_eq_true, eq_self, decide_true]) <;>
   cases pe <;> cases pc <;> cases de <;> cases dc <;> trits1))

set_option maxHeartbeats 16000000 in
theorem wfGG (a b : Option Fn) (x y : Option (Option Fn)) (pe pc de dc : Trit) :
    WFGoal ⟨.gs (pslot a) (pslot b), ⟨.unset,pe,pc⟩⟩ ⟨.gs (dslot x) (dslot y), ⟨.unset,de,dc⟩⟩ := by
  rcases a with _ | k1 <;> rcases b with _ | k2 <;> rcases x with _ | _ | k3 <;> rcases y with _ | _ | k4 <;>
    simp only [pslot, dslot] <;>
    (unfold_wf
     try simp only [reduceCtorEq, ↓reduceIte]
     first
       | (by_cases h13 : k1 = k3 <;> by_cases h24 : k2 = k4 <;> atom h13 <;> atom h24 <;> fin4w)
       | (by_cases h13 : k1 = k3 <;> atom h13 <;> fin4w)
       | (by_cases h24 : k2 = k4 <;> atom h24 <;> fin4w)
       | fin4w)

/-- the part of `WFDesc` that well-formedness preservation needs (also met by a stored property
    used as a descriptor, as freeze / seal / put do) -/
def WFDescW (d : MProp) : Prop :=
  match d.value with
  | .gs _ _ => d.mode.w = .unset
  | _ => True

theorem WFDesc.weak {d : MProp} (h : WFDesc d) : WFDescW d := by
  obtain ⟨v, m⟩ := d
  cases v with
  | gs g s => exact h.1
  | nil => trivial
  | val v => trivial

/-- an accepted redefinition of a well-formed property by a well-formed descriptor writes a
    well-formed property -/
theorem defineProp_wf (prop d p : MProp) (hp : WFProp prop) (hd : WFDescW d)
    (h : defineProp prop d = some (some p)) : WFProp p := by
  have key : WFGoal prop d := by
    obtain ⟨pval, ⟨pw, pe, pc⟩⟩ := prop
    obtain ⟨dval, ⟨dw, de, dc⟩⟩ := d
    cases pval with
    | nil => exact hp.elim
    | val pv =>
      cases dval with
      | nil => exact wfVN pv pw pe pc dw de dc
      | val dv => exact wfVV pv dv pw pe pc dw de dc
      | gs dg ds =>
        have hw : dw = .unset := hd
        subst hw
        exact wfVG pv dg ds pw pe pc de dc
    | gs pg ps =>
      obtain ⟨hg, hs, hw⟩ := hp
      simp only at hw
      subst hw
      cases dval with
      | nil => exact wfGN pg ps hg hs pe pc dw de dc
      | val dv => exact wfGV pg ps dv pe pc dw de dc
      | gs dg ds =>
        have hw : dw = .unset := hd
        subst hw
        have := wfGG (slotFn pg) (slotFn ps) (slotField dg) (slotField ds) pe pc de dc
        rw [pslot_slotFn hg, pslot_slotFn hs, dslot_slotField, dslot_slotField] at this
        exact this
  have := key
  simp only [WFGoal] at this
  rw [h] at this
  exact (wfb_iff p).1 this

theorem createProp_wf (d : MProp) (hd : WFDescW d) : WFProp (createProp d) := by
  obtain ⟨dval, ⟨dw, de, dc⟩⟩ := d
  cases dval with
  | nil => trivial
  | val v => trivial
  | gs g s =>
    have hw : dw = .unset := hd
    subst hw
    cases g <;> cases s <;> exact ⟨by simp [createProp, normSlot], by simp [createProp, normSlot], rfl⟩

/-! ## a non-configurable property is never re-shaped (holds for ALL descriptors, also inside the regions) -/

def isVal : PV → Bool
  | .val _ => true
  | _ => false

/-- what an accepted redefinition may do to a NON-configurable property `prop` (ES5 §8.12.9 steps 7-11):
    configurable stays false, enumerable and the kind are unchanged, and if it is not writable (every
    accessor, and every non-writable data property) the value / getter-setter pair is unchanged and it
    stays non-writable.  (writable → non-writable and a new value for a writable one are allowed.) -/
def PStable (prop p' : MProp) : Prop :=
  (tb p'.mode.c, tb p'.mode.e, isVal p'.value,
    (if tb prop.mode.w then prop.value else p'.value), (if tb prop.mode.w then false else tb p'.mode.w))
  = (false, tb prop.mode.e, isVal prop.value, prop.value, false)

def StabGoal (prop d : MProp) : Prop :=
  tb prop.mode.c = false →
    match defineProp prop d with
    | some (some p') => PStable prop p'
    | _ => True

macro "unfold_stab" : tactic => `(tactic|
  simp only [StabGoal, PStable, defineProp, defineSwitch, MProp.isEmpty, MProp.isGenericDescriptor, MProp.isDataDescriptor,
    MProp.isAccessorDescriptor, writable_eq, writeSet_eq, enumerable_eq, enumerateSet_eq, configurable_eq, mode222_eq, mergeMode_eq,
    normSlot])

macro "trits2" : tactic => `(tactic| (intro h1 <;> first | exact Bool.noConfusion h1 | exact rfl | exact True.intro))

set_option maxHeartbeats 2000000 in
theorem stVN (pv : Val) (pw pe pc dw de dc : Trit) : StabGoal ⟨.val pv, ⟨pw,pe,pc⟩⟩ ⟨.nil, ⟨dw,de,dc⟩⟩ := by
  unfold_stab
  cases pw <;> cases pe <;> cases pc <;> cases dw <;> cases de <;> cases dc <;> trits2

set_option maxHeartbeats 4000000 in
theorem stVV (pv dv : Val) (pw pe pc dw de dc : Trit) : StabGoal ⟨.val pv, ⟨pw,pe,pc⟩⟩ ⟨.val dv, ⟨dw,de,dc⟩⟩ := by
  unfold_stab
  by_cases hv : dv = pv
  · subst hv
    try simp only [bne_self_eq_false, beq_self_eq_true, eq_self, decide_true]
    cases pw <;> cases pe <;> cases pc <;> cases dw <;> cases de <;> cases dc <;> trits2
  · obtain ⟨e1, e2, e3, e4, e5, e6, e7, e8⟩ := neqForms hv
    try simp only [e1, e2, e3, e4, e5, e6, e7, e8]
    cases pw <;> cases pe <;> cases pc <;> cases dw <;> cases de <;> cases dc <;> trits2

set_option maxHeartbeats 2000000 in
theorem stGN (pg ps : Slot) (hg : pg ≠ .nilObj) (hs : ps ≠ .nilObj) (pe pc dw de dc : Trit) :
    StabGoal ⟨.gs pg ps, ⟨.unset,pe,pc⟩⟩ ⟨.nil, ⟨dw,de,dc⟩⟩ := by
  unfold_stab
  cases pg <;> cases ps <;> first | exact absurd rfl hg | exact absurd rfl hs |
   (cases pe <;> cases pc <;> cases dw <;> cases de <;> cases dc <;> trits2)

set_option maxHeartbeats 2000000 in
theorem stGV (pg ps : Slot) (dv : Val) (pe pc dw de dc : Trit) :
    StabGoal ⟨.gs pg ps, ⟨.unset,pe,pc⟩⟩ ⟨.val dv, ⟨dw,de,dc⟩⟩ := by
  unfold_stab
  cases pg <;> cases ps <;> cases pe <;> cases pc <;> cases dw <;> cases de <;> cases dc <;> trits2

set_option maxHeartbeats 4000000 in
theorem stVG (pv : Val) (dg ds : Slot) (hd : dg ≠ .nil ∨ ds ≠ .nil) (pw pe pc de dc : Trit) :
    StabGoal ⟨.val pv, ⟨pw,pe,pc⟩⟩ ⟨.gs dg ds, ⟨.unset,de,dc⟩⟩ := by
  unfold_stab
  cases dg <;> cases ds <;> first | (exfalso; exact hd.elim (fun h => h rfl) (fun h => h rfl)) |
    (cases pw <;> cases pe <;> cases pc <;> cases de <;> cases dc <;> trits2)

set_option hygiene false in
macro "fin4s" : tactic => `(tactic|
  ((try simp only [bne_self_eq_false, beq_self_eq_true, eq_self, decide_true]) <;>
   cases pe <;> cases pc <;> cases de <;> cases dc <;> trits2))

set_option hygiene false in
macro "gg_main" : tactic => `(tactic|
  (unfold_stab
   try simp only [reduceCtorEq, ↓reduceIte]
   first
     | (by_cases h13 : k1 = k3 <;> by_cases h24 : k2 = k4 <;> atom h13 <;> atom h24 <;> fin4s)
     | (by_cases h13 : k1 = k3 <;> atom h13 <;> fin4s)
     | (by_cases h24 : k2 = k4 <;> atom h24 <;> fin4s)
     | fin4s))

set_option maxHeartbeats 32000000 in
theorem stGG (a b : Option Fn) (x y : Option (Option Fn))
    (hd : (dslot x ≠ .nil ∨ dslot y ≠ .nil) ∨ (dslot x = pslot a ∧ dslot y = pslot b)) (pe pc de dc : Trit) :
    StabGoal ⟨.gs (pslot a) (pslot b), ⟨.unset,pe,pc⟩⟩ ⟨.gs (dslot x) (dslot y), ⟨.unset,de,dc⟩⟩ := by
  rcases a with _ | k1 <;> rcases b with _ | k2 <;> rcases x with _ | _ | k3 <;> rcases y with _ | _ | k4 <;>
    first
    | (exfalso
       rcases hd with (h | h) | ⟨h1, h2⟩ <;>
         first | exact h rfl | (simp [pslot, dslot] at h1; done) | (simp [pslot, dslot] at h2; done))
    | (simp only [pslot, dslot]; gg_main)

/-- **a non-configurable property is never re-shaped by [[DefineOwnProperty]]** – for every
    well-formed stored property and every descriptor otto can build (no region excluded) -/
theorem defineProp_stable (prop d p' : MProp) (hp : WFProp prop)
    (hd : WFDesc d ∨ (WFDescW d ∧ d.value = prop.value)) (hc : tb prop.mode.c = false)
    (h : defineProp prop d = some (some p')) : PStable prop p' := by
  have key : StabGoal prop d := by
    obtain ⟨pval, ⟨pw, pe, pc⟩⟩ := prop
    obtain ⟨dval, ⟨dw, de, dc⟩⟩ := d
    cases pval with
    | nil => exact hp.elim
    | val pv =>
      cases dval with
      | nil => exact stVN pv pw pe pc dw de dc
      | val dv => exact stVV pv dv pw pe pc dw de dc
      | gs dg ds =>
        rcases hd with hd | ⟨_, hv⟩
        · obtain ⟨hw, hne⟩ := hd
          simp only at hw
          subst hw
          exact stVG pv dg ds hne pw pe pc de dc
        · cases hv
    | gs pg ps =>
      obtain ⟨hg, hs, hw⟩ := hp
      simp only at hw
      subst hw
      cases dval with
      | nil => exact stGN pg ps hg hs pe pc dw de dc
      | val dv => exact stGV pg ps dv pe pc dw de dc
      | gs dg ds =>
        have hw : dw = .unset := by
          rcases hd with hd | ⟨hd, _⟩
          · exact hd.1
          · exact hd
        subst hw
        have := stGG (slotFn pg) (slotFn ps) (slotField dg) (slotField ds)
          (by
            rw [pslot_slotFn hg, pslot_slotFn hs, dslot_slotField, dslot_slotField]
            rcases hd with hd | ⟨_, hv⟩
            · exact Or.inl hd.2
            · simp only [PV.gs.injEq] at hv; exact Or.inr hv) pe pc de dc
        rw [pslot_slotFn hg, pslot_slotFn hs, dslot_slotField, dslot_slotField] at this
        exact this
  have := key hc
  rw [h] at this
  exact this

end OttoVerif.C07.Thm
