/-
  C07/Lemmas — helper definitions and lemmas for the C07 ledger: the octal mode arithmetic read as
  three trits, the abstraction from otto's property representation to ES5 attributes.
-/
import OttoVerif.C07.Driver
namespace OttoVerif.C07.Lem
open OttoVerif.C07 OttoVerif.C07.Spec

/-- how a stored trit is read by `writable()/enumerable()/configurable()`: 1 = true, 0 and 2 = false -/
def tb : Trit → Bool
  | .on => true
  | _ => false

/-- a descriptor trit as an optional attribute -/
def topt : Trit → Option Bool
  | .on => some true
  | .off => some false
  | .unset => none

/-- "the attribute is present in the descriptor" (digit 0 or 1) -/
def tset : Trit → Bool
  | .unset => false
  | _ => true

def onbit : Trit → Trit
  | .on => .on
  | _ => .off

/-! ### the literal bit formulas of property.go, digit by digit -/

macro "mode_cases" : tactic => `(tactic|
  (simp only [MProp.writable, MProp.writeSet, MProp.enumerable, MProp.enumerateSet, MProp.configurable,
     MProp.writeOff, MProp.configureOff, Mode.toNat, Trit.digit, modeWriteMask, modeEnumerateMask,
     modeConfigureMask, modeOnMask, modeSetMask] <;>
   first | decide | rfl | (congr 1 <;> decide)))

@[simp] theorem writable_eq (v : PV) (w e c : Trit) : (MProp.mk v ⟨w, e, c⟩).writable = tb w := by
  cases w <;> cases e <;> cases c <;> mode_cases
@[simp] theorem writeSet_eq (v : PV) (w e c : Trit) : (MProp.mk v ⟨w, e, c⟩).writeSet = tset w := by
  cases w <;> cases e <;> cases c <;> mode_cases
@[simp] theorem enumerable_eq (v : PV) (w e c : Trit) : (MProp.mk v ⟨w, e, c⟩).enumerable = tb e := by
  cases w <;> cases e <;> cases c <;> mode_cases
@[simp] theorem enumerateSet_eq (v : PV) (w e c : Trit) : (MProp.mk v ⟨w, e, c⟩).enumerateSet = tset e := by
  cases w <;> cases e <;> cases c <;> mode_cases
@[simp] theorem configurable_eq (v : PV) (w e c : Trit) : (MProp.mk v ⟨w, e, c⟩).configurable = tb c := by
  cases w <;> cases e <;> cases c <;> mode_cases
@[simp] theorem writeOff_eq (v : PV) (w e c : Trit) : (MProp.mk v ⟨w, e, c⟩).writeOff = ⟨v, ⟨.off, e, c⟩⟩ := by
  cases w <;> cases e <;> cases c <;> mode_cases
@[simp] theorem configureOff_eq (v : PV) (w e c : Trit) : (MProp.mk v ⟨w, e, c⟩).configureOff = ⟨v, ⟨w, e, .off⟩⟩ := by
  cases w <;> cases e <;> cases c <;> mode_cases
@[simp] theorem mode222_eq (w e c : Trit) : ((Mode.mk w e c).toNat == 0o222) = (!tset w && !tset e && !tset c) := by
  cases w <;> cases e <;> cases c <;> mode_cases

/-- object_class.go:415-437 on trits -/
def tritMerge (m1 m0 : Mode) (descIsData : Bool) : Mode :=
  ⟨ if tset m1.w then m1.w else (if descIsData then onbit m0.w else .unset),
    if tset m1.e then m1.e else onbit m0.e,
    if tset m1.c then m1.c else onbit m0.c ⟩

theorem mergeMode_eq (m1 m0 : Mode) (b : Bool) :
    Mode.ofNat (mergeMode m1.toNat m0.toNat b) = tritMerge m1 m0 b := by
  obtain ⟨w1, e1, c1⟩ := m1
  obtain ⟨w0, e0, c0⟩ := m0
  cases w1 <;> cases e1 <;> cases c1 <;> cases w0 <;> cases e0 <;> cases c0 <;> cases b <;> decide

/-! ### abstraction: otto's representation ↦ ES5 attributes -/

/-- a stored property read as ES5 attributes: trit 1 = true, trits 0 and 2 = false (DESIGN §C07) -/
def absProp (p : MProp) : SProp :=
  match p.value with
  | .val v => .data v (tb p.mode.w) (tb p.mode.e) (tb p.mode.c)
  | .gs g s => .acc (slotFn g) (slotFn s) (tb p.mode.e) (tb p.mode.c)
  | .nil => .data 0 (tb p.mode.w) (tb p.mode.e) (tb p.mode.c)

def absProps (l : List (Name × MProp)) : List (Name × SProp) := l.map (fun kp => (kp.1, absProp kp.2))

def absObj (o : MObj) : SObj := ⟨o.proto, o.ext, absProps o.props⟩

def absHeap (h : MHeap) : SHeap := h.map absObj

/-- a descriptor slot: nil = field absent, &nilGetSetObject = present and undefined -/
def slotField : Slot → Option (Option Fn)
  | .nil => none
  | .nilObj => some none
  | .fn k => some (some k)

/-- otto's `property`-as-descriptor read as an ES5 Property Descriptor -/
def absDesc (d : MProp) : PD :=
  { value := match d.value with | .val v => some v | _ => none
    writable := topt d.mode.w
    get := match d.value with | .gs g _ => slotField g | _ => none
    set := match d.value with | .gs _ s => slotField s | _ => none
    enumerable := topt d.mode.e
    configurable := topt d.mode.c }

/-! ### [[DefineOwnProperty]] on one existing property -/

/-- the `exists` branch of objectDefineOwnProperty (object_class.go:337-441) on one property:
    none = reject, some none = return true without writing, some (some p) = writeProperty p -/
def defineProp (prop d : MProp) : Option (Option MProp) :=
  if d.isEmpty then some none else
  let configurable := prop.configurable
  if !configurable && d.configurable then none
  else if !configurable && (d.enumerateSet && d.enumerable != prop.enumerable) then none
  else
    match defineSwitch prop d configurable with
    | none => none
    | some dvalue =>
      let value1 : PV := match dvalue with
        | .nil => prop.value
        | .gs g s => .gs (normSlot g) (normSlot s)
        | v => v
      let d' : MProp := ⟨dvalue, d.mode⟩
      let mode1 := Mode.ofNat (mergeMode d.mode.toNat prop.mode.toNat d'.isDataDescriptor)
      some (some ⟨value1, mode1⟩)

/-- §8.12.9 steps 5-13 on one existing property, same result convention -/
def sDefineProp (cur : SProp) (d : PD) : Option (Option SProp) :=
  if allAbsent d then some none
  else if subsumed d cur then some none
  else if !cur.configurable && d.configurable == some true then none
  else if !cur.configurable && (match d.enumerable with | some e => e != cur.enumerable | none => false) then none
  else
    match validate cur d with
    | none => none
    | some b => some (some (applyFields b d))

/-- the new property written when the name does not exist yet (object_class.go:324-335) -/
def createProp (d : MProp) : MProp :=
  ⟨match d.value with
    | .gs g s => .gs (normSlot g) (normSlot s)
    | .nil => .val 0
    | v => v, d.mode⟩

/-- §8.12.9 step 4 -/
def sCreateProp (d : PD) : SProp :=
  if Spec.isGenericDescriptor d || Spec.isDataDescriptor d then
    .data (d.value.getD 0) (d.writable.getD false) (d.enumerable.getD false) (d.configurable.getD false)
  else
    .acc (d.get.getD none) (d.set.getD none) (d.enumerable.getD false) (d.configurable.getD false)

theorem defineOwn_eq (o : MObj) (n : Name) (d : MProp) :
    defineOwn o n d =
      match alookup n o.props with
      | none => if !o.ext then none else some { o with props := aupsert n (createProp d) o.props }
      | some prop => (defineProp prop d).map (fun r => match r with
          | none => o
          | some p => { o with props := aupsert n p o.props }) := by
  unfold defineOwn defineProp createProp
  cases alookup n o.props with
  | none => rfl
  | some prop =>
    simp only []
    split
    · rfl
    · split
      · rfl
      · split
        · rfl
        · cases defineSwitch prop d prop.configurable <;> rfl

theorem sDefineOwn_eq (o : SObj) (n : Name) (d : PD) :
    Spec.defineOwn o n d =
      match alookup n o.props with
      | none => if !o.ext then none else some { o with props := aupsert n (sCreateProp d) o.props }
      | some cur => (sDefineProp cur d).map (fun r => match r with
          | none => o
          | some p => { o with props := aupsert n p o.props }) := by
  unfold Spec.defineOwn sDefineProp sCreateProp
  cases alookup n o.props with
  | none => rfl
  | some cur =>
    simp only []
    cases h1 : allAbsent d <;> cases h2 : subsumed d cur <;>
      cases h3 : (!cur.configurable && d.configurable == some true) <;>
      cases h4 : (!cur.configurable && (match d.enumerable with | some e => e != cur.enumerable | none => false)) <;>
      cases h5 : validate cur d <;> simp

/-- the two single-property deviation regions (same predicates as Driver.devGenericAt / devAccToDataAt) -/
def devG (prop d : MProp) : Bool :=
  (match prop.value with | .val _ => true | _ => false) && prop.writable &&
    d.isGenericDescriptor && !d.isEmpty && (defineProp prop d).isSome

def devA2D (prop d : MProp) : Bool :=
  (match prop.value with | .gs _ _ => true | _ => false) &&
    d.isDataDescriptor && (match d.value with | .nil => true | _ => false) && (defineProp prop d).isSome

/-- well-formed stored property: a value or a normalised getter/setter pair whose write trit is unset -/
def WFProp (p : MProp) : Prop :=
  match p.value with
  | .nil => False
  | .val _ => True
  | .gs g s => g ≠ .nilObj ∧ s ≠ .nilObj ∧ p.mode.w = .unset

/-- well-formed descriptor (everything toPropertyDescriptor can return) -/
def WFDesc (d : MProp) : Prop :=
  match d.value with
  | .gs g s => d.mode.w = .unset ∧ (g ≠ .nil ∨ s ≠ .nil)
  | _ => True

end OttoVerif.C07.Lem
