/-
  C07/Driver — line protocol front end (core-only) and the deviation regions.

  request:  h <op> <op> …          (one history, run from the empty heap)
    P.<strict>.<a>.<n>.<v>         O[a].n = v            (strict: inside a "use strict" function)
    X.<strict>.<a>.<n>             delete O[a].n
    D.<a>.<n>.<desc>               Object.defineProperty(O[a], n, desc)
    M.<a>/<n>.<desc>/<n>.<desc>…   Object.defineProperties(O[a], {n: desc, …})
    C.<p>/<n>.<desc>/…             O.push(Object.create(p = '-' ? null-or-Object.prototype : O[p], {…}))
    F.<a>  S.<a>  E.<a>            Object.freeze / seal / preventExtensions
    L/<m>/<m>…                     O.push(an object literal); <m> = v.<n>.<v> | g.<n> | s.<n>
    N.<kind>                       O.push(a runtime-created object): fproto func terr err regexp date
    <desc> = N (not an object) | <e>.<c>.<w>.<v>.<g>.<s>   with '-' = field absent;
             e,c,w ∈ 0|1; v = value code; g,s ∈ u (undefined) | b (not callable) | function index
  reply:    <model> <spec> <dev>   model/spec = per step `out|calls|obj|obj…` joined by ';'
-/
import OttoVerif.Base.Proto
import OttoVerif.C07.Spec
namespace OttoVerif.C07.Driver
open OttoVerif.C07

/-! ### deviation regions (decidable predicates over the request, evaluated along the model run) -/

/-- `Dev_strict_ignored`: an assignment / delete in strict code that ES5 makes throw (the model's
    sloppy run of the same operation is refused) – otto has no strict mode. -/
def devStrict (h : MHeap) : Op → Bool
  | .put true a n v =>
    (match h[a]? with
     | none => false
     | some o =>
       match canPutDetails h o n with
       | (false, _, _) => true
       | (true, _, some _) => false
       | (true, some prop, none) => (defineOwn o n { prop with value := .val v }).isNone
       | (true, none, none) => (defineOwn o n ⟨.val v, ⟨.on, .on, .on⟩⟩).isNone)
  | .del true a n =>
    (match h[a]? with
     | none => false
     | some o => match alookup n o.props with | some prop => !prop.configurable | none => false)
  | _ => false

/-- `Dev_object_literal_duplicate_property` (the C04 region of the same name, seen from the object model):
    an object literal that names one property as data and as accessor, or twice as getter / twice as setter,
    is a SyntaxError in ES5 §11.1.5; otto accepts it with ES2015 semantics (the later member redefines) -/
def devLiteral : Op → Bool
  | .literal ms => Spec.literalInvalid [] ms
  | _ => false

def devStep (h : MHeap) (op : Op) (_h' : MHeap) : List String :=
  (if devStrict h op then ["strict_ignored"] else []) ++
  (if devLiteral op then ["object_literal_duplicate_property"] else [])

def devRun (h : MHeap) : List Op → List String
  | [] => []
  | op :: ops =>
    let h' := (step h op).1
    devStep h op h' ++ devRun h' ops

/-! ### parsing -/

def nat? (s : String) : Option Nat := s.toNat?

def ob? : String → Option (Option Bool)
  | "-" => some none | "0" => some (some false) | "1" => some (some true) | _ => none

def gs? : String → Option GS
  | "-" => some .absent | "u" => some .undef | "b" => some .bad
  | s => (nat? s).map .fn

def ov? : String → Option (Option Val)
  | "-" => some none
  | s => (nat? s).map some

def desc? : List String → Option DescArg
  | ["N"] => some .nonobj
  | [e, c, w, v, g, s] => do
    let e ← ob? e; let c ← ob? c; let w ← ob? w; let v ← ov? v; let g ← gs? g; let s ← gs? s
    pure (.obj ⟨e, c, w, v, g, s⟩)
  | _ => none

def entry? (s : String) : Option (Name × DescArg) :=
  match s.splitOn "." with
  | n :: rest => do let n ← nat? n; let d ← desc? rest; pure (n, d)
  | _ => none

def entries? : List String → Option (List (Name × DescArg))
  | [] => some []
  | s :: t => do let e ← entry? s; let r ← entries? t; pure (e :: r)

def member? (s : String) : Option LMember :=
  match s.splitOn "." with
  | ["v", n, v] => do pure (.value, ← nat? n, ← nat? v)
  | ["g", n] => do pure (.get, ← nat? n, 0)
  | ["s", n] => do pure (.set, ← nat? n, 0)
  | _ => none

def members? : List String → Option (List LMember)
  | [] => some []
  | s :: t => do let m ← member? s; let r ← members? t; pure (m :: r)

def bool? : String → Option Bool
  | "0" => some false | "1" => some true | _ => none

def op? (tok : String) : Option Op :=
  match tok.splitOn "/" with
  | [] => none
  | hd :: ents =>
    match hd.splitOn ".", ents with
    | ["L"], ms => do pure (.literal (← members? ms))
    | ["N", "fproto"], [] => some (.native .fproto)
    | ["N", "func"], [] => some (.native .func)
    | ["N", "terr"], [] => some (.native .terr)
    | ["N", "err"], [] => some (.native .err)
    | ["N", "regexp"], [] => some (.native .regexp)
    | ["N", "date"], [] => some (.native .date)
    | ["P", s, a, n, v], [] => do pure (.put (← bool? s) (← nat? a) (← nat? n) (← nat? v))
    | ["X", s, a, n], [] => do pure (.del (← bool? s) (← nat? a) (← nat? n))
    | "D" :: a :: n :: d, [] => do pure (.defn (← nat? a) (← nat? n) (← desc? d))
    | ["M", a], es => do pure (.defs (← nat? a) (← entries? es))
    | ["C", "-"], es => do pure (.create none (← entries? es))
    | ["C", p], es => do pure (.create (some (← nat? p)) (← entries? es))
    | ["F", a], [] => do pure (.freeze (← nat? a))
    | ["S", a], [] => do pure (.seal (← nat? a))
    | ["E", a], [] => do pure (.preventExt (← nat? a))
    | _, _ => none

def ops? : List String → Option (List Op)
  | [] => some []
  | s :: t => do let o ← op? s; let r ← ops? t; pure (o :: r)

/-! ### printing -/

def b01 (b : Bool) : String := if b then "1" else "0"

def outS : Outcome → String
  | .ok => "ok" | .typeError => "T" | .bool true => "t" | .bool false => "f" | .bad => "bad" | .syntaxError => "S"

def joinOr (sep : String) (l : List String) : String :=
  if l.isEmpty then "-" else sep.intercalate l

def fnS : Option Fn → String
  | none => "u" | some k => toString k

def descS : DescObs → String
  | .none => "-"
  | .data v w e c => "d" ++ toString v ++ "_" ++ b01 w ++ b01 e ++ b01 c
  | .acc g s e c => "a" ++ fnS g ++ "_" ++ fnS s ++ "_" ++ b01 e ++ b01 c
  | .weird e c => "x" ++ b01 e ++ b01 c
  | .panic => "P"

def nameObsS (o : NameObs) : String :=
  toString o.get ++ "/" ++ b01 o.has ++ b01 o.own ++ b01 o.enum ++ "/" ++ descS o.desc

def namesS (l : List Name) : String := joinOr "." (l.map toString)

def objS (o : ObjObs) : String :=
  b01 o.ext ++ b01 o.isSealed ++ b01 o.isFrozen ++ ":" ++ namesS o.keys ++ ":" ++ namesS o.names ++ ":" ++
  namesS o.forin ++ ":" ++ ",".intercalate (o.per.map nameObsS)

def callS (c : Call) : String := toString c.1 ++ "." ++ toString c.2.1 ++ "." ++ toString c.2.2

def stepS (s : StepObs) : String :=
  "|".intercalate ([outS s.out, joinOr "," (s.calls.map callS)] ++ s.objs.map objS)

def runS (l : List StepObs) : String := joinOr ";" (l.map stepS)

/-! ### the arguments-object requests:  a <op> …   (f(x,y) called as f(1,2); value codes 4, 5)
      A.<i>.<v>  x|y = v      P.<n>.<v>  arguments[n] = v     X.<n>  delete arguments[n]
      D.<n>.<desc>  Object.defineProperty(arguments, n, desc)     F  S  E   freeze / seal / preventExtensions -/

def aop? (tok : String) : Option AOp :=
  match tok.splitOn "." with
  | ["A", i, v] => do pure (.param (← nat? i) (← nat? v))
  | ["P", n, v] => do pure (.put (← nat? n) (← nat? v))
  | ["X", n] => do pure (.del (← nat? n))
  | "D" :: n :: d => do pure (.defn (← nat? n) (← desc? d))
  | ["F"] => some .freeze
  | ["S"] => some .seal
  | ["E"] => some .preventExt
  | _ => none

def aops? : List String → Option (List AOp)
  | [] => some []
  | s :: t => do let o ← aop? s; let r ← aops? t; pure (o :: r)

def aobsS (x : AObs × List Call) : String :=
  let o := x.1
  "|".intercalate [outS o.out, joinOr "," (x.2.map callS), joinOr "." (o.env.map toString),
    b01 o.ext ++ b01 o.isSealed ++ b01 o.isFrozen ++ ":" ++ namesS o.names ++ ":" ++ ",".intercalate (o.per.map nameObsS)]

def arunS (l : List (AObs × List Call)) : String := joinOr ";" (l.map aobsS)

/-! ### the global-binding requests:  g <op> …   (every op is a program of its own)
      I.<v>  NAME = v      V  var NAME      W.<v>  var NAME = v     Ev  eval('var NAME')
      F  function NAME(){}      Ef  eval('function NAME(){}')      X  delete NAME      D.<desc> defineProperty(this,'NAME',desc) -/

def gop? (tok : String) : Option GOp :=
  match tok.splitOn "." with
  | ["I", v] => do pure (.assign (← nat? v))
  | ["V"] => some (.varDecl false)
  | ["Ev"] => some (.varDecl true)
  | ["W", v] => do pure (.varInit (← nat? v))
  | ["F"] => some (.funDecl false)
  | ["Ef"] => some (.funDecl true)
  | ["X"] => some .del
  | ["PE"] => some .preventExt
  | ["SL"] => some .seal
  | "D" :: d => do pure (.defn (← desc? d))
  | _ => none

/-! ### m <dp|cr> <name>:<act>,…   Object.defineProperties / Object.create with a side-effecting descriptor map -/
def mact? (s : String) : Option MAct :=
  match s.toList with
  | ['p'] => some .plain
  | ['b'] => some .bad
  | ['t'] => some .thr
  | 'd' :: r => (String.ofList r).toNat?.map .del
  | 'h' :: r => (String.ofList r).toNat?.map .hide
  | _ => none

def ment? (s : String) : Option (Name × MAct) :=
  match s.splitOn ":" with
  | [n, a] => do pure (← nat? n, ← mact? a)
  | _ => none

def ments? : List String → Option (List (Name × MAct))
  | [] => some []
  | s :: t => do let e ← ment? s; let r ← ments? t; pure (e :: r)

def mapS (x : Outcome × List Name) : String := outS x.1 ++ "|" ++ namesS x.2

def gops? : List String → Option (List GOp)
  | [] => some []
  | s :: t => do let o ← gop? s; let r ← gops? t; pure (o :: r)

def gobsS (x : Outcome × List Call × NameObs) : String :=
  "|".intercalate [outS x.1, joinOr "," (x.2.1.map callS), nameObsS x.2.2]

/-! ### p <fn> <arg>: an Object.* function with a non-object first argument -/
def objFn? : String → Option ObjFn
  | "getPrototypeOf" => some .getPrototypeOf | "getOwnPropertyDescriptor" => some .getOwnPropertyDescriptor
  | "getOwnPropertyNames" => some .getOwnPropertyNames | "create" => some .create | "defineProperty" => some .defineProperty
  | "defineProperties" => some .defineProperties | "seal" => some .seal | "freeze" => some .freeze
  | "preventExtensions" => some .preventExtensions | "isSealed" => some .isSealed | "isFrozen" => some .isFrozen
  | "isExtensible" => some .isExtensible | "keys" => some .keys | _ => none

def primArg? : String → Option PrimArg
  | "number" => some .number | "string" => some .string | "boolean" => some .boolean
  | "undefined" => some .undefined | "null" => some .null | "missing" => some .missing | _ => none

def primResS : PrimRes → String
  | .typeError => "T" | .emptyArray => "arr0" | .object => "obj"

/-- `Dev_getOwnPropertyNames_primitive`: Object.getOwnPropertyNames of a non-object returns [] -/
def devPrim (f : ObjFn) : Bool := f == .getOwnPropertyNames

/-! ### w <kind> <level> <desc> <form> <v>: `tag` defined on String/Number/Boolean.prototype (level 1) or on
      Object.prototype (level 0), then assigned and read through a primitive;   r <desc>: read order of
      ToPropertyDescriptor;   b <builtin>: a built-in creates an object under a polluted prototype -/

def primObsS (o : PrimObs) : String :=
  "|".intercalate [outS o.defOut, joinOr "," (o.calls.map callS), toString o.got, nameObsS o.holder]

def orderS (x : List Nat × Bool) : String :=
  joinOr "." (x.1.map toString) ++ "|" ++ (if x.2 then "T" else "ok")

def builtin? : String → Option Builtin
  | "json" => some .json | "literal" => some .literal | "arrlit" => some .arrlit | "defprops" => some .defprops
  | "create" => some .create | "args" => some .args | "smatch" => some .smatch | "gopd" => some .gopd
  | "keys" => some .keys | "map" => some .map | "split" => some .split | "slice" => some .slice
  | "concat" => some .concat | "error" => some .error | _ => none

def createsS (x : List Call × DescObs) : String := joinOr "," (x.1.map callS) ++ "|" ++ descS x.2

/-! ### q <receiver> <argument>: isPrototypeOf / getPrototypeOf / instanceof side by side -/
def plink? : String → Option PLink
  | "objectP" => some .objectP | "numberP" => some .numberP | "stringP" => some .stringP
  | "booleanP" => some .booleanP | "functionP" => some .functionP | _ => none

def precv? : String → Option PRecv
  | "null" => some .null | "undefined" => some .undefined
  | s => (plink? s).map .proto

def parg? : String → Option PArg
  | "number" => some .number | "string" => some .string | "boolean" => some .boolean | "undefined" => some .undefined
  | "null" => some .null | "missing" => some .missing | "numObj" => some .numObj | "strObj" => some .strObj
  | "boolObj" => some .boolObj | "plain" => some .plain | "func" => some .func | "nullProto" => some .nullProto | _ => none

def plinkS : PLink → String
  | .objectP => "o" | .numberP => "n" | .stringP => "s" | .booleanP => "b" | .functionP => "f"

def presS : PRes → String
  | .t => "t" | .f => "f" | .typeError => "T" | .isProto p => "p" ++ plinkS p | .isNull => "N" | .na => "-"

/-- `Dev_call_undefined_this`: Function.prototype.call / apply turn an undefined thisArg into the global object
    (ES3 behaviour, ES5 15.3.4.4 passes it unchanged), so a built-in that does ToObject(this) does not throw -/
def devCallUndefined (r : PRecv) (a : PArg) : Bool :=
  (match r with | .undefined => true | _ => false) && a.chain.isSome

def dedup : List String → List String
  | [] => []
  | x :: t => if (dedup t).contains x then dedup t else x :: dedup t

def handle (ws : List String) : String :=
  match ws with
  | "h" :: toks =>
    match ops? toks with
    | none => "bad-op"
    | some ops =>
      let dev := dedup (devRun [] ops)
      runS (run [] ops) ++ " " ++ runS (Spec.run [] ops) ++ " " ++ joinOr "," dev
  | ["w", _kind, lvl, d, _form, v] =>
    (match nat? lvl, desc? (d.splitOn "."), nat? v with
     | some lvl, some d, some v => primObsS (primAssign lvl d v) ++ " " ++ primObsS (Spec.primAssign lvl d v) ++ " -"
     | _, _, _ => "bad-op")
  | ["r", d] =>
    (match desc? (d.splitOn ".") with
     | some (.obj d) => orderS (readOrder d) ++ " " ++ orderS (Spec.readOrder d) ++ " -"
     | _ => "bad-op")
  | ["b", b, _pol] =>
    (match builtin? b with
     | some b => createsS (builtinCreates b) ++ " " ++ createsS (Spec.builtinCreates b) ++ " -"
     | none => "bad-op")
  | ["m", _fn, es] =>
    (match ments? (es.splitOn ",") with
     | some ents => mapS (defineMap ents) ++ " " ++ mapS (Spec.defineMap ents) ++ " -"
     | none => "bad-op")
  | ["q", r, a] =>
    (match precv? r, parg? a with
     | some r, some a =>
       "|".intercalate [presS (isPrototypeOf r a), presS (getPrototypeOf a), presS (instanceOf r a)] ++ " " ++
       "|".intercalate [presS (Spec.isPrototypeOf r a), presS (Spec.getPrototypeOf a), presS (Spec.instanceOf r a)] ++ " " ++
       (if devCallUndefined r a then "call_undefined_this" else "-")
     | _, _ => "bad-op")
  | ["p", f, a] =>
    match objFn? f, primArg? a with
    | some f, some a =>
      primResS (objFnPrim f a) ++ " " ++ primResS (Spec.objFnPrim f a) ++ " " ++ (if devPrim f then "getOwnPropertyNames_primitive" else "-")
    | _, _ => "bad-op"
  | "g" :: toks =>
    match gops? toks with
    | none => "bad-op"
    | some ops =>
      let g0 : MObj := ⟨none, true, []⟩
      joinOr ";" ((gRun g0 ops).map gobsS) ++ " " ++ joinOr ";" ((Spec.gRun ⟨none, true, []⟩ ops).map gobsS) ++ " -"
  | "a" :: toks =>
    match aops? toks with
    | none => "bad-op"
    | some ops =>
      arunS (argRun (argInit 4 5) ops) ++ " " ++ arunS (Spec.argRun (Spec.argInit 4 5) ops) ++ " -"
  | _ => "bad-op"

end OttoVerif.C07.Driver
