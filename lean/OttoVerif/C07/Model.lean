/-
  C07/Model — transcription of otto's object/property model (core-only).

  Go sources transcribed (file:line of the unchanged tree):
    property.go:5-80     propertyMode, the octal-trit masks and the writable/…/configureSet predicates
    property.go:95-118   isAccessorDescriptor / isDataDescriptor / isGenericDescriptor / isEmpty
    property.go:123-195  toPropertyDescriptor
    property.go:197-221  fromPropertyDescriptor (after fix: f48e83f)
    object.go:118-148    readProperty / writeProperty / deleteProperty (map + propertyOrder)
    object_class.go:22-30    objectEnumerate
    object_class.go:160-186  objectGetOwnProperty / objectGetProperty / objectGet
    object_class.go:194-232  objectCanPutDetails
    object_class.go:235-259  objectPut (the "shortcut" branch, the only one that runs)
    object_class.go:300-308  objectHasProperty / objectHasOwnProperty
    object_class.go:311-441  objectDefineOwnProperty
    object_class.go:443-453  objectDelete
    builtin_object.go:58-66, 117-334  propertyIsEnumerable, getOwnPropertyDescriptor, defineProperty,
                         defineProperties, create, isExtensible, preventExtensions, isSealed, seal,
                         isFrozen, freeze, keys, getOwnPropertyNames
    cmpl_evaluate_statement.go:171-240  for-in (walks the prototype chain, one enumerate per object,
                         shadowed names skipped since fix cb72f5e)
    type_reference.go:44-58  propertyReference.putValue / delete (strict flag = throw)

  Universe.  Values are codes (`Val := Nat`; the harness maps 0 ↦ undefined, 1 ↦ +0, 2 ↦ −0,
  3 ↦ NaN, n+3 ↦ the number n, so SameValue on the codes used is equality of codes).  Function
  objects are indices `Fn`; function k called as a getter on receiver O[a] returns `getterResult k a`,
  called as a setter it only appends `(k, a, v)` to the call log.  A `property.value interface{}`
  is `PV`: nil | Value | propertyGetSet whose two slots are nil | &nilGetSetObject | function.
  The mode is kept as its three octal digits (`Mode`), every predicate and the merge arithmetic is
  the literal Go bit formula evaluated on `Mode.toNat`.
-/
namespace OttoVerif.C07

abbrev Val := Nat
abbrev Name := Nat
abbrev Fn := Nat
abbrev Addr := Nat

/-! ### association lists = Go map + propertyOrder -/

def alookup (n : Name) : List (Name × α) → Option α
  | [] => none
  | (k, x) :: t => if k = n then some x else alookup n t

/-- object.go:128 writeProperty: replace in place, or append name to propertyOrder -/
def aupsert (n : Name) (x : α) : List (Name × α) → List (Name × α)
  | [] => [(n, x)]
  | (k, y) :: t => if k = n then (k, x) :: t else (k, y) :: aupsert n x t

/-- object.go:138 deleteProperty (names in propertyOrder are unique – theorem `inv_order`) -/
def aerase (n : Name) : List (Name × α) → List (Name × α)
  | [] => []
  | (k, y) :: t => if k = n then t else (k, y) :: aerase n t

def akeys (l : List (Name × α)) : List Name := l.map (·.1)

/-! ### objects and heaps (generic in the property representation) -/

structure Obj (P : Type) where
  proto : Option Addr
  ext : Bool
  props : List (Name × P)
deriving DecidableEq, Repr

abbrev Heap (P : Type) := List (Obj P)

/-! ### the request language (shared by model and spec) -/

/-- how the `get` / `set` field of a descriptor object is written in JavaScript -/
inductive GS | absent | undef | fn (k : Fn) | bad
deriving DecidableEq, Repr

/-- a descriptor object as written: every field optional, contradictory combinations allowed -/
structure Desc where
  e : Option Bool
  c : Option Bool
  w : Option Bool
  v : Option Val
  g : GS
  s : GS
deriving DecidableEq, Repr

inductive DescArg | nonobj | obj (d : Desc)
deriving DecidableEq, Repr

/-- objects the runtime creates with specific attributes (start objects of a history) -/
inductive Kind
  | fproto   -- the `prototype` object of a script function `function(p,q){}`
  | func     -- that function object itself
  | terr     -- `new TypeError('m')`
  | err      -- `new Error('m')`
  | regexp   -- `/x/g`
  | date     -- `new Date(0)`
deriving DecidableEq, Repr

/-- a member of an object literal: `n: v`, `get n(){…}`, `set n(x){…}` -/
inductive LKind | value | get | set
deriving DecidableEq, Repr

abbrev LMember := LKind × Name × Val

inductive Op
  | literal (ms : List LMember)
  | native (k : Kind)
  | put (strict : Bool) (a : Addr) (n : Name) (v : Val)
  | del (strict : Bool) (a : Addr) (n : Name)
  | defn (a : Addr) (n : Name) (d : DescArg)
  | defs (a : Addr) (l : List (Name × DescArg))
  | create (p : Option Addr) (l : List (Name × DescArg))
  | freeze (a : Addr)
  | seal (a : Addr)
  | preventExt (a : Addr)
deriving DecidableEq, Repr

inductive Outcome | ok | typeError | bool (b : Bool) | bad | syntaxError
deriving DecidableEq, Repr

abbrev Call := Fn × Addr × Val

inductive DescObs
  | none
  | data (v : Val) (w e c : Bool)
  | acc (g s : Option Fn) (e c : Bool)
  | weird (e c : Bool)          -- a descriptor object with neither value/writable nor get/set
  | panic                        -- a Go runtime panic escaped
deriving DecidableEq, Repr

structure NameObs where
  get : Val
  has : Bool
  own : Bool
  enum : Bool
  desc : DescObs
deriving DecidableEq, Repr

structure ObjObs where
  ext : Bool
  isSealed : Bool
  isFrozen : Bool
  keys : List Name
  names : List Name
  forin : List Name
  per : List NameObs
deriving DecidableEq, Repr

structure StepObs where
  out : Outcome
  calls : List Call
  objs : List ObjObs
deriving DecidableEq, Repr

/-- the property names every observation vector ranges over -/
def obsNames : List Name := [0, 1, 2]

/-- the names observed on one object: a, b, c and then its own keys in order -/
def obsNamesFor (keys : List Name) : List Name := obsNames ++ keys.filter (fun k => !obsNames.contains k)

/-- what function `k` returns when called as a getter with `this = O[a]` (harness convention);
    functions ≥ 900 are the runtime's own getters (`caller`, `stack`), whose result is opaque (997) -/
def getterResult (k : Fn) (a : Addr) : Val := if k ≥ 900 then 997 else 103 + 10 * a + k

/-! ### name and value codes of the runtime-created start objects
    names: 3 constructor, 4 prototype, 5 length, 6 name, 7 caller, 8 message, 9 stack, 10 lastIndex,
    11 source, 12 global, 13 ignoreCase, 14 multiline.
    values: 995 false, 996 true, 997 opaque (null, unregistered objects), (strings are opaque too),
    `special a j` = the j-th object registered when O[a] was created (0 the function, 2 its prototype). -/
def special (a : Addr) (j : Nat) : Val := 1000 + 10 * a + j

/-! ### property.go: modes -/

inductive Trit | off | on | unset
deriving DecidableEq, Repr

def Trit.digit : Trit → Nat | .off => 0 | .on => 1 | .unset => 2
def Trit.ofDigit (n : Nat) : Trit := if n % 4 = 0 then .off else if n % 4 = 1 then .on else .unset

/-- the three octal digits of a propertyMode: 0o(w)(e)(c) -/
structure Mode where
  w : Trit
  e : Trit
  c : Trit
deriving DecidableEq, Repr

def Mode.toNat (m : Mode) : Nat := m.w.digit * 64 + m.e.digit * 8 + m.c.digit
def Mode.ofNat (n : Nat) : Mode := ⟨Trit.ofDigit (n / 64 % 8), Trit.ofDigit (n / 8 % 8), Trit.ofDigit (n % 8)⟩

def modeWriteMask : Nat := 0o700
def modeEnumerateMask : Nat := 0o070
def modeConfigureMask : Nat := 0o007
def modeOnMask : Nat := 0o111
def modeSetMask : Nat := 0o222

inductive Slot | nil | nilObj | fn (k : Fn)
deriving DecidableEq, Repr

inductive PV | nil | val (v : Val) | gs (g s : Slot)
deriving DecidableEq, Repr

structure MProp where
  value : PV
  mode : Mode
deriving DecidableEq, Repr

abbrev MObj := Obj MProp
abbrev MHeap := Heap MProp

namespace MProp
/-- property.go:24 -/
def writable (p : MProp) : Bool := p.mode.toNat &&& modeWriteMask == modeWriteMask &&& modeOnMask
/-- property.go:40 -/
def writeSet (p : MProp) : Bool := p.mode.toNat &&& modeWriteMask &&& modeSetMask == 0
/-- property.go:44 -/
def enumerable (p : MProp) : Bool := p.mode.toNat &&& modeEnumerateMask == modeEnumerateMask &&& modeOnMask
/-- property.go:56 -/
def enumerateSet (p : MProp) : Bool := p.mode.toNat &&& modeEnumerateMask &&& modeSetMask == 0
/-- property.go:60 -/
def configurable (p : MProp) : Bool := p.mode.toNat &&& modeConfigureMask == modeConfigureMask &&& modeOnMask
/-- property.go:32 `p.mode &= ^modeWriteMask` -/
def writeOff (p : MProp) : MProp := { p with mode := Mode.ofNat (p.mode.toNat &&& (0o777 ^^^ modeWriteMask)) }
/-- property.go:68 -/
def configureOff (p : MProp) : MProp := { p with mode := Mode.ofNat (p.mode.toNat &&& (0o777 ^^^ modeConfigureMask)) }

/-- property.go:95 -/
def isAccessorDescriptor (p : MProp) : Bool :=
  match p.value with
  | .gs g s => g != .nil || s != .nil
  | _ => false

/-- property.go:100 (a stored `Value` is never of kind valueEmpty here) -/
def isDataDescriptor (p : MProp) : Bool :=
  if p.writeSet then true else
  match p.value with
  | .val _ => true
  | _ => false

/-- property.go:108 -/
def isGenericDescriptor (p : MProp) : Bool := !(p.isDataDescriptor || p.isAccessorDescriptor)

/-- property.go:112 -/
def isEmpty (p : MProp) : Bool := p.mode.toNat == 0o222 && p.isGenericDescriptor
end MProp

/-! ### property.go:123 toPropertyDescriptor (`none` = TypeError) -/

def setTrit : Option Bool → Trit
  | none => .unset
  | some true => .on
  | some false => .off

/-- result: (slot, "getterSetter" flag) or none = TypeError "not callable" -/
def gsSlot : GS → Option (Slot × Bool)
  | .absent => some (.nil, false)
  | .undef => some (.nilObj, true)
  | .fn k => some (.fn k, true)
  | .bad => none

def toPropertyDescriptor : DescArg → Option MProp
  | .nonobj => none
  | .obj d =>
    let mode : Mode := ⟨setTrit d.w, setTrit d.e, setTrit d.c⟩
    match gsSlot d.g, gsSlot d.s with
    | some (getter, f1), some (setter, f2) =>
      let getterSetter := f1 || f2
      if getterSetter && (MProp.writeSet ⟨.nil, mode⟩) then none
      else if getterSetter && d.v.isSome then none
      else
        let value : PV := match d.v with
          | some v => .val v
          | none => if getterSetter then .gs getter setter else .nil
        some ⟨value, mode⟩
    | _, _ => none

/-! ### object_class.go:311 objectDefineOwnProperty (`none` = reject) -/

def normSlot : Slot → Slot
  | .nilObj => .nil
  | s => s

/-- object_class.go:415-437: "preserve attributes of the original property", literally -/
def mergeMode (mode1 mode0 : Nat) (staysData : Bool) : Nat :=
  if mode1 &&& 0o222 != 0 then
    let mode1 :=
      if mode1 &&& 0o200 != 0 then
        if staysData then (mode1 &&& (0o777 ^^^ 0o200)) ||| (mode0 &&& 0o100) else mode1
      else mode1
    let mode1 := if mode1 &&& 0o20 != 0 then mode1 ||| (mode0 &&& 0o10) else mode1
    let mode1 := if mode1 &&& 0o2 != 0 then mode1 ||| (mode0 &&& 0o1) else mode1
    mode1 &&& 0o311
  else mode1

/-- the `switch` of object_class.go:358-403: new `descriptor.value`, or none = reject -/
def defineSwitch (prop d : MProp) (configurable : Bool) : Option PV :=
  let isData := match prop.value with | .val _ => true | _ => false
  let getSet : Slot × Slot := match prop.value with | .gs g s => (g, s) | _ => (.nil, .nil)
  if d.isGenericDescriptor then some d.value
  else if isData != d.isDataDescriptor then
    if !configurable then none
    else
      -- accessor ⇒ data without a value: `descriptor.value = Value{}` (8.12.9 step 9.c)
      match isData, d.value with
      | false, .nil => some (.val 0)
      | _, _ => some d.value
  else if isData && d.isDataDescriptor then
    if !configurable then
      if !prop.writable && d.writable then none
      else if !prop.writable then
        match d.value, prop.value with
        | .val dv, .val pv => if dv != pv then none else some d.value   -- sameValue on codes
        | _, _ => some d.value
      else some d.value
    else some d.value
  else
    let newGetSet : Slot × Slot := match d.value with | .gs g s => (g, s) | _ => (.nil, .nil)
    let (g1, presentGet) :=
      if newGetSet.1 = .nilObj then (Slot.nil, true)
      else if newGetSet.1 = .nil then (getSet.1, false)
      else (newGetSet.1, true)
    let (s1, presentSet) :=
      if newGetSet.2 = .nilObj then (Slot.nil, true)
      else if newGetSet.2 = .nil then (getSet.2, false)
      else (newGetSet.2, true)
    if !configurable && ((presentGet && getSet.1 != g1) || (presentSet && getSet.2 != s1)) then none
    else some (.gs g1 s1)

def defineOwn (o : MObj) (n : Name) (d : MProp) : Option MObj :=
  match alookup n o.props with
  | none =>
    if !o.ext then none else
    let value : PV := match d.value with
      | .gs g s => .gs (normSlot g) (normSlot s)
      | .nil => .val 0                                  -- writeProperty: nil ↦ Value{} = undefined
      | v => v
    some { o with props := aupsert n ⟨value, d.mode⟩ o.props }
  | some prop =>
    if d.isEmpty then some o else
    let configurable := prop.configurable
    if !configurable && d.configurable then none
    else if !configurable && (d.enumerateSet && d.enumerable != prop.enumerable) then none
    else
      match defineSwitch prop d configurable with
      | none => none
      | some dvalue =>
        let value1 : PV := match dvalue with
          | .nil => prop.value
          | .gs g s => .gs (normSlot g) (normSlot s)
          | v => v
        -- `_, staysData := value1.(Value)`: writable is carried over whenever the property stays a data property
        let staysData := match value1 with | .val _ => true | _ => false
        let mode1 := Mode.ofNat (mergeMode d.mode.toNat prop.mode.toNat staysData)
        some { o with props := aupsert n ⟨value1, mode1⟩ o.props }

/-! ### prototype chain walks (fuel = heap size + 1; prototypes always point to older objects) -/

/-- object_class.go:170 objectGetProperty, started at `obj.prototype`-style optional address -/
def getProperty (h : MHeap) : Nat → Option Addr → Name → Option MProp
  | 0, _, _ => none
  | _ + 1, none, _ => none
  | f + 1, some a, n =>
    match h[a]? with
    | none => none
    | some o =>
      match alookup n o.props with
      | some p => some p
      | none => getProperty h f o.proto n

def fuel (h : Heap P) : Nat := h.length + 1

/-- property.go:80 property.get + object_class.go:182 objectGet -/
def get (h : MHeap) (a : Addr) (n : Name) : Val :=
  match getProperty h (fuel h) (some a) n with
  | none => 0
  | some p =>
    match p.value with
    | .val v => v
    | .gs (.fn k) _ => getterResult k a
    | _ => 0

def slotFn : Slot → Option Fn
  | .fn k => some k
  | _ => none

/-- object_class.go:194 objectCanPutDetails: (canPut, prop, setter) -/
def canPutDetails (h : MHeap) (o : MObj) (n : Name) : Bool × Option MProp × Option Fn :=
  match alookup n o.props with
  | some prop =>
    match prop.value with
    | .gs _ s => ((slotFn s).isSome, some prop, slotFn s)
    | _ => (prop.writable, some prop, none)
  | none =>
    match o.proto with
    | none => (o.ext, none, none)
    | some pa =>
      match getProperty h (fuel h) (some pa) n with
      | none => (o.ext, none, none)
      | some prop =>
        match prop.value with
        | .gs _ s => ((slotFn s).isSome, some prop, slotFn s)
        | _ => if !o.ext then (false, none, none) else (prop.writable, none, none)

abbrev StepRes := MHeap × Outcome × List Call

def rejectOutcome (throw : Bool) : Outcome := if throw then .typeError else .ok

/-- object_class.go:235 objectPut via type_reference.go:44 putValue (throw = strict) -/
def put (h : MHeap) (a : Addr) (n : Name) (v : Val) (throw : Bool) : StepRes :=
  match h[a]? with
  | none => (h, .bad, [])
  | some o =>
    match canPutDetails h o n with
    | (false, _, _) => (h, rejectOutcome throw, [])
    | (true, _, some k) => (h, .ok, [(k, a, v)])
    | (true, some prop, none) =>
      match defineOwn o n { prop with value := .val v } with
      | none => (h, rejectOutcome throw, [])
      | some o' => (h.set a o', .ok, [])
    | (true, none, none) =>
      match defineOwn o n ⟨.val v, ⟨.on, .on, .on⟩⟩ with
      | none => (h, rejectOutcome throw, [])
      | some o' => (h.set a o', .ok, [])

/-- object_class.go:443 objectDelete via type_reference.go:52 -/
def delete (h : MHeap) (a : Addr) (n : Name) (throw : Bool) : StepRes :=
  match h[a]? with
  | none => (h, .bad, [])
  | some o =>
    match alookup n o.props with
    | none => (h, .bool true, [])
    | some prop =>
      if prop.configurable then (h.set a { o with props := aerase n o.props }, .bool true, [])
      else (h, if throw then .typeError else .bool false, [])

/-- builtin_object.go:152 create: convert and define one property at a
    time (defineProperties converts everything first since the fix, see `convertAll`); result (object after the properties processed so far, threw?) -/
def defineList (o : MObj) : List (Name × DescArg) → MObj × Bool
  | [] => (o, false)
  | (n, d) :: t =>
    match toPropertyDescriptor d with
    | none => (o, true)
    | some desc =>
      match defineOwn o n desc with
      | none => (o, true)
      | some o' => defineList o' t

/-- builtin_object.go:133 defineProperties (after the fix): step 5, convert every descriptor first; none = TypeError -/
def convertAll : List (Name × DescArg) → Option (List (Name × MProp))
  | [] => some []
  | (n, d) :: t =>
    match toPropertyDescriptor d with
    | none => none
    | some desc =>
      match convertAll t with
      | none => none
      | some r => some ((n, desc) :: r)

/-- builtin_object.go:133 defineProperties, step 7: define in order; (object so far, threw?) -/
def defineConverted (o : MObj) : List (Name × MProp) → MObj × Bool
  | [] => (o, false)
  | (n, desc) :: t =>
    match defineOwn o n desc with
    | none => (o, true)
    | some o' => defineConverted o' t

/-- builtin_object.go:241 seal: loop over a snapshot of propertyOrder; (object so far, threw?) -/
def sealLoop (o : MObj) : List Name → MObj × Bool
  | [] => (o, false)
  | n :: ns =>
    match alookup n o.props with
    | none => sealLoop o ns
    | some prop =>
      if prop.configurable then
        match defineOwn o n prop.configureOff with
        | none => (o, true)
        | some o' => sealLoop o' ns
      else sealLoop o ns

/-- builtin_object.go:281 freeze -/
def freezeLoop (o : MObj) : List Name → MObj × Bool
  | [] => (o, false)
  | n :: ns =>
    match alookup n o.props with
    | none => freezeLoop o ns
    | some prop =>
      let u1 := prop.isDataDescriptor && prop.writable
      let p1 := if u1 then prop.writeOff else prop
      let u2 := p1.configurable
      let p2 := if u2 then p1.configureOff else p1
      if u1 || u2 then
        match defineOwn o n p2 with
        | none => (o, true)
        | some o' => freezeLoop o' ns
      else freezeLoop o ns

/-- the start objects as otto creates them (address `a` = index the object gets in O):
    global.go:191-199 newNodeFunction (prototype 0o100, constructor 0o101), type_function.go:115-144
    newNodeFunctionObject (name 0o000, length 0o000, caller accessor mode 0o000, in this order),
    type_error.go:3-24 newErrorObject (message 0o101, stack accessor mode 0o001), global.go:174-179 newError
    (only a custom error class gets an own `name`),
    type_regexp.go newRegExpObject (global, ignoreCase, multiline 0o000, lastIndex 0o100, source 0o000),
    type_date.go (no own properties).  All are classObject objects. -/
def nativeObj (k : Kind) (a : Addr) : MObj :=
  match k with
  | .fproto => ⟨none, true, [(3, ⟨.val (special a 0), ⟨.on, .off, .on⟩⟩)]⟩
  | .func => ⟨none, true,
      [(6, ⟨.val 997, ⟨.off, .off, .off⟩⟩), (5, ⟨.val 5, ⟨.off, .off, .off⟩⟩),
       (7, ⟨.gs (.fn 900) .nil, ⟨.off, .off, .off⟩⟩), (4, ⟨.val (special a 2), ⟨.on, .off, .off⟩⟩)]⟩
  | .terr => ⟨none, true,
      [(8, ⟨.val 997, ⟨.on, .off, .on⟩⟩), (9, ⟨.gs (.fn 900) .nil, ⟨.off, .off, .on⟩⟩)]⟩
  | .err => ⟨none, true,
      [(8, ⟨.val 997, ⟨.on, .off, .on⟩⟩), (9, ⟨.gs (.fn 900) .nil, ⟨.off, .off, .on⟩⟩)]⟩
  | .regexp => ⟨none, true,
      [(12, ⟨.val 996, ⟨.off, .off, .off⟩⟩), (13, ⟨.val 995, ⟨.off, .off, .off⟩⟩), (14, ⟨.val 995, ⟨.off, .off, .off⟩⟩),
       (10, ⟨.val 1, ⟨.on, .off, .off⟩⟩), (11, ⟨.val 997, ⟨.off, .off, .off⟩⟩)]⟩
  | .date => ⟨none, true, []⟩

/-- cmpl_evaluate_expression.go cmplEvaluateNodeObjectLiteral: every member goes through
    defineProperty / defineOwnProperty (throw = false) on the fresh object, in source order;
    a literal getter / setter is a fresh function (code 900), mode 0o211 -/
def literalDesc : LMember → MProp
  | (.value, _, v) => ⟨.val v, ⟨.on, .on, .on⟩⟩
  | (.get, _, _) => ⟨.gs (.fn 900) .nil, ⟨.unset, .on, .on⟩⟩
  | (.set, _, _) => ⟨.gs .nil (.fn 900), ⟨.unset, .on, .on⟩⟩

def literalFold (o : MObj) : List LMember → MObj
  | [] => o
  | m :: t => literalFold ((defineOwn o m.2.1 (literalDesc m)).getD o) t

def step (h : MHeap) : Op → StepRes
  | .literal ms => (h ++ [literalFold ⟨none, true, []⟩ ms], .ok, [])
  | .native k => (h ++ [nativeObj k h.length], .ok, [])
  -- cmpl_evaluate_expression.go:174,254: member expressions always build the property reference
  -- with strict = false ("use strict" parses but does nothing, otto.go:131)
  | .put _strict a n v => put h a n v false
  | .del _strict a n => delete h a n false
  | .defn a n d =>
    match h[a]? with
    | none => (h, .bad, [])
    | some o =>
      match toPropertyDescriptor d with
      | none => (h, .typeError, [])
      | some desc =>
        match defineOwn o n desc with
        | none => (h, .typeError, [])
        | some o' => (h.set a o', .ok, [])
  | .defs a l =>
    match h[a]? with
    | none => (h, .bad, [])
    | some o =>
      match convertAll l with
      | none => (h, .typeError, [])
      | some ds =>
        let (o', threw) := defineConverted o ds
        (h.set a o', if threw then .typeError else .ok, [])
  | .create p l =>
    if (match p with | none => true | some pa => pa < h.length) then
      let (o', threw) := defineList ⟨p, true, []⟩ l
      if threw then (h, .typeError, []) else (h ++ [o'], .ok, [])
    else (h, .bad, [])
  | .freeze a =>
    match h[a]? with
    | none => (h, .bad, [])
    | some o =>
      match freezeLoop o (akeys o.props) with
      | (o', true) => (h.set a o', .typeError, [])
      | (o', false) => (h.set a { o' with ext := false }, .ok, [])
  | .seal a =>
    match h[a]? with
    | none => (h, .bad, [])
    | some o =>
      match sealLoop o (akeys o.props) with
      | (o', true) => (h.set a o', .typeError, [])
      | (o', false) => (h.set a { o' with ext := false }, .ok, [])
  | .preventExt a =>
    match h[a]? with
    | none => (h, .bad, [])
    | some o => (h.set a { o with ext := false }, .ok, [])

/-! ### observations -/

/-- property.go:197 fromPropertyDescriptor (as of fix f48e83f) seen through getOwnPropertyDescriptor:
    the branch is chosen by the STORED value (propertyGetSet ⇒ accessor, get/set always reported,
    nil and &nilGetSetObject both read as undefined), otherwise by isDataDescriptor with a
    non-panicking `value, _ := descriptor.value.(Value)` -/
def fromPropertyDescriptor (p : MProp) : DescObs :=
  match p.value with
  | .gs g s => .acc (slotFn g) (slotFn s) p.enumerable p.configurable
  | .val v => if p.isDataDescriptor then .data v p.writable p.enumerable p.configurable
              else .weird p.enumerable p.configurable
  | .nil => if p.isDataDescriptor then .data 0 p.writable p.enumerable p.configurable
            else .weird p.enumerable p.configurable

/-- object_class.go:22 objectEnumerate (since fix 03940a1 it walks a snapshot of propertyOrder and skips
    names deleted meanwhile – the callbacks modelled here never delete) -/
def enumerate (o : MObj) (all : Bool) : List Name :=
  (o.props.filter (fun kp => all || kp.2.enumerable)).map (·.1)

/-- cmpl_evaluate_statement.go:194-200 (as of fix cb72f5e): `shadow.getOwnProperty(name) != nil` for some
    object `shadow` strictly before `obj` on the chain (`prev` = their addresses, in chain order) -/
def shadowedBy (h : MHeap) (prev : List Addr) (n : Name) : Bool :=
  prev.any (fun b => match h[b]? with
    | some o => (alookup n o.props).isSome
    | none => false)

/-- cmpl_evaluate_statement.go:188-235: one enumerate(false) per object on the chain; a name is
    skipped when an earlier object of the chain has an own property of that name -/
def forIn (h : MHeap) : Nat → Option Addr → List Addr → List Name
  | 0, _, _ => []
  | _ + 1, none, _ => []
  | f + 1, some a, prev =>
    match h[a]? with
    | none => []
    | some o => (enumerate o false).filter (fun n => !shadowedBy h prev n) ++ forIn h f o.proto (prev ++ [a])

def observeName (h : MHeap) (a : Addr) (o : MObj) (n : Name) : NameObs :=
  let own := alookup n o.props
  { get := get h a n
    has := (getProperty h (fuel h) (some a) n).isSome
    own := own.isSome
    enum := match own with | some p => p.enumerable | none => false
    desc := match own with | some p => fromPropertyDescriptor p | none => .none }

def observeObj (h : MHeap) (a : Addr) (o : MObj) : ObjObs :=
  { ext := o.ext
    isSealed := if o.ext then false else o.props.all (fun kp => !kp.2.configurable)
    isFrozen := if o.ext then false else o.props.all (fun kp => !(kp.2.configurable || kp.2.writable))
    keys := enumerate o false
    names := enumerate o true
    forin := forIn h (fuel h) (some a) []
    per := (obsNamesFor (akeys o.props)).map (observeName h a o) }

def observeFrom (h : MHeap) : Nat → List MObj → List ObjObs
  | _, [] => []
  | a, o :: t => observeObj h a o :: observeFrom h (a + 1) t

def observe (h : MHeap) : List ObjObs := observeFrom h 0 h

def run (h : MHeap) : List Op → List StepObs
  | [] => []
  | op :: ops =>
    let (h', out, calls) := step h op
    ⟨out, calls, observe h'⟩ :: run h' ops

/-! ### the arguments object (type_arguments.go) – a separate small history language

  One non-strict call `f(x, y)` with two arguments: the arguments object has the index properties
  "0", "1" (names 15, 16, mode 0o111), `length` (5, 0o101) and `callee` (17, 0o101); `map[i]` says
  whether `indexOfParameterName[i]` is still non-empty, `env[i]` is the current value of the i-th
  parameter binding. -/

structure ArgState (P : Type) where
  o : Obj P
  map : List Bool
  env : List Val
deriving DecidableEq, Repr

inductive AOp
  | param (i : Nat) (v : Val)                 -- x = v / y = v
  | put (n : Name) (v : Val)                  -- arguments[n] = v
  | del (n : Name)                            -- delete arguments[n]
  | defn (n : Name) (d : DescArg)             -- Object.defineProperty(arguments, n, d)
  | freeze | seal | preventExt
deriving DecidableEq, Repr

structure AObs where
  out : Outcome
  env : List Val
  ext : Bool
  isSealed : Bool
  isFrozen : Bool
  names : List Name
  per : List NameObs
deriving DecidableEq, Repr

def argIndex (n : Name) : Option Nat := if n = 15 then some 0 else if n = 16 then some 1 else none

def argNames : List Name := [15, 16, 5, 17, 0]

/-- type_arguments.go:42 argumentsObject.get: (value, exists) -/
def argMapped (s : ArgState P) (n : Name) : Option Val :=
  match argIndex n with
  | some i => if s.map.getD i false then some (s.env.getD i 0) else none
  | none => none

/-- cmpl_evaluate.go:26-66 + type_arguments.go:7-26: the arguments object of `f(x,y)` called with (v0, v1) -/
def argInit (v0 v1 : Val) : ArgState MProp :=
  { o := ⟨none, true,
      [(15, ⟨.val 0, ⟨.on, .on, .on⟩⟩), (16, ⟨.val 0, ⟨.on, .on, .on⟩⟩),
       (5, ⟨.val 5, ⟨.on, .off, .on⟩⟩), (17, ⟨.val 997, ⟨.on, .off, .on⟩⟩)]⟩
    map := [true, true]
    env := [v0, v1] }

/-- type_arguments.go:72 argumentsGetOwnProperty -/
def argGetOwn (s : ArgState MProp) (n : Name) : Option MProp :=
  match alookup n s.o.props with
  | none => none
  | some prop =>
    match argMapped s n with
    | some v => some { prop with value := .val v }
    | none => some prop

/-- type_arguments.go:65 argumentsGet (the prototype is Object.prototype: nothing inherited for these names) -/
def argGet (s : ArgState MProp) (n : Name) : Val :=
  match argMapped s n with
  | some v => v
  | none =>
    match alookup n s.o.props with
    | some ⟨.val v, _⟩ => v
    | some ⟨.gs (.fn k) _, _⟩ => getterResult k 0
    | _ => 0

def listSet (l : List α) (i : Nat) (x : α) : List α := l.set i x

/-- type_arguments.go:80 argumentsDefineOwnProperty (with the 10.6 step 5 unmapping); (state, accepted) -/
def argDefineOwn (s : ArgState MProp) (n : Name) (d : MProp) : ArgState MProp × Bool :=
  match argMapped s n with
  | some mapped =>
    let unmap0 := d.isAccessorDescriptor
    let byWritable := !unmap0 && d.writeSet && !d.writable
    let unmap := unmap0 || byWritable
    let d1 : MProp := if byWritable then (match d.value with | .nil => { d with value := .val mapped } | _ => d) else d
    match defineOwn s.o n d1 with
    | none => (s, false)
    | some o' =>
      let s1 := { s with o := o' }
      let s2 := match d1.value, argIndex n with
        | .val v, some i => { s1 with env := s1.env.set i v }      -- argumentsObject.put
        | _, _ => s1
      let s3 := match argIndex n with
        | some i => if unmap then { s2 with map := s2.map.set i false } else s2   -- argumentsObject.delete
        | none => s2
      (s3, true)
  | none =>
    match defineOwn s.o n d with
    | none => (s, false)
    | some o' => ({ s with o := o' }, true)

/-- type_arguments.go:93 argumentsDelete (throw = false: sloppy code) -/
def argDelete (s : ArgState MProp) (n : Name) : ArgState MProp × Bool :=
  match alookup n s.o.props with
  | none => (s, true)
  | some prop =>
    if prop.configurable then
      let s1 := { s with o := { s.o with props := aerase n s.o.props } }
      match argMapped s n, argIndex n with
      | some _, some i => ({ s1 with map := s1.map.set i false }, true)
      | _, _ => (s1, true)
    else (s, false)

/-- object_class.go:235 objectPut with the class hooks of classArguments (getOwnProperty, defineOwnProperty);
    throw = false.  Nothing relevant is inherited. -/
def argPut (s : ArgState MProp) (n : Name) (v : Val) : ArgState MProp × List Call :=
  match argGetOwn s n with
  | some prop =>
    match prop.value with
    | .gs _ sl => (match slotFn sl with | some k => (s, [(k, 0, v)]) | none => (s, []))
    | _ => if prop.writable then ((argDefineOwn s n { prop with value := .val v }).1, []) else (s, [])
  | none => if s.o.ext then ((argDefineOwn s n ⟨.val v, ⟨.on, .on, .on⟩⟩).1, []) else (s, [])

/-- builtin_object.go:281 freeze with the class hooks; (state, threw) -/
def argFreezeLoop (s : ArgState MProp) : List Name → ArgState MProp × Bool
  | [] => (s, false)
  | n :: ns =>
    match argGetOwn s n with
    | none => argFreezeLoop s ns
    | some prop =>
      let u1 := prop.isDataDescriptor && prop.writable
      let p1 := if u1 then prop.writeOff else prop
      let u2 := p1.configurable
      let p2 := if u2 then p1.configureOff else p1
      if u1 || u2 then
        match argDefineOwn s n p2 with
        | (_, false) => (s, true)
        | (s', true) => argFreezeLoop s' ns
      else argFreezeLoop s ns

/-- builtin_object.go:241 seal with the class hooks -/
def argSealLoop (s : ArgState MProp) : List Name → ArgState MProp × Bool
  | [] => (s, false)
  | n :: ns =>
    match argGetOwn s n with
    | none => argSealLoop s ns
    | some prop =>
      if prop.configurable then
        match argDefineOwn s n prop.configureOff with
        | (_, false) => (s, true)
        | (s', true) => argSealLoop s' ns
      else argSealLoop s ns

def argStep (s : ArgState MProp) : AOp → ArgState MProp × Outcome × List Call
  | .param i v => ({ s with env := s.env.set i v }, .ok, [])
  | .put n v => let r := argPut s n v; (r.1, .ok, r.2)
  | .del n => let r := argDelete s n; (r.1, .bool r.2, [])
  | .defn n d =>
    match toPropertyDescriptor d with
    | none => (s, .typeError, [])
    | some desc =>
      match argDefineOwn s n desc with
      | (_, false) => (s, .typeError, [])
      | (s', true) => (s', .ok, [])
  | .freeze =>
    match argFreezeLoop s (akeys s.o.props) with
    | (s', true) => (s', .typeError, [])
    | (s', false) => ({ s' with o := { s'.o with ext := false } }, .ok, [])
  | .seal =>
    match argSealLoop s (akeys s.o.props) with
    | (s', true) => (s', .typeError, [])
    | (s', false) => ({ s' with o := { s'.o with ext := false } }, .ok, [])
  | .preventExt => ({ s with o := { s.o with ext := false } }, .ok, [])

def argObserveName (s : ArgState MProp) (n : Name) : NameObs :=
  let own := argGetOwn s n
  { get := argGet s n
    has := (alookup n s.o.props).isSome
    own := (alookup n s.o.props).isSome
    enum := match alookup n s.o.props with | some p => p.enumerable | none => false
    desc := match own with | some p => fromPropertyDescriptor p | none => .none }

def argObserve (s : ArgState MProp) (out : Outcome) : AObs :=
  { out := out
    env := s.env
    ext := s.o.ext
    isSealed := if s.o.ext then false else s.o.props.all (fun kp => !kp.2.configurable)
    isFrozen := if s.o.ext then false else s.o.props.all (fun kp => !(kp.2.configurable || kp.2.writable))
    names := enumerate s.o true
    per := argNames.map (argObserveName s) }

def argRun (s : ArgState MProp) : List AOp → List (AObs × List Call)
  | [] => []
  | op :: ops =>
    let r := argStep s op
    (argObserve r.1 r.2.1, r.2.2) :: argRun r.1 ops

/-! ### global bindings (cmpl_evaluate.go:80-110 cmplFunctionDeclaration / cmplVariableDeclaration,
    stash.go:60-95 objectStash) – a third small history language

  One global name (name 0 of the object `g` = the global object, nothing of that name inherited).
  Every operation is a separate program (a separate `Run`), so declaration binding instantiation
  (ES5 §10.5) happens per operation. -/

inductive GOp
  | assign (v : Val)            -- NAME = v            (identifier assignment, sloppy)
  | varDecl (eval : Bool)       -- var NAME            (in eval code when `eval`)
  | varInit (v : Val)           -- var NAME = v
  | funDecl (eval : Bool)       -- function NAME(){}   (in eval code when `eval`)
  | del                         -- delete NAME
  | defn (d : DescArg)          -- Object.defineProperty(this, 'NAME', d)
  | preventExt                  -- Object.preventExtensions(this)
  | seal                        -- Object.seal(this)
deriving DecidableEq, Repr

/-- value code of the function object a declaration binds (opaque) -/
def fnVal : Val := 997

/-- stash.go:66 objectStash.createBinding: defineProperty(name, value, 0o111 | 0o110, false) -/
def gCreate (g : MObj) (deletable : Bool) (v : Val) : MObj :=
  (defineOwn g 0 ⟨.val v, ⟨.on, .on, if deletable then .on else .off⟩⟩).getD g

/-- stash.go:77 objectStash.setBinding = object.put(name, value, false) -/
def gSet (g : MObj) (v : Val) : MObj × List Call :=
  let r := put [g] 0 0 v false
  (r.1.headD g, r.2.2)

def gHas (g : MObj) : Bool := (alookup 0 g.props).isSome

def gStep (g : MObj) : GOp → MObj × Outcome × List Call
  | .assign v =>
    -- stash.go:81 setValue: createBinding(name, true, value) when there is no binding, else setBinding
    if !gHas g then (gCreate g true v, .ok, []) else let r := gSet g v; (r.1, .ok, r.2)
  -- cmpl_evaluate.go: scope.eval is set while an eval program is instantiated
  -- cmpl_evaluate.go: after createBinding the binding must exist, else TypeError (10.2.1.2.2)
  | .varDecl eval =>
    if !gHas g then (let g1 := gCreate g eval 0; if gHas g1 then (g1, .ok, []) else (g1, .typeError, []))
    else (g, .ok, [])
  | .varInit v =>
    let g1 := if !gHas g then gCreate g false 0 else g
    if !gHas g1 then (g1, .typeError, [])          -- instantiation failed: the program does not run
    else let r := gSet g1 v; (r.1, .ok, r.2)
  | .funDecl eval =>
    -- cmpl_evaluate.go cmplFunctionDeclaration, 10.5 step 5.e on the global object
    match alookup 0 g.props with
    | none => (let g1 := gCreate g eval fnVal; if gHas g1 then (g1, .ok, []) else (g1, .typeError, []))
    | some existing =>
      if existing.configurable then
        match defineOwn g 0 ⟨.val 0, ⟨.on, .on, if eval then .on else .off⟩⟩ with
        | none => (g, .typeError, [])                       -- defineOwnProperty(…, true) would throw
        | some g1 => let r := gSet g1 fnVal; (r.1, .ok, r.2)
      else if existing.isAccessorDescriptor || !existing.writable || !existing.enumerable then (g, .typeError, [])
      else let r := gSet g fnVal; (r.1, .ok, r.2)
  | .del =>
    let r := delete [g] 0 0 false
    (r.1.headD g, r.2.1, [])
  | .defn d =>
    let r := step [g] (.defn 0 0 d)
    (r.1.headD g, r.2.1, [])
  | .preventExt => let r := step [g] (.preventExt 0); (r.1.headD g, r.2.1, [])
  | .seal => let r := step [g] (.seal 0); (r.1.headD g, r.2.1, [])

def gObserve (g : MObj) : NameObs := observeName [g] 0 g 0

def gRun (g : MObj) : List GOp → List (Outcome × List Call × NameObs)
  | [] => []
  | op :: ops =>
    let r := gStep g op
    (r.2.1, r.2.2, gObserve r.1) :: gRun r.1 ops

/-! ### the Object.* functions of §15.2.3 called with a non-object first argument
    (builtin_object.go: every one starts with `obj := call.Argument(0).object(); if obj == nil → TypeError`,
    create accepts null, and getOwnPropertyNames falls through to `newArray(0)`, builtin_object.go:331-333) -/

inductive ObjFn
  | getPrototypeOf | getOwnPropertyDescriptor | getOwnPropertyNames | create | defineProperty | defineProperties
  | seal | freeze | preventExtensions | isSealed | isFrozen | isExtensible | keys
deriving DecidableEq, Repr

inductive PrimArg | number | string | boolean | undefined | null | missing
deriving DecidableEq, Repr

inductive PrimRes | typeError | emptyArray | object
deriving DecidableEq, Repr

def objFnPrim (f : ObjFn) (a : PrimArg) : PrimRes :=
  match f, a with
  | .create, .null => .object
  | .getOwnPropertyNames, _ => .emptyArray
  | _, _ => .typeError

/-! ### assignment and read through a primitive base (cmpl_evaluate_expression.go:180-190, 268-278: the
    member expression wraps the primitive with toObject and keeps it in `ref.primitive`;
    type_reference.go:43-58 getValue / putValue then use the wrapper like any object)

  Heap: O[0] = Object.prototype, O[1] = String/Number/Boolean.prototype (proto 0), and a fresh wrapper
  (proto 1) at address 2 for every access; only name 0 (`tag`) matters. -/

structure PrimObs where
  defOut : Outcome            -- outcome of defining `tag` on the chosen prototype
  calls : List Call           -- setter calls made by the assignment
  got : Val                   -- value read back through a fresh wrapper
  holder : NameObs            -- the prototype's own `tag` afterwards
deriving DecidableEq, Repr

def primHeap0 : MHeap := [⟨none, true, []⟩, ⟨some 0, true, []⟩]

def primWrapper : MObj := ⟨some 1, true, []⟩

def primAssign (level : Addr) (d : DescArg) (v : Val) : PrimObs :=
  let r1 := step primHeap0 (.defn level 0 d)
  let h1 := r1.1
  let hw := h1 ++ [primWrapper]
  let r2 := put hw 2 0 v false                       -- pr.base.put(name, value, false) on the wrapper
  { defOut := r1.2.1
    calls := r2.2.2
    got := get hw 2 0
    holder := match h1[level]? with
      | some o => observeName h1 level o 0
      | none => ⟨0, false, false, false, .none⟩ }

/-! ### the order in which toPropertyDescriptor reads the fields of a descriptor object (property.go:123-195),
    observable when the fields are getters (order as of the read-order fix).  Field codes: 0 enumerable, 1 configurable, 2 writable, 3 value, 4 get, 5 set -/

def GS.isPresent : GS → Bool
  | .absent => false
  | _ => true

def GS.isBad : GS → Bool
  | .bad => true
  | _ => false

/-- (fields read in order, threw TypeError): enumerable, configurable, value, writable, get, set, then the
    accessor-versus-data conflict (property.go, after the read-order fix) -/
def readOrder (d : Desc) : List Nat × Bool :=
  let r0 := (if d.e.isSome then [0] else []) ++ (if d.c.isSome then [1] else []) ++
            (if d.v.isSome then [3] else []) ++ (if d.w.isSome then [2] else [])
  let r1 := r0 ++ (if d.g.isPresent then [4] else [])
  if d.g.isBad then (r1, true) else
  let r2 := r1 ++ (if d.s.isPresent then [5] else [])
  if d.s.isBad then (r2, true) else
  let getterSetter := d.g.isPresent || d.s.isPresent
  if getterSetter && d.w.isSome then (r2, true)
  else if getterSetter && d.v.isSome then (r2, true)
  else (r2, false)

/-! ### objects that built-ins create while a prototype carries an accessor / read-only property of the
    same name: every one of them creates its own properties with defineProperty / defineOwnProperty
    (builtin_json.go builtinJSONParseWalk, cmpl_evaluate_expression.go object and array literals,
    builtin_object.go defineProperties/create/fromPropertyDescriptor (property.go), type_arguments.go,
    builtin_string.go match/split, builtin_array.go map/slice/concat, builtin_object.go keys, type_error.go),
    so the polluted prototype is never consulted: (setter calls, own data property with the plain attributes) -/

inductive Builtin
  | json | literal | arrlit | defprops | create | args | smatch | gopd | keys | map | split | slice | concat | error
deriving DecidableEq, Repr

/-- expected own descriptor of the created property: value code and (w, e, c) -/
def builtinCreates (b : Builtin) : List Call × DescObs :=
  match b with
  | .error => ([], .data 997 true false true)
  | .gopd => ([], .data 4 true true true)
  | .smatch | .split | .keys => ([], .data 997 true true true)
  | _ => ([], .data 4 true true true)

/-! ### Object.defineProperties / Object.create with a descriptor map whose members have side effects
    (builtin_object.go builtinObjectDefineProperties / builtinObjectCreate via propertyDescriptorsOf) -/

/-- what reading one member of the map does -/
inductive MAct
  | plain                 -- a valid descriptor object
  | del (j : Nat)         -- a getter that deletes the j-th member of the map, then returns a valid descriptor
  | hide (j : Nat)        -- a getter that makes the j-th member non-enumerable, then returns a valid descriptor
  | bad                   -- not an object
  | thr                   -- a getter that throws TypeError
deriving DecidableEq, Repr

/-- builtin_object.go propertyDescriptorsOf: the names are collected first (no member is read meanwhile), then every
    one is read with get and converted: a member deleted meanwhile reads as undefined, which toPropertyDescriptor
    rejects; a member made non-enumerable meanwhile is still read.  `dels` = deleted? per member position -/
def mapWalk (ents : List (Name × MAct)) : Nat → List Bool → List Name → Nat → Option (List Name)
  | 0, _, acc, _ => some acc
  | fuel + 1, dels, acc, i =>
    match ents[i]? with
    | none => some acc
    | some (n, act) =>
      if dels.getD i false then none
      else
        match act with
        | .plain => mapWalk ents fuel dels (acc ++ [n]) (i + 1)
        | .del j => mapWalk ents fuel (dels.set j true) (acc ++ [n]) (i + 1)
        | .hide _ => mapWalk ents fuel dels (acc ++ [n]) (i + 1)
        | .bad => none
        | .thr => none

/-- (outcome, own names of the target afterwards); the target is a fresh object, every valid descriptor defines a data property -/
def defineMap (ents : List (Name × MAct)) : Outcome × List Name :=
  match mapWalk ents (ents.length + 1) (ents.map fun _ => false) [] 0 with
  | none => (.typeError, [])
  | some names => (.ok, names.eraseDups)

/-! ### observers of prototype links with primitive / missing arguments and null / undefined receivers
    (builtin_object.go builtinObjectIsPrototypeOf, builtinObjectGetPrototypeOf; type_function.go:250 hasInstance) -/

/-- the built-in prototype objects used as receivers -/
inductive PLink | objectP | numberP | stringP | booleanP | functionP
deriving DecidableEq, Repr

inductive PRecv | proto (p : PLink) | null | undefined
deriving DecidableEq, Repr

inductive PArg
  | number | string | boolean | undefined | null | missing          -- not objects
  | numObj | strObj | boolObj | plain | func | nullProto           -- objects
deriving DecidableEq, Repr

/-- the prototype chain of an argument that is an object (none = not an object) -/
def PArg.chain : PArg → Option (List PLink)
  | .numObj => some [.numberP, .objectP]
  | .strObj => some [.stringP, .objectP]
  | .boolObj => some [.booleanP, .objectP]
  | .plain => some [.objectP]
  | .func => some [.functionP, .objectP]
  | .nullProto => some []
  | _ => none

inductive PRes | t | f | typeError | isProto (p : PLink) | isNull | na
deriving DecidableEq, Repr

/-- builtin_object.go builtinObjectIsPrototypeOf: `if !value.IsObject() return false` comes first, then
    call.thisObject() (TypeError for null), then the walk.  The harness passes the receiver through
    Function.prototype.call, and builtin_function.go:112-115 (`// FIXME Not ECMA5`) replaces an undefined thisArg by the
    global object, which is on nobody's chain here -/
def isPrototypeOf (r : PRecv) (a : PArg) : PRes :=
  match a.chain with
  | none => .f
  | some ch =>
    match r with
    | .proto p => if ch.contains p then .t else .f
    | .undefined => .f
    | .null => .typeError

/-- builtin_object.go builtinObjectGetPrototypeOf -/
def getPrototypeOf (a : PArg) : PRes :=
  match a.chain with
  | none => .typeError
  | some [] => .isNull
  | some (p :: _) => .isProto p

/-- evaluate.go:131-138 + type_function.go:250 hasInstance: `arg instanceof C` where C.prototype is the receiver -/
def instanceOf (r : PRecv) (a : PArg) : PRes :=
  match r with
  | .proto p =>
    (match a.chain with
     | none => .f
     | some ch => if ch.contains p then .t else .f)
  | _ => .na

end OttoVerif.C07
