/-
  C07/Spec — the ES5 property model written from the standard (core-only).

  §8.6.1 attributes, §8.10 Property Descriptor (every field optional), §8.10.1-8.10.5,
  §8.12.1-8.12.7, §8.12.9 [[DefineOwnProperty]] step by step, §15.2.3.3-15.2.3.14, §15.2.4.5,
  §15.2.4.7, §11.4.1 delete, §11.13.1/§8.7.2 PutValue on a property reference (Throw = strict),
  §12.6.4 for-in (own properties first, in creation order, then the prototype's; a property of a
  prototype is not enumerated if it is shadowed by ANY property of an earlier object; the property
  statement fixes the order as insertion order).

  The container plumbing (association lists, `Obj`, the request and observation types) is shared
  with the model; every internal method is written here independently from the standard.
-/
import OttoVerif.C07.Model
namespace OttoVerif.C07.Spec
open OttoVerif.C07

/-- §8.6.1: a named data property or a named accessor property -/
inductive SProp
  | data (v : Val) (w e c : Bool)
  | acc (g s : Option Fn) (e c : Bool)
deriving DecidableEq, Repr

abbrev SObj := Obj SProp
abbrev SHeap := Heap SProp

namespace SProp
def enumerable : SProp → Bool | data _ _ e _ => e | acc _ _ e _ => e
def configurable : SProp → Bool | data _ _ _ c => c | acc _ _ _ c => c
def isData : SProp → Bool | data .. => true | acc .. => false
end SProp

/-- §8.10 the Property Descriptor type; for `get`/`set`, `some none` = present with value undefined -/
structure PD where
  value : Option Val
  writable : Option Bool
  get : Option (Option Fn)
  set : Option (Option Fn)
  enumerable : Option Bool
  configurable : Option Bool
deriving DecidableEq, Repr

/-- §8.10.1 -/
def isAccessorDescriptor (d : PD) : Bool := d.get.isSome || d.set.isSome
/-- §8.10.2 -/
def isDataDescriptor (d : PD) : Bool := d.value.isSome || d.writable.isSome
/-- §8.10.3 -/
def isGenericDescriptor (d : PD) : Bool := !isAccessorDescriptor d && !isDataDescriptor d

/-- §8.10.5 steps 7/8: field absent ↦ some none; not callable and not undefined ↦ none (TypeError) -/
def gsField : GS → Option (Option (Option Fn))
  | .absent => some none
  | .undef => some (some none)
  | .fn k => some (some (some k))
  | .bad => none

/-- §8.10.5 ToPropertyDescriptor; `none` = TypeError -/
def toPropertyDescriptor : DescArg → Option PD
  | .nonobj => none                                              -- step 1
  | .obj d =>
    match gsField d.g, gsField d.s with
    | some g, some s =>
      if (g.isSome || s.isSome) && (d.v.isSome || d.w.isSome) then none   -- step 9
      else some { value := d.v, writable := d.w, get := g, set := s, enumerable := d.e, configurable := d.c }
    | _, _ => none                                               -- steps 7.b / 8.b

/-- the fully populated descriptor of an existing property (§8.12.1) -/
def ofProp : SProp → PD
  | .data v w e c => { value := some v, writable := some w, get := none, set := none, enumerable := some e, configurable := some c }
  | .acc g s e c => { value := none, writable := none, get := some g, set := some s, enumerable := some e, configurable := some c }

/-- §8.10.4 FromPropertyDescriptor as observed -/
def fromPropertyDescriptor : SProp → DescObs
  | .data v w e c => .data v w e c
  | .acc g s e c => .acc g s e c

def fieldSame [DecidableEq α] (d : Option α) (cur : Option α) : Bool :=
  match d with
  | none => true
  | some x => cur == some x

/-- §8.12.9 step 6: every field of Desc occurs in current with the same value -/
def subsumed (d : PD) (cur : SProp) : Bool :=
  let c := ofProp cur
  fieldSame d.value c.value && fieldSame d.writable c.writable && fieldSame d.get c.get &&
  fieldSame d.set c.set && fieldSame d.enumerable c.enumerable && fieldSame d.configurable c.configurable

def allAbsent (d : PD) : Bool :=
  d.value.isNone && d.writable.isNone && d.get.isNone && d.set.isNone && d.enumerable.isNone && d.configurable.isNone

/-- §8.12.9 step 12 -/
def applyFields (b : SProp) (d : PD) : SProp :=
  match b with
  | .data v w e c => .data (d.value.getD v) (d.writable.getD w) (d.enumerable.getD e) (d.configurable.getD c)
  | .acc g s e c => .acc (d.get.getD g) (d.set.getD s) (d.enumerable.getD e) (d.configurable.getD c)

/-- §8.12.9 steps 8-11: the property after any kind conversion, or none = Reject -/
def validate (cur : SProp) (d : PD) : Option SProp :=
  if isGenericDescriptor d then some cur                                          -- 8
  else if cur.isData != isDataDescriptor d then                                   -- 9
    if !cur.configurable then none                                                -- 9.a
    else some (match cur with
      | .data _ _ e c => .acc none none e c                                       -- 9.b
      | .acc _ _ e c => .data 0 false e c)                                        -- 9.c
  else
    match cur with
    | .data v w _ c =>                                                            -- 10
      if !c then
        if !w && d.writable == some true then none                                -- 10.a.i
        else if !w && (match d.value with | some dv => dv != v | none => false) then none  -- 10.a.ii
        else some cur
      else some cur
    | .acc g s _ c =>                                                             -- 11
      if !c then
        if (match d.set with | some ds => ds != s | none => false) then none      -- 11.a.i
        else if (match d.get with | some dg => dg != g | none => false) then none -- 11.a.ii
        else some cur
      else some cur

/-- §8.12.9 [[DefineOwnProperty]]; `none` = Reject -/
def defineOwn (o : SObj) (n : Name) (d : PD) : Option SObj :=
  match alookup n o.props with
  | none =>
    if !o.ext then none                                                           -- 3
    else
      let p : SProp :=
        if isGenericDescriptor d || isDataDescriptor d then                       -- 4.a
          .data (d.value.getD 0) (d.writable.getD false) (d.enumerable.getD false) (d.configurable.getD false)
        else                                                                      -- 4.b
          .acc (d.get.getD none) (d.set.getD none) (d.enumerable.getD false) (d.configurable.getD false)
      some { o with props := aupsert n p o.props }
  | some cur =>
    if allAbsent d then some o                                                    -- 5
    else if subsumed d cur then some o                                            -- 6
    else if !cur.configurable && d.configurable == some true then none            -- 7.a
    else if !cur.configurable && (match d.enumerable with | some e => e != cur.enumerable | none => false) then none  -- 7.b
    else
      match validate cur d with
      | none => none
      | some b => some { o with props := aupsert n (applyFields b d) o.props }    -- 12, 13

/-- §8.12.2 [[GetProperty]] (fuel = heap size + 1: prototype chains are finite) -/
def getProperty (h : SHeap) : Nat → Option Addr → Name → Option SProp
  | 0, _, _ => none
  | _ + 1, none, _ => none
  | f + 1, some a, n =>
    match h[a]? with
    | none => none
    | some o =>
      match alookup n o.props with
      | some p => some p
      | none => getProperty h f o.proto n

/-- §8.12.3 [[Get]] -/
def get (h : SHeap) (a : Addr) (n : Name) : Val :=
  match getProperty h (fuel h) (some a) n with
  | none => 0
  | some (.data v _ _ _) => v
  | some (.acc none _ _ _) => 0
  | some (.acc (some k) _ _ _) => getterResult k a

/-- §8.12.4 [[CanPut]] -/
def canPut (h : SHeap) (o : SObj) (n : Name) : Bool :=
  match alookup n o.props with
  | some (.acc _ s _ _) => s.isSome                      -- 2.a
  | some (.data _ w _ _) => w                            -- 2.b
  | none =>
    match o.proto with
    | none => o.ext                                      -- 4
    | some pa =>
      match getProperty h (fuel h) (some pa) n with
      | none => o.ext                                    -- 6
      | some (.acc _ s _ _) => s.isSome                  -- 7
      | some (.data _ w _ _) => if !o.ext then false else w   -- 8

abbrev StepRes := SHeap × Outcome × List Call

def noPD : PD := { value := none, writable := none, get := none, set := none, enumerable := none, configurable := none }

/-- §8.12.5 [[Put]] -/
def put (h : SHeap) (a : Addr) (n : Name) (v : Val) (throw : Bool) : StepRes :=
  match h[a]? with
  | none => (h, .bad, [])
  | some o =>
    if !canPut h o n then (h, rejectOutcome throw, [])                         -- 1
    else
      match alookup n o.props with
      | some (.data ..) =>                                                     -- 3
        match defineOwn o n { noPD with value := some v } with
        | none => (h, rejectOutcome throw, [])
        | some o' => (h.set a o', .ok, [])
      | _ =>
        match getProperty h (fuel h) (some a) n with                           -- 4
        | some (.acc _ (some k) _ _) => (h, .ok, [(k, a, v)])                  -- 5
        | some (.acc _ none _ _) => (h, .ok, [])                               -- (unreachable: CanPut was false)
        | _ =>                                                                 -- 6
          match defineOwn o n { noPD with value := some v, writable := some true, enumerable := some true, configurable := some true } with
          | none => (h, rejectOutcome throw, [])
          | some o' => (h.set a o', .ok, [])

/-- §8.12.7 [[Delete]] as seen through §11.4.1 -/
def delete (h : SHeap) (a : Addr) (n : Name) (throw : Bool) : StepRes :=
  match h[a]? with
  | none => (h, .bad, [])
  | some o =>
    match alookup n o.props with
    | none => (h, .bool true, [])                                              -- 2
    | some p =>
      if p.configurable then (h.set a { o with props := aerase n o.props }, .bool true, [])   -- 3
      else (h, if throw then .typeError else .bool false, [])                  -- 4, 5

/-- §15.2.3.7 steps 5: convert ALL descriptors first; none = TypeError -/
def convertList : List (Name × DescArg) → Option (List (Name × PD))
  | [] => some []
  | (n, d) :: t =>
    match toPropertyDescriptor d, convertList t with
    | some pd, some r => some ((n, pd) :: r)
    | _, _ => none

/-- §15.2.3.7 step 6: define in order with Throw = true; (object so far, threw?) -/
def defineAll (o : SObj) : List (Name × PD) → SObj × Bool
  | [] => (o, false)
  | (n, d) :: t =>
    match defineOwn o n d with
    | none => (o, true)
    | some o' => defineAll o' t

def defineProperties (o : SObj) (l : List (Name × DescArg)) : SObj × Bool :=
  match convertList l with
  | none => (o, true)
  | some ds => defineAll o ds

/-- §15.2.3.8 seal, step 2 -/
def sealLoop (o : SObj) : List Name → SObj × Bool
  | [] => (o, false)
  | n :: ns =>
    match alookup n o.props with
    | none => sealLoop o ns
    | some p =>
      let d := ofProp p
      let d := if p.configurable then { d with configurable := some false } else d
      match defineOwn o n d with
      | none => (o, true)
      | some o' => sealLoop o' ns

/-- §15.2.3.9 freeze, step 2 -/
def freezeLoop (o : SObj) : List Name → SObj × Bool
  | [] => (o, false)
  | n :: ns =>
    match alookup n o.props with
    | none => freezeLoop o ns
    | some p =>
      let d := ofProp p
      let d := if isDataDescriptor d && d.writable == some true then { d with writable := some false } else d
      let d := if d.configurable == some true then { d with configurable := some false } else d
      match defineOwn o n d with
      | none => (o, true)
      | some o' => freezeLoop o' ns

/-- the start objects as ES5 prescribes them.  §13.2 steps 14-18: `length` {¬w,¬e,¬c}, `prototype`
    {w,¬e,¬c}, and on the fresh prototype object `constructor` {w,¬e,c}.  §15.11.2.1 / §15.11.7.4: an
    error instance has an own `message` {w,¬e,c} when the argument is defined and NO own `name`.
    §15.10.7: source, global, ignoreCase, multiline {¬w,¬e,¬c}, lastIndex {w,¬e,¬c}.  §15.9.5: a Date
    instance has no own properties.  Clause 2 permits additional properties: the implementation's
    extras (`name` and `caller` of functions, `stack` of errors) are taken over as they are, and the
    key order is the creation order. -/
def nativeObj (k : Kind) (a : Addr) : SObj :=
  match k with
  | .fproto => ⟨none, true, [(3, .data (special a 0) true false true)]⟩
  | .func => ⟨none, true,
      [(6, .data 997 false false false), (5, .data 5 false false false),
       (7, .acc (some 900) none false false), (4, .data (special a 2) true false false)]⟩
  | .terr => ⟨none, true, [(8, .data 997 true false true), (9, .acc (some 900) none false true)]⟩
  | .err => ⟨none, true, [(8, .data 997 true false true), (9, .acc (some 900) none false true)]⟩
  | .regexp => ⟨none, true,
      [(12, .data 996 false false false), (13, .data 995 false false false), (14, .data 995 false false false),
       (10, .data 1 true false false), (11, .data 997 false false false)]⟩
  | .date => ⟨none, true, []⟩

/-- §11.1.5 PropertyAssignment: the descriptor of one member -/
def literalPD : LMember → PD
  | (.value, _, v) => { noPD with value := some v, writable := some true, enumerable := some true, configurable := some true }
  | (.get, _, _) => { noPD with get := some (some 900), enumerable := some true, configurable := some true }
  | (.set, _, _) => { noPD with set := some (some 900), enumerable := some true, configurable := some true }

/-- §11.1.5 `PropertyNameAndValueList , PropertyAssignment` step 4 (non-strict code): SyntaxError when the
    name was already given as the other kind (data vs accessor) or as an accessor with the same half -/
def literalClash (seen : List LMember) (m : LMember) : Bool :=
  seen.any (fun p => p.2.1 == m.2.1 &&
    (match p.1, m.1 with
     | .value, .value => false
     | .get, .set => false
     | .set, .get => false
     | _, _ => true))

def literalInvalid : List LMember → List LMember → Bool
  | _, [] => false
  | seen, m :: t => literalClash seen m || literalInvalid (seen ++ [m]) t

def literalFold (o : SObj) : List LMember → SObj
  | [] => o
  | m :: t => literalFold ((defineOwn o m.2.1 (literalPD m)).getD o) t      -- step 5: [[DefineOwnProperty]](name, desc, false)

def step (h : SHeap) : Op → StepRes
  | .literal ms =>
    if literalInvalid [] ms then (h, .syntaxError, [])
    else (h ++ [literalFold ⟨none, true, []⟩ ms], .ok, [])
  | .native k => (h ++ [nativeObj k h.length], .ok, [])
  | .put strict a n v => put h a n v strict
  | .del strict a n => delete h a n strict
  | .defn a n d =>                                                             -- §15.2.3.6
    match h[a]? with
    | none => (h, .bad, [])
    | some o =>
      match toPropertyDescriptor d with
      | none => (h, .typeError, [])
      | some desc =>
        match defineOwn o n desc with
        | none => (h, .typeError, [])
        | some o' => (h.set a o', .ok, [])
  | .defs a l =>                                                               -- §15.2.3.7
    match h[a]? with
    | none => (h, .bad, [])
    | some o =>
      let (o', threw) := defineProperties o l
      (h.set a o', if threw then .typeError else .ok, [])
  | .create p l =>                                                             -- §15.2.3.5
    if (match p with | none => true | some pa => pa < h.length) then
      let (o', threw) := defineProperties ⟨p, true, []⟩ l
      if threw then (h, .typeError, []) else (h ++ [o'], .ok, [])
    else (h, .bad, [])
  | .freeze a =>
    match h[a]? with
    | none => (h, .bad, [])
    | some o =>
      match freezeLoop o (akeys o.props) with
      | (o', true) => (h.set a o', .typeError, [])
      | (o', false) => (h.set a { o' with ext := false }, .ok, [])
  | .seal a =>
    match h[a]? with
    | none => (h, .bad, [])
    | some o =>
      match sealLoop o (akeys o.props) with
      | (o', true) => (h.set a o', .typeError, [])
      | (o', false) => (h.set a { o' with ext := false }, .ok, [])
  | .preventExt a =>                                                           -- §15.2.3.10
    match h[a]? with
    | none => (h, .bad, [])
    | some o => (h.set a { o with ext := false }, .ok, [])

/-! ### observations -/

def ownKeys (o : SObj) (all : Bool) : List Name :=
  (o.props.filter (fun kp => all || kp.2.enumerable)).map (·.1)

/-- §12.6.4: `seen` = names of all properties (enumerable or not) of earlier objects on the chain -/
def forIn (h : SHeap) : Nat → Option Addr → List Name → List Name
  | 0, _, _ => []
  | _ + 1, none, _ => []
  | f + 1, some a, seen =>
    match h[a]? with
    | none => []
    | some o =>
      (ownKeys o false).filter (fun n => !seen.contains n) ++ forIn h f o.proto (seen ++ akeys o.props)

def observeName (h : SHeap) (a : Addr) (o : SObj) (n : Name) : NameObs :=
  let own := alookup n o.props
  { get := get h a n
    has := (getProperty h (fuel h) (some a) n).isSome                        -- §8.12.6
    own := own.isSome                                                         -- §15.2.4.5
    enum := match own with | some p => p.enumerable | none => false           -- §15.2.4.7
    desc := match own with | some p => fromPropertyDescriptor p | none => .none }   -- §15.2.3.3

def observeObj (h : SHeap) (a : Addr) (o : SObj) : ObjObs :=
  { ext := o.ext                                                              -- §15.2.3.13
    isSealed := o.props.all (fun kp => !kp.2.configurable) && !o.ext          -- §15.2.3.11
    isFrozen := o.props.all (fun kp => match kp.2 with                        -- §15.2.3.12
        | .data _ w _ c => !w && !c
        | .acc _ _ _ c => !c) && !o.ext
    keys := ownKeys o false                                                   -- §15.2.3.14
    names := ownKeys o true                                                   -- §15.2.3.4
    forin := forIn h (fuel h) (some a) []
    per := (obsNamesFor (akeys o.props)).map (observeName h a o) }

def observeFrom (h : SHeap) : Nat → List SObj → List ObjObs
  | _, [] => []
  | a, o :: t => observeObj h a o :: observeFrom h (a + 1) t

def observe (h : SHeap) : List ObjObs := observeFrom h 0 h

def run (h : SHeap) : List Op → List StepObs
  | [] => []
  | op :: ops =>
    let (h', out, calls) := step h op
    ⟨out, calls, observe h'⟩ :: run h' ops

/-! ### the arguments object, ES5 §10.6 (non-strict function, all indices mapped at creation)

  The stored value of a mapped index is the creation-time argument (step 11.b); while mapped,
  [[Get]] / [[GetOwnProperty]] read the parameter binding.  [[DefineOwnProperty]] step 5.b.ii
  (unmapping by `writable:false`) is taken with the correction of ES2015 §9.4.4.2 step 4: a
  descriptor without [[Value]] first receives the mapped value, so that the property keeps the
  value it showed while mapped (ES5.1's literal text would expose the stale creation-time value;
  no implementation does that). -/

def argInit (v0 v1 : Val) : ArgState SProp :=
  { o := ⟨none, true,
      [(15, .data v0 true true true), (16, .data v1 true true true),
       (5, .data 5 true false true), (17, .data 997 true false true)]⟩
    map := [true, true]
    env := [v0, v1] }

/-- §10.6 [[GetOwnProperty]] -/
def argGetOwn (s : ArgState SProp) (n : Name) : Option SProp :=
  match alookup n s.o.props with
  | none => none
  | some p =>
    match argMapped s n, p with
    | some v, .data _ w e c => some (.data v w e c)
    | _, _ => some p

/-- §10.6 [[Get]] -/
def argGet (s : ArgState SProp) (n : Name) : Val :=
  match argMapped s n with
  | some v => v
  | none =>
    match alookup n s.o.props with
    | some (.data v _ _ _) => v
    | some (.acc (some k) _ _ _) => getterResult k 0
    | _ => 0

/-- §10.6 [[DefineOwnProperty]]; (state, accepted) -/
def argDefineOwn (s : ArgState SProp) (n : Name) (d : PD) : ArgState SProp × Bool :=
  match argMapped s n, argIndex n with
  | some mv, some i =>
    -- ES2015 9.4.4.2 step 4: a data descriptor that unmaps without a value takes the mapped value
    let d1 : PD := if !isAccessorDescriptor d && d.value.isNone && d.writable == some false then { d with value := some mv } else d
    match defineOwn s.o n d1 with                                     -- step 3
    | none => (s, false)                                              -- step 4
    | some o' =>
      let s1 := { s with o := o' }
      if isAccessorDescriptor d then ({ s1 with map := s1.map.set i false }, true)      -- 5.a
      else
        let s2 := match d1.value with | some v => { s1 with env := s1.env.set i v } | none => s1   -- 5.b.i
        if d.writable == some false then ({ s2 with map := s2.map.set i false }, true)  -- 5.b.ii
        else (s2, true)
  | _, _ =>
    match defineOwn s.o n d with
    | none => (s, false)
    | some o' => ({ s with o := o' }, true)

/-- §10.6 [[Delete]] (Throw = false) -/
def argDelete (s : ArgState SProp) (n : Name) : ArgState SProp × Bool :=
  match alookup n s.o.props with
  | none => (s, true)
  | some p =>
    if p.configurable then
      let s1 := { s with o := { s.o with props := aerase n s.o.props } }
      match argMapped s n, argIndex n with
      | some _, some i => ({ s1 with map := s1.map.set i false }, true)
      | _, _ => (s1, true)
    else (s, false)

/-- §8.12.5 [[Put]] on the arguments object (Throw = false; nothing relevant inherited) -/
def argPut (s : ArgState SProp) (n : Name) (v : Val) : ArgState SProp × List Call :=
  match argGetOwn s n with
  | some (.data _ w _ _) => if w then ((argDefineOwn s n { noPD with value := some v }).1, []) else (s, [])
  | some (.acc _ (some k) _ _) => (s, [(k, 0, v)])
  | some (.acc _ none _ _) => (s, [])
  | none =>
    if s.o.ext then ((argDefineOwn s n { noPD with value := some v, writable := some true, enumerable := some true, configurable := some true }).1, [])
    else (s, [])

/-- §15.2.3.9 on the arguments object -/
def argFreezeLoop (s : ArgState SProp) : List Name → ArgState SProp × Bool
  | [] => (s, false)
  | n :: ns =>
    match argGetOwn s n with
    | none => argFreezeLoop s ns
    | some p =>
      let d := ofProp p
      let d := if isDataDescriptor d && d.writable == some true then { d with writable := some false } else d
      let d := if d.configurable == some true then { d with configurable := some false } else d
      match argDefineOwn s n d with
      | (_, false) => (s, true)
      | (s', true) => argFreezeLoop s' ns

/-- §15.2.3.8 on the arguments object -/
def argSealLoop (s : ArgState SProp) : List Name → ArgState SProp × Bool
  | [] => (s, false)
  | n :: ns =>
    match argGetOwn s n with
    | none => argSealLoop s ns
    | some p =>
      let d := ofProp p
      let d := if p.configurable then { d with configurable := some false } else d
      match argDefineOwn s n d with
      | (_, false) => (s, true)
      | (s', true) => argSealLoop s' ns

def argStep (s : ArgState SProp) : AOp → ArgState SProp × Outcome × List Call
  | .param i v => ({ s with env := s.env.set i v }, .ok, [])
  | .put n v => let r := argPut s n v; (r.1, .ok, r.2)
  | .del n => let r := argDelete s n; (r.1, .bool r.2, [])
  | .defn n d =>
    match toPropertyDescriptor d with
    | none => (s, .typeError, [])
    | some desc =>
      match argDefineOwn s n desc with
      | (_, false) => (s, .typeError, [])
      | (s', true) => (s', .ok, [])
  | .freeze =>
    match argFreezeLoop s (akeys s.o.props) with
    | (s', true) => (s', .typeError, [])
    | (s', false) => ({ s' with o := { s'.o with ext := false } }, .ok, [])
  | .seal =>
    match argSealLoop s (akeys s.o.props) with
    | (s', true) => (s', .typeError, [])
    | (s', false) => ({ s' with o := { s'.o with ext := false } }, .ok, [])
  | .preventExt => ({ s with o := { s.o with ext := false } }, .ok, [])

def argObserveName (s : ArgState SProp) (n : Name) : NameObs :=
  { get := argGet s n
    has := (alookup n s.o.props).isSome
    own := (alookup n s.o.props).isSome
    enum := match alookup n s.o.props with | some p => p.enumerable | none => false
    desc := match argGetOwn s n with | some p => fromPropertyDescriptor p | none => .none }

def argObserve (s : ArgState SProp) (out : Outcome) : AObs :=
  { out := out
    env := s.env
    ext := s.o.ext
    isSealed := s.o.props.all (fun kp => !kp.2.configurable) && !s.o.ext
    isFrozen := s.o.props.all (fun kp => match kp.2 with
        | .data _ w _ c => !w && !c
        | .acc _ _ _ c => !c) && !s.o.ext
    names := ownKeys s.o true
    per := argNames.map (argObserveName s) }

def argRun (s : ArgState SProp) : List AOp → List (AObs × List Call)
  | [] => []
  | op :: ops =>
    let r := argStep s op
    (argObserve r.1 r.2.1, r.2.2) :: argRun r.1 ops

/-! ### global bindings, ES5 §10.5 Declaration Binding Instantiation on the global environment
    (§10.2.1.2 object environment record over the global object), §8.7.2 PutValue, §11.4.1 delete -/

def gHas (g : SObj) : Bool := (alookup 0 g.props).isSome          -- HasBinding = [[HasProperty]]

/-- §10.2.1.2.2 CreateMutableBinding(N, D): [[DefineOwnProperty]] {undefined, w, e, c = D} with Throw = true;
    none = TypeError (the global object is not extensible) -/
def gCreate? (g : SObj) (configurable : Bool) : Option SObj :=
  defineOwn g 0 { noPD with value := some 0, writable := some true, enumerable := some true, configurable := some configurable }

def gCreate (g : SObj) (configurable : Bool) : SObj := (gCreate? g configurable).getD g

/-- §10.2.1.2.3 SetMutableBinding = [[Put]](N, V, S) with S = false -/
def gSet (g : SObj) (v : Val) : SObj × List Call :=
  let r := put [g] 0 0 v false
  (r.1.headD g, r.2.2)

def gStep (g : SObj) : GOp → SObj × Outcome × List Call
  | .assign v => let r := gSet g v; (r.1, .ok, r.2)                 -- §8.7.2 step 3.b / 5 (both are [[Put]] on the global object)
  | .varDecl eval =>                                                -- §10.5 step 8
    if !gHas g then (match gCreate? g eval with | some g1 => (g1, .ok, []) | none => (g, .typeError, []))
    else (g, .ok, [])
  | .varInit v =>
    if !gHas g then
      (match gCreate? g false with
       | some g1 => let r := gSet g1 v; (r.1, .ok, r.2)
       | none => (g, .typeError, []))                               -- instantiation fails: the program does not run
    else let r := gSet g v; (r.1, .ok, r.2)
  | .funDecl eval =>                                                -- §10.5 step 5
    match alookup 0 g.props with
    | none =>                                                                       -- 5.d, 5.f
      (match gCreate? g eval with
       | some g1 => let r := gSet g1 fnVal; (r.1, .ok, r.2)
       | none => (g, .typeError, []))
    | some existing =>
      if existing.configurable then                                                 -- 5.e.iii
        match defineOwn g 0 { noPD with value := some 0, writable := some true, enumerable := some true, configurable := some eval } with
        | none => (g, .typeError, [])
        | some g1 => let r := gSet g1 fnVal; (r.1, .ok, r.2)
      else
        match existing with                                                          -- 5.e.iv
        | .data _ true true _ => let r := gSet g fnVal; (r.1, .ok, r.2)
        | _ => (g, .typeError, [])
  | .del =>
    let r := delete [g] 0 0 false
    (r.1.headD g, r.2.1, [])
  | .defn d =>
    let r := step [g] (.defn 0 0 d)
    (r.1.headD g, r.2.1, [])
  | .preventExt => let r := step [g] (.preventExt 0); (r.1.headD g, r.2.1, [])
  | .seal => let r := step [g] (.seal 0); (r.1.headD g, r.2.1, [])

def gObserve (g : SObj) : NameObs := observeName [g] 0 g 0

def gRun (g : SObj) : List GOp → List (Outcome × List Call × NameObs)
  | [] => []
  | op :: ops =>
    let r := gStep g op
    (r.2.1, r.2.2, gObserve r.1) :: gRun r.1 ops

/-- §15.2.3.2-15.2.3.14 step 1: "If Type(O) is not Object throw a TypeError exception" (§15.2.3.5: "not Object or Null") -/
def objFnPrim (f : ObjFn) (a : PrimArg) : PrimRes :=
  match f, a with
  | .create, .null => .object
  | _, _ => .typeError

/-! ### §8.7.1 / §8.7.2 with a primitive base: the special [[Get]] and [[Put]] on the transient wrapper -/

/-- §8.7.2 steps 1-8 of the special [[Put]] (Throw = false): the setter calls it makes; nothing is stored -/
def putPrimitive (h : SHeap) (wa : Addr) (n : Name) (v : Val) : List Call :=
  match h[wa]? with
  | none => []
  | some o =>
    if !canPut h o n then []                                   -- 2
    else
      match alookup n o.props with
      | some (.data ..) => []                                  -- 3, 4
      | _ =>
        match getProperty h (fuel h) (some wa) n with          -- 5
        | some (.acc _ (some k) _ _) => [(k, wa, v)]           -- 6
        | _ => []                                              -- 7

def primAssign (level : Addr) (d : DescArg) (v : Val) : PrimObs :=
  let h0 : SHeap := [⟨none, true, []⟩, ⟨some 0, true, []⟩]
  let r1 := step h0 (.defn level 0 d)
  let h1 := r1.1
  let hw := h1 ++ [⟨some 1, true, []⟩]
  { defOut := r1.2.1
    calls := putPrimitive hw 2 0 v
    got := get hw 2 0                                          -- §8.7.1 special [[Get]]
    holder := match h1[level]? with
      | some o => observeName h1 level o 0
      | none => ⟨0, false, false, false, .none⟩ }

/-- §8.10.5 ToPropertyDescriptor steps 3-9: enumerable, configurable, value, writable, get (7.b TypeError
    at once when not callable), set (8.b), and only then step 9 -/
def readOrder (d : Desc) : List Nat × Bool :=
  let r0 := (if d.e.isSome then [0] else []) ++ (if d.c.isSome then [1] else []) ++
            (if d.v.isSome then [3] else []) ++ (if d.w.isSome then [2] else [])
  let r1 := r0 ++ (if d.g.isPresent then [4] else [])
  if d.g.isBad then (r1, true) else
  let r2 := r1 ++ (if d.s.isPresent then [5] else [])
  if d.s.isBad then (r2, true) else
  (r2, (d.g.isPresent || d.s.isPresent) && (d.v.isSome || d.w.isSome))

/-- §11.1.5, §11.1.4, §15.12.2, §15.2.3.3-7, §10.6, §15.5.4.10/14, §15.4.4.x, §15.11.2.1: all these create
    own properties with [[DefineOwnProperty]] – an inherited accessor or read-only property is not consulted -/
def builtinCreates (b : Builtin) : List Call × DescObs :=
  match b with
  | .error => ([], .data 997 true false true)
  | .gopd => ([], .data 4 true true true)
  | .smatch | .split | .keys => ([], .data 997 true true true)
  | _ => ([], .data 4 true true true)

/-- §15.2.3.7 steps 3-5 with a map whose members have side effects: the names are the own enumerable
    properties at step 3 (a snapshot); step 5 reads EVERY one of them with [[Get]] – a member deleted meanwhile
    reads as undefined, which ToPropertyDescriptor rejects; a member made non-enumerable meanwhile is still read -/
def mapWalk (ents : List (Name × MAct)) : Nat → List Bool → List Name → Nat → Option (List Name)
  | 0, _, acc, _ => some acc
  | fuel + 1, dels, acc, i =>
    match ents[i]? with
    | none => some acc
    | some (n, act) =>
      if dels.getD i false then none
      else
        match act with
        | .plain => mapWalk ents fuel dels (acc ++ [n]) (i + 1)
        | .del j => mapWalk ents fuel (dels.set j true) (acc ++ [n]) (i + 1)
        | .hide _ => mapWalk ents fuel dels (acc ++ [n]) (i + 1)
        | .bad => none
        | .thr => none

def defineMap (ents : List (Name × MAct)) : Outcome × List Name :=
  match mapWalk ents (ents.length + 1) (ents.map fun _ => false) [] 0 with
  | none => (.typeError, [])
  | some names => (.ok, names.eraseDups)

/-- §15.2.4.6 Object.prototype.isPrototypeOf(V): step 1 "If V is not an object, return false" precedes
    step 2 ToObject(this) (TypeError for null / undefined); step 3 walks [[Prototype]] of V -/
def isPrototypeOf (r : PRecv) (a : PArg) : PRes :=
  match a.chain with
  | none => .f                                   -- 1
  | some ch =>
    match r with
    | .null => .typeError                        -- 2
    | .undefined => .typeError
    | .proto p => if ch.contains p then .t else .f   -- 3

/-- §15.2.3.2 Object.getPrototypeOf(O): TypeError unless Type(O) is Object -/
def getPrototypeOf (a : PArg) : PRes :=
  match a.chain with
  | none => .typeError
  | some [] => .isNull
  | some (p :: _) => .isProto p

/-- §11.8.6 + §15.3.5.3 [[HasInstance]](V): false if V is not an object, else walk [[Prototype]] -/
def instanceOf (r : PRecv) (a : PArg) : PRes :=
  match r with
  | .proto p =>
    (match a.chain with
     | none => .f
     | some ch => if ch.contains p then .t else .f)
  | _ => .na

end OttoVerif.C07.Spec
