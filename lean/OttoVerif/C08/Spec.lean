/-
  C08/Spec — ES5.1 §15.4 (Array objects) written from the standard, over the same value
  universe, object store and result monad as the model (those are vocabulary, not behaviour).

  §8.12.1–8.12.9 are given for objects whose properties are all data properties (the universe
  of this property); §15.4.5.1 is the Array [[DefineOwnProperty]]; §15.4.4.x are the
  Array.prototype algorithms over the abstract operations [[Get]]/[[Put]]/[[Delete]]/
  [[HasProperty]] (`Ops`).  One deliberate reading: the arrays *returned* by concat, slice,
  splice, map and filter are given as the list of their elements with trailing holes kept, i.e.
  with the final `Put(A, "length", n)` that ES2015 added (Annex E) to repair the ES5.1 omission.
-/
import OttoVerif.C08.Model
namespace OttoVerif.C08.Spec
open OttoVerif.F64 OttoVerif.C08

/-! ## §9 conversions -/

/-- §9.3 ToNumber (an integer-kinded value denotes that integer) -/
def toNumber (E : Env) : Val → FV
  | .undef => .nan
  | .null => zero
  | .bool b => if b then one else zero
  | .int i => ofInt i
  | .num x => x
  | .str s => E.pn s
  | .recv => .nan            -- not modelled (ToPrimitive of an object)
  | .obj _ => .nan           -- objects are converted by `Ops.conv` (ToPrimitive) first

/-- integers extended with ±∞ : the range of §9.4 ToInteger -/
inductive IntInf where
  | fin (i : Int) | pinf | ninf
deriving DecidableEq, Repr

/-- §9.4 ToInteger -/
def toInteger (E : Env) (v : Val) : IntInf :=
  match v with
  | .int i => .fin i
  | _ =>
    match toNumber E v with
    | .nan => .fin 0
    | .inf s => if s then .ninf else .pinf
    | .fin s m e => .fin (truncInt (.fin s m e))      -- sign(x)·floor(|x|)

/-- §9.2 ToBoolean -/
def toBoolean : Val → Bool
  | .undef => false | .null => false
  | .bool b => b
  | .int i => !(i = 0)
  | .num x => !(isNaN x || isZero x)
  | .str s => !s.isEmpty
  | .recv => true
  | .obj _ => true

/-- §9.6 ToUint32 -/
def toUint32 (E : Env) (v : Val) : Nat :=
  match v with
  | .int i => (i % (2^32 : Int)).toNat
  | _ =>
    match toNumber E v with
    | .fin s m e => (truncInt (.fin s m e) % (2^32 : Int)).toNat
    | _ => 0

/-- the mathematical value of the double `x` is the natural number `n` -/
def valEqNat (x : FV) (n : Nat) : Bool :=
  match x with
  | .fin s m e =>
    if e ≥ 0 then (if s then m = 0 ∧ n = 0 else m * 2^(e.toNat) = n)
    else m % 2^((-e).toNat) = 0 ∧ (if s then m = 0 ∧ n = 0 else m / 2^((-e).toNat) = n)
  | _ => false

/-- §15.4.5.1 step 3.d / §15.4.2.2: the length is acceptable iff ToUint32(v) = ToNumber(v) -/
def lengthOf (E : Env) (v : Val) : Option Nat :=
  match v with
  | .int i => if 0 ≤ i ∧ i < 2^32 then some i.toNat else none
  | _ => if valEqNat (toNumber E v) (toUint32 E v) then some (toUint32 E v) else none

/-- §9.12 SameValue -/
def sameValue (E : Env) (x y : Val) : Bool :=
  match x, y with
  | .undef, .undef => true
  | .null, .null => true
  | .bool a, .bool b => a = b
  | .str a, .str b => a = b
  | .recv, .recv => true
  | .obj a, .obj b => a = b
  | .int _, .int _ | .int _, .num _ | .num _, .int _ | .num _, .num _ =>
    let nx := toNumber E x
    let ny := toNumber E y
    if isNaN nx ∧ isNaN ny then true
    else if isZero nx ∧ isZero ny then signBit nx = signBit ny
    else cmpReal nx ny = some .eq
  | _, _ => false

/-- §11.9.6 strict equality -/
def strictEq (E : Env) (x y : Val) : Bool :=
  match x, y with
  | .undef, .undef => true
  | .null, .null => true
  | .bool a, .bool b => a = b
  | .str a, .str b => a = b
  | .recv, .recv => true
  | .obj a, .obj b => a = b
  | .int _, .int _ | .int _, .num _ | .num _, .int _ | .num _, .num _ =>
    cmpReal (toNumber E x) (toNumber E y) = some .eq
  | _, _ => false

/-! ## §15.4 array indices -/

def digitsValue : List Nat → Nat → Option Nat
  | [], acc => some acc
  | c :: r, acc => if 48 ≤ c ∧ c ≤ 57 then digitsValue r (acc * 10 + (c - 48)) else none

/-- §15.4: P is an array index iff ToString(ToUint32(P)) = P and ToUint32(P) ≠ 2^32 − 1,
    i.e. iff P is the canonical decimal numeral (no sign, no leading zero except "0" itself)
    of some n < 2^32 − 1. -/
def arrayIndex? (p : List Nat) : Option Nat :=
  match p with
  | [] => none
  | c :: r =>
    if c = 48 ∧ r ≠ [] then none
    else match digitsValue p 0 with
      | some n => if n < 2^32 - 1 then some n else none
      | none => none

/-! ## §8.12 internal methods of an object with data properties only -/

/-- §8.12.9 [[DefineOwnProperty]] -/
def defineOwnDefault (E : Env) (k : Key) (d : Desc) (throw : Bool) : M Obj Bool := fun o =>
  let rej : Res Obj Bool := if throw then .err .type o else .ok false o
  match lookup k o.props with
  | none =>
    if !o.ext then rej                                                          -- 3
    else                                                                         -- 4.a
      let p : PropD := ⟨d.v.getD .undef, d.w.getD false, d.e.getD false, d.c.getD false⟩
      .ok true { o with props := write k p o.props }
  | some cur =>
    if d.v.isNone ∧ d.w.isNone ∧ d.e.isNone ∧ d.c.isNone then .ok true o        -- 5
    -- 6 ("return true if every field of Desc already occurs in current with the same value") is a
    --   shortcut without observable effect: in that case 7–10 cannot reject and 12 stores the same
    --   values; it is folded into 12 so that the stored representation is Desc's.
    else if cur.c = false ∧ d.c = some true then rej                            -- 7.a
    else if cur.c = false ∧ d.e.isSome ∧ d.e ≠ some cur.e then rej              -- 7.b
    else if d.v.isNone ∧ d.w.isNone then                                        -- 8 generic
      .ok true { o with props := write k ⟨cur.v, cur.w, d.e.getD cur.e, d.c.getD cur.c⟩ o.props }
    else if cur.c = false ∧ cur.w = false ∧ d.w = some true then rej            -- 10.a.i
    else if cur.c = false ∧ cur.w = false
          ∧ (d.v.any fun v => !sameValue E v cur.v) then rej   -- 10.a.ii
    else                                                                         -- 12
      let p : PropD := ⟨d.v.getD cur.v, d.w.getD cur.w, d.e.getD cur.e, d.c.getD cur.c⟩
      .ok true { o with props := write k p o.props }

/-- §8.12.7 [[Delete]] -/
def delete (k : Key) (throw : Bool) : M Obj Bool := fun o =>
  match lookup k o.props with
  | none => .ok true o
  | some d =>
    if d.c then .ok true { o with props := erase k o.props }
    else if throw then .err .type o else .ok false o

/-- the [[Value]] of the array's own length property (always a uint32) -/
def oldLen (o : Obj) : Nat :=
  match lookup .length o.props with
  | some ⟨.int n, _, _, _⟩ => n.toNat
  | _ => 0

/-- §15.4.5.1 step 3.l -/
def truncateLoop (E : Env) (newLen : Nat) (newLenDesc : Desc) (newWritable throw : Bool) : Nat → M Obj (Option Bool)
  | 0 => pure none
  | cnt+1 => do
    let oldLen := newLen + cnt                                  -- i. oldLen := oldLen − 1
    let deleteSucceeded ← delete (.idx oldLen) false            -- ii.
    if !deleteSucceeded then                                    -- iii.
      let nd : Desc := { newLenDesc with v := some (.int (oldLen + 1 : Nat)) }
      let nd : Desc := if !newWritable then { nd with w := some false } else nd
      let _ ← defineOwnDefault E .length nd false
      if throw then M.throw .type else pure (some false)
    else truncateLoop E newLen newLenDesc newWritable throw cnt

/-- §15.4.5.1 steps 3.l–3.n (`cnt` = oldLen − newLen) -/
def truncateTail (E : Env) (newLen : Nat) (newLenDesc : Desc) (newWritable throw : Bool) (cnt : Nat) : M Obj Bool := do
  match ← truncateLoop E newLen newLenDesc newWritable throw cnt with                 -- l
  | some r => pure r
  | none =>
    if !newWritable then                                                              -- m
      let _ ← defineOwnDefault E .length { w := some false } false
      pure true
    else pure true                                                                    -- n

/-- §15.4.5.1 steps 3.b, 3.e–3.n: P is "length" and Desc.[[Value]] converts to the uint32 newLen -/
def arraySetLen (E : Env) (d : Desc) (throw : Bool) (newLen : Nat) : M Obj Bool := fun o =>
  let rej : Res Obj Bool := if throw then .err .type o else .ok false o
  let oldLenDesc := (lookup .length o.props).getD ⟨.int 0, false, false, false⟩       -- 1
  let oldLen := oldLen o                                                              -- 2
  let newLenDesc : Desc := { d with v := some (.int newLen) }                         -- b, e
  if newLen ≥ oldLen then defineOwnDefault E .length newLenDesc throw o               -- f
  else if oldLenDesc.w = false then rej                                               -- g
  else
    let newWritable : Bool := !(newLenDesc.w = some false)                            -- h, i
    let newLenDesc : Desc := if newWritable then newLenDesc else { newLenDesc with w := some true }
    (do
      let succeeded ← defineOwnDefault E .length newLenDesc throw                     -- j
      if !succeeded then pure false else                                              -- k
      truncateTail E newLen newLenDesc newWritable throw (oldLen - newLen)) o         -- l–n

/-- §15.4.5.1 step 4: P is the array index `index` -/
def arrayDefineIdx (E : Env) (k : Key) (d : Desc) (throw : Bool) (index : Nat) : M Obj Bool := fun o =>
  let rej : Res Obj Bool := if throw then .err .type o else .ok false o
  let oldLenDesc := (lookup .length o.props).getD ⟨.int 0, false, false, false⟩       -- 1
  let oldLen := oldLen o                                                              -- 2
  if index ≥ oldLen ∧ oldLenDesc.w = false then rej                                   -- b
  else
    (do
      let succeeded ← defineOwnDefault E k d false                                    -- c
      if !succeeded then (if throw then M.throw .type else pure false) else           -- d
      if index ≥ oldLen then                                                          -- e
        let _ ← defineOwnDefault E .length
                  ⟨some (.int (index + 1 : Nat)), some oldLenDesc.w, some oldLenDesc.e, some oldLenDesc.c⟩ false
        pure true
      else pure true) o                                                               -- f

/-- §15.4.5.1 [[DefineOwnProperty]] of an Array object -/
def arrayDefineOwn (E : Env) (k : Key) (d : Desc) (throw : Bool) : M Obj Bool := fun o =>
  if k = .length then                                                                 -- 3
    match d.v with
    | none => defineOwnDefault E .length d throw o                                    -- a
    | some v =>
      match lengthOf E v with                                                         -- c, d
      | none => .err .range o
      | some newLen => arraySetLen E d throw newLen o
  else
    match arrayIndex? k.toBytes with
    | some index => arrayDefineIdx E k d throw index o                                -- 4
    | none => defineOwnDefault E k d throw o                                          -- 5

def defineOwn (E : Env) (k : Key) (d : Desc) (throw : Bool) : M Obj Bool := fun o =>
  if o.isArr then arrayDefineOwn E k d throw o else defineOwnDefault E k d throw o

/-- §8.12.2/8.12.3 [[Get]] -/
def get (o : Obj) (k : Key) : Val :=
  match lookup k o.props with
  | some p => p.v
  | none => match protoLookup k o with | some v => v | none => .undef

/-- §8.12.6 [[HasProperty]] -/
def hasProperty (o : Obj) (k : Key) : Bool :=
  match lookup k o.props with
  | some _ => true
  | none => (protoLookup k o).isSome

/-- §8.12.4 [[CanPut]] (inherited properties here are writable data properties) -/
def canPut (o : Obj) (k : Key) : Bool :=
  match lookup k o.props with
  | some p => p.w
  | none =>
    match protoLookup k o with
    | none => o.ext
    | some _ => o.ext          -- inherited data property: extensible ∧ inherited.[[Writable]] (= true)

/-- §8.12.5 [[Put]] -/
def put (E : Env) (k : Key) (v : Val) (throw : Bool) : M Obj Unit := fun o =>
  if !canPut o k then (if throw then .err .type o else .ok () o)                     -- 1
  else match lookup k o.props with
    | some _ => (do let _ ← defineOwn E k { v := some v } throw; pure ()) o          -- 3
    | none => (do let _ ← defineOwn E k ⟨some v, some true, some true, some true⟩ throw; pure ()) o   -- 6

/-- §15.2.3.9 Object.freeze / §15.2.3.8 Object.seal -/
def freezeEach (E : Env) (onlySeal : Bool) : List Key → M Obj Unit
  | [] => pure ()
  | p :: rest => fun o =>
    match lookup p o.props with
    | some desc =>
      (do let _ ← defineOwn E p ⟨some desc.v, some (if onlySeal then desc.w else false), some desc.e, some false⟩ true
          freezeEach E onlySeal rest) o
    | none => freezeEach E onlySeal rest o

def freeze (E : Env) (onlySeal : Bool) : M Obj Unit := fun o =>
  (do freezeEach E onlySeal (o.props.map Prod.fst); M.modify (fun (o : Obj) => { o with ext := false })) o

/-! ## §15.4.4 Array.prototype -/

/-- min(max(r, 0), m) — §15.4.4.12 step 7 -/
def clamp0 (r : IntInf) (m : Nat) : Nat :=
  match r with
  | .ninf => 0
  | .pinf => m
  | .fin i => if i < 0 then 0 else if i < m then i.toNat else m

/-- §15.4.4.10 steps 5–8: a relative index clamped into [0, len] -/
def relIndex (r : IntInf) (len : Nat) : Nat :=
  match r with
  | .ninf => 0
  | .pinf => len
  | .fin i => if i < 0 then (if (len : Int) + i < 0 then 0 else ((len : Int) + i).toNat)   -- max(len + rel, 0)
              else if i < len then i.toNat else len                                          -- min(rel, len)

section Methods
variable {σ : Type} (O : Ops σ) (E : Env)

/-- "If fromPresent, Put(to, Get(from)) else Delete(to)" — steps shared by shift/unshift/splice -/
def moveOrDelete (src dst : Nat) : M σ Unit := fun s =>
  if O.has s src then O.put dst (O.get s src) s else O.del dst s

/-- §15.4.4.7 push -/
def pushItems : List Val → Nat → M σ Nat
  | [], n => pure n
  | e :: items, n => do O.put n e; pushItems items (n + 1)          -- 5.b, 5.c

def pushCore (n : Nat) (items : List Val) : M σ Ret := do
  let n ← pushItems O items n                                        -- 5
  O.putLen (.int n)                                                  -- 6
  pure (Ret.val (.int n))                                            -- 7

def push (items : List Val) : M σ Ret := do
  let n ← readLen O                                                  -- 2, 3: lenVal = Get("length"), n = ToUint32(lenVal)
  pushCore O n items

/-- §15.4.4.6 pop -/
def popCore (len : Nat) : M σ Ret := fun s =>
  if len = 0 then (do O.putLen (.int 0); pure (Ret.val .undef)) s                  -- 4
  else
    let indx := len - 1                                                             -- 5.a
    let element := O.get s indx                                                     -- 5.b
    (do O.del indx; O.putLen (.int indx); pure (Ret.val element)) s                 -- 5.c–e

/-- §15.4.4.9 shift -/
def shiftCore (len : Nat) : M σ Ret := fun s =>
  if len = 0 then (do O.putLen (.int 0); pure (Ret.val .undef)) s                  -- 4
  else
    let first := O.get s 0                                                          -- 5
    (do
      forUp (fun k => moveOrDelete O k (k - 1)) 1 (len - 1)                         -- 6, 7
      O.del (len - 1)                                                               -- 8
      O.putLen (.int (len - 1 : Nat))                                               -- 9
      pure (Ret.val first)) s                                                       -- 10

def putFrom : List Val → Nat → M σ Unit
  | [], _ => pure ()
  | e :: items, j => do O.put j e; putFrom items (j + 1)

/-- §15.4.4.13 unshift -/
def unshiftCore (len : Nat) (items : List Val) : M σ Ret := fun s =>
  let argCount := items.length
  (do
    forDown (fun k' => moveOrDelete O k' (k' + argCount)) 0 len     -- 5–6: k = k'+1, from = k−1, to = k+argCount−1
    putFrom O items 0                                                -- 7–9
    O.putLen (.int (len + argCount : Nat))                           -- 10
    pure (Ret.val (.int (len + argCount : Nat)))) s                  -- 11

/-- §15.4.4.10 slice -/
def sliceCore (len : Nat) (args : List Val) : M σ Ret := fun s =>
  let relativeStart := toInteger E (argAt args 0)                    -- 5
  let k := relIndex relativeStart len                                -- 6
  let relativeEnd : IntInf := if argAt args 1 = .undef then .fin len else toInteger E (argAt args 1)   -- 7
  let final := relIndex relativeEnd len                              -- 8
  .ok (Ret.arr ((List.range (final - k)).map fun n =>                -- 9, 10
    if O.has s (k + n) then some (O.get s (k + n)) else none)) s

/-- §15.4.4.14 steps 6–8: where the search starts (`none` = return −1 at once) -/
def indexOfStart (n : IntInf) (len : Nat) : Option Nat :=
  match n with
  | .pinf => none                                                                -- 6: n ≥ len
  | .ninf => some 0                                                              -- 8: len − |n| < 0 ↦ 0
  | .fin i =>
    if i ≥ len then none                                                         -- 6
    else if i ≥ 0 then some i.toNat                                              -- 7
    else if (len : Int) + i < 0 then some 0 else some ((len : Int) + i).toNat    -- 8

/-- §15.4.4.14 indexOf -/
def indexOfCore (len : Nat) (args : List Val) : M σ Ret := fun s =>
  let searchElement := argAt args 0
  if len = 0 then .ok (Ret.val (.int (-1))) s                                        -- 4
  else
    let n : IntInf := if args.length > 1 then toInteger E (argAt args 1) else .fin 0 -- 5
    match indexOfStart n len with
    | none => .ok (Ret.val (.int (-1))) s
    | some k =>
      match (List.range (len - k)).find? (fun j =>                                   -- 9
          O.has s (k + j) && strictEq E searchElement (O.get s (k + j))) with
      | some j => .ok (Ret.val (.int ((k + j : Nat) : Int))) s
      | none => .ok (Ret.val (.int (-1))) s                                          -- 10

/-- §15.4.4.8 reverse, step 6 -/
def reverseStep (lower upper : Nat) : M σ Unit := fun s =>
  let lowerValue := O.get s lower                                                    -- d
  let upperValue := O.get s upper                                                    -- e
  let lowerExists := O.has s lower                                                   -- f
  let upperExists := O.has s upper                                                   -- g
  if lowerExists ∧ upperExists then (do O.put lower upperValue; O.put upper lowerValue) s       -- h
  else if !lowerExists ∧ upperExists then (do O.put lower upperValue; O.del upper) s            -- i
  else if lowerExists ∧ !upperExists then (do O.del lower; O.put upper lowerValue) s            -- j
  else .ok () s                                                                                 -- k

def reverseCore (len : Nat) : M σ Ret := fun s =>
  let middle := len / 2                                                              -- 4
  (do forUp (fun lower => reverseStep O lower (len - lower - 1)) 0 middle            -- 5, 6
      pure (Ret.val .recv)) s                                                        -- 7

/-- §15.4.4.5 steps 8 / 10.c: "" for undefined and null, otherwise ToString(element) -/
def joinElement (e : Val) : M σ (List Nat) :=
  match e with
  | .undef => pure []
  | .null => pure []
  | e => do
    let p ← O.conv e                 -- ToString of an object: ToPrimitive, hint String
    pure (E.ts p)

/-- step 10.a–e of §15.4.4.5 (and of §15.4.4.3) for one k -/
def appendNext (elem : Val → M σ (List Nat)) (sep : List Nat) (k : Nat) (r : List Nat) : M σ (List Nat) := fun s =>
  let sr := r ++ sep                                                                -- a: S = R + sep
  let element := O.get s k                                                          -- b
  (do let next ← elem element                                                        -- c
      pure (sr ++ next)) s                                                          -- d

/-- §15.4.4.5 join -/
def joinCore (len : Nat) (args : List Val) : M σ Ret :=
  let sep := if argAt args 0 = .undef then [44] else E.ts (argAt args 0)             -- 4, 5
  if len = 0 then pure (Ret.val (.str []))                                           -- 6
  else do
    let r0 ← (fun s => joinElement O E (O.get s 0) s)                                -- 7, 8
    let r ← foldUp (appendNext O (joinElement O E) sep) 1 (len - 1) r0               -- 9, 10
    pure (Ret.val (.str r))                                                          -- 11

/-- §15.4.4.3 steps 7–8 (and 10.c–d) for one element: "" for undefined and null; otherwise elementObj = ToObject(element),
    func = elementObj.[[Get]]("toLocaleString"), TypeError unless callable, "the result of calling the [[Call]] internal
    method of func providing elementObj as the this value and an empty arguments list" (`O.locale e []`); the result
    takes part in a string concatenation, i.e. it is converted with ToString (ES2015 says so explicitly) -/
def localeElement (e : Val) : M σ (List Nat) :=
  match e with
  | .undef => pure []
  | .null => pure []
  | e => do
    let r ← O.locale e []
    let p ← O.conv r
    pure (E.ts p)

/-- §15.4.4.3 toLocaleString, steps 4–11 (the separator is the implementation-defined ",") -/
def toLocaleStringCore (len : Nat) : M σ Ret :=
  if len = 0 then pure (Ret.val (.str []))                                           -- 5
  else do
    let r0 ← (fun s => localeElement O E (O.get s 0) s)                              -- 6–8
    let r ← foldUp (appendNext O (localeElement O E) [44]) 1 (len - 1) r0                                   -- 9, 10
    pure (Ret.val (.str r))                                                          -- 11

/-- §15.4.4.4 step 5.b / 5.c for one item E -/
def concatItem : CArg → List (Option Val)
  | .v x => [some x]          -- 5.c
  | .arr es => es             -- 5.b: present elements are copied, absent ones only advance n

/-- §15.4.4.4 concat -/
def concat (items : List CArg) : M σ Ret := fun s =>
  let ofThis : List (Option Val) :=
    if O.isArr s then
      (List.range (O.len s)).map fun k => if O.has s k then some (O.get s k) else none   -- 5.b.iii
    else [some .recv]                                                                    -- 5.c
  let ofItems : List (Option Val) := items.flatMap concatItem
  .ok (Ret.arr (ofThis ++ ofItems)) s

/-- §15.4.4.12 splice -/
def spliceCore (len : Nat) (args : List Val) : M σ Ret := fun s =>
  let relativeStart := toInteger E (argAt args 0)                                    -- 5
  let actualStart := relIndex relativeStart len                                      -- 6
  let actualDeleteCount : Nat := clamp0 (toInteger E (argAt args 1)) (len - actualStart)   -- 7
  let a : List (Option Val) := (List.range actualDeleteCount).map fun k =>           -- 8, 9
    if O.has s (actualStart + k) then some (O.get s (actualStart + k)) else none
  let items := args.drop 2                                                           -- 10
  let itemCount := items.length                                                      -- 11
  (do
    if itemCount < actualDeleteCount then                                            -- 12
      forUp (fun k => moveOrDelete O (k + actualDeleteCount) (k + itemCount)) actualStart (len - actualDeleteCount - actualStart)
      forDown (fun k' => O.del k') (len - actualDeleteCount + itemCount) (actualDeleteCount - itemCount)   -- d: k = k'+1
    else if itemCount > actualDeleteCount then                                       -- 13
      forDown (fun k' => moveOrDelete O (k' + actualDeleteCount) (k' + itemCount)) actualStart (len - actualDeleteCount - actualStart)
    else pure ()
    putFrom O items actualStart                                                      -- 14, 15
    O.putLen (.int ((len - actualDeleteCount + itemCount : Nat) : Int))              -- 16
    pure (Ret.arr a)) s                                                              -- 17

/-- §15.4.4.15 steps 6–7 as k + 1, the number of candidate positions 0 … k -/
def lastIndexOfCount (n : IntInf) (len : Nat) : Nat :=
  match n with
  | .pinf => len                                                                 -- 6: min(n, len − 1)
  | .ninf => 0                                                                   -- 7: len − |n| < 0
  | .fin i =>
    if i ≥ 0 then (if i < (len : Int) - 1 then i.toNat + 1 else len)
    else ((len : Int) + i + 1).toNat

/-- §15.4.4.15 lastIndexOf -/
def lastIndexOfCore (len : Nat) (args : List Val) : M σ Ret := fun s =>
  let searchElement := argAt args 0
  if len = 0 then .ok (Ret.val (.int (-1))) s                                        -- 4
  else
    let n : IntInf := if args.length > 1 then toInteger E (argAt args 1) else .fin ((len : Int) - 1)   -- 5
    let count : Nat := lastIndexOfCount n len                                        -- k + 1
    .ok (indexRet (searchDown (fun k => O.has s k && strictEq E searchElement (O.get s k)) count)) s   -- 8, 9

/-- §15.4.4.16 every -/
def everyCore (len : Nat) (callable : Bool) : M σ Ret := fun s =>
  if !callable then .err .type s else                                                -- 4
  (do
    let r ← findUp (fun k => fun s' =>
      if O.has s' k then                                                             -- 7.b
        (do let testResult ← O.call [O.get s' k, .int k, .recv]                      -- 7.c.i–ii
            pure (if toBoolean testResult then none else some ())) s'                -- 7.c.iii
      else .ok none s') 0 len
    match r with
    | some _ => pure (Ret.val (.bool false))
    | none => pure (Ret.val (.bool true))) s                                         -- 8

/-- §15.4.4.17 some -/
def someCore (len : Nat) (callable : Bool) : M σ Ret := fun s =>
  if !callable then .err .type s else
  (do
    let r ← findUp (fun k => fun s' =>
      if O.has s' k then
        (do let testResult ← O.call [O.get s' k, .int k, .recv]
            pure (if toBoolean testResult then some () else none)) s'
      else .ok none s') 0 len
    match r with
    | some _ => pure (Ret.val (.bool true))
    | none => pure (Ret.val (.bool false))) s

/-- §15.4.4.18 forEach -/
def forEachCore (len : Nat) (callable : Bool) : M σ Ret := fun s =>
  if !callable then .err .type s else
  (do
    forUp (fun k => fun s' =>
      if O.has s' k then (do let _ ← O.call [O.get s' k, .int k, .recv]; pure ()) s'
      else .ok () s') 0 len
    pure (Ret.val .undef)) s

/-- §15.4.4.19 map -/
def mapCore (len : Nat) (callable : Bool) : M σ Ret := fun s =>
  if !callable then .err .type s else
  (do
    let a ← foldUp (fun k (a : List (Option Val)) => fun s' =>                       -- 6: A = new Array(len)
      if O.has s' k then
        (do let mappedValue ← O.call [O.get s' k, .int k, .recv]; pure (a ++ [some mappedValue])) s'   -- 8.c
      else .ok (a ++ [none]) s') 0 len []
    pure (Ret.arr a)) s

/-- §15.4.4.20 filter -/
def filterCore (len : Nat) (callable : Bool) : M σ Ret := fun s =>
  if !callable then .err .type s else
  (do
    let a ← foldUp (fun k (a : List (Option Val)) => fun s' =>
      if O.has s' k then
        let kValue := O.get s' k
        (do let selected ← O.call [kValue, .int k, .recv]
            pure (if toBoolean selected then a ++ [some kValue] else a)) s'
      else .ok a s') 0 len []
    pure (Ret.arr a)) s

/-- §15.4.4.21 reduce; `args` = the arguments after callbackfn -/
def reduceCore (len : Nat) (callable : Bool) (args : List Val) : M σ Ret := fun s =>
  if !callable then .err .type s                                                     -- 4
  else if len = 0 ∧ args.length = 0 then .err .type s                                -- 5
  else
    let first : Option (Val × Nat) :=
      if args.length > 0 then some (argAt args 0, 0)                                 -- 7
      else match searchUp (O.has s) 0 len with                                       -- 8.b
        | some k => some (O.get s k, k + 1)
        | none => none
    match first with
    | none => .err .type s                                                           -- 8.c
    | some (accumulator, k) =>
      (do
        let acc ← foldUp (fun k (accumulator : Val) => fun s' =>                     -- 9
          if O.has s' k then O.call [accumulator, O.get s' k, .int k, .recv] s'
          else .ok accumulator s') k (len - k) accumulator
        pure (Ret.val acc)) s                                                        -- 10

/-- §15.4.4.22 reduceRight -/
def reduceRightCore (len : Nat) (callable : Bool) (args : List Val) : M σ Ret := fun s =>
  if !callable then .err .type s
  else if len = 0 ∧ args.length = 0 then .err .type s
  else
    let first : Option (Val × Nat) :=               -- (accumulator, k + 1)
      if args.length > 0 then some (argAt args 0, len)
      else match searchDown (O.has s) len with
        | some k => some (O.get s k, k)
        | none => none
    match first with
    | none => .err .type s
    | some (accumulator, count) =>
      (do
        let acc ← foldDown (fun k (accumulator : Val) => fun s' =>
          if O.has s' k then O.call [accumulator, O.get s' k, .int k, .recv] s'
          else .ok accumulator s') 0 count accumulator
        pure (Ret.val acc)) s

/-- §15.4.4.11 SortCompare on two *present* values x, y (steps 5–18; the comparefn is given by the sign of
    its result, `none` = compare ToString(x), ToString(y) as strings) -/
def sortCompareVals (cmp : SortCmp) (x y : Val) : Int :=
  if x = .undef ∧ y = .undef then 0                          -- 10
  else if x = .undef then 1                                   -- 11
  else if y = .undef then -1                                  -- 12
  else match cmp with
    | some f => f x y                                         -- 13
    | none =>
      let xs := OttoVerif.Str.unitsOfBytes (E.ts x)          -- 14: ToString(x), a sequence of UTF-16 code units
      let ys := OttoVerif.Str.unitsOfBytes (E.ts y)          -- 15
      if bytesLt xs ys then -1 else if bytesLt ys xs then 1 else 0   -- 16–18: xString < yString (§11.8.5: by code unit)

def insertBy (le : Val → Val → Bool) (x : Val) : List Val → List Val
  | [] => [x]
  | y :: r => if le x y then x :: y :: r else y :: insertBy le x r

/-- §15.4.4.11: the arrangement the postcondition forces when SortCompare is a total order on the elements that
    only identifies identical values: present values in SortCompare order (undefined last among them), then the
    absent positions.  (Where the standard leaves the result implementation-defined — inherited index properties
    under holes, non-extensible receivers, inconsistent comparefn — this function is not the specification;
    the generators stay outside those cases.) -/
def sortCore (len : Nat) (callable : Bool) (cmp : SortCmp) : M σ Ret := fun s =>
  if !callable then .err .type s else
  let present : List Val := (List.range len).filterMap fun k => if O.has s k then some (O.get s k) else none
  let sorted : List Val := present.foldr (insertBy fun x y => decide (sortCompareVals E cmp x y ≤ 0)) []
  let target : List (Option Val) := sorted.map some ++ List.replicate (len - sorted.length) none
  (do
    forUp (fun k => match target.getD k none with
      | some v => O.put k v
      | none => O.del k) 0 len
    pure (Ret.val .recv)) s

/-! ### the algorithms with their first steps: `len` is read (steps 2–3) before anything else, and the arguments
    are converted (ToInteger / ToString run an object's valueOf / toString) in the order the steps name them -/

def pop : M σ Ret := do let len ← readLen O; popCore O len
def shift : M σ Ret := do let len ← readLen O; shiftCore O len
def unshift (items : List Val) : M σ Ret := do let len ← readLen O; unshiftCore O len items
def reverse : M σ Ret := do let len ← readLen O; reverseCore O len      -- 15.4.4.8 step 7: return O

/-- §15.4.4.10: 3 len; 5 ToInteger(start); 7 ToInteger(end) unless end is undefined -/
def slice (args : List Val) : M σ Ret := do
  let len ← readLen O
  let relativeStart ← O.conv (argAt args 0)
  let endArg := argAt args 1
  let relativeEnd ← if endArg = .undef then pure Val.undef else (do let p ← O.conv endArg; pure (numPrim p))
  sliceCore O E len [relativeStart, relativeEnd]

/-- §15.4.4.12: 3–4 len; 5 ToInteger(start); 7 ToInteger(deleteCount) -/
def splice (args : List Val) : M σ Ret := do
  let len ← readLen O
  let start ← O.conv (argAt args 0)
  let deleteCount ← O.conv (argAt args 1)
  spliceCore O E len (start :: deleteCount :: args.drop 2)

/-- §15.4.4.14: 2–3 len; 4 return −1 if len is 0; 5 ToInteger(fromIndex) if it was passed -/
def indexOf (args : List Val) : M σ Ret := do
  let len ← readLen O
  let pargs ← if len = 0 then pure args else convAt O args 1
  indexOfCore O E len pargs

/-- §15.4.4.15: 2–3 len; 4 return −1 if len is 0; 5 ToInteger(fromIndex) if it was passed -/
def lastIndexOf (args : List Val) : M σ Ret := do
  let len ← readLen O
  let pargs ← if len = 0 then pure args else convAt O args 1
  lastIndexOfCore O E len pargs

/-- §15.4.4.5: 2–3 len; 4–5 ToString(separator) unless undefined -/
def join (args : List Val) : M σ Ret := do
  let len ← readLen O
  let pargs ← if argAt args 0 = .undef then pure args else (do
      let p ← O.conv (argAt args 0)
      pure (args.set 0 (.str (E.ts p))))            -- 5: sep = ToString(separator)
  joinCore O E len pargs

/-- §15.4.4.2 toString: 2 func = array.[[Get]]("join"); 3 if IsCallable(func) is false, func is Object.prototype.toString
    (§15.2.4.2: "[object " + class + "]"); 4 "the result of calling the [[Call]] internal method of func providing array as
    the this value and an empty arguments list" -/
def toStringS (_args : List Val) : M σ Ret := do
  let func ← O.joinGet                                                               -- 2
  match func with
  | .builtin => join O E []                                                          -- 4, func = §15.4.4.5
  | .user => do let v ← O.userJoin []; pure (Ret.val v)                              -- 4, func = a function of the script
  | .other => fun s => .ok (Ret.val (O.objToString s)) s                             -- 3, 4

/-- §15.4.4.3: 2–3 len, then the elements in turn; the arguments of the call are not used -/
def toLocaleStringS (_args : List Val) : M σ Ret := do
  let len ← readLen O
  toLocaleStringCore O E len

/-- §15.4.4.16–22: 2–3 len, then 4 "if IsCallable(callbackfn) is false, throw a TypeError" -/
def every (callable : Bool) : M σ Ret := do let len ← readLen O; everyCore O len callable
def some_ (callable : Bool) : M σ Ret := do let len ← readLen O; someCore O len callable
def forEach (callable : Bool) : M σ Ret := do let len ← readLen O; forEachCore O len callable
def map (callable : Bool) : M σ Ret := do let len ← readLen O; mapCore O len callable
def filter (callable : Bool) : M σ Ret := do let len ← readLen O; filterCore O len callable
def reduce (callable : Bool) (args : List Val) : M σ Ret := do let len ← readLen O; reduceCore O len callable args
def reduceRight (callable : Bool) (args : List Val) : M σ Ret := do let len ← readLen O; reduceRightCore O len callable args
def sort (callable : Bool) (cmp : SortCmp) : M σ Ret := do let len ← readLen O; sortCore O E len callable cmp

end Methods

/-- the abstract operations of §15.4.4 on an object of the store -/
def specOps (E : Env) : Ops St where
  len := fun s => match s.lenPrim with
    | some p => toUint32 E p
    | none => toUint32 E (get s.o .length)
  has := fun s k => hasProperty s.o (.idx k)
  get := fun s k => get s.o (.idx k)
  put := fun k v => liftObj (put E (.idx k) v true)
  del := fun k => liftObj (do let _ ← delete (.idx k) true; pure ())
  putLen := fun v => liftObj (put E .length v true)
  call := scriptedCall
  isArr := fun s => s.o.isArr
  lenRead := scriptedLenRead (fun o => get o .length)
    (scriptedConv (put E) delete (fun o => toUint32 E (get o .length)))
  conv := scriptedConv (put E) delete (fun o => toUint32 E (get o .length))
  thisRaw := fun s => s.thisRaw
  locale := scriptedLocale (put E) delete (fun o => toUint32 E (get o .length)) E
  joinGet := scriptedJoinGet
  userJoin := fun args => scriptedPlay (put E) delete (fun o => toUint32 E (get o .length)) (joinEntry args)
  objToString := stObjToString

/-- §15.4.5.1 step 3.c–d on an object-valued Desc.[[Value]]: newLen = ToUint32(Desc.[[Value]]) and then
    "if newLen is not equal to ToNumber(Desc.[[Value]]), throw a RangeError" — two conversions of the object -/
def stDefine (E : Env) (k : Key) (d : Desc) (throw : Bool) : M St Bool := fun s =>
  match k, d.v, s.o.isArr with
  | .length, some (.obj id), true =>
    ((specOps E).conv (.obj id) >>= fun p1 =>
      (specOps E).conv (.obj id) >>= fun p2 =>
        let newLen := toUint32 E p1                                                -- 3.c
        if valEqNat (toNumber E p2) newLen                                         -- 3.d
        then liftObj (defineOwn E .length { d with v := some (.int newLen) } throw)
        else M.throw .range) s
  | _, _, _ => liftObj (defineOwn E k d throw) s

/-- §8.12.5 [[Put]] with a value that may be an object -/
def stPut (E : Env) (k : Key) (v : Val) (throw : Bool) : M St Unit := fun s =>
  match k, v, s.o.isArr with
  | .length, .obj id, true =>
    if !canPut s.o .length then (if throw then .err .type s else .ok () s)           -- 1
    else (do let _ ← stDefine E .length { v := some (.obj id) } throw; pure ()) s    -- 3
  | _, _, _ => liftObj (put E k v throw) s

end OttoVerif.C08.Spec
