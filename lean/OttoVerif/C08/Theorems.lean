/-
  C08/Theorems — the ledger for property C08 (every theorem here is audited).

  Layers:  (1) conversions and index arithmetic (toBool, strict equality, valueToRangeIndex);
           (2) the object layer (objectDefineOwnProperty / arrayDefineOwnProperty / objectPut / objectDelete
               against ES5 8.12 and 15.4.5.1) and the length invariant over all histories;
           (3) the Array.prototype methods, generic in the object operations `Ops` (so they hold for
               every array and array-like, and for callbacks that mutate the receiver).
  Deviation regions are stated as hypotheses; each has a kernel-checked witness at the end.
-/
import OttoVerif.C08.Lemmas
namespace OttoVerif.C08.Thm
open OttoVerif.C08 OttoVerif.F64


variable {σ : Type}

theorem moveStep_eq (O : Ops σ) (a b : Nat) : moveStep O a b = Spec.moveOrDelete O a b := rfl

theorem pushLoop_eq (O : Ops σ) (items : List Val) (n : Nat) : pushLoop O items n = Spec.pushItems O items n := by
  induction items generalizing n with
  | nil => rfl
  | cons x xs ih => simp only [pushLoop, Spec.pushItems, ih]

theorem push_refines (O : Ops σ) (items : List Val) : push O items = Spec.push O items := by
  funext s; simp only [push, Spec.push, pushLoop_eq]

theorem pop_refines (O : Ops σ) : pop O = Spec.pop O := by
  funext s; simp only [pop, Spec.pop]

theorem shift_refines (O : Ops σ) : shift O = Spec.shift O := by
  funext s; simp only [shift, Spec.shift]; rfl

theorem putItems_eq (O : Ops σ) (items : List Val) (n : Nat) : putItems O items n = Spec.putFrom O items n := by
  induction items generalizing n with
  | nil => rfl
  | cons x xs ih => simp only [putItems, Spec.putFrom, ih]

theorem unshift_refines (O : Ops σ) (items : List Val) : unshift O items = Spec.unshift O items := by
  funext s; simp only [unshift, Spec.unshift, putItems_eq]; rfl



theorem toBool_eq (v : Val) : toBool v = Spec.toBoolean v := by
  cases v with
  | str s => cases s <;> simp [toBool, Spec.toBoolean]
  | _ => simp [toBool, Spec.toBoolean, bne, BEq.beq]

theorem every_refines (O : Ops σ) (c : Bool) : every O c = Spec.every O c := by
  funext s; simp only [every, Spec.every, toBool_eq]; rfl

theorem some_refines (O : Ops σ) (c : Bool) : some_ O c = Spec.some_ O c := by
  funext s; simp only [some_, Spec.some_, toBool_eq]; rfl

theorem forEach_refines (O : Ops σ) (c : Bool) : forEach O c = Spec.forEach O c := by
  funext s; simp only [forEach, Spec.forEach]

theorem filter_refines (O : Ops σ) (c : Bool) : filter O c = Spec.filter O c := by
  funext s; simp only [filter, Spec.filter, toBool_eq]



theorem toFloat_eq (E : Env) (v : Val) : toFloat E v = Spec.toNumber E v := by
  cases v <;> rfl

/-- the saturated int64 that `number()` produces from the ES5 integer -/
def sat : Spec.IntInf → Int
  | .fin i => if i ≥ 2^63 then maxInt64 else if i ≤ -(2^63 : Int) then minInt64 else i
  | .pinf => maxInt64
  | .ninf => minInt64

/-- values whose integer payload is a Go int64 -/
def WFv : Val → Prop
  | .int i => minInt64 ≤ i ∧ i ≤ maxInt64
  | _ => True

theorem toI64_sat (E : Env) (v : Val) (h : WFv v) : toI64 E v = sat (Spec.toInteger E v) := by
  cases v with
  | int i =>
    simp only [WFv, minInt64, maxInt64] at h
    simp only [toI64, Spec.toInteger, sat, minInt64, maxInt64]
    split <;> (try split) <;> omega
  | undef | null | bool _ | num _ | str _ | recv =>
    simp only [toI64, Spec.toInteger, toFloat_eq]
    cases Spec.toNumber E _ with
    | nan => simp [sat]
    | inf s => cases s <;> simp [sat]
    | fin s m e => simp only [sat]

/-- valueToRangeIndex with negativeIsZero = false is the relative-index clamp of §15.4.4.10 -/
theorem range_index (E : Env) (v : Val) (len : Nat) (hv : WFv v) (hlen : len < 2^62) :
    valueToRangeIndex E v len false = (Spec.relIndex (Spec.toInteger E v) len : Nat) := by
  simp only [valueToRangeIndex, toI64_sat E v hv]
  cases Spec.toInteger E v with
  | pinf => simp only [sat, rangeIndex, Spec.relIndex, maxInt64]; simp; omega
  | ninf => simp only [sat, rangeIndex, Spec.relIndex, minInt64]; simp; omega
  | fin i =>
    simp only [sat, rangeIndex, Spec.relIndex, maxInt64, minInt64]
    simp only [Bool.false_eq_true, if_false]
    repeat' (first | omega | split)

/-- valueToRangeIndex with negativeIsZero = true is min(max(ToInteger(v), 0), len) -/
def clampPos (r : Spec.IntInf) (len : Nat) : Nat := Spec.clamp0 r len

theorem range_index_nz (E : Env) (v : Val) (len : Nat) (hv : WFv v) (hlen : len < 2^62) :
    valueToRangeIndex E v len true = (clampPos (Spec.toInteger E v) len : Nat) := by
  simp only [valueToRangeIndex, toI64_sat E v hv]
  cases Spec.toInteger E v <;>
    simp only [sat, rangeIndex, clampPos, Spec.clamp0, maxInt64, minInt64, ↓reduceIte] <;>
    repeat' (first | omega | split)



theorem argAt_len1 (args : List Val) (h : args.length = 1) : argAt args 1 = .undef := by
  match args, h with
  | [a], _ => rfl

theorem argAt_wf (args : List Val) (h : ∀ a ∈ args, WFv a) (i : Nat) : WFv (argAt args i) := by
  unfold argAt
  cases hi : args[i]? with
  | none => simp [WFv]
  | some a => simp only [Option.getD]; exact h a (List.mem_of_getElem? hi)

/-- the slice bounds computed by rangeStartEnd are those of §15.4.4.10 steps 5–8 -/
theorem rangeStartEnd_eq (E : Env) (args : List Val) (len : Nat) (hargs : ∀ a ∈ args, WFv a) (hlen : len < 2^62) :
    rangeStartEnd E args len =
      (((Spec.relIndex (Spec.toInteger E (argAt args 0)) len : Nat) : Int),
       ((Spec.relIndex (if argAt args 1 = .undef then .fin len else Spec.toInteger E (argAt args 1)) len : Nat) : Int)) := by
  have hrel : Spec.relIndex (.fin len) len = len := by
    simp only [Spec.relIndex]; repeat' (first | omega | split)
  simp only [rangeStartEnd, range_index E _ len (argAt_wf args hargs 0) hlen]
  by_cases h1 : args.length = 1
  · simp [h1, argAt_len1 args h1, hrel]
  · simp only [h1, if_false]
    by_cases h2 : argAt args 1 = .undef
    · simp [h2, hrel]
    · simp [h2, range_index E _ len (argAt_wf args hargs 1) hlen]

/-- slice = §15.4.4.10 for every receiver and every argument list -/
theorem slice_refines (O : Ops σ) (E : Env) (args : List Val) (s : σ)
    (hargs : ∀ a ∈ args, WFv a) (hlen : O.len s < 2^62) :
    slice O E args s = Spec.slice O E args s := by
  simp only [slice, Spec.slice, rangeStartEnd_eq E args (O.len s) hargs hlen]
  generalize Spec.relIndex (Spec.toInteger E (argAt args 0)) (O.len s) = k
  generalize Spec.relIndex (if argAt args 1 = .undef then .fin (O.len s) else Spec.toInteger E (argAt args 1)) (O.len s) = final
  by_cases hge : (k : Int) ≥ (final : Int)
  · have : final - k = 0 := by omega
    simp [hge, this]
  · have h1 : ((final : Int) - (k : Int)).toNat = final - k := by omega
    simp only [hge, if_false, h1, Int.toNat_natCast]
    congr 2
    apply List.map_congr_left
    intro n _
    simp [Nat.add_comm n k]

theorem alignInt_zero_iff (s : Bool) (m : Nat) (e emin : Int) : alignInt s m e emin = 0 ↔ m = 0 := by
  unfold alignInt
  have hp : 0 < 2 ^ (e - emin).toNat := Nat.two_pow_pos _
  constructor
  · intro h
    have h0 : ((m * 2 ^ (e - emin).toNat : Nat) : Int) = 0 := by
      simp only at h
      split at h <;> omega
    have : m * 2 ^ (e - emin).toNat = 0 := by exact_mod_cast h0
    rcases Nat.mul_eq_zero.mp this with h | h
    · exact h
    · omega
  · intro h; subst h; simp

theorem emin_comm (e1 e2 : Int) : (if e1 ≤ e2 then e1 else e2) = (if e2 ≤ e1 then e2 else e1) := by
  split <;> split <;> omega

theorem ord_eq_iff (a b : Int) : (if a < b then Ordering.lt else if a = b then Ordering.eq else Ordering.gt) = Ordering.eq ↔ a = b := by
  split
  · simp; omega
  · split <;> simp_all

theorem cmpEq_fin (s1 : Bool) (m1 : Nat) (e1 : Int) (s2 : Bool) (m2 : Nat) (e2 : Int) :
    cmpReal (.fin s1 m1 e1) (.fin s2 m2 e2) = some .eq ↔
      alignInt s1 m1 e1 (if e1 ≤ e2 then e1 else e2) = alignInt s2 m2 e2 (if e1 ≤ e2 then e1 else e2) := by
  simp only [cmpReal, Option.some.injEq, ord_eq_iff]

theorem cmpEq_comm (x y : FV) : cmpReal x y = some .eq ↔ cmpReal y x = some .eq := by
  cases x with
  | nan => cases y <;> simp [cmpReal]
  | inf s =>
    cases y with
    | nan => simp [cmpReal]
    | inf t => cases s <;> cases t <;> simp [cmpReal]
    | fin t m e => cases s <;> cases t <;> simp [cmpReal]
  | fin s1 m1 e1 =>
    cases y with
    | nan => simp [cmpReal]
    | inf t => cases s1 <;> cases t <;> simp [cmpReal]
    | fin s2 m2 e2 =>
      rw [cmpEq_fin, cmpEq_fin, emin_comm e2 e1]
      exact eq_comm

theorem cmpEq_zero (x y : FV) (h : cmpReal x y = some .eq) (hz : isZero x = true) : isZero y = true := by
  cases x with
  | nan => simp [isZero] at hz
  | inf s => simp [isZero] at hz
  | fin s1 m1 e1 =>
    cases y with
    | nan => simp [cmpReal] at h
    | inf t => cases t <;> simp [cmpReal] at h
    | fin s2 m2 e2 =>
      have hm : m1 = 0 := by cases m1 with | zero => rfl | succ n => simp [isZero] at hz
      subst hm
      rw [cmpEq_fin] at h
      rw [(alignInt_zero_iff _ _ _ _).mpr rfl] at h
      have := (alignInt_zero_iff _ _ _ _).mp h.symm
      subst this; rfl

/-- the number arm of sameValue: otto's formulation (x, y) = §9.12's formulation (y, x) -/
theorem sameNum (x y : FV) :
    (if (isNaN x && isNaN y) = true then true
      else if eqNum x y = true then (if isZero x = true then signBit x == signBit y else true) else false)
    = (if isNaN y = true ∧ isNaN x = true then true
      else if isZero y = true ∧ isZero x = true then decide (signBit y = signBit x) else decide (cmpReal y x = some .eq)) := by
  by_cases hn : isNaN x = true ∧ isNaN y = true
  · simp [hn.1, hn.2]
  · have hn' : ¬ (isNaN y = true ∧ isNaN x = true) := fun h => hn ⟨h.2, h.1⟩
    have hb : (isNaN x && isNaN y) = false := by
      cases hx : isNaN x <;> cases hy : isNaN y <;> simp_all
    simp only [hb, hn', if_false, Bool.false_eq_true]
    by_cases he : cmpReal x y = some .eq
    · have he' := (cmpEq_comm x y).mp he
      have hq : eqNum x y = true := by simp [eqNum, he]
      simp only [hq, if_true, he', decide_true]
      by_cases hz : isZero x = true
      · have hzy := cmpEq_zero x y he hz
        simp only [hz, hzy, and_self, if_true]
        cases signBit x <;> cases signBit y <;> simp
      · have : ¬ (isZero y = true ∧ isZero x = true) := fun h => hz h.2
        simp [hz, this]
    · have he' : ¬ cmpReal y x = some .eq := fun h => he ((cmpEq_comm x y).mpr h)
      have hq : eqNum x y = false := by simp [eqNum, he]
      simp only [hq, Bool.false_eq_true, if_false, he', decide_false]
      by_cases hz : isZero y = true ∧ isZero x = true
      · exfalso
        -- two zeros compare equal
        obtain ⟨hy, hx⟩ := hz
        cases x with
        | nan => simp [isZero] at hx
        | inf s => simp [isZero] at hx
        | fin s1 m1 e1 =>
          cases y with
          | nan => simp [isZero] at hy
          | inf s => simp [isZero] at hy
          | fin s2 m2 e2 =>
            have h1 : m1 = 0 := by cases m1 with | zero => rfl | succ n => simp [isZero] at hx
            have h2 : m2 = 0 := by cases m2 with | zero => rfl | succ n => simp [isZero] at hy
            subst h1; subst h2
            apply he
            rw [cmpEq_fin, (alignInt_zero_iff _ _ _ _).mpr rfl, (alignInt_zero_iff _ _ _ _).mpr rfl]
      · simp [hz]

theorem sameValue_eq (E : Env) (a b : Val) : sameValue E a b = Spec.sameValue E b a := by
  have hf : ∀ v, toFloat E v = Spec.toNumber E v := fun v => by cases v <;> rfl
  cases a <;> cases b <;>
    first
      | (simp only [sameValue, Spec.sameValue, hf]; exact sameNum _ _)
      | (simp [sameValue, Spec.sameValue, eq_comm]; done)
      | (simp only [sameValue, Spec.sameValue]; rename_i p q; by_cases h : p = q
         · subst h; simp
         · have h' : ¬ q = p := fun e => h e.symm
           simp [h, h'])




theorem optb (x : Option Bool) : (x == some true) = x.getD false := by
  cases x with
  | none => rfl
  | some b => cases b <;> rfl

/-- objectDefineOwnProperty = §8.12.9 for every property state and every data or generic descriptor -/
theorem objectDefineOwnProperty_refines (E : Env) (k : Key) (d : Desc) (throw : Bool) (o : Obj) :
    objectDefineOwnProperty E k d throw o = Spec.defineOwnDefault E k d throw o := by
  obtain ⟨dv, dw, de, dc⟩ := d
  unfold objectDefineOwnProperty Spec.defineOwnDefault
  cases hl : lookup k o.props with
  | none =>
    simp only [reject, optb]
  | some p =>
    obtain ⟨pv, pw, pe, pc⟩ := p
    simp only [reject, Desc.isEmpty, Desc.isGeneric, Desc.isData, sameValue_eq]
    cases dv <;> cases dw <;>
      cases de <;> cases dc <;> cases pw <;> cases pe <;> cases pc <;> cases throw <;> simp

/-- objectDelete = §8.12.7 [[Delete]] -/
theorem objectDelete_refines (k : Key) (throw : Bool) : objectDelete k throw = Spec.delete k throw := by
  funext o
  unfold objectDelete Spec.delete
  cases lookup k o.props with
  | none => rfl
  | some p => cases p.c <;> cases throw <;> simp [reject]

/-- strictEqualityComparison = §11.9.6 -/
theorem strictEquals_eq (E : Env) (a b : Val) : strictEquals E a b = Spec.strictEq E a b := by
  have hf : ∀ v, toFloat E v = Spec.toNumber E v := fun v => by cases v <;> rfl
  have hn : ∀ x y : FV, (if (isNaN x || isNaN y) = true then false else eqNum x y) = decide (cmpReal x y = some .eq) := by
    intro x y
    cases x <;> cases y <;> simp [isNaN, eqNum, cmpReal]
  cases a <;> cases b <;>
    first
      | (simp only [strictEquals, Spec.strictEq, hf]; exact hn _ _)
      | (simp [strictEquals, Spec.strictEq]; done)
      | (simp only [strictEquals, Spec.strictEq]; rename_i p q; by_cases h : p = q
         · subst h; simp
         · simp [h])

/-- concat = §15.4.4.4 -/
theorem concat_refines (O : Ops σ) (items : List CArg) : concat O items = Spec.concat O items := by
  funext s
  have h : concatItem = Spec.concatItem := by funext it; cases it <;> rfl
  simp only [concat, Spec.concat, h]

/-- what objectDelete does to the store: on success the key is absent and every other key is untouched;
    on failure nothing changes -/
theorem objectDelete_effect (k : Key) (o : Obj) :
    (∃ o', objectDelete k false o = .ok true o' ∧ lookup k o'.props = none ∧
        (∀ k', k' ≠ k → lookup k' o'.props = lookup k' o.props)) ∨
    (objectDelete k false o = .ok false o ∧ ∃ p, lookup k o.props = some p ∧ p.c = false) := by
  unfold objectDelete
  cases hl : lookup k o.props with
  | none => exact Or.inl ⟨o, rfl, hl, fun _ _ => rfl⟩
  | some p =>
    cases hc : p.c with
    | true =>
      refine Or.inl ⟨{ o with props := erase k o.props }, by simp [hc], lookup_erase_self k _, fun k' h => lookup_erase_ne k k' _ h⟩
    | false => exact Or.inr ⟨by simp [reject, hc], p, rfl, hc⟩

/-- "shrinking length deletes the elements beyond it": when the shrink loop of arrayDefineOwnProperty runs to
    completion, no element with index in [newLength, newLength + cnt) is left and no other key is touched. -/
theorem shrinkLoop_deletes (E : Env) (newLength : Nat) (d : Desc) (nw throw : Bool) (cnt : Nat) (o o' : Obj)
    (h : shrinkLoop E newLength d nw throw cnt o = .ok none o') :
    (∀ n, newLength ≤ n → n < newLength + cnt → lookup (.idx n) o'.props = none) ∧
    (∀ k, (∀ n, newLength ≤ n → n < newLength + cnt → k ≠ .idx n) → lookup k o'.props = lookup k o.props) := by
  induction cnt generalizing o with
  | zero =>
    simp only [shrinkLoop, pure, M.pure] at h
    cases h
    exact ⟨fun n h1 h2 => by omega, fun _ _ => rfl⟩
  | succ c ih =>
    simp only [shrinkLoop, bind, M.bind] at h
    rcases objectDelete_effect (.idx (newLength + c)) o with ⟨o1, h1, hnone, hother⟩ | ⟨h1, _⟩
    · rw [h1] at h
      simp only [Bool.not_true, Bool.false_eq_true, if_false] at h
      obtain ⟨ihA, ihB⟩ := ih o1 h
      constructor
      · intro n hn1 hn2
        by_cases hn : n = newLength + c
        · subst hn
          rw [ihB (.idx (newLength + c)) (fun m hm1 hm2 heq => by injection heq; omega)]
          exact hnone
        · exact ihA n hn1 (by omega)
      · intro k hk
        rw [ihB k (fun n hn1 hn2 => hk n hn1 (by omega))]
        exact hother k (hk (newLength + c) (by omega) (by omega))
    · rw [h1] at h
      simp only [Bool.not_false, if_true] at h
      -- the failure branch never returns `none`
      exfalso
      simp only [M.bind] at h
      split at h
      · cases throw <;> simp [reject, M.pure, pure] at h
      · cases h

/-- the shrink loop of arrayDefineOwnProperty is §15.4.5.1 step 3.l -/
theorem shrinkLoop_refines (E : Env) (newLength : Nat) (d : Desc) (nw throw : Bool) (cnt : Nat) :
    shrinkLoop E newLength d nw throw cnt = Spec.truncateLoop E newLength d nw throw cnt := by
  induction cnt with
  | zero => rfl
  | succ c ih =>
    funext o
    simp only [shrinkLoop, Spec.truncateLoop, objectDelete_refines, ih, bind, M.bind]
    cases Spec.delete (.idx (newLength + c)) false o with
    | err e s => rfl
    | ok a s =>
      cases a with
      | true => simp
      | false =>
        simp only [Bool.not_false, if_true]
        have hd : ∀ d' : Desc, d'.v.isSome = true → objectDefineOwnProperty E .length d' false = Spec.defineOwnDefault E .length d' false :=
          fun d' _ => funext fun s' => objectDefineOwnProperty_refines E .length d' false s'
        cases nw <;> simp only [Bool.not_false, Bool.not_true, if_true, if_false, Bool.false_eq_true] <;>
          rw [hd _ rfl] <;> simp only [M.bind] <;>
          (cases Spec.defineOwnDefault E .length _ false s <;> cases throw <;> simp [reject, M.throw, pure, M.pure])





/-- reduce = §15.4.4.21 -/
theorem reduce_refines (O : Ops σ) (c : Bool) (args : List Val) : reduce O c args = Spec.reduce O c args := by
  funext s
  unfold reduce Spec.reduce
  cases c with
  | false => rfl
  | true =>
    simp only [Bool.not_true, Bool.false_eq_true, if_false]
    by_cases ha : args.length > 0
    · have ha' : ¬ args.length = 0 := by omega
      simp [ha, ha']
    · have ha' : args.length = 0 := by omega
      by_cases hl : O.len s = 0
      · simp [ha, ha', hl]
      · have hl' : O.len s > 0 := by omega
        cases hk : searchUp (O.has s) 0 (O.len s) with
        | none => simp [ha, ha', hl, hl']
        | some k => simp [ha, ha', hl, hl']

/-- reduceRight = §15.4.4.22 -/
theorem reduceRight_refines (O : Ops σ) (c : Bool) (args : List Val) : reduceRight O c args = Spec.reduceRight O c args := by
  funext s
  unfold reduceRight Spec.reduceRight
  cases c with
  | false => rfl
  | true =>
    simp only [Bool.not_true, Bool.false_eq_true, if_false]
    by_cases ha : args.length > 0
    · have ha' : ¬ args.length = 0 := by omega
      simp [ha, ha']
    · have ha' : args.length = 0 := by omega
      by_cases hl : O.len s = 0
      · simp [ha, ha', hl]
      · have hl' : O.len s > 0 := by omega
        cases hk : searchDown (O.has s) (O.len s) with
        | none => simp [ha, ha', hl, hl']
        | some k => simp [ha, ha', hl, hl']

/-- map = §15.4.4.19 -/
theorem map_refines (O : Ops σ) (c : Bool) : map O c = Spec.map O c := by
  funext s; simp only [map, Spec.map]

/-! ## arrayDefineOwnProperty = §15.4.5.1 -/

theorem write_same (k : Key) (p : PropD) (l : List (Key × PropD)) (h : lookup k l = some p) : write k p l = l := by
  induction l with
  | nil => simp [lookup] at h
  | cons q r ih =>
    obtain ⟨k', p'⟩ := q
    by_cases hk : k' = k
    · subst hk; simp [lookup] at h; subst h; simp [write]
    · simp only [lookup, hk, if_false] at h
      simp [write, hk, ih h]

theorem write_write (k : Key) (p q : PropD) (l : List (Key × PropD)) : write k p (write k q l) = write k p l := by
  induction l with
  | nil => simp [write]
  | cons x r ih =>
    obtain ⟨k', p'⟩ := x
    by_cases hk : k' = k
    · simp [write, hk]
    · simp [write, hk, ih]

theorem cmpReal_refl (x : FV) (h : isNaN x = false) : cmpReal x x = some .eq := by
  cases x with
  | nan => simp [isNaN] at h
  | inf s => simp [cmpReal]
  | fin s m e => simp [cmpReal]

theorem sameValue_refl (E : Env) (v : Val) : sameValue E v v = true := by
  have num : ∀ x : FV, (if (isNaN x && isNaN x) = true then true
      else if eqNum x x = true then (if isZero x = true then signBit x == signBit x else true) else false) = true := by
    intro x
    cases hn : isNaN x with
    | true => simp
    | false => simp [eqNum, cmpReal_refl x hn]
  cases v <;> first | (simp only [sameValue]; exact num _) | simp [sameValue]

/-- a successful objectDefineOwnProperty is idempotent: defining the same (data) descriptor again on the result
    succeeds and changes nothing -/
theorem odp_idem (E : Env) (k : Key) (d : Desc) (t0 t : Bool) (o o1 : Obj)
    (h : objectDefineOwnProperty E k d t0 o = .ok true o1) :
    objectDefineOwnProperty E k d t o1 = .ok true o1 := by
  obtain ⟨dv, dw, de, dc⟩ := d
  unfold objectDefineOwnProperty at h
  cases hl : lookup k o.props with
  | none =>
    rw [hl] at h
    simp only at h
    by_cases he : o.ext = true
    · simp only [he, Bool.not_true, Bool.false_eq_true, if_false] at h
      injection h with _ h
      subst h
      unfold objectDefineOwnProperty
      simp only [lookup_write_self, Desc.isEmpty, Desc.isGeneric, Desc.isData, write_write]
      cases dv <;> cases dw <;> cases de <;> cases dc <;> simp [sameValue_refl]
      all_goals (intros; simp_all)
    · simp [he, reject] at h; cases t0 <;> simp at h
  | some p =>
    obtain ⟨pv, pw, pe, pc⟩ := p
    rw [hl] at h
    simp only [Desc.isEmpty, Desc.isGeneric, Desc.isData, reject] at h
    rcases dv with _ | v <;> rcases dw with _ | (_ | _) <;> rcases de with _ | (_ | _) <;>
      rcases dc with _ | (_ | _) <;> cases pw <;> cases pe <;> cases pc <;> cases t0 <;> simp at h
    all_goals (try (split at h <;> simp at h))
    all_goals (first | (obtain ⟨_, _, rfl⟩ := h) | (obtain ⟨_, rfl⟩ := h) | (obtain rfl := h))
    all_goals (simp [objectDefineOwnProperty, lookup_write_self, write_write, sameValue_refl, Desc.isEmpty, Desc.isGeneric,
                 Desc.isData, reject])
    all_goals (intros; simp_all)

theorem obj_eta (o : Obj) : ({ o with props := o.props } : Obj) = o := by cases o; rfl

theorem odp_eq (E : Env) (k : Key) (d : Desc) (t : Bool) :
    objectDefineOwnProperty E k d t = Spec.defineOwnDefault E k d t := by
  funext s
  exact objectDefineOwnProperty_refines E k d t s

theorem oldLen_eq (o : Obj) : Spec.oldLen o = arrLength o := rfl

/-- the index branch: arrayDefineOwnProperty on a canonical index = §15.4.5.1 step 4 -/
theorem defineIndex_refines (E : Env) (m : Nat) (d : Desc) (t : Bool) (o : Obj) (hwf : WFArr o) :
    arrayDefineIndex E (.idx m) d t m o = Spec.arrayDefineIdx E (.idx m) d t m o := by
  obtain ⟨ha, n, w, hl, hn, hb⟩ := hwf
  have hlp : (lookup Key.length o.props).getD ⟨.int 0, false, false, false⟩ = ⟨.int (n : Nat), w, false, false⟩ := by
    simp only [LenProp] at hl; simp [hl]
  simp only [arrayDefineIndex, Spec.arrayDefineIdx, oldLen_eq, arrLength_of o n w hl, lengthWritable_of o n w hl, hlp, reject]
  by_cases hrej : m ≥ n ∧ w = false
  · simp only [hrej, and_self, if_true]
  · simp only [hrej, if_false, bind, M.bind, odp_eq E (.idx m) d false]
    cases hr : Spec.defineOwnDefault E (.idx m) d false o with
    | err e s => rfl
    | ok b s =>
      cases b with
      | false => cases t <;> simp [M.throw, pure, M.pure, reject]
      | true =>
        simp only [Bool.not_true, Bool.false_eq_true, if_false]
        by_cases hge : m ≥ n
        · simp only [hge, if_true]
          rw [odp_eq E .length _ false]
        · simp only [hge, if_false]
          rw [← odp_eq E (.idx m) d false] at hr
          rw [odp_idem E (.idx m) d false t o s hr]
          rfl


/-- on a state whose length property is ⟨N, writable⟩: {writable:false} alone turns it read-only -/
theorem odp_length_wfalse (E : Env) (o : Obj) (N : Nat) (hl : LenProp o N true) :
    Spec.defineOwnDefault E .length { w := some false } false o
      = .ok true { o with props := write .length ⟨.int N, false, false, false⟩ o.props } := by
  rw [← odp_eq E .length { w := some false } false]
  simp only [LenProp] at hl
  simp [objectDefineOwnProperty, hl, Desc.isEmpty, Desc.isGeneric, Desc.isData]

/-- the tail of the length branch (after the first define succeeded) = §15.4.5.1 steps 3.l–3.n -/
theorem shrinkTail_refines (E : Env) (N : Nat) (D : Desc) (t : Bool) (cnt : Nat) (o1 : Obj)
    (hc : Cok D) (hv : D.v = some (.int N)) (hw : D.w ≠ some false) (nw : Bool)
    (ha : o1.isArr = true) (hl : LenProp o1 N true) (hb : Bound o1 (N + cnt)) (hlt : N + cnt < 2^32) :
    arrayShrinkTail E N D nw t cnt o1 = Spec.truncateTail E N D nw t cnt o1 := by
  have hs := shrink_inv E N D nw t hc cnt o1 ha hl hb hlt
  simp only [arrayShrinkTail, Spec.truncateTail, bind, M.bind, ← shrinkLoop_refines]
  cases hr : shrinkLoop E N D nw t cnt o1 with
  | err e o2 => rfl
  | ok r o2 =>
    rw [hr] at hs
    cases r with
    | some b => rfl
    | none =>
      obtain ⟨ha2, hl2, hb2⟩ := hs
      simp only
      cases nw with
      | true =>
        simp only [Bool.not_true, Bool.false_eq_true, if_false]
        rw [odp_length_ok E o2 N N D t hl2 hv hc]
        have hw' : D.w.getD true = true := by
          cases hD : D.w with
          | none => rfl
          | some b => cases b with
            | true => rfl
            | false => exact absurd hD hw
        rw [hw']
        have hsame : ({ o2 with props := write .length ⟨.int N, true, false, false⟩ o2.props } : Obj) = o2 := by
          rw [write_same _ _ _ hl2]
        rw [hsame]
        rfl
      | false =>
        simp only [Bool.not_false, if_true, M.bind]
        have hv' : ({ D with w := some false } : Desc).v = some (.int N) := hv
        have h1 := odp_length_ok E o2 N N { D with w := some false } false hl2 hv' hc
        rw [h1]
        simp only []
        rw [odp_idem E .length { D with w := some false } false t o2 _ h1]
        rw [odp_length_wfalse E o2 N hl2]
        rfl

/-- the "length" branch: arrayDefineOwnProperty = §15.4.5.1 step 3 -/
theorem setLength_refines (E : Env) (d : Desc) (t : Bool) (N : Nat) (o : Obj) (hwf : WFArr o) (hN : N < 2^32) :
    arraySetLength E d t N o = Spec.arraySetLen E d t N o := by
  obtain ⟨ha, n, w, hl, hn, hb⟩ := hwf
  have hlp : (lookup Key.length o.props).getD ⟨.int 0, false, false, false⟩ = ⟨.int (n : Nat), w, false, false⟩ := by
    simp only [LenProp] at hl; simp [hl]
  simp only [arraySetLength, Spec.arraySetLen, oldLen_eq, arrLength_of o n w hl, lengthWritable_of o n w hl, hlp, reject]
  by_cases hge : N ≥ n
  · simp only [hge, if_true]
    rw [odp_eq E .length _ t]
  · simp only [hge, if_false]
    -- the chain define; tail on a writable length with N < n
    have chain : ∀ (D : Desc) (nw : Bool), D.v = some (.int N) → D.w ≠ some false → w = true →
        ((do let ok ← objectDefineOwnProperty E .length D t
             if !ok then pure false else arrayShrinkTail E N D nw t (n - N)) : M Obj Bool) o
        = ((do let succeeded ← Spec.defineOwnDefault E .length D t
               if !succeeded then pure false else Spec.truncateTail E N D nw t (n - N)) : M Obj Bool) o := by
      intro D nw hDv hDw hw
      subst hw
      simp only [bind, M.bind, ← odp_eq E .length D t]
      by_cases hc : Cok D
      · rw [odp_length_ok E o n N D t hl hDv hc]
        simp only [Bool.not_true, Bool.false_eq_true, if_false]
        have hw' : D.w.getD true = true := by
          cases hD : D.w with
          | none => rfl
          | some b => cases b with
            | true => rfl
            | false => exact absurd hD hDw
        rw [hw']
        refine shrinkTail_refines E N D t (n - N)
          { o with props := write .length ⟨.int N, true, false, false⟩ o.props } hc hDv hDw nw ha ?_ ?_ ?_
        · simp [LenProp, lookup_write_self]
        · intro i hi1 hi2
          simp only at hi2
          rw [lookup_write_ne .length (.idx i) _ _ (by intro e; cases e)] at hi2
          have := hb i hi1 hi2; omega
        · omega
      · rw [odp_length_rej E o n true D t hl (by rw [hDv]; rfl) hc]
        cases t <;> rfl
    cases w with
    | false => simp
    | true =>
      simp only [Bool.not_true, Bool.false_eq_true, if_false]
      rcases hdw : d.w with _ | (_ | _)
      · simpa using chain ⟨some (.int N), none, d.e, d.c⟩ true rfl (by simp) rfl
      · simpa using chain ⟨some (.int N), some true, d.e, d.c⟩ false rfl (by simp) rfl
      · simpa using chain ⟨some (.int N), some true, d.e, d.c⟩ true rfl (by simp) rfl

/-- the representation invariant of keys: `name s` is never used for "length" … nor for a canonical index
    numeral (those are `idx n`); the driver's `keyOfBytes` guarantees it -/
def KeyOK : Key → Prop
  | .length => True
  | .idx _ => True
  | .name s => Spec.arrayIndex? s = none

/-- **arrayDefineOwnProperty = §15.4.5.1** on a well-formed array, for every key, every data descriptor with
    optional fields, either throw flag. -/
theorem arrayDefineOwnProperty_refines (E : Env) (k : Key) (d : Desc) (t : Bool) (o : Obj) (hwf : WFArr o)
    (hk : KeyOK k) :
    arrayDefineOwnProperty E k d t o = Spec.arrayDefineOwn E k d t o := by
  unfold arrayDefineOwnProperty Spec.arrayDefineOwn
  by_cases hkl : k = .length
  · subst hkl
    simp only [if_true]
    cases hv : d.v with
    | none =>
      simp only
      rw [odp_eq E .length d t]
    | some nv =>
      simp only [← length_range]
      cases hu : arrayUint32 E nv with
      | none => rfl
      | some N =>
        simp only
        exact setLength_refines E d t N o hwf (arrayUint32_lt E nv N hu)
  · simp only [hkl, if_false]
    cases k with
    | length => exact absurd rfl hkl
    | idx m =>
      rw [stringToArrayIndex_idx]
      simp only [Key.toBytes, arrayIndex_dec]
      by_cases hm : m < 2^32 - 1
      · have h0 : ((m : Nat) : Int) ≥ 0 := by omega
        simp only [hm, if_true, h0, Int.toNat_natCast]
        exact defineIndex_refines E m d t o hwf
      · simp only [hm, if_false]
        have : ¬ ((-1 : Int) ≥ 0) := by omega
        simp only [this, if_false]
        rw [odp_eq E _ d t]
    | name s =>
      have h2 : Spec.arrayIndex? s = none := hk
      have : ¬ (stringToArrayIndex (.name s) ≥ 0) := by
        simp only [stringToArrayIndex, Key.toBytes, array_index_eq, h2]; omega
      simp only [this, if_false, Key.toBytes, h2]
      rw [odp_eq E _ d t]

/-- hence §15.4.5.1 itself keeps the length invariant (transfer through the refinement) -/
theorem wf_specArrayDefine (E : Env) (k : Key) (d : Desc) (t : Bool) (o : Obj) (hwf : WFArr o)
    (hk : KeyOK k) :
    WFArr (stateOf (Spec.arrayDefineOwn E k d t o)) := by
  rw [← arrayDefineOwnProperty_refines E k d t o hwf hk]
  exact wf_arrayDefine E o k d t hwf

/-! ## objectPut = §8.12.5, histories -/

/-- [[Put]] on an existing writable data property: otto passes the property's own attributes along with the new
    value, §8.12.5 step 3 passes the value alone — the same [[DefineOwnProperty]] -/
theorem dod_full_vo (E : Env) (k : Key) (v : Val) (t : Bool) (o : Obj) (p : PropD)
    (hl : lookup k o.props = some p) (hw : p.w = true) :
    Spec.defineOwnDefault E k ⟨some v, some p.w, some p.e, some p.c⟩ t o = Spec.defineOwnDefault E k { v := some v } t o := by
  obtain ⟨pv, pw, pe, pc⟩ := p
  simp only at hw; subst hw
  simp only [Spec.defineOwnDefault, hl]
  cases pe <;> cases pc <;> cases t <;> simp

/-- the truncation loop does not depend on which of the two descriptors it carries -/
theorem truncateLoop_irrel (E : Env) (N : Nat) (v : Val) (t : Bool) (cnt : Nat) :
    ∀ o1 : Obj, LenProp o1 N true →
      Spec.truncateLoop E N ⟨some v, some true, some false, some false⟩ true t cnt o1
        = Spec.truncateLoop E N { v := some v } true t cnt o1 := by
  induction cnt with
  | zero => intro _ _; rfl
  | succ c ih =>
    intro o1 hl
    simp only [Spec.truncateLoop, bind, M.bind, ← objectDelete_refines]
    rcases objectDelete_cases (.idx (N + c)) o1 with h1 | ⟨h1, _⟩
    · rw [h1]
      simp only [Bool.not_true, Bool.false_eq_true, if_false]
      apply ih
      simp only [LenProp]; rw [lookup_erase_ne _ _ _ (by intro e; cases e)]; exact hl
    · rw [h1]
      simp only [Bool.not_false, if_true, Bool.not_true, Bool.false_eq_true, if_false]
      rw [← odp_eq E .length _ false, ← odp_eq E .length _ false]
      simp only [M.bind]
      rw [odp_length_ok E o1 N (N + c + 1) ⟨some (.int ((N + c + 1 : Nat) : Int)), some true, some false, some false⟩ false hl rfl ⟨by simp, by simp⟩,
          odp_length_ok E o1 N (N + c + 1) { v := some (.int ((N + c + 1 : Nat) : Int)) } false hl rfl ⟨by simp, by simp⟩]
      rfl

/-- §15.4.5.1 gives the same result for otto's full descriptor and §8.12.5's value-only descriptor -/
theorem specDefine_full_vo (E : Env) (k : Key) (v : Val) (t : Bool) (o : Obj) (p : PropD) (hwf : WFArr o)
    (hl : lookup k o.props = some p) (hw : p.w = true) :
    Spec.arrayDefineOwn E k ⟨some v, some p.w, some p.e, some p.c⟩ t o = Spec.arrayDefineOwn E k { v := some v } t o := by
  unfold Spec.arrayDefineOwn
  by_cases hk : k = .length
  · subst hk
    obtain ⟨ha, n, w, hlen, hn, hb⟩ := hwf
    have hp : p = ⟨.int (n : Nat), w, false, false⟩ := by
      simp only [LenProp] at hlen; rw [hlen] at hl; injection hl with hl; exact hl.symm
    subst hp
    simp only at hw; subst hw
    simp only [if_true]
    cases hN : Spec.lengthOf E v with
    | none => rfl
    | some N =>
      simp only
      have hlp : (lookup Key.length o.props).getD ⟨.int 0, false, false, false⟩ = ⟨.int (n : Nat), true, false, false⟩ := by
        simp only [LenProp] at hlen; simp [hlen]
      simp only [Spec.arraySetLen, oldLen_eq, arrLength_of o n true hlen, hlp]
      have hfv := dod_full_vo E .length (.int N) t o ⟨.int (n : Nat), true, false, false⟩ hl rfl
      simp only at hfv
      by_cases hge : N ≥ n
      · simp only [hge, if_true]; exact hfv
      · simp only [hge, if_false, Bool.true_eq_false, if_false]
        have e1 : (!decide ((some true : Option Bool) = some false)) = true := by decide
        have e2 : (!decide ((none : Option Bool) = some false)) = true := by decide
        simp only [e1, e2, if_true, bind, M.bind, hfv]
        rw [← odp_eq E .length { v := some (.int N) } t,
            odp_length_ok E o n N { v := some (.int N) } t hlen rfl ⟨by simp, by simp⟩]
        simp only [Option.getD_none, Bool.not_true, Bool.false_eq_true, if_false, Spec.truncateTail, bind, M.bind]
        rw [truncateLoop_irrel E N (.int N) t (n - N) _ (by simp [LenProp, lookup_write_self])]
  · simp only [hk, if_false]
    cases hi : Spec.arrayIndex? k.toBytes with
    | none => exact dod_full_vo E k v t o p hl hw
    | some index =>
      simp only [Spec.arrayDefineIdx, bind, M.bind, dod_full_vo E k v false o p hl hw]

/-- **objectPut = §8.12.5 [[Put]]** (with §15.4.5.1 underneath) on a well-formed array, for every key in `KeyOK` -/
theorem objectPut_refines (E : Env) (k : Key) (v : Val) (t : Bool) (o : Obj) (hwf : WFArr o) (hk : KeyOK k) :
    objectPut E k v t o = Spec.put E k v t o := by
  unfold objectPut Spec.put
  simp only [canPutDetails, Spec.canPut, defineOwnProperty, Spec.defineOwn, hwf.arr, if_true, bind, M.bind]
  cases hl : lookup k o.props with
  | some p =>
    simp only
    cases hw : p.w with
    | false => simp
    | true =>
      simp only [Bool.not_true, Bool.false_eq_true, if_false]
      rw [arrayDefineOwnProperty_refines E k _ t o hwf hk]
      rw [specDefine_full_vo E k v t o p hwf hl hw]
  | none =>
    cases hp : protoLookup k o with
    | none =>
      simp only
      cases he : o.ext with
      | false => simp
      | true =>
        simp only [Bool.not_true, Bool.false_eq_true, if_false]
        rw [arrayDefineOwnProperty_refines E k _ t o hwf hk]
    | some pv =>
      simp only
      cases he : o.ext with
      | false => simp
      | true =>
        simp only [Bool.not_true, Bool.false_eq_true, if_false]
        rw [arrayDefineOwnProperty_refines E k _ t o hwf hk]


/-! ### histories: model = specification -/

/-- the same history on the specification side (§15.4.5.1 / §8.12.5 / §8.12.7) -/
def HOp.specRun (E : Env) : HOp → Obj → Obj
  | .define k d t, o => stateOf (Spec.defineOwn E k d t o)
  | .put k v t, o => stateOf (Spec.put E k v t o)
  | .delete k t, o => stateOf (Spec.delete k t o)

def specRunHist (E : Env) : List HOp → Obj → Obj
  | [], o => o
  | op :: ops, o => specRunHist E ops (op.specRun E o)

/-- the side condition of a step: keys respect the representation invariant -/
def StepOK : HOp → Prop
  | .define k _ _ => KeyOK k
  | .put k _ _ => KeyOK k
  | .delete _ _ => True

def HistOK (ops : List HOp) : Prop := ∀ op ∈ ops, StepOK op

theorem step_refines (E : Env) (op : HOp) (o : Obj) (hwf : WFArr o) (hok : StepOK op) :
    op.run E o = op.specRun E o := by
  cases op with
  | define k d t =>
    simp only [HOp.run, HOp.specRun, defineOwnProperty, Spec.defineOwn, hwf.arr, if_true]
    rw [arrayDefineOwnProperty_refines E k d t o hwf hok]
  | put k v t =>
    simp only [HOp.run, HOp.specRun]
    rw [objectPut_refines E k v t o hwf hok]
  | delete k t =>
    simp only [HOp.run, HOp.specRun, objectDelete_refines]

/-- **history_refines**: every finite history of [[DefineOwnProperty]] / [[Put]] / [[Delete]] on an array (any
    descriptor, any key) leaves exactly the object that ES5 prescribes — and that object satisfies the length
    invariant. -/
theorem history_refines (E : Env) (ops : List HOp) (o : Obj) (hwf : WFArr o) (hok : HistOK ops) :
    runHist E ops o = specRunHist E ops o ∧ WFArr (specRunHist E ops o) := by
  induction ops generalizing o with
  | nil => exact ⟨rfl, hwf⟩
  | cons op ops ih =>
    have h1 : StepOK op := hok op (List.mem_cons_self ..)
    have h2 : HistOK ops := fun x hx => hok x (List.mem_cons_of_mem _ hx)
    have hwf' : WFArr (op.run E o) := by
      cases op with
      | define k d t => exact wf_defineOwn E o k d t hwf
      | put k v t => exact wf_put E o k v t hwf
      | delete k t => exact wf_delete o k t hwf
    have hs := step_refines E op o hwf h1
    simp only [runHist, specRunHist]
    rw [← hs]
    exact ih (op.run E o) hwf' h2

/-! ## join -/

theorem foldl_join_prefix (sep p b : List Nat) (l : List (List Nat)) :
    l.foldl (fun r x => (r ++ sep) ++ x) (p ++ b) = p ++ l.foldl (fun r x => (r ++ sep) ++ x) b := by
  induction l generalizing b with
  | nil => rfl
  | cons x xs ih =>
    simp only [List.foldl_cons]
    have : (p ++ b ++ sep) ++ x = p ++ ((b ++ sep) ++ x) := by simp [List.append_assoc]
    rw [this, ih]

/-- strings.Join is the left fold of §15.4.4.5 steps 7–10 -/
theorem goJoin_foldl (a : List Nat) (l : List (List Nat)) (sep : List Nat) :
    goJoin (a :: l) sep = l.foldl (fun r x => (r ++ sep) ++ x) a := by
  induction l generalizing a with
  | nil => rfl
  | cons b l ih =>
    simp only [goJoin, List.foldl_cons]
    rw [ih b]
    have := foldl_join_prefix sep (a ++ sep) b l
    simp only [List.append_assoc] at this ⊢
    exact this.symm

theorem join_refines (O : Ops σ) (E : Env) (args : List Val) : join O E args = Spec.join O E args := by
  funext s
  simp only [join, Spec.join]
  have hsep : (if argAt args 0 ≠ Val.undef then E.ts (argAt args 0) else [44])
      = (if argAt args 0 = Val.undef then [44] else E.ts (argAt args 0)) := by
    by_cases h : argAt args 0 = .undef <;> simp [h]
  rw [hsep]
  by_cases h0 : O.len s = 0
  · simp [h0]
  · simp only [h0, if_false]
    obtain ⟨m, hm⟩ : ∃ m, O.len s = m + 1 := ⟨O.len s - 1, by omega⟩
    rw [hm]
    simp only [Nat.add_sub_cancel, List.range_succ_eq_map, List.map_cons, List.map_map, goJoin_foldl, List.foldl_map]
    rfl


/-! ## splice -/

/-- splice = §15.4.4.12 for every receiver and every argument list except the one-argument form
    (`splice_one_argument`: ES5.1 removes nothing there, otto and ES2015 remove up to the end) -/
theorem splice_refines (O : Ops σ) (E : Env) (args : List Val) (s : σ)
    (hargs : ∀ a ∈ args, WFv a) (hlen : O.len s < 2^62) (hargc : args.length ≠ 1) :
    splice O E args s = Spec.splice O E args s := by
  have hstart := range_index E (argAt args 0) (O.len s) (argAt_wf args hargs 0) hlen
  generalize hk : Spec.relIndex (Spec.toInteger E (argAt args 0)) (O.len s) = start at hstart
  have hstart_le : start ≤ O.len s := by
    rw [← hk]; simp only [Spec.relIndex]; repeat' (first | omega | split)
  have hcast : ((O.len s : Nat) : Int) - (start : Int) = ((O.len s - start : Nat) : Int) := by omega
  generalize hd : Spec.clamp0 (Spec.toInteger E (argAt args 1)) (O.len s - start) = dc
  have hdc_le : dc ≤ O.len s - start := by
    rw [← hd]; simp only [Spec.clamp0]; repeat' (first | omega | split)
  -- otto's deleteCount is the specification's actualDeleteCount
  have hdc : (if args.length > 1 then valueToRangeIndex E (argAt args 1) ((O.len s - start : Nat) : Int) true
      else if args.length = 0 then 0 else ((O.len s - start : Nat) : Int)) = ((dc : Nat) : Int) := by
    by_cases h2 : args.length > 1
    · simp only [h2, if_true]
      have := range_index_nz E (argAt args 1) (O.len s - start) (argAt_wf args hargs 1) (by omega)
      rw [this]; simp only [clampPos, hd]
    · have h0 : args.length = 0 := by omega
      simp only [h2, h0, if_false, if_true]
      have hnil : args = [] := List.eq_nil_of_length_eq_zero h0
      subst hnil
      rw [← hd]
      simp only [argAt, List.getElem?_nil, Option.getD_none, Spec.toInteger, Spec.toNumber, Spec.clamp0]
      repeat' (first | rfl | omega | split)
  simp only [splice, Spec.splice, hk, hstart, hcast, hdc, Int.toNat_natCast, hd]
  have hlenv : (Val.int ((O.len s : Int) + ((args.drop 2).length : Nat) - (dc : Int)))
      = Val.int (((O.len s - dc + (args.drop 2).length : Nat) : Nat) : Int) := by
    congr 1; omega
  rw [hlenv]
  by_cases h1 : (args.drop 2).length < dc
  · simp only [h1, if_true]
    have e3 : O.len s - (O.len s - dc + (args.drop 2).length) = dc - (args.drop 2).length := by omega
    simp only [e3, putItems_eq]
    rfl
  · simp only [h1, if_false]
    by_cases h2 : (args.drop 2).length > dc
    · simp only [h2, if_true, putItems_eq]; rfl
    · simp only [h2, if_false, putItems_eq]

/-! ## indexOf / lastIndexOf -/

def startVal : Option Nat → Int
  | none => -1
  | some k => k

/-- otto's normalised start index is the start of §15.4.4.14 steps 5–8 (−1 = "return −1") -/
theorem indexOf_start (n : Spec.IntInf) (len : Nat) (hl0 : 0 < len) (hlen : len < 2^62) :
    (if sat n < 0 then (if sat n + (len : Int) < 0 then 0 else sat n + (len : Int))
      else if sat n ≥ (len : Int) then -1 else sat n)
    = startVal (Spec.indexOfStart n len) := by
  cases n with
  | pinf => simp only [sat, maxInt64, Spec.indexOfStart, startVal]; repeat' (first | omega | split)
  | ninf => simp only [sat, minInt64, Spec.indexOfStart, startVal]; repeat' (first | omega | split)
  | fin i =>
    simp only [sat, maxInt64, minInt64, Spec.indexOfStart]
    by_cases h1 : i ≥ (len : Int)
    · simp only [h1, if_true, startVal]; repeat' (first | omega | split)
    · by_cases h2 : i ≥ 0
      · simp only [h1, h2, if_true, if_false, startVal]; repeat' (first | omega | split)
      · by_cases h3 : (len : Int) + i < 0
        · simp only [h1, h2, h3, if_true, if_false, startVal]; repeat' (first | omega | split)
        · simp only [h1, h2, h3, if_false, startVal]; repeat' (first | omega | split)

theorem indexOfStart_lt (n : Spec.IntInf) (len k : Nat) (h : Spec.indexOfStart n len = some k) (hl0 : 0 < len) : k < len := by
  cases n with
  | pinf => simp [Spec.indexOfStart] at h
  | ninf => simp [Spec.indexOfStart] at h; omega
  | fin i =>
    simp only [Spec.indexOfStart] at h
    by_cases h1 : i ≥ (len : Int)
    · simp [h1] at h
    · by_cases h2 : i ≥ 0
      · simp only [h1, h2, if_true, if_false] at h; injection h with h; omega
      · by_cases h3 : (len : Int) + i < 0
        · simp only [h1, h2, h3, if_true, if_false] at h; injection h with h; omega
        · simp only [h1, h2, h3, if_false] at h; injection h with h; omega

theorem indexOf_refines (O : Ops σ) (E : Env) (args : List Val) (s : σ)
    (hargs : ∀ a ∈ args, WFv a) (hlen : O.len s < 2^62) :
    indexOf O E args s = Spec.indexOf O E args s := by
  simp only [indexOf, Spec.indexOf]
  by_cases h0 : O.len s = 0
  · simp [h0]
  · have hpos : ((O.len s : Nat) : Int) > 0 := by omega
    simp only [hpos, if_true, h0, if_false]
    have hn : (if args.length > 1 then toI64 E (argAt args 1) else 0)
        = sat (if args.length > 1 then Spec.toInteger E (argAt args 1) else .fin 0) := by
      split
      · exact toI64_sat E _ (argAt_wf args hargs 1)
      · simp [sat, maxInt64, minInt64]
    rw [hn]
    generalize (if args.length > 1 then Spec.toInteger E (argAt args 1) else Spec.IntInf.fin 0) = n
    rw [indexOf_start n (O.len s) (by omega) hlen]
    cases hst : Spec.indexOfStart n (O.len s) with
    | none => simp [startVal]
    | some k =>
      have hk := indexOfStart_lt n (O.len s) k hst (by omega)
      have h1 : ((k : Nat) : Int) ≥ 0 ∧ ((k : Nat) : Int) < ((O.len s : Nat) : Int) := by omega
      have h2 : (((O.len s : Nat) : Int) - (k : Int)).toNat = O.len s - k := by omega
      simp only [startVal, h1, and_self, if_true, h2, Int.toNat_natCast, strictEquals_eq]
      cases List.find? _ (List.range (O.len s - k)) with
      | none => rfl
      | some j => simp

/-- the number of positions otto's lastIndexOf examines, as a function of the (negative-adjusted) fromIndex -/
def lastCount (i' : Int) (len : Nat) : Nat :=
  if i' ≥ (len : Int) then len else if 0 > i' then 0 else (i' + 1).toNat

theorem lastIndexOf_count (n : Spec.IntInf) (len : Nat) (hlen : len < 2^62) :
    lastCount (if 0 > sat n then sat n + (len : Int) else sat n) len = Spec.lastIndexOfCount n len := by
  cases n with
  | pinf =>
    have h1 : ¬ ((0:Int) > 2^63 - 1) := by omega
    simp only [sat, maxInt64, Spec.lastIndexOfCount, lastCount, h1, if_false]; repeat' (first | omega | split)
  | ninf =>
    have h1 : (0:Int) > -(2^63) := by omega
    simp only [sat, minInt64, Spec.lastIndexOfCount, lastCount, h1, if_true]; repeat' (first | omega | split)
  | fin i =>
    simp only [sat, maxInt64, minInt64, Spec.lastIndexOfCount, lastCount]
    by_cases h1 : i ≥ 0
    · by_cases h2 : i < (len : Int) - 1
      · simp only [h1, h2, if_true]; repeat' (first | omega | split)
      · simp only [h1, h2, if_true, if_false]; repeat' (first | omega | split)
    · simp only [h1, if_false]; repeat' (first | omega | split)

/-- lastIndexOf = §15.4.4.15 for every receiver and argument list -/
theorem lastIndexOf_refines (O : Ops σ) (E : Env) (args : List Val) (s : σ)
    (hargs : ∀ a ∈ args, WFv a) (hlen : O.len s < 2^62) :
    lastIndexOf O E args s = Spec.lastIndexOf O E args s := by
  simp only [lastIndexOf, Spec.lastIndexOf]
  have hn : (if args.length > 1 then toI64 E (argAt args 1) else ((O.len s : Nat) : Int) - 1)
      = sat (if args.length > 1 then Spec.toInteger E (argAt args 1) else .fin (((O.len s : Nat) : Int) - 1)) := by
    split
    · exact toI64_sat E _ (argAt_wf args hargs 1)
    · simp only [sat, maxInt64, minInt64]; repeat' (first | omega | split)
  rw [hn]
  generalize (if args.length > 1 then Spec.toInteger E (argAt args 1) else Spec.IntInf.fin (((O.len s : Nat) : Int) - 1)) = n
  have hc := lastIndexOf_count n (O.len s) hlen
  generalize (if 0 > sat n then sat n + (O.len s : Int) else sat n) = i' at hc
  -- otto's three-way branch is one downward search over `lastCount i' len` positions
  have hmodel : ∀ P : Nat → Bool,
      (if i' ≥ ((O.len s : Nat) : Int) then
          (Res.ok (indexRet (searchDown P ((((O.len s : Nat) : Int) - 1) + 1).toNat)) s : Res σ Ret)
        else if 0 > i' then .ok (indexRet none) s
        else .ok (indexRet (searchDown P (i' + 1).toNat)) s)
      = .ok (indexRet (searchDown P (lastCount i' (O.len s)))) s := by
    intro P
    simp only [lastCount]
    by_cases h1 : i' ≥ ((O.len s : Nat) : Int)
    · have : ((((O.len s : Nat) : Int) - 1) + 1).toNat = O.len s := by omega
      simp only [h1, if_true, this]
    · by_cases h2 : 0 > i'
      · simp only [h1, h2, if_true, if_false, searchDown]
      · simp only [h1, h2, if_false]
  rw [hmodel, hc]
  simp only [strictEquals_eq]
  have hz : Spec.lastIndexOfCount n 0 = 0 := by
    cases n <;> simp only [Spec.lastIndexOfCount] <;> repeat' (first | rfl | omega | split)
  by_cases h0 : O.len s = 0
  · simp only [h0, if_true, hz, searchDown]; rfl
  · simp only [h0, if_false]

/-! ## reverse -/

theorem forUp_congr (b1 b2 : Nat → M σ Unit) (lo n : Nat) (h : ∀ i, lo ≤ i → i < lo + n → b1 i = b2 i) :
    forUp b1 lo n = forUp b2 lo n := by
  induction n generalizing lo with
  | zero => rfl
  | succ n ih =>
    simp only [forUp]
    rw [h lo (Nat.le_refl _) (by omega), ih (lo + 1) (fun i h1 h2 => h i (by omega) (by omega))]

/-- reverse = §15.4.4.8 for every receiver -/
theorem reverse_refines (O : Ops σ) : reverse O = Spec.reverse O := by
  funext s
  simp only [reverse, Spec.reverse]
  have : forUp (fun lower => reverseStep O lower (O.len s - lower - 1)) 0 (O.len s / 2)
       = forUp (fun lower => Spec.reverseStep O lower (O.len s - lower - 1)) 0 (O.len s / 2) := by
    apply forUp_congr
    intro i _ _
    funext s'
    simp only [reverseStep, Spec.reverseStep]
    cases h1 : O.has s' i <;> cases h2 : O.has s' (O.len s - i - 1) <;> simp
  rw [this]

/-- non-vacuity: an array-like whose [[Put]] and [[Delete]] always succeed -/
def tOps : Ops (List (Option Val)) where
  len := fun s => s.length
  has := fun s k => (s.getD k none).isSome
  get := fun s k => (s.getD k none).getD .undef
  put := fun k v s => .ok () (s.set k (some v))
  del := fun k s => .ok () (s.set k none)
  putLen := fun _ s => .ok () s
  call := fun _ s => .ok .undef s
  isArr := fun _ => true

/-! ## sort: the result is a permutation (§15.4.4.11, first bullet of the postcondition) -/

/-- exchange positions i and j -/
def swapL (i j : Nat) (s : List (Option Val)) : List (Option Val) :=
  (s.set i (s.getD j none)).set j (s.getD i none)

theorem swapL_length (i j : Nat) (s : List (Option Val)) : (swapL i j s).length = s.length := by
  simp [swapL]

theorem swapL_perm (i j : Nat) (s : List (Option Val)) (hi : i < s.length) (hj : j < s.length) :
    (swapL i j s).Perm s := by
  rw [List.perm_iff_count]
  intro b
  have hxi : s.getD i none = s[i] := by simp [List.getD, hi]
  have hxj : s.getD j none = s[j] := by simp [List.getD, hj]
  simp only [swapL, hxi, hxj]
  have hj' : j < (s.set i s[j]).length := by simpa using hj
  rw [List.count_set hj', List.count_set hi]
  have h1 : (s.set i s[j])[j] = s[j] := by
    rw [List.getElem_set]; split
    · rfl
    · rfl
  rw [h1]
  have hmem : (if (s[i] == b) = true then 1 else 0) ≤ List.count b s := by
    split
    · rename_i h
      have : s[i] = b := by simpa using h
      rw [← this]
      exact List.one_le_count_iff.mpr (List.getElem_mem hi)
    · omega
  generalize List.count b s = c at *
  generalize (if (s[i] == b) = true then 1 else 0) = a at *
  generalize (if (s[j] == b) = true then 1 else 0) = d
  omega

/-- on the total array-like `tOps`, arraySortSwap exchanges the two positions -/
theorem sortSwap_tOps (i j : Nat) (s : List (Option Val)) (hi : i < s.length) (hj : j < s.length) :
    sortSwap tOps i j s = .ok () (swapL i j s) := by
  have hxi : s.getD i none = s[i] := by simp [List.getD, hi]
  have hxj : s.getD j none = s[j] := by simp [List.getD, hj]
  simp only [sortSwap, tOps, swapL, hxi, hxj, bind, M.bind]
  cases hvi : s[i] with
  | none =>
    cases hvj : s[j] with
    | none =>
      simp
      -- both absent: nothing happens, and exchanging two holes changes nothing
      have e1 : s.set i none = s := by
        apply List.ext_getElem (by simp)
        intro n h1 h2
        rw [List.getElem_set]; split
        · rename_i h; subst h; exact hvi.symm
        · rfl
      rw [e1]
      apply List.ext_getElem (by simp)
      intro n h1 h2
      rw [List.getElem_set]; split
      · rename_i h; subst h; exact hvj
      · rfl
    | some y =>
      simp
      by_cases hij : i = j
      · subst hij; rw [hvi] at hvj; cases hvj
      · rw [List.set_comm _ _ (fun e => hij e.symm)]
  | some x =>
    cases hvj : s[j] with
    | none => simp
    | some y => simp


/-- the state is a rearrangement of s0 -/
def Rearr (s0 s : List (Option Val)) : Prop := s.Perm s0 ∧ s.length = s0.length

theorem rearr_swap (s0 s : List (Option Val)) (i j : Nat) (h : Rearr s0 s) (hi : i < s0.length) (hj : j < s0.length) :
    ∃ s', sortSwap tOps i j s = .ok () s' ∧ Rearr s0 s' := by
  obtain ⟨hp, hl⟩ := h
  refine ⟨swapL i j s, sortSwap_tOps i j s (by omega) (by omega), ?_, ?_⟩
  · exact (swapL_perm i j s (by omega) (by omega)).trans hp
  · rw [swapL_length]; exact hl

theorem step_good (E : Env) (cmp : SortCmp) (s0 s : List (Option Val)) (right index : Nat) (c : Nat × Nat)
    (h : Rearr s0 s) (hr : right < s0.length) (hi : index < right) (h1 : c.1 ≤ c.2) (h2 : c.2 ≤ index) :
    ∃ c' s', sortPartitionStep tOps E cmp right index c s = .ok c' s' ∧ Rearr s0 s' ∧
      c'.1 ≤ c'.2 ∧ c'.2 ≤ index + 1 ∧ c.1 ≤ c'.1 := by
  simp only [sortPartitionStep]
  split
  · obtain ⟨s1, e1, r1⟩ := rearr_swap s0 s index c.1 h (by omega) (by omega)
    simp only [bind, M.bind, e1]
    by_cases hlt : c.1 < c.2
    · obtain ⟨s2, e2, r2⟩ := rearr_swap s0 s1 index c.2 r1 (by omega) (by omega)
      simp only [hlt, if_true, bind, M.bind, e2, pure, M.pure]
      exact ⟨_, _, rfl, r2, by simp only []; omega, by simp only []; omega, by simp only []; omega⟩
    · simp only [hlt, if_false, pure, M.pure]
      exact ⟨_, _, rfl, r1, by simp; omega, by simp; omega, by simp⟩
  · split
    · obtain ⟨s1, e1, r1⟩ := rearr_swap s0 s index c.2 h (by omega) (by omega)
      simp only [bind, M.bind, e1, pure, M.pure]
      exact ⟨_, _, rfl, r1, by simp only []; omega, by simp only []; omega, by simp only []; omega⟩
    · exact ⟨c, s, rfl, h, h1, by omega, Nat.le_refl _⟩

theorem loop_good (E : Env) (cmp : SortCmp) (s0 : List (Option Val)) (right : Nat) (hr : right < s0.length) :
    ∀ (n index : Nat) (c : Nat × Nat) (s : List (Option Val)), Rearr s0 s → index + n = right → c.1 ≤ c.2 → c.2 ≤ index →
      ∃ c' s', foldUp (sortPartitionStep tOps E cmp right) index n c s = .ok c' s' ∧ Rearr s0 s' ∧
        c'.1 ≤ c'.2 ∧ c'.2 ≤ right ∧ c.1 ≤ c'.1 := by
  intro n
  induction n with
  | zero =>
    intro index c s h he h1 h2
    exact ⟨c, s, rfl, h, h1, by omega, Nat.le_refl _⟩
  | succ n ih =>
    intro index c s h he h1 h2
    obtain ⟨c1, s1, e1, r1, g1, g2, g3⟩ := step_good E cmp s0 s right index c h hr (by omega) h1 h2
    obtain ⟨c2, s2, e2, r2, k1, k2, k3⟩ := ih (index + 1) c1 s1 r1 (by omega) g1 g2
    refine ⟨c2, s2, ?_, r2, k1, k2, by omega⟩
    simp only [foldUp, bind, M.bind, e1]
    exact e2

theorem partition_good (E : Env) (cmp : SortCmp) (s0 s : List (Option Val)) (left right pivot : Nat)
    (h : Rearr s0 s) (hr : right < s0.length) (hlr : left ≤ right) (hp : pivot ≤ right) :
    ∃ p p2 s', sortPartition tOps E cmp left right pivot s = .ok (p, p2) s' ∧ Rearr s0 s' ∧
      left ≤ p ∧ p ≤ p2 ∧ p2 ≤ right := by
  obtain ⟨s1, e1, r1⟩ := rearr_swap s0 s pivot right h (by omega) hr
  obtain ⟨c, s2, e2, r2, g1, g2, g3⟩ := loop_good E cmp s0 right hr (right - left) left (left, left) s1 r1 (by omega)
    (Nat.le_refl _) (Nat.le_refl _)
  obtain ⟨s3, e3, r3⟩ := rearr_swap s0 s2 c.2 right r2 (by omega) hr
  refine ⟨c.1, c.2, s3, ?_, r3, g3, g1, g2⟩
  simp only [sortPartition, bind, M.bind, e1, e2, e3, pure, M.pure]

theorem quick_good (E : Env) (cmp : SortCmp) (s0 : List (Option Val)) :
    ∀ (fuel left right : Nat) (s : List (Option Val)), Rearr s0 s → right < s0.length →
      ∃ s', sortQuick tOps E cmp fuel left right s = .ok () s' ∧ Rearr s0 s' := by
  intro fuel
  induction fuel with
  | zero => intro left right s h _; exact ⟨s, rfl, h⟩
  | succ f ih =>
    intro left right s h hr
    simp only [sortQuick]
    by_cases hlt : left < right
    · simp only [hlt, if_true, bind, M.bind]
      obtain ⟨p, p2, s1, e1, r1, g1, g2, g3⟩ :=
        partition_good E cmp s0 s left right (left + (right - left) / 2) h hr (by omega) (by omega)
      rw [e1]
      simp only
      by_cases hp : p > 0
      · obtain ⟨s2, e2, r2⟩ := ih left (p - 1) s1 r1 (by omega)
        obtain ⟨s3, e3, r3⟩ := ih (p2 + 1) right s2 r2 hr
        simp only [hp, if_true, bind, M.bind, e2, e3]
        exact ⟨s3, rfl, r3⟩
      · obtain ⟨s3, e3, r3⟩ := ih (p2 + 1) right s1 r1 hr
        simp only [hp, if_false, bind, M.bind, pure, M.pure, e3]
        exact ⟨s3, rfl, r3⟩
    · simp only [hlt, if_false]
      exact ⟨s, rfl, h⟩

/-- **sort_permutation** (§15.4.4.11): on an array-like whose [[Put]]/[[Delete]] cannot fail, for every comparefn
    (consistent or not, or none) sort returns the receiver and leaves a permutation of its elements — present
    values and holes alike are only moved, never lost, duplicated or invented. -/
theorem sort_permutation (E : Env) (cmp : SortCmp) (s : List (Option Val)) :
    ∃ s', sort tOps E true cmp s = .ok (.val .recv) s' ∧ s'.Perm s ∧ s'.length = s.length := by
  simp only [sort, Bool.not_true, Bool.false_eq_true, if_false]
  by_cases h1 : tOps.len s > 1
  · simp only [h1, if_true, bind, M.bind]
    have hlen : tOps.len s = s.length := rfl
    obtain ⟨s', e, r⟩ := quick_good E cmp s (tOps.len s) 0 (tOps.len s - 1) s ⟨List.Perm.refl _, rfl⟩ (by omega)
    rw [e]
    exact ⟨s', rfl, r.1, r.2⟩
  · simp only [h1, if_false]
    exact ⟨s, rfl, List.Perm.refl _, rfl⟩


/-! ## Witness of the remaining deviation region (kernel-checked by `decide`) -/

/-- a small array-like used by the witness and the non-vacuity examples -/
structure W where
  len : Nat
  elems : List (Option Val)
  log : List (List Val) := []
  putOk : Bool := true
deriving DecidableEq

def wOps : Ops W where
  len := fun s => s.len
  has := fun s k => (s.elems.getD k none).isSome
  get := fun s k => (s.elems.getD k none).getD .undef
  put := fun k v s => if s.putOk then .ok () { s with elems := s.elems.set k (some v) } else .err .type s
  del := fun k s => .ok () { s with elems := s.elems.set k none }
  putLen := fun _ s => .ok () s
  call := fun args s => .ok .undef { s with log := args :: s.log }
  isArr := fun _ => true

def E0 : Env := { pn := fun _ => .nan, ts := fun _ => [] }

def retOf {σ : Type} : Res σ Ret → Option Ret
  | .ok r _ => some r
  | .err _ _ => none

/-- splice_one_argument: [1].splice(0) — by the letter of ES5.1 nothing is removed -/
example : retOf (splice wOps E0 [.int 0] ⟨1, [some (.int 1)], [], true⟩) = some (.arr [some (.int 1)])
    ∧ retOf (Spec.splice wOps E0 [.int 0] ⟨1, [some (.int 1)], [], true⟩) = some (.arr []) := by decide

/-- the cases that used to deviate now agree: "01" is no index; holes stay holes; splice() removes nothing -/
example : stringToArrayIndexRaw [48, 49] = -1 ∧ Spec.arrayIndex? [48, 49] = none := by decide
example : retOf (slice wOps E0 [] ⟨2, [some (.int 1), none], [], true⟩) = some (.arr [some (.int 1), none]) := by decide
example : retOf (splice wOps E0 [] ⟨1, [some (.int 1)], [], true⟩) = some (.arr []) := by decide

def intCmp : Val → Val → Int
  | .int a, .int b => if a < b then -1 else if a > b then 1 else 0
  | _, _ => 0

/-- non-vacuity of sort_permutation, and what the default sort does with undefined and holes -/
example : stateOf (sort tOps { pn := fun _ => .nan, ts := fun v => match v with | .int i => dec i.toNat | _ => [] } true none
      [some (.int 3), none, some (.int 10), some .undef, some (.int 2)])
    = [some (.int 10), some (.int 2), some (.int 3), some .undef, none] := by decide

example : stateOf (sort tOps E0 true (some intCmp) [some (.int 3), some (.int 1), some (.int 2)])
    = stateOf (Spec.sort tOps E0 true (some intCmp) [some (.int 3), some (.int 1), some (.int 2)]) := by decide

/-! ## The length invariant: consequences, transfer to §15.4.5.1, non-vacuity -/

/-- in observable terms: after any history, every own array-index property lies below `length` -/
theorem length_gt_every_index (E : Env) (ops : List HOp) (o : Obj) (h : WFArr o) (n : Nat) (hn : n < 2^32 - 1)
    (hp : (lookup (.idx n) (runHist E ops o).props).isSome = true) : n < arrLength (runHist E ops o) := by
  obtain ⟨_, m, w, hl, _, hb⟩ := length_invariant E ops o h
  rw [arrLength_of _ m w hl]
  exact hb n hn hp

/-- §15.4.5.1 step 3.l, completed: the specification's truncation loop leaves no element in [newLen, oldLen) -/
theorem truncateLoop_deletes (E : Env) (newLen : Nat) (d : Desc) (nw throw : Bool) (cnt : Nat) (o o' : Obj)
    (h : Spec.truncateLoop E newLen d nw throw cnt o = .ok none o') :
    (∀ n, newLen ≤ n → n < newLen + cnt → lookup (.idx n) o'.props = none) ∧
    (∀ k, (∀ n, newLen ≤ n → n < newLen + cnt → k ≠ .idx n) → lookup k o'.props = lookup k o.props) := by
  rw [← shrinkLoop_refines] at h
  exact shrinkLoop_deletes E newLen d nw throw cnt o o' h

/-- §15.4.5.1 step 3.l.iii: the specification's loop, too, stops at the first non-configurable element with
    length = its index + 1 (transferred from the model through `shrinkLoop_refines`) -/
theorem truncateLoop_stops (E : Env) (N : Nat) (d : Desc) (nw t : Bool) (hc : Cok d) (cnt : Nat) (o1 o2 : Obj)
    (hl : LenProp o1 N true)
    (h : (∃ b, Spec.truncateLoop E N d nw t cnt o1 = .ok (some b) o2) ∨ (∃ e, Spec.truncateLoop E N d nw t cnt o1 = .err e o2)) :
    ∃ l p, N ≤ l ∧ l < N + cnt ∧ lookup (.idx l) o1.props = some p ∧ p.c = false ∧
      (∀ i, l < i → i < N + cnt →
        lookup (.idx i) o2.props = none ∧ ∀ q, lookup (.idx i) o1.props = some q → q.c = true) ∧
      (∃ w', LenProp o2 (l + 1) w') ∧
      (∀ k, k ≠ .length → (∀ i, l < i → i < N + cnt → k ≠ .idx i) → lookup k o2.props = lookup k o1.props) := by
  rw [← shrinkLoop_refines] at h
  exact shrinkLoop_stops E N d nw t hc cnt o1 o2 hl h

/-- `[]` -/
def emptyArr : Obj := { isArr := true, ext := true, props := [(.length, ⟨.int 0, true, false, false⟩)], proto := [] }

theorem wf_empty : WFArr emptyArr :=
  ⟨rfl, 0, true, rfl, by decide, fun n _ h => by simp [emptyArr, lookup] at h⟩

/-- non-vacuity: the invariant holds after a history that uses a non-canonical numeral as an ordinary name,
    pins an element, shrinks length past it (stopping there), freezes length and pushes on -/
example : WFArr (runHist E0
    [.put (.name [48, 51]) .null false,                                  -- a["03"] = null : a plain property
     .put (.idx 3) .null false,
     .define (.idx 1) ⟨some (.bool true), some true, some true, some false⟩ true,
     .put .length (.int 0) false,                                         -- a.length = 0 stops at index 1
     .define .length ⟨none, some false, none, none⟩ true,
     .put (.idx 7) .undef true, .delete (.idx 1) false] emptyArr) :=
  length_invariant E0 _ emptyArr wf_empty

/-- …and that history really ends with length 2 and the pinned element present -/
example : arrLength (runHist E0
    [.put (.name [48, 51]) .null false,
     .put (.idx 3) .null false,
     .define (.idx 1) ⟨some (.bool true), some true, some true, some false⟩ true,
     .put .length (.int 0) false] emptyArr) = 2 := by decide

/-! ## Non-vacuity of the hypotheses -/

/-- `HistOK`: non-canonical numerals are ordinary names now, so they are admitted too -/
example : HistOK
    [.put (.idx 3) .null false, .put (.name [48, 51]) .null false,
     .define (.idx 1) ⟨some (.bool true), some true, some true, some false⟩ true,
     .put .length (.int 0) false, .delete (.idx 1) false] := by
  intro op hop
  simp only [List.mem_cons, List.mem_nil_iff, or_false] at hop
  rcases hop with h | h | h | h | h <;> subst h
  · trivial
  · show Spec.arrayIndex? [48, 51] = none; decide
  · trivial
  · trivial
  · trivial

example : WFv (.num (.fin true 3 0)) ∧ WFv (.int (-5)) ∧ (5 : Nat) < 2^62 :=
  ⟨trivial, by simp [WFv, minInt64, maxInt64], by decide⟩

end OttoVerif.C08.Thm
