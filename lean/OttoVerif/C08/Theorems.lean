/-  C08/Theorems — the ledger for property C08 (every theorem here is audited).  Placeholder. -/
namespace OttoVerif.C08.Thm
end OttoVerif.C08.Thm
