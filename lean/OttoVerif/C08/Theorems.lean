/-
  C08/Theorems — the ledger for property C08 (every theorem here is audited).

  Layers:  (1) conversions and index arithmetic (toBool, strict equality, valueToRangeIndex);
           (2) the object layer (objectDefineOwnProperty / arrayDefineOwnProperty / objectPut / objectDelete
               against ES5 8.12 and 15.4.5.1) and the length invariant over all histories;
           (3) the Array.prototype methods, generic in the object operations `Ops` (so they hold for
               every array and array-like, and for callbacks that mutate the receiver).
  Deviation regions are stated as hypotheses; each has a kernel-checked witness at the end.
-/
import OttoVerif.C08.Lemmas
namespace OttoVerif.C08.Thm
open OttoVerif.C08 OttoVerif.F64


variable {σ : Type}

theorem moveStep_eq (O : Ops σ) (a b : Nat) : moveStep O a b = Spec.moveOrDelete O a b := rfl

theorem pushLoop_eq (O : Ops σ) (items : List Val) (n : Nat) : pushLoop O items n = Spec.pushItems O items n := by
  induction items generalizing n with
  | nil => rfl
  | cons x xs ih => simp only [pushLoop, Spec.pushItems, ih]

theorem pushCore_eq (O : Ops σ) (n : Nat) (items : List Val) : pushCore O n items = Spec.pushCore O n items := by
  simp only [pushCore, Spec.pushCore, pushLoop_eq]

theorem push_refines (O : Ops σ) (items : List Val) : push O items = Spec.push O items := by
  simp only [push, Spec.push, pushCore_eq]

theorem pop_refines (O : Ops σ) : pop O = Spec.pop O := rfl

theorem shift_refines (O : Ops σ) : shift O = Spec.shift O := rfl

theorem putItems_eq (O : Ops σ) (items : List Val) (n : Nat) : putItems O items n = Spec.putFrom O items n := by
  induction items generalizing n with
  | nil => rfl
  | cons x xs ih => simp only [putItems, Spec.putFrom, ih]

theorem unshift_refines (O : Ops σ) (items : List Val) : unshift O items = Spec.unshift O items := by
  have h : ∀ len, unshiftCore O len items = Spec.unshiftCore O len items := by
    intro len; funext s; simp only [unshiftCore, Spec.unshiftCore, putItems_eq]; rfl
  simp only [unshift, Spec.unshift, h]

theorem toBool_eq (v : Val) : toBool v = Spec.toBoolean v := by
  cases v with
  | str s => cases s <;> simp [toBool, Spec.toBoolean]
  | _ => simp [toBool, Spec.toBoolean, bne, BEq.beq]

/-- the callback builtins: `length` is read, then IsCallable is tested (§15.4.4.16 steps 2–4) -/
theorem iterate_refines (O : Ops σ) (c : Bool) (coreM : Nat → M σ Ret) (coreS : Nat → Bool → M σ Ret)
    (h1 : ∀ len, coreM len = coreS len true) (h2 : ∀ len s, coreS len false s = .err .type s) :
    iterate O c coreM = (do let len ← readLen O; coreS len c) := by
  cases c with
  | true => simp only [iterate, Bool.not_true, Bool.false_eq_true, if_false, h1]
  | false =>
    funext s
    simp only [iterate, Bool.not_false, if_true, bind, M.bind]
    cases readLen O s with
    | err e s1 => rfl
    | ok len s1 => simp only [M.throw, h2]

theorem every_refines (O : Ops σ) (c : Bool) : every O c = Spec.every O c := by
  apply iterate_refines O c
  · intro len; funext s; simp only [everyCore, Spec.everyCore, toBool_eq]; rfl
  · intro len s; rfl

theorem some_refines (O : Ops σ) (c : Bool) : some_ O c = Spec.some_ O c := by
  apply iterate_refines O c
  · intro len; funext s; simp only [someCore, Spec.someCore, toBool_eq]; rfl
  · intro len s; rfl

theorem forEach_refines (O : Ops σ) (c : Bool) : forEach O c = Spec.forEach O c := by
  apply iterate_refines O c
  · intro len; funext s; simp only [forEachCore, Spec.forEachCore]; rfl
  · intro len s; rfl

theorem filter_refines (O : Ops σ) (c : Bool) : filter O c = Spec.filter O c := by
  apply iterate_refines O c
  · intro len; funext s; simp only [filterCore, Spec.filterCore, toBool_eq]; rfl
  · intro len s; rfl

theorem toFloat_eq (E : Env) (v : Val) : toFloat E v = Spec.toNumber E v := by
  cases v <;> rfl

/-- the saturated int64 that `number()` produces from the ES5 integer -/
def sat : Spec.IntInf → Int
  | .fin i => if i ≥ 2^63 then maxInt64 else if i ≤ -(2^63 : Int) then minInt64 else i
  | .pinf => maxInt64
  | .ninf => minInt64

/-- values whose integer payload is a Go int64 -/
def WFv : Val → Prop
  | .int i => minInt64 ≤ i ∧ i ≤ maxInt64
  | _ => True

theorem toI64_sat (E : Env) (v : Val) (h : WFv v) : toI64 E v = sat (Spec.toInteger E v) := by
  cases v with
  | int i =>
    simp only [WFv, minInt64, maxInt64] at h
    simp only [toI64, Spec.toInteger, sat, minInt64, maxInt64]
    split <;> (try split) <;> omega
  | undef | null | bool _ | num _ | str _ | recv | obj _ =>
    simp only [toI64, Spec.toInteger, toFloat_eq]
    cases Spec.toNumber E _ with
    | nan => simp [sat]
    | inf s => cases s <;> simp [sat]
    | fin s m e => simp only [sat]

/-- valueToRangeIndex with negativeIsZero = false is the relative-index clamp of §15.4.4.10 -/
theorem range_index (E : Env) (v : Val) (len : Nat) (hv : WFv v) (hlen : len < 2^62) :
    valueToRangeIndex E v len false = (Spec.relIndex (Spec.toInteger E v) len : Nat) := by
  simp only [valueToRangeIndex, toI64_sat E v hv]
  cases Spec.toInteger E v with
  | pinf => simp only [sat, rangeIndex, Spec.relIndex, maxInt64]; simp; omega
  | ninf => simp only [sat, rangeIndex, Spec.relIndex, minInt64]; simp; omega
  | fin i =>
    simp only [sat, rangeIndex, Spec.relIndex, maxInt64, minInt64]
    simp only [Bool.false_eq_true, if_false]
    repeat' (first | omega | split)

/-- valueToRangeIndex with negativeIsZero = true is min(max(ToInteger(v), 0), len) -/
def clampPos (r : Spec.IntInf) (len : Nat) : Nat := Spec.clamp0 r len

theorem range_index_nz (E : Env) (v : Val) (len : Nat) (hv : WFv v) (hlen : len < 2^62) :
    valueToRangeIndex E v len true = (clampPos (Spec.toInteger E v) len : Nat) := by
  simp only [valueToRangeIndex, toI64_sat E v hv]
  cases Spec.toInteger E v <;>
    simp only [sat, rangeIndex, clampPos, Spec.clamp0, maxInt64, minInt64, ↓reduceIte] <;>
    repeat' (first | omega | split)



theorem argAt_len1 (args : List Val) (h : args.length = 1) : argAt args 1 = .undef := by
  match args, h with
  | [a], _ => rfl

theorem argAt_wf (args : List Val) (h : ∀ a ∈ args, WFv a) (i : Nat) : WFv (argAt args i) := by
  unfold argAt
  cases hi : args[i]? with
  | none => simp [WFv]
  | some a => simp only [Option.getD]; exact h a (List.mem_of_getElem? hi)

/-- the slice bounds computed by rangeStartEnd are those of §15.4.4.10 steps 5–8 -/
theorem rangeStartEnd_eq (E : Env) (args : List Val) (len : Nat) (hargs : ∀ a ∈ args, WFv a) (hlen : len < 2^62) :
    rangeStartEnd E args len =
      (((Spec.relIndex (Spec.toInteger E (argAt args 0)) len : Nat) : Int),
       ((Spec.relIndex (if argAt args 1 = .undef then .fin len else Spec.toInteger E (argAt args 1)) len : Nat) : Int)) := by
  have hrel : Spec.relIndex (.fin len) len = len := by
    simp only [Spec.relIndex]; repeat' (first | omega | split)
  simp only [rangeStartEnd, range_index E _ len (argAt_wf args hargs 0) hlen]
  by_cases h1 : args.length = 1
  · simp [h1, argAt_len1 args h1, hrel]
  · simp only [h1, if_false]
    by_cases h2 : argAt args 1 = .undef
    · simp [h2, hrel]
    · simp [h2, range_index E _ len (argAt_wf args hargs 1) hlen]

/-- the two side conditions of the index arithmetic: converted arguments are well-formed values (an integer payload
    is a Go int64) and lengths stay below 2^62 (they are uint32 in otto) -/
def ConvWF (O : Ops σ) : Prop := ∀ v s p s', O.conv v s = .ok p s' → WFv p
def LenSmall (O : Ops σ) : Prop := ∀ s, O.len s < 2^62

theorem wfv_numPrim (p : Val) (h : WFv p) : WFv (numPrim p) := by
  unfold numPrim; split
  · trivial
  · exact h

/-- slice on converted arguments = §15.4.4.10 steps 5–10 -/
theorem sliceCore_refines (O : Ops σ) (E : Env) (len : Nat) (args : List Val) (s : σ)
    (hargs : ∀ a ∈ args, WFv a) (hlen : len < 2^62) :
    sliceCore O E len args s = Spec.sliceCore O E len args s := by
  simp only [sliceCore, Spec.sliceCore, rangeStartEnd_eq E args len hargs hlen]
  generalize Spec.relIndex (Spec.toInteger E (argAt args 0)) len = k
  generalize Spec.relIndex (if argAt args 1 = .undef then .fin len else Spec.toInteger E (argAt args 1)) len = final
  by_cases hge : (k : Int) ≥ (final : Int)
  · have : final - k = 0 := by omega
    simp [hge, this]
  · have h1 : ((final : Int) - (k : Int)).toNat = final - k := by omega
    simp only [hge, if_false, h1, Int.toNat_natCast]
    congr 2
    apply List.map_congr_left
    intro n _
    simp [Nat.add_comm n k]

theorem wf_pair (a b : Val) (wa : WFv a) (wb : WFv b) : ∀ x ∈ [a, b], WFv x := by
  intro x hx
  simp only [List.mem_cons, List.mem_nil_iff, or_false] at hx
  rcases hx with h | h
  · subst h; exact wa
  · subst h; exact wb

theorem wf_single (a : Val) (wa : WFv a) : ∀ x ∈ [a], WFv x := by
  intro x hx
  simp only [List.mem_cons, List.mem_nil_iff, or_false] at hx
  subst hx; exact wa

theorem specSliceCore_one (O : Ops σ) (E : Env) (len : Nat) (p0 : Val) :
    Spec.sliceCore O E len [p0] = Spec.sliceCore O E len [p0, .undef] := by
  funext s; simp [Spec.sliceCore, argAt]

/-- **slice = §15.4.4.10**, with the order of the observable steps: length, ToInteger(start), ToInteger(end) -/
theorem slice_refines (O : Ops σ) (E : Env) (args : List Val) (hconv : ConvWF O) (hlen : LenSmall O) :
    slice O E args = Spec.slice O E args := by
  funext s
  simp only [slice, Spec.slice, readLen, sliceArgs, bind, M.bind, M.read]
  cases h0 : O.lenRead s with
  | err e s1 => rfl
  | ok u s1 =>
    simp only []
    cases h1 : O.conv (argAt args 0) s1 with
    | err e s2 => rfl
    | ok p0 s2 =>
      have w0 : WFv p0 := hconv _ _ _ _ h1
      simp only []
      by_cases hl1 : args.length = 1
      · simp only [hl1, if_true, argAt_len1 args hl1, pure, M.pure]
        rw [sliceCore_refines O E _ [p0] s2 (wf_single p0 w0) (hlen s1), specSliceCore_one]
        rfl
      · simp only [hl1, if_false]
        by_cases hu : argAt args 1 = .undef
        · simp only [hu, if_true, pure, M.pure]
          exact sliceCore_refines O E _ _ s2 (wf_pair p0 .undef w0 trivial) (hlen s1)
        · simp only [hu, if_false, bind, M.bind]
          cases h2 : O.conv (argAt args 1) s2 with
          | err e s3 => rfl
          | ok p1 s3 =>
            have w1 : WFv (numPrim p1) := wfv_numPrim p1 (hconv _ _ _ _ h2)
            simp only [pure, M.pure]
            exact sliceCore_refines O E _ _ s3 (wf_pair p0 _ w0 w1) (hlen s1)

/-- concat = §15.4.4.4 -/
theorem concat_refines (O : Ops σ) (items : List CArg) : concat O items = Spec.concat O items := by
  funext s
  have h : concatItem = Spec.concatItem := by funext it; cases it <;> rfl
  simp only [concat, Spec.concat, h]

/-- reduce = §15.4.4.21 -/
theorem reduce_refines (O : Ops σ) (c : Bool) (args : List Val) :
    reduce O c args = Spec.reduce O c args := by
  apply iterate_refines O c _ (fun len c => Spec.reduceCore O len c args)
  · intro len; funext s
    simp only [reduceCore, Spec.reduceCore, Bool.not_true, Bool.false_eq_true, if_false]
    by_cases ha : args.length > 0
    · have ha' : ¬ args.length = 0 := by omega
      simp [ha, ha']
    · have ha' : args.length = 0 := by omega
      by_cases hl : len = 0
      · simp [ha, ha', hl]
      · have hl' : len > 0 := by omega
        cases hk : searchUp (O.has s) 0 len with
        | none => simp [ha, ha', hl, hl']
        | some k => simp [ha, ha', hl, hl']
  · intro len s; rfl

/-- reduceRight = §15.4.4.22 -/
theorem reduceRight_refines (O : Ops σ) (c : Bool) (args : List Val) :
    reduceRight O c args = Spec.reduceRight O c args := by
  apply iterate_refines O c _ (fun len c => Spec.reduceRightCore O len c args)
  · intro len; funext s
    simp only [reduceRightCore, Spec.reduceRightCore, Bool.not_true, Bool.false_eq_true, if_false]
    by_cases ha : args.length > 0
    · have ha' : ¬ args.length = 0 := by omega
      simp [ha, ha']
    · have ha' : args.length = 0 := by omega
      by_cases hl : len = 0
      · simp [ha, ha', hl]
      · have hl' : len > 0 := by omega
        cases hk : searchDown (O.has s) len with
        | none => simp [ha, ha', hl, hl']
        | some k => simp [ha, ha', hl, hl']
  · intro len s; rfl

/-- map = §15.4.4.19 -/
theorem map_refines (O : Ops σ) (c : Bool) : map O c = Spec.map O c := by
  apply iterate_refines O c
  · intro len; funext s; simp only [mapCore, Spec.mapCore]; rfl
  · intro len s; rfl

/-! ## join -/

theorem foldl_join_prefix (sep p b : List Nat) (l : List (List Nat)) :
    l.foldl (fun r x => (r ++ sep) ++ x) (p ++ b) = p ++ l.foldl (fun r x => (r ++ sep) ++ x) b := by
  induction l generalizing b with
  | nil => rfl
  | cons x xs ih =>
    simp only [List.foldl_cons]
    have : (p ++ b ++ sep) ++ x = p ++ ((b ++ sep) ++ x) := by simp [List.append_assoc]
    rw [this, ih]

/-- strings.Join is the left fold of §15.4.4.5 steps 7–10 -/
theorem goJoin_foldl (a : List Nat) (l : List (List Nat)) (sep : List Nat) :
    goJoin (a :: l) sep = l.foldl (fun r x => (r ++ sep) ++ x) a := by
  induction l generalizing a with
  | nil => rfl
  | cons b l ih =>
    simp only [goJoin, List.foldl_cons]
    rw [ih b]
    have := foldl_join_prefix sep (a ++ sep) b l
    simp only [List.append_assoc] at this ⊢
    exact this.symm

theorem goJoin_snoc (a : List Nat) (l : List (List Nat)) (x sep : List Nat) :
    goJoin (a :: (l ++ [x])) sep = (goJoin (a :: l) sep ++ sep) ++ x := by
  rw [goJoin_foldl, goJoin_foldl, List.foldl_append]; rfl

/-- the loop shared by join and toLocaleString: the list that strings.Join receives at the end is the running string R
    of §15.4.4.5 / §15.4.4.3 step 10, whatever the element conversion does to the state -/
theorem collectLoop_refines (O : Ops σ) (elem : Val → M σ (List Nat)) (sep : List Nat) (n : Nat) :
    ∀ (lo : Nat) (a : List Nat) (l : List (List Nat)) (s : σ),
    (foldUp (collectStep O elem) lo n (a :: l) >>= fun sl => (pure (Ret.val (.str (goJoin sl sep))) : M σ Ret)) s
    = (foldUp (Spec.appendNext O elem sep) lo n (goJoin (a :: l) sep) >>= fun r => (pure (Ret.val (.str r)) : M σ Ret)) s := by
  induction n with
  | zero => intro lo a l s; rfl
  | succ n ih =>
    intro lo a l s
    simp only [foldUp, bind, M.bind, collectStep, Spec.appendNext]
    cases h : elem (O.get s lo) s with
    | err e s' => rfl
    | ok x s' =>
      have := ih (lo + 1) a (l ++ [x]) s'
      simp only [bind, M.bind, goJoin_snoc] at this
      simp only [pure, M.pure, List.cons_append]
      exact this

/-- the whole loop, from the empty list -/
theorem collect_refines (O : Ops σ) (elem : Val → M σ (List Nat)) (sep : List Nat) (m : Nat) (s : σ) :
    (foldUp (collectStep O elem) 0 (m + 1) [] >>= fun sl => (pure (Ret.val (.str (goJoin sl sep))) : M σ Ret)) s
    = ((fun s => elem (O.get s 0) s) >>= fun r0 => foldUp (Spec.appendNext O elem sep) 1 m r0
        >>= fun r => (pure (Ret.val (.str r)) : M σ Ret)) s := by
  simp only [foldUp, bind, M.bind, collectStep]
  cases h : elem (O.get s 0) s with
  | err e s' => rfl
  | ok x s2 =>
    have := collectLoop_refines O elem sep m 1 x [] s2
    simp only [bind, M.bind, goJoin] at this
    simp only [pure, M.pure, List.nil_append, Nat.zero_add]
    exact this

theorem joinElem_eq (O : Ops σ) (E : Env) : joinElem O E = Spec.joinElement O E := by
  funext v; cases v <;> rfl

theorem joinCore_refines (O : Ops σ) (E : Env) (len : Nat) (args : List Val) :
    joinCore O E len args = Spec.joinCore O E len args := by
  funext s
  simp only [joinCore, Spec.joinCore]
  have hsep : (if argAt args 0 ≠ Val.undef then E.ts (argAt args 0) else [44])
      = (if argAt args 0 = Val.undef then [44] else E.ts (argAt args 0)) := by
    by_cases h : argAt args 0 = .undef <;> simp [h]
  rw [hsep]
  by_cases h0 : len = 0
  · simp [h0]
  · obtain ⟨m, hm⟩ : ∃ m, len = m + 1 := ⟨len - 1, by omega⟩
    subst hm
    simp only [Nat.add_one_ne_zero, if_false, Nat.add_sub_cancel, joinElem_eq]
    have := collect_refines O (Spec.joinElement O E) (if argAt args 0 = Val.undef then [44] else E.ts (argAt args 0)) m s
    simp only [bind, M.bind] at this ⊢
    exact this

/-- a conversion that does nothing: the argument is a primitive -/
def Prim (O : Ops σ) (v : Val) : Prop := ∀ s, O.conv v s = .ok v s

/-- **join = §15.4.4.5**, with the order: length, then ToString(separator), then per element [[Get]] and ToString -/
theorem join_refines (O : Ops σ) (E : Env) (args : List Val) : join O E args = Spec.join O E args := by
  funext s
  simp only [join, Spec.join, joinCore_refines]
  by_cases hu : argAt args 0 = .undef
  · simp only [hu, ne_eq, not_true_eq_false, if_false, if_true]
  · simp only [hu, ne_eq, not_false_eq_true, if_true, if_false]

/-- **toString = §15.4.4.2**: the `join` found on the receiver is called (built-in join, a script function, or
    Object.prototype.toString when it is not callable) with no arguments -/
theorem toString_refines (O : Ops σ) (E : Env) (args : List Val) : toStringM O E args = Spec.toStringS O E args := by
  funext s
  simp only [toStringM, Spec.toStringS, bind, M.bind]
  cases h : O.joinGet s with
  | err e s' => rfl
  | ok k s1 => cases k <;> simp only [join_refines] <;> rfl

/-! ## toLocaleString -/

theorem localeElem_eq (O : Ops σ) (E : Env) : localeElem O E = Spec.localeElement O E := by
  funext v; cases v <;> rfl

/-- **toLocaleString = §15.4.4.3** for every receiver and every argument list: the length is read, then every element
    is read and its toLocaleString called with an empty argument list, in turn; the arguments are not used -/
theorem toLocaleString_refines (O : Ops σ) (E : Env) (args : List Val) :
    toLocaleStringM O E args = Spec.toLocaleStringS O E args := by
  funext s
  simp only [toLocaleStringM, Spec.toLocaleStringS, bind, M.bind]
  cases hl : readLen O s with
  | err e s' => rfl
  | ok len s1 =>
    simp only [toLocaleStringCore, Spec.toLocaleStringCore]
    by_cases h0 : len = 0
    · simp [h0]
    · obtain ⟨m, hm⟩ : ∃ m, len = m + 1 := ⟨len - 1, by omega⟩
      subst hm
      simp only [Nat.add_one_ne_zero, if_false, Nat.add_sub_cancel, localeElem_eq]
      have := collect_refines O (Spec.localeElement O E) [44] m s1
      simp only [bind, M.bind] at this ⊢
      exact this

/-! ## splice -/

/-- splice = §15.4.4.12 for every receiver and every argument list except the one-argument form
    (`splice_one_argument`: ES5.1 removes nothing there, otto and ES2015 remove up to the end) -/
theorem spliceCore_refines (O : Ops σ) (E : Env) (len : Nat) (args : List Val) (s : σ)
    (hargs : ∀ a ∈ args, WFv a) (hlen : len < 2^62) (hargc : args.length ≠ 1) :
    spliceCore O E len args s = Spec.spliceCore O E len args s := by
  have hstart := range_index E (argAt args 0) (len) (argAt_wf args hargs 0) hlen
  generalize hk : Spec.relIndex (Spec.toInteger E (argAt args 0)) (len) = start at hstart
  have hstart_le : start ≤ len := by
    rw [← hk]; simp only [Spec.relIndex]; repeat' (first | omega | split)
  have hcast : ((len : Nat) : Int) - (start : Int) = ((len - start : Nat) : Int) := by omega
  generalize hd : Spec.clamp0 (Spec.toInteger E (argAt args 1)) (len - start) = dc
  have hdc_le : dc ≤ len - start := by
    rw [← hd]; simp only [Spec.clamp0]; repeat' (first | omega | split)
  -- otto's deleteCount is the specification's actualDeleteCount
  have hdc : (if args.length > 1 then valueToRangeIndex E (argAt args 1) ((len - start : Nat) : Int) true
      else if args.length = 0 then 0 else ((len - start : Nat) : Int)) = ((dc : Nat) : Int) := by
    by_cases h2 : args.length > 1
    · simp only [h2, if_true]
      have := range_index_nz E (argAt args 1) (len - start) (argAt_wf args hargs 1) (by omega)
      rw [this]; simp only [clampPos, hd]
    · have h0 : args.length = 0 := by omega
      simp only [h2, h0, if_false, if_true]
      have hnil : args = [] := List.eq_nil_of_length_eq_zero h0
      subst hnil
      rw [← hd]
      simp only [argAt, List.getElem?_nil, Option.getD_none, Spec.toInteger, Spec.toNumber, Spec.clamp0]
      repeat' (first | rfl | omega | split)
  simp only [spliceCore, Spec.spliceCore, hk, hstart, hcast, hdc, Int.toNat_natCast, hd]
  have hlenv : (Val.int ((len : Int) + ((args.drop 2).length : Nat) - (dc : Int)))
      = Val.int (((len - dc + (args.drop 2).length : Nat) : Nat) : Int) := by
    congr 1; omega
  rw [hlenv]
  by_cases h1 : (args.drop 2).length < dc
  · simp only [h1, if_true]
    have e3 : len - (len - dc + (args.drop 2).length) = dc - (args.drop 2).length := by omega
    simp only [e3, putItems_eq]
    rfl
  · simp only [h1, if_false]
    by_cases h2 : (args.drop 2).length > dc
    · simp only [h2, if_true, putItems_eq]; rfl
    · simp only [h2, if_false, putItems_eq]

/-! ## indexOf / lastIndexOf -/

def startVal : Option Nat → Int
  | none => -1
  | some k => k

/-- otto's normalised start index is the start of §15.4.4.14 steps 5–8 (−1 = "return −1") -/
theorem indexOf_start (n : Spec.IntInf) (len : Nat) (hl0 : 0 < len) (hlen : len < 2^62) :
    (if sat n < 0 then (if sat n + (len : Int) < 0 then 0 else sat n + (len : Int))
      else if sat n ≥ (len : Int) then -1 else sat n)
    = startVal (Spec.indexOfStart n len) := by
  cases n with
  | pinf => simp only [sat, maxInt64, Spec.indexOfStart, startVal]; repeat' (first | omega | split)
  | ninf => simp only [sat, minInt64, Spec.indexOfStart, startVal]; repeat' (first | omega | split)
  | fin i =>
    simp only [sat, maxInt64, minInt64, Spec.indexOfStart]
    by_cases h1 : i ≥ (len : Int)
    · simp only [h1, if_true, startVal]; repeat' (first | omega | split)
    · by_cases h2 : i ≥ 0
      · simp only [h1, h2, if_true, if_false, startVal]; repeat' (first | omega | split)
      · by_cases h3 : (len : Int) + i < 0
        · simp only [h1, h2, h3, if_true, if_false, startVal]; repeat' (first | omega | split)
        · simp only [h1, h2, h3, if_false, startVal]; repeat' (first | omega | split)

theorem indexOfStart_lt (n : Spec.IntInf) (len k : Nat) (h : Spec.indexOfStart n len = some k) (hl0 : 0 < len) : k < len := by
  cases n with
  | pinf => simp [Spec.indexOfStart] at h
  | ninf => simp [Spec.indexOfStart] at h; omega
  | fin i =>
    simp only [Spec.indexOfStart] at h
    by_cases h1 : i ≥ (len : Int)
    · simp [h1] at h
    · by_cases h2 : i ≥ 0
      · simp only [h1, h2, if_true, if_false] at h; injection h with h; omega
      · by_cases h3 : (len : Int) + i < 0
        · simp only [h1, h2, h3, if_true, if_false] at h; injection h with h; omega
        · simp only [h1, h2, h3, if_false] at h; injection h with h; omega

theorem indexOfCore_refines (O : Ops σ) (E : Env) (len : Nat) (args : List Val) (s : σ)
    (hargs : ∀ a ∈ args, WFv a) (hlen : len < 2^62) :
    indexOfCore O E len args s = Spec.indexOfCore O E len args s := by
  simp only [indexOfCore, Spec.indexOfCore]
  by_cases h0 : len = 0
  · simp [h0]
  · have hpos : ((len : Nat) : Int) > 0 := by omega
    simp only [hpos, if_true, h0, if_false]
    have hn : (if args.length > 1 then toI64 E (argAt args 1) else 0)
        = sat (if args.length > 1 then Spec.toInteger E (argAt args 1) else .fin 0) := by
      split
      · exact toI64_sat E _ (argAt_wf args hargs 1)
      · simp [sat, maxInt64, minInt64]
    rw [hn]
    generalize (if args.length > 1 then Spec.toInteger E (argAt args 1) else Spec.IntInf.fin 0) = n
    rw [indexOf_start n (len) (by omega) hlen]
    cases hst : Spec.indexOfStart n (len) with
    | none => simp [startVal]
    | some k =>
      have hk := indexOfStart_lt n (len) k hst (by omega)
      have h1 : ((k : Nat) : Int) ≥ 0 ∧ ((k : Nat) : Int) < ((len : Nat) : Int) := by omega
      have h2 : (((len : Nat) : Int) - (k : Int)).toNat = len - k := by omega
      simp only [startVal, h1, and_self, if_true, h2, Int.toNat_natCast, strictEquals_eq]
      cases List.find? _ (List.range (len - k)) with
      | none => rfl
      | some j => simp

/-- the number of positions otto's lastIndexOf examines, as a function of the (negative-adjusted) fromIndex -/
def lastCount (i' : Int) (len : Nat) : Nat :=
  if i' ≥ (len : Int) then len else if 0 > i' then 0 else (i' + 1).toNat

theorem lastIndexOf_count (n : Spec.IntInf) (len : Nat) (hlen : len < 2^62) :
    lastCount (if 0 > sat n then sat n + (len : Int) else sat n) len = Spec.lastIndexOfCount n len := by
  cases n with
  | pinf =>
    have h1 : ¬ ((0:Int) > 2^63 - 1) := by omega
    simp only [sat, maxInt64, Spec.lastIndexOfCount, lastCount, h1, if_false]; repeat' (first | omega | split)
  | ninf =>
    have h1 : (0:Int) > -(2^63) := by omega
    simp only [sat, minInt64, Spec.lastIndexOfCount, lastCount, h1, if_true]; repeat' (first | omega | split)
  | fin i =>
    simp only [sat, maxInt64, minInt64, Spec.lastIndexOfCount, lastCount]
    by_cases h1 : i ≥ 0
    · by_cases h2 : i < (len : Int) - 1
      · simp only [h1, h2, if_true]; repeat' (first | omega | split)
      · simp only [h1, h2, if_true, if_false]; repeat' (first | omega | split)
    · simp only [h1, if_false]; repeat' (first | omega | split)

/-- lastIndexOf on a converted fromIndex = §15.4.4.15 steps 4–9 -/
theorem lastIndexOfCore_refines (O : Ops σ) (E : Env) (len : Nat) (args : List Val) (s : σ)
    (hargs : ∀ a ∈ args, WFv a) (hlen : len < 2^62) :
    lastIndexOfCore O E len args s = Spec.lastIndexOfCore O E len args s := by
  simp only [lastIndexOfCore, Spec.lastIndexOfCore]
  have hn : (if args.length > 1 then toI64 E (argAt args 1) else ((len : Nat) : Int) - 1)
      = sat (if args.length > 1 then Spec.toInteger E (argAt args 1) else .fin (((len : Nat) : Int) - 1)) := by
    split
    · exact toI64_sat E _ (argAt_wf args hargs 1)
    · simp only [sat, maxInt64, minInt64]; repeat' (first | omega | split)
  rw [hn]
  generalize (if args.length > 1 then Spec.toInteger E (argAt args 1) else Spec.IntInf.fin (((len : Nat) : Int) - 1)) = n
  have hc := lastIndexOf_count n (len) hlen
  generalize (if 0 > sat n then sat n + (len : Int) else sat n) = i' at hc
  -- otto's three-way branch is one downward search over `lastCount i' len` positions
  have hmodel : ∀ P : Nat → Bool,
      (if i' ≥ ((len : Nat) : Int) then
          (Res.ok (indexRet (searchDown P ((((len : Nat) : Int) - 1) + 1).toNat)) s : Res σ Ret)
        else if 0 > i' then .ok (indexRet none) s
        else .ok (indexRet (searchDown P (i' + 1).toNat)) s)
      = .ok (indexRet (searchDown P (lastCount i' (len)))) s := by
    intro P
    simp only [lastCount]
    by_cases h1 : i' ≥ ((len : Nat) : Int)
    · have : ((((len : Nat) : Int) - 1) + 1).toNat = len := by omega
      simp only [h1, if_true, this]
    · by_cases h2 : 0 > i'
      · simp only [h1, h2, if_true, if_false, searchDown]
      · simp only [h1, h2, if_false]
  rw [hmodel, hc]
  simp only [strictEquals_eq]
  have hz : Spec.lastIndexOfCount n 0 = 0 := by
    cases n <;> simp only [Spec.lastIndexOfCount] <;> repeat' (first | rfl | omega | split)
  by_cases h0 : len = 0
  · simp only [h0, if_true, hz, searchDown]; rfl
  · simp only [h0, if_false]

theorem wf_set (args : List Val) (i : Nat) (p : Val) (h : ∀ a ∈ args, WFv a) (hp : WFv p) : ∀ a ∈ args.set i p, WFv a := by
  intro a ha
  rcases List.mem_or_eq_of_mem_set ha with h1 | h1
  · exact h a h1
  · subst h1; exact hp

/-- **indexOf = §15.4.4.14**, including the order: length, (nothing more if it is 0), ToInteger(fromIndex) -/
theorem indexOf_refines (O : Ops σ) (E : Env) (args : List Val) (hconv : ConvWF O) (hlen : LenSmall O)
    (hargs : ∀ a ∈ args, WFv a) : indexOf O E args = Spec.indexOf O E args := by
  funext s
  simp only [indexOf, Spec.indexOf, readLen, bind, M.bind, M.read]
  cases h0 : O.lenRead s with
  | err e s1 => rfl
  | ok u s1 =>
    simp only []
    by_cases hz : O.len s1 = 0
    · have : ¬ (O.len s1 > 0) := by omega
      simp only [hz, this, if_true, if_false, pure, M.pure]
      exact indexOfCore_refines O E 0 args s1 hargs (by omega)
    · have : O.len s1 > 0 := by omega
      simp only [hz, this, if_true, if_false, convAt]
      by_cases h1 : args.length > 1
      · simp only [h1, if_true, bind, M.bind]
        cases hc : O.conv (argAt args 1) s1 with
        | err e s2 => rfl
        | ok p s2 =>
          simp only [pure, M.pure]
          exact indexOfCore_refines O E _ _ s2 (wf_set args 1 p hargs (hconv _ _ _ _ hc)) (hlen s1)
      · simp only [h1, if_false, pure, M.pure]
        exact indexOfCore_refines O E _ args s1 hargs (hlen s1)

/-- **lastIndexOf = §15.4.4.15**, including the order: length, (nothing more if it is 0), ToInteger(fromIndex) -/
theorem lastIndexOf_refines (O : Ops σ) (E : Env) (args : List Val) (hconv : ConvWF O) (hlen : LenSmall O)
    (hargs : ∀ a ∈ args, WFv a) : lastIndexOf O E args = Spec.lastIndexOf O E args := by
  funext s
  simp only [lastIndexOf, Spec.lastIndexOf, readLen, bind, M.bind, M.read]
  cases h0 : O.lenRead s with
  | err e s1 => rfl
  | ok u s1 =>
    simp only []
    by_cases hz : O.len s1 = 0
    · simp only [hz, if_true, pure, M.pure]
      exact lastIndexOfCore_refines O E 0 args s1 hargs (by omega)
    · simp only [hz, if_false, convAt]
      by_cases h1 : args.length > 1
      · simp only [h1, if_true, bind, M.bind]
        cases hc : O.conv (argAt args 1) s1 with
        | err e s2 => rfl
        | ok p s2 =>
          simp only [pure, M.pure]
          exact lastIndexOfCore_refines O E _ _ s2 (wf_set args 1 p hargs (hconv _ _ _ _ hc)) (hlen s1)
      · simp only [h1, if_false, pure, M.pure]
        exact lastIndexOfCore_refines O E _ args s1 hargs (hlen s1)

theorem specSpliceCore_nil (O : Ops σ) (E : Env) (len : Nat) :
    Spec.spliceCore O E len [] = Spec.spliceCore O E len [.undef, .undef] := by
  funext s; simp [Spec.spliceCore, argAt]

theorem set_set_two (args : List Val) (p0 p1 : Val) (h : args.length > 1) :
    (args.set 0 p0).set 1 p1 = p0 :: p1 :: args.drop 2 := by
  match args, h with
  | a :: b :: r, _ => simp

theorem argAt_set_other (args : List Val) (p : Val) : argAt (args.set 0 p) 1 = argAt args 1 := by
  match args with
  | [] => rfl
  | [a] => rfl
  | a :: b :: r => rfl

/-- **splice = §15.4.4.12** with the order length, ToInteger(start), ToInteger(deleteCount), for every argument
    count except exactly one (`splice_one_argument`) -/
theorem splice_refines (O : Ops σ) (E : Env) (args : List Val) (hconv : ConvWF O) (hlen : LenSmall O)
    (hargs : ∀ a ∈ args, WFv a) (hargc : args.length ≠ 1) (hundef : Prim O .undef) :
    splice O E args = Spec.splice O E args := by
  funext s
  simp only [splice, Spec.splice, readLen, bind, M.bind, M.read]
  cases h0 : O.lenRead s with
  | err e s1 => rfl
  | ok u s1 =>
    simp only []
    by_cases hz : args.length = 0
    · have hnil : args = [] := List.eq_nil_of_length_eq_zero hz
      subst hnil
      simp only [convAt, List.length_nil, Nat.lt_irrefl, gt_iff_lt, Nat.not_lt_zero, if_false, pure, M.pure, M.bind, argAt,
        List.getElem?_nil, Option.getD_none, hundef s1, List.drop_nil]
      rw [spliceCore_refines O E _ [] s1 (by intro a ha; cases ha) (hlen s1) (by simp), specSpliceCore_nil]
    · have h2 : args.length > 1 := by omega
      have h1 : args.length > 0 := by omega
      simp only [convAt, h1, if_true, bind, M.bind]
      cases hc0 : O.conv (argAt args 0) s1 with
      | err e s2 => rfl
      | ok p0 s2 =>
        have hl' : (args.set 0 p0).length > 1 := by simpa using h2
        simp only [pure, M.pure, hl', if_true, argAt_set_other, M.bind]
        cases hc1 : O.conv (argAt args 1) s2 with
        | err e s3 => rfl
        | ok p1 s3 =>
          simp only [set_set_two args p0 p1 h2]
          apply spliceCore_refines O E _ _ s3 _ (hlen s1) (by simp)
          intro a ha
          simp only [List.mem_cons] at ha
          rcases ha with h | h | h
          · subst h; exact hconv _ _ _ _ hc0
          · subst h; exact hconv _ _ _ _ hc1
          · exact hargs a (List.mem_of_mem_drop h)


/-! ## reverse -/

theorem forUp_congr (b1 b2 : Nat → M σ Unit) (lo n : Nat) (h : ∀ i, lo ≤ i → i < lo + n → b1 i = b2 i) :
    forUp b1 lo n = forUp b2 lo n := by
  induction n generalizing lo with
  | zero => rfl
  | succ n ih =>
    simp only [forUp]
    rw [h lo (Nat.le_refl _) (by omega), ih (lo + 1) (fun i h1 h2 => h i (by omega) (by omega))]

/-- reverse = §15.4.4.8 for every receiver -/
theorem reverse_refines (O : Ops σ) : reverse O = Spec.reverse O := by
  have hcore : ∀ len, reverseCore O len = Spec.reverseCore O len := by
    intro len
    funext s
    simp only [reverseCore, Spec.reverseCore]
    have : forUp (fun lower => reverseStep O lower (len - lower - 1)) 0 (len / 2)
         = forUp (fun lower => Spec.reverseStep O lower (len - lower - 1)) 0 (len / 2) := by
      apply forUp_congr
      intro i _ _
      funext s'
      simp only [reverseStep, Spec.reverseStep]
      cases h1 : O.has s' i <;> cases h2 : O.has s' (len - i - 1) <;> simp
    rw [this]
  simp only [reverse, Spec.reverse, hcore]

/-- non-vacuity: an array-like whose [[Put]] and [[Delete]] always succeed -/
def tOps : Ops (List (Option Val)) where
  len := fun s => s.length
  has := fun s k => (s.getD k none).isSome
  get := fun s k => (s.getD k none).getD .undef
  put := fun k v s => .ok () (s.set k (some v))
  del := fun k s => .ok () (s.set k none)
  putLen := fun _ s => .ok () s
  call := fun _ s => .ok .undef s
  isArr := fun _ => true
  lenRead := fun s => .ok () s
  conv := fun v s => .ok v s
  thisRaw := fun _ => .recv
  locale := fun v _ s => .ok v s
  joinGet := fun s => .ok .builtin s
  userJoin := fun _ s => .ok .undef s
  objToString := fun _ => .str []

/-! ## sort: the result is a permutation (§15.4.4.11, first bullet of the postcondition) -/

/-- exchange positions i and j -/
def swapL (i j : Nat) (s : List (Option Val)) : List (Option Val) :=
  (s.set i (s.getD j none)).set j (s.getD i none)

theorem swapL_length (i j : Nat) (s : List (Option Val)) : (swapL i j s).length = s.length := by
  simp [swapL]

theorem swapL_perm (i j : Nat) (s : List (Option Val)) (hi : i < s.length) (hj : j < s.length) :
    (swapL i j s).Perm s := by
  rw [List.perm_iff_count]
  intro b
  have hxi : s.getD i none = s[i] := by simp [List.getD, hi]
  have hxj : s.getD j none = s[j] := by simp [List.getD, hj]
  simp only [swapL, hxi, hxj]
  have hj' : j < (s.set i s[j]).length := by simpa using hj
  rw [List.count_set hj', List.count_set hi]
  have h1 : (s.set i s[j])[j] = s[j] := by
    rw [List.getElem_set]; split
    · rfl
    · rfl
  rw [h1]
  have hmem : (if (s[i] == b) = true then 1 else 0) ≤ List.count b s := by
    split
    · rename_i h
      have : s[i] = b := by simpa using h
      rw [← this]
      exact List.one_le_count_iff.mpr (List.getElem_mem hi)
    · omega
  generalize List.count b s = c at *
  generalize (if (s[i] == b) = true then 1 else 0) = a at *
  generalize (if (s[j] == b) = true then 1 else 0) = d
  omega

/-- on the total array-like `tOps`, arraySortSwap exchanges the two positions -/
theorem sortSwap_tOps (i j : Nat) (s : List (Option Val)) (hi : i < s.length) (hj : j < s.length) :
    sortSwap tOps i j s = .ok () (swapL i j s) := by
  have hxi : s.getD i none = s[i] := by simp [List.getD, hi]
  have hxj : s.getD j none = s[j] := by simp [List.getD, hj]
  simp only [sortSwap, tOps, swapL, hxi, hxj, bind, M.bind]
  cases hvi : s[i] with
  | none =>
    cases hvj : s[j] with
    | none =>
      simp
      -- both absent: nothing happens, and exchanging two holes changes nothing
      have e1 : s.set i none = s := by
        apply List.ext_getElem (by simp)
        intro n h1 h2
        rw [List.getElem_set]; split
        · rename_i h; subst h; exact hvi.symm
        · rfl
      rw [e1]
      apply List.ext_getElem (by simp)
      intro n h1 h2
      rw [List.getElem_set]; split
      · rename_i h; subst h; exact hvj
      · rfl
    | some y =>
      simp
      by_cases hij : i = j
      · subst hij; rw [hvi] at hvj; cases hvj
      · rw [List.set_comm _ _ (fun e => hij e.symm)]
  | some x =>
    cases hvj : s[j] with
    | none => simp
    | some y => simp


/-- the state is a rearrangement of s0 -/
def Rearr (s0 s : List (Option Val)) : Prop := s.Perm s0 ∧ s.length = s0.length

theorem rearr_swap (s0 s : List (Option Val)) (i j : Nat) (h : Rearr s0 s) (hi : i < s0.length) (hj : j < s0.length) :
    ∃ s', sortSwap tOps i j s = .ok () s' ∧ Rearr s0 s' := by
  obtain ⟨hp, hl⟩ := h
  refine ⟨swapL i j s, sortSwap_tOps i j s (by omega) (by omega), ?_, ?_⟩
  · exact (swapL_perm i j s (by omega) (by omega)).trans hp
  · rw [swapL_length]; exact hl

theorem step_good (E : Env) (cmp : SortCmp) (s0 s : List (Option Val)) (right index : Nat) (c : Nat × Nat)
    (h : Rearr s0 s) (hr : right < s0.length) (hi : index < right) (h1 : c.1 ≤ c.2) (h2 : c.2 ≤ index) :
    ∃ c' s', sortPartitionStep tOps E cmp right index c s = .ok c' s' ∧ Rearr s0 s' ∧
      c'.1 ≤ c'.2 ∧ c'.2 ≤ index + 1 ∧ c.1 ≤ c'.1 := by
  simp only [sortPartitionStep]
  split
  · obtain ⟨s1, e1, r1⟩ := rearr_swap s0 s index c.1 h (by omega) (by omega)
    simp only [bind, M.bind, e1]
    by_cases hlt : c.1 < c.2
    · obtain ⟨s2, e2, r2⟩ := rearr_swap s0 s1 index c.2 r1 (by omega) (by omega)
      simp only [hlt, if_true, bind, M.bind, e2, pure, M.pure]
      exact ⟨_, _, rfl, r2, by simp only []; omega, by simp only []; omega, by simp only []; omega⟩
    · simp only [hlt, if_false, pure, M.pure]
      exact ⟨_, _, rfl, r1, by simp; omega, by simp; omega, by simp⟩
  · split
    · obtain ⟨s1, e1, r1⟩ := rearr_swap s0 s index c.2 h (by omega) (by omega)
      simp only [bind, M.bind, e1, pure, M.pure]
      exact ⟨_, _, rfl, r1, by simp only []; omega, by simp only []; omega, by simp only []; omega⟩
    · exact ⟨c, s, rfl, h, h1, by omega, Nat.le_refl _⟩

theorem loop_good (E : Env) (cmp : SortCmp) (s0 : List (Option Val)) (right : Nat) (hr : right < s0.length) :
    ∀ (n index : Nat) (c : Nat × Nat) (s : List (Option Val)), Rearr s0 s → index + n = right → c.1 ≤ c.2 → c.2 ≤ index →
      ∃ c' s', foldUp (sortPartitionStep tOps E cmp right) index n c s = .ok c' s' ∧ Rearr s0 s' ∧
        c'.1 ≤ c'.2 ∧ c'.2 ≤ right ∧ c.1 ≤ c'.1 := by
  intro n
  induction n with
  | zero =>
    intro index c s h he h1 h2
    exact ⟨c, s, rfl, h, h1, by omega, Nat.le_refl _⟩
  | succ n ih =>
    intro index c s h he h1 h2
    obtain ⟨c1, s1, e1, r1, g1, g2, g3⟩ := step_good E cmp s0 s right index c h hr (by omega) h1 h2
    obtain ⟨c2, s2, e2, r2, k1, k2, k3⟩ := ih (index + 1) c1 s1 r1 (by omega) g1 g2
    refine ⟨c2, s2, ?_, r2, k1, k2, by omega⟩
    simp only [foldUp, bind, M.bind, e1]
    exact e2

theorem partition_good (E : Env) (cmp : SortCmp) (s0 s : List (Option Val)) (left right pivot : Nat)
    (h : Rearr s0 s) (hr : right < s0.length) (hlr : left ≤ right) (hp : pivot ≤ right) :
    ∃ p p2 s', sortPartition tOps E cmp left right pivot s = .ok (p, p2) s' ∧ Rearr s0 s' ∧
      left ≤ p ∧ p ≤ p2 ∧ p2 ≤ right := by
  obtain ⟨s1, e1, r1⟩ := rearr_swap s0 s pivot right h (by omega) hr
  obtain ⟨c, s2, e2, r2, g1, g2, g3⟩ := loop_good E cmp s0 right hr (right - left) left (left, left) s1 r1 (by omega)
    (Nat.le_refl _) (Nat.le_refl _)
  obtain ⟨s3, e3, r3⟩ := rearr_swap s0 s2 c.2 right r2 (by omega) hr
  refine ⟨c.1, c.2, s3, ?_, r3, g3, g1, g2⟩
  simp only [sortPartition, bind, M.bind, e1, e2, e3, pure, M.pure]

theorem quick_good (E : Env) (cmp : SortCmp) (s0 : List (Option Val)) :
    ∀ (fuel left right : Nat) (s : List (Option Val)), Rearr s0 s → right < s0.length →
      ∃ s', sortQuick tOps E cmp fuel left right s = .ok () s' ∧ Rearr s0 s' := by
  intro fuel
  induction fuel with
  | zero => intro left right s h _; exact ⟨s, rfl, h⟩
  | succ f ih =>
    intro left right s h hr
    simp only [sortQuick]
    by_cases hlt : left < right
    · simp only [hlt, if_true, bind, M.bind]
      obtain ⟨p, p2, s1, e1, r1, g1, g2, g3⟩ :=
        partition_good E cmp s0 s left right (left + (right - left) / 2) h hr (by omega) (by omega)
      rw [e1]
      simp only
      by_cases hp : p > 0
      · obtain ⟨s2, e2, r2⟩ := ih left (p - 1) s1 r1 (by omega)
        obtain ⟨s3, e3, r3⟩ := ih (p2 + 1) right s2 r2 hr
        simp only [hp, if_true, bind, M.bind, e2, e3]
        exact ⟨s3, rfl, r3⟩
      · obtain ⟨s3, e3, r3⟩ := ih (p2 + 1) right s1 r1 hr
        simp only [hp, if_false, bind, M.bind, pure, M.pure, e3]
        exact ⟨s3, rfl, r3⟩
    · simp only [hlt, if_false]
      exact ⟨s, rfl, h⟩

/-- **sort_permutation** (§15.4.4.11): on an array-like whose [[Put]]/[[Delete]] cannot fail, for every comparefn
    (consistent or not, or none) sort returns the receiver and leaves a permutation of its elements — present
    values and holes alike are only moved, never lost, duplicated or invented. -/
theorem sort_permutation (E : Env) (cmp : SortCmp) (s : List (Option Val)) :
    ∃ s', sort tOps E true cmp s = .ok (.val .recv) s' ∧ s'.Perm s ∧ s'.length = s.length := by
  have hrl : readLen tOps s = .ok s.length s := rfl
  simp only [sort, bind, M.bind, hrl, sortCore, Bool.not_true, Bool.false_eq_true, if_false]
  by_cases h1 : s.length > 1
  · simp only [h1, if_true, bind, M.bind]
    obtain ⟨s', e, r⟩ := quick_good E cmp s s.length 0 (s.length - 1) s ⟨List.Perm.refl _, rfl⟩ (by omega)
    rw [e]
    exact ⟨s', rfl, r.1, r.2⟩
  · simp only [h1, if_false]
    exact ⟨s, rfl, List.Perm.refl _, rfl⟩

/-! ## Witness of the remaining deviation region (kernel-checked by `decide`) -/

/-- a small array-like used by the witness and the non-vacuity examples -/
structure W where
  len : Nat
  elems : List (Option Val)
  log : List (List Val) := []
  putOk : Bool := true
  lenObj : Bool := false          -- `length` is an object: reading it is logged as `[obj 9]`
deriving DecidableEq

def wOps : Ops W where
  len := fun s => s.len
  has := fun s k => (s.elems.getD k none).isSome
  get := fun s k => (s.elems.getD k none).getD .undef
  put := fun k v s => if s.putOk then .ok () { s with elems := s.elems.set k (some v) } else .err .type s
  del := fun k s => .ok () { s with elems := s.elems.set k none }
  putLen := fun _ s => .ok () s
  call := fun args s => .ok .undef { s with log := args :: s.log }
  isArr := fun _ => true
  lenRead := fun s => if s.lenObj then .ok () { s with log := [Val.obj 9] :: s.log } else .ok () s
  conv := fun v s => match v with
    | .obj id => .ok (.int 0) { s with log := [Val.obj id] :: s.log }
    | p => .ok p s
  thisRaw := fun _ => .recv
  locale := fun v args s => .ok (.str [120]) { s with log := (v :: args) :: s.log }
  joinGet := fun s => .ok .builtin s
  userJoin := fun args s => .ok (.str [106]) { s with log := (.str [74] :: args) :: s.log }
  objToString := fun _ => .str [111]

def E0 : Env := { pn := fun _ => .nan, ts := fun _ => [] }

def retOf {σ : Type} : Res σ Ret → Option Ret
  | .ok r _ => some r
  | .err _ _ => none

/-- toLocaleString: the arguments of the call do not reach the elements' toLocaleString; undefined and holes give "" -/
theorem toLocaleString_passes_nothing :
    (match toLocaleStringM wOps E0 [.int 5, .str [1]] ⟨3, [some (.int 1), none, some (.int 2)], [], true, false⟩ with
      | .ok r s => (some r, s.log)
      | .err _ s => (none, s.log)) = (some (.val (.str [44, 44])), [[.int 2], [.int 1]]) := by decide

/-- toString calls the join it finds on the receiver — with no arguments — and returns what that returns; a join that is
    not callable gives Object.prototype.toString -/
theorem toString_calls_found_join :
    (match toStringM { wOps with joinGet := fun s => .ok .user s } E0 [.int 5] ⟨2, [some (.int 1), some (.int 2)], [], true, false⟩ with
      | .ok r s => (some r, s.log)
      | .err _ s => (none, s.log)) = (some (.val (.str [106])), [[.str [74]]])
    ∧ retOf (toStringM { wOps with joinGet := fun s => .ok .other s } E0 [] ⟨1, [some (.int 1)], [], true, false⟩)
      = some (.val (.str [111])) := by decide

/-- join converts an element that is an object (its toString runs), in index order after the separator -/
theorem join_converts_elements :
    (stateOf (join wOps E0 [.obj 1] ⟨2, [some (.obj 2), some (.obj 3)], [], true, false⟩)).log = [[.obj 3], [.obj 2], [.obj 1]] := by decide

/-- splice_one_argument: [1].splice(0) — by the letter of ES5.1 nothing is removed -/
example : retOf (splice wOps E0 [.int 0] ⟨1, [some (.int 1)], [], true, false⟩) = some (.arr [some (.int 1)])
    ∧ retOf (Spec.splice wOps E0 [.int 0] ⟨1, [some (.int 1)], [], true, false⟩) = some (.arr []) := by decide



/-- the three cases of the receiver round that used to deviate now agree -/
example :
    let E1 : Env := { pn := fun _ => .nan, ts := fun v => match v with | .int i => dec i.toNat | .str b => b | _ => [] }
    retOf (toStringM wOps E1 [.str [45]] ⟨2, [some (.int 1), some (.int 2)], [], true, false⟩) = some (.val (.str [49, 44, 50])) := by
  decide
example : retOf (reverse { wOps with thisRaw := fun _ => .bool true } ⟨0, [], [], true, false⟩) = some (.val .recv) := by decide
example :
    let S : St := { o := { isArr := true, ext := true, props := [(.length, ⟨.int 3, true, false, false⟩)], proto := [] },
                    script := [{ res := some (.int 1) }, { res := some (.int 1) }] }
    (stateOf (stPut E0 .length (.obj 1) false S)).log = [[.obj 1], [.obj 1]]
    ∧ (stateOf (Spec.stPut E0 .length (.obj 1) false S)).log = [[.obj 1], [.obj 1]] := by decide

/-- the four order cases that used to deviate now agree (same conversion log on both sides) -/
example : (stateOf (join wOps E0 [.obj 1] ⟨1, [some .null], [], true, true⟩)).log = [[.obj 1], [.obj 9]]
    ∧ (stateOf (Spec.join wOps E0 [.obj 1] ⟨1, [some .null], [], true, true⟩)).log = [[.obj 1], [.obj 9]] := by decide
example : (stateOf (forEach wOps false ⟨1, [some .null], [], true, true⟩)).log = [[.obj 9]] := by decide
example : (stateOf (lastIndexOf wOps E0 [.null, .obj 2] ⟨0, [], [], true, false⟩)).log = [] := by decide
example :
    let E1 : Env := { pn := fun _ => .nan, ts := fun v => match v with | .str b => b | _ => [] }
    stateOf (sort tOps E1 true none [some (.str [0xf0, 0x90, 0x80, 0x80]), some (.str [0xee, 0x80, 0x80])])
      = [some (.str [0xf0, 0x90, 0x80, 0x80]), some (.str [0xee, 0x80, 0x80])] := by decide

/-- the order of ToInteger(start) and ToInteger(end) in slice: both sides convert start first -/
example : (stateOf (slice wOps E0 [.obj 1, .obj 2] ⟨1, [some .null], [], true, false⟩)).log = [[.obj 2], [.obj 1]]
    ∧ (stateOf (Spec.slice wOps E0 [.obj 1, .obj 2] ⟨1, [some .null], [], true, false⟩)).log = [[.obj 2], [.obj 1]] := by decide

/-- the cases that used to deviate now agree: "01" is no index; holes stay holes; splice() removes nothing -/
example : stringToArrayIndexRaw [48, 49] = -1 ∧ Spec.arrayIndex? [48, 49] = none := by decide
example : retOf (slice wOps E0 [] ⟨2, [some (.int 1), none], [], true, false⟩) = some (.arr [some (.int 1), none]) := by decide
example : retOf (splice wOps E0 [] ⟨1, [some (.int 1)], [], true, false⟩) = some (.arr []) := by decide

def intCmp : Val → Val → Int
  | .int a, .int b => if a < b then -1 else if a > b then 1 else 0
  | _, _ => 0

/-- non-vacuity of sort_permutation, and what the default sort does with undefined and holes -/
example : stateOf (sort tOps { pn := fun _ => .nan, ts := fun v => match v with | .int i => dec i.toNat | _ => [] } true none
      [some (.int 3), none, some (.int 10), some .undef, some (.int 2)])
    = [some (.int 10), some (.int 2), some (.int 3), some .undef, none] := by decide

example : stateOf (sort tOps E0 true (some intCmp) [some (.int 3), some (.int 1), some (.int 2)])
    = stateOf (Spec.sort tOps E0 true (some intCmp) [some (.int 3), some (.int 1), some (.int 2)]) := by decide

/-! ## The length invariant: consequences, transfer to §15.4.5.1, non-vacuity -/

/-- in observable terms: after any history, every own array-index property lies below `length` -/
theorem length_gt_every_index (E : Env) (ops : List HOp) (o : Obj) (h : WFArr o) (n : Nat) (hn : n < 2^32 - 1)
    (hp : (lookup (.idx n) (runHist E ops o).props).isSome = true) : n < arrLength (runHist E ops o) := by
  obtain ⟨_, m, w, hl, _, hb⟩ := length_invariant E ops o h
  rw [arrLength_of _ m w hl]
  exact hb n hn hp

/-- §15.4.5.1 step 3.l, completed: the specification's truncation loop leaves no element in [newLen, oldLen) -/
theorem truncateLoop_deletes (E : Env) (newLen : Nat) (d : Desc) (nw throw : Bool) (cnt : Nat) (o o' : Obj)
    (h : Spec.truncateLoop E newLen d nw throw cnt o = .ok none o') :
    (∀ n, newLen ≤ n → n < newLen + cnt → lookup (.idx n) o'.props = none) ∧
    (∀ k, (∀ n, newLen ≤ n → n < newLen + cnt → k ≠ .idx n) → lookup k o'.props = lookup k o.props) := by
  rw [← shrinkLoop_refines] at h
  exact shrinkLoop_deletes E newLen d nw throw cnt o o' h

/-- §15.4.5.1 step 3.l.iii: the specification's loop, too, stops at the first non-configurable element with
    length = its index + 1 (transferred from the model through `shrinkLoop_refines`) -/
theorem truncateLoop_stops (E : Env) (N : Nat) (d : Desc) (nw t : Bool) (hc : Cok d) (cnt : Nat) (o1 o2 : Obj)
    (hl : LenProp o1 N true)
    (h : (∃ b, Spec.truncateLoop E N d nw t cnt o1 = .ok (some b) o2) ∨ (∃ e, Spec.truncateLoop E N d nw t cnt o1 = .err e o2)) :
    ∃ l p, N ≤ l ∧ l < N + cnt ∧ lookup (.idx l) o1.props = some p ∧ p.c = false ∧
      (∀ i, l < i → i < N + cnt →
        lookup (.idx i) o2.props = none ∧ ∀ q, lookup (.idx i) o1.props = some q → q.c = true) ∧
      (∃ w', LenProp o2 (l + 1) w') ∧
      (∀ k, k ≠ .length → (∀ i, l < i → i < N + cnt → k ≠ .idx i) → lookup k o2.props = lookup k o1.props) := by
  rw [← shrinkLoop_refines] at h
  exact shrinkLoop_stops E N d nw t hc cnt o1 o2 hl h

/-- `[]` -/
def emptyArr : Obj := { isArr := true, ext := true, props := [(.length, ⟨.int 0, true, false, false⟩)], proto := [] }

theorem wf_empty : WFArr emptyArr :=
  ⟨rfl, 0, true, rfl, by decide, fun n _ h => by simp [emptyArr, lookup] at h⟩

/-- non-vacuity: the invariant holds after a history that uses a non-canonical numeral as an ordinary name,
    pins an element, shrinks length past it (stopping there), freezes length and pushes on -/
example : WFArr (runHist E0
    [.put (.name [48, 51]) .null false,                                  -- a["03"] = null : a plain property
     .put (.idx 3) .null false,
     .define (.idx 1) ⟨some (.bool true), some true, some true, some false⟩ true,
     .put .length (.int 0) false,                                         -- a.length = 0 stops at index 1
     .define .length ⟨none, some false, none, none⟩ true,
     .put (.idx 7) .undef true, .delete (.idx 1) false] emptyArr) :=
  length_invariant E0 _ emptyArr wf_empty

/-- …and that history really ends with length 2 and the pinned element present -/
example : arrLength (runHist E0
    [.put (.name [48, 51]) .null false,
     .put (.idx 3) .null false,
     .define (.idx 1) ⟨some (.bool true), some true, some true, some false⟩ true,
     .put .length (.int 0) false] emptyArr) = 2 := by decide

/-! ## Non-vacuity of the hypotheses -/

/-- `HistOK`: non-canonical numerals are ordinary names now, so they are admitted too -/
example : HistOK
    [.put (.idx 3) .null false, .put (.name [48, 51]) .null false,
     .define (.idx 1) ⟨some (.bool true), some true, some true, some false⟩ true,
     .put .length (.int 0) false, .delete (.idx 1) false] := by
  intro op hop
  simp only [List.mem_cons, List.mem_nil_iff, or_false] at hop
  rcases hop with h | h | h | h | h <;> subst h
  · trivial
  · show Spec.arrayIndex? [48, 51] = none; decide
  · trivial
  · trivial
  · trivial

example : WFv (.num (.fin true 3 0)) ∧ WFv (.int (-5)) ∧ (5 : Nat) < 2^62 :=
  ⟨trivial, by simp [WFv, minInt64, maxInt64], by decide⟩

end OttoVerif.C08.Thm
