/-
  C08/Theorems — the ledger for property C08 (every theorem here is audited).
-/
import OttoVerif.C08.Spec
namespace OttoVerif.C08.Thm
open OttoVerif.C08

variable {σ : Type}

theorem moveStep_eq (O : Ops σ) (a b : Nat) : moveStep O a b = Spec.moveOrDelete O a b := rfl

theorem pushLoop_eq (O : Ops σ) (items : List Val) (n : Nat) : pushLoop O items n = Spec.pushItems O items n := by
  induction items generalizing n with
  | nil => rfl
  | cons x xs ih => simp only [pushLoop, Spec.pushItems, ih]

theorem push_refines (O : Ops σ) (items : List Val) : push O items = Spec.push O items := by
  funext s; simp only [push, Spec.push, pushLoop_eq]

theorem pop_refines (O : Ops σ) : pop O = Spec.pop O := by
  funext s; simp only [pop, Spec.pop]

theorem shift_refines (O : Ops σ) : shift O = Spec.shift O := by
  funext s; simp only [shift, Spec.shift]; rfl

theorem putItems_eq (O : Ops σ) (items : List Val) (n : Nat) : putItems O items n = Spec.putFrom O items n := by
  induction items generalizing n with
  | nil => rfl
  | cons x xs ih => simp only [putItems, Spec.putFrom, ih]

theorem unshift_refines (O : Ops σ) (items : List Val) : unshift O items = Spec.unshift O items := by
  funext s; simp only [unshift, Spec.unshift, putItems_eq]; rfl
end OttoVerif.C08.Thm
