/-
  C08/Theorems — the ledger for property C08 (every theorem here is audited).

  Layers:  (1) conversions and index arithmetic (toBool, strict equality, valueToRangeIndex);
           (2) the object layer (objectDefineOwnProperty / arrayDefineOwnProperty / objectPut / objectDelete
               against ES5 8.12 and 15.4.5.1) and the length invariant over all histories;
           (3) the Array.prototype methods, generic in the object operations `Ops` (so they hold for
               every array and array-like, and for callbacks that mutate the receiver).
  Deviation regions are stated as hypotheses; each has a kernel-checked witness at the end.
-/
import OttoVerif.C08.Spec
namespace OttoVerif.C08.Thm
open OttoVerif.C08 OttoVerif.F64


variable {σ : Type}

theorem moveStep_eq (O : Ops σ) (a b : Nat) : moveStep O a b = Spec.moveOrDelete O a b := rfl

theorem pushLoop_eq (O : Ops σ) (items : List Val) (n : Nat) : pushLoop O items n = Spec.pushItems O items n := by
  induction items generalizing n with
  | nil => rfl
  | cons x xs ih => simp only [pushLoop, Spec.pushItems, ih]

theorem push_refines (O : Ops σ) (items : List Val) : push O items = Spec.push O items := by
  funext s; simp only [push, Spec.push, pushLoop_eq]

theorem pop_refines (O : Ops σ) : pop O = Spec.pop O := by
  funext s; simp only [pop, Spec.pop]

theorem shift_refines (O : Ops σ) : shift O = Spec.shift O := by
  funext s; simp only [shift, Spec.shift]; rfl

theorem putItems_eq (O : Ops σ) (items : List Val) (n : Nat) : putItems O items n = Spec.putFrom O items n := by
  induction items generalizing n with
  | nil => rfl
  | cons x xs ih => simp only [putItems, Spec.putFrom, ih]

theorem unshift_refines (O : Ops σ) (items : List Val) : unshift O items = Spec.unshift O items := by
  funext s; simp only [unshift, Spec.unshift, putItems_eq]; rfl



theorem toBool_eq (v : Val) : toBool v = Spec.toBoolean v := by
  cases v with
  | str s => cases s <;> simp [toBool, Spec.toBoolean]
  | _ => simp [toBool, Spec.toBoolean, bne, BEq.beq]

theorem every_refines (O : Ops σ) (c : Bool) : every O c = Spec.every O c := by
  funext s; simp only [every, Spec.every, toBool_eq]; rfl

theorem some_refines (O : Ops σ) (c : Bool) : some_ O c = Spec.some_ O c := by
  funext s; simp only [some_, Spec.some_, toBool_eq]; rfl

theorem forEach_refines (O : Ops σ) (c : Bool) : forEach O c = Spec.forEach O c := by
  funext s; simp only [forEach, Spec.forEach]

theorem filter_refines (O : Ops σ) (c : Bool) : filter O c = Spec.filter O c := by
  funext s; simp only [filter, Spec.filter, toBool_eq]



theorem toFloat_eq (E : Env) (v : Val) : toFloat E v = Spec.toNumber E v := by
  cases v <;> rfl

/-- the saturated int64 that `number()` produces from the ES5 integer -/
def sat : Spec.IntInf → Int
  | .fin i => if i ≥ 2^63 then maxInt64 else if i ≤ -(2^63 : Int) then minInt64 else i
  | .pinf => maxInt64
  | .ninf => minInt64

/-- values whose integer payload is a Go int64 -/
def WFv : Val → Prop
  | .int i => minInt64 ≤ i ∧ i ≤ maxInt64
  | _ => True

theorem toI64_sat (E : Env) (v : Val) (h : WFv v) : toI64 E v = sat (Spec.toInteger E v) := by
  cases v with
  | int i =>
    simp only [WFv, minInt64, maxInt64] at h
    simp only [toI64, Spec.toInteger, sat, minInt64, maxInt64]
    split <;> (try split) <;> omega
  | undef | null | bool _ | num _ | str _ | recv =>
    simp only [toI64, Spec.toInteger, toFloat_eq]
    cases Spec.toNumber E _ with
    | nan => simp [sat]
    | inf s => cases s <;> simp [sat]
    | fin s m e => simp only [sat]

/-- valueToRangeIndex with negativeIsZero = false is the relative-index clamp of §15.4.4.10 -/
theorem range_index (E : Env) (v : Val) (len : Nat) (hv : WFv v) (hlen : len < 2^62) :
    valueToRangeIndex E v len false = (Spec.relIndex (Spec.toInteger E v) len : Nat) := by
  simp only [valueToRangeIndex, toI64_sat E v hv]
  cases Spec.toInteger E v with
  | pinf => simp only [sat, rangeIndex, Spec.relIndex, maxInt64]; simp; omega
  | ninf => simp only [sat, rangeIndex, Spec.relIndex, minInt64]; simp; omega
  | fin i =>
    simp only [sat, rangeIndex, Spec.relIndex, maxInt64, minInt64]
    simp only [Bool.false_eq_true, if_false]
    repeat' (first | omega | split)

/-- valueToRangeIndex with negativeIsZero = true is min(max(ToInteger(v), 0), len) -/
def clampPos (r : Spec.IntInf) (len : Nat) : Nat :=
  match r with
  | .ninf => 0
  | .pinf => len
  | .fin i => if i < 0 then 0 else if i < len then i.toNat else len

theorem range_index_nz (E : Env) (v : Val) (len : Nat) (hv : WFv v) (hlen : len < 2^62) :
    valueToRangeIndex E v len true = (clampPos (Spec.toInteger E v) len : Nat) := by
  simp only [valueToRangeIndex, toI64_sat E v hv]
  cases Spec.toInteger E v <;>
    simp only [sat, rangeIndex, clampPos, maxInt64, minInt64, ↓reduceIte] <;>
    repeat' (first | omega | split)



theorem argAt_len1 (args : List Val) (h : args.length = 1) : argAt args 1 = .undef := by
  match args, h with
  | [a], _ => rfl

theorem argAt_wf (args : List Val) (h : ∀ a ∈ args, WFv a) (i : Nat) : WFv (argAt args i) := by
  unfold argAt
  cases hi : args[i]? with
  | none => simp [WFv]
  | some a => simp only [Option.getD]; exact h a (List.mem_of_getElem? hi)

/-- the slice bounds computed by rangeStartEnd are those of §15.4.4.10 steps 5–8 -/
theorem rangeStartEnd_eq (E : Env) (args : List Val) (len : Nat) (hargs : ∀ a ∈ args, WFv a) (hlen : len < 2^62) :
    rangeStartEnd E args len =
      (((Spec.relIndex (Spec.toInteger E (argAt args 0)) len : Nat) : Int),
       ((Spec.relIndex (if argAt args 1 = .undef then .fin len else Spec.toInteger E (argAt args 1)) len : Nat) : Int)) := by
  have hrel : Spec.relIndex (.fin len) len = len := by
    simp only [Spec.relIndex]; repeat' (first | omega | split)
  simp only [rangeStartEnd, range_index E _ len (argAt_wf args hargs 0) hlen]
  by_cases h1 : args.length = 1
  · simp [h1, argAt_len1 args h1, hrel]
  · simp only [h1, if_false]
    by_cases h2 : argAt args 1 = .undef
    · simp [h2, hrel]
    · simp [h2, range_index E _ len (argAt_wf args hargs 1) hlen]

/-- slice: model = spec when no element of the copied range is a hole -/
theorem slice_refines (O : Ops σ) (E : Env) (args : List Val) (s : σ)
    (hargs : ∀ a ∈ args, WFv a) (hlen : O.len s < 2^62)
    (hfull : ∀ j, Spec.relIndex (Spec.toInteger E (argAt args 0)) (O.len s) ≤ j →
        j < Spec.relIndex (if argAt args 1 = .undef then .fin (O.len s) else Spec.toInteger E (argAt args 1)) (O.len s) →
        O.has s j = true) :
    slice O E args s = Spec.slice O E args s := by
  simp only [slice, Spec.slice, rangeStartEnd_eq E args (O.len s) hargs hlen]
  generalize hk : Spec.relIndex (Spec.toInteger E (argAt args 0)) (O.len s) = k at hfull
  generalize hf : Spec.relIndex (if argAt args 1 = .undef then .fin (O.len s) else Spec.toInteger E (argAt args 1)) (O.len s) = final at hfull
  by_cases hge : (k : Int) ≥ (final : Int)
  · have : final - k = 0 := by omega
    simp [hge, this]
  · have h1 : ((final : Int) - (k : Int)).toNat = final - k := by omega
    simp only [hge, if_false, h1, Int.toNat_natCast]
    congr 2
    apply List.map_congr_left
    intro n hn
    have hn' : n < final - k := by simpa using hn
    have hh : O.has s (k + n) = true := hfull (k + n) (by omega) (by omega)
    simp [Nat.add_comm n k, hh]



theorem alignInt_zero_iff (s : Bool) (m : Nat) (e emin : Int) : alignInt s m e emin = 0 ↔ m = 0 := by
  unfold alignInt
  have hp : 0 < 2 ^ (e - emin).toNat := Nat.two_pow_pos _
  constructor
  · intro h
    have h0 : ((m * 2 ^ (e - emin).toNat : Nat) : Int) = 0 := by
      simp only at h
      split at h <;> omega
    have : m * 2 ^ (e - emin).toNat = 0 := by exact_mod_cast h0
    rcases Nat.mul_eq_zero.mp this with h | h
    · exact h
    · omega
  · intro h; subst h; simp

theorem emin_comm (e1 e2 : Int) : (if e1 ≤ e2 then e1 else e2) = (if e2 ≤ e1 then e2 else e1) := by
  split <;> split <;> omega

theorem ord_eq_iff (a b : Int) : (if a < b then Ordering.lt else if a = b then Ordering.eq else Ordering.gt) = Ordering.eq ↔ a = b := by
  split
  · simp; omega
  · split <;> simp_all

theorem cmpEq_fin (s1 : Bool) (m1 : Nat) (e1 : Int) (s2 : Bool) (m2 : Nat) (e2 : Int) :
    cmpReal (.fin s1 m1 e1) (.fin s2 m2 e2) = some .eq ↔
      alignInt s1 m1 e1 (if e1 ≤ e2 then e1 else e2) = alignInt s2 m2 e2 (if e1 ≤ e2 then e1 else e2) := by
  simp only [cmpReal, Option.some.injEq, ord_eq_iff]

theorem cmpEq_comm (x y : FV) : cmpReal x y = some .eq ↔ cmpReal y x = some .eq := by
  cases x with
  | nan => cases y <;> simp [cmpReal]
  | inf s =>
    cases y with
    | nan => simp [cmpReal]
    | inf t => cases s <;> cases t <;> simp [cmpReal]
    | fin t m e => cases s <;> cases t <;> simp [cmpReal]
  | fin s1 m1 e1 =>
    cases y with
    | nan => simp [cmpReal]
    | inf t => cases s1 <;> cases t <;> simp [cmpReal]
    | fin s2 m2 e2 =>
      rw [cmpEq_fin, cmpEq_fin, emin_comm e2 e1]
      exact eq_comm

theorem cmpEq_zero (x y : FV) (h : cmpReal x y = some .eq) (hz : isZero x = true) : isZero y = true := by
  cases x with
  | nan => simp [isZero] at hz
  | inf s => simp [isZero] at hz
  | fin s1 m1 e1 =>
    cases y with
    | nan => simp [cmpReal] at h
    | inf t => cases t <;> simp [cmpReal] at h
    | fin s2 m2 e2 =>
      have hm : m1 = 0 := by cases m1 with | zero => rfl | succ n => simp [isZero] at hz
      subst hm
      rw [cmpEq_fin] at h
      rw [(alignInt_zero_iff _ _ _ _).mpr rfl] at h
      have := (alignInt_zero_iff _ _ _ _).mp h.symm
      subst this; rfl

/-- the number arm of sameValue: otto's formulation (x, y) = §9.12's formulation (y, x) -/
theorem sameNum (x y : FV) :
    (if (isNaN x && isNaN y) = true then true
      else if eqNum x y = true then (if isZero x = true then signBit x == signBit y else true) else false)
    = (if isNaN y = true ∧ isNaN x = true then true
      else if isZero y = true ∧ isZero x = true then decide (signBit y = signBit x) else decide (cmpReal y x = some .eq)) := by
  by_cases hn : isNaN x = true ∧ isNaN y = true
  · simp [hn.1, hn.2]
  · have hn' : ¬ (isNaN y = true ∧ isNaN x = true) := fun h => hn ⟨h.2, h.1⟩
    have hb : (isNaN x && isNaN y) = false := by
      cases hx : isNaN x <;> cases hy : isNaN y <;> simp_all
    simp only [hb, hn', if_false, Bool.false_eq_true]
    by_cases he : cmpReal x y = some .eq
    · have he' := (cmpEq_comm x y).mp he
      have hq : eqNum x y = true := by simp [eqNum, he]
      simp only [hq, if_true, he', decide_true]
      by_cases hz : isZero x = true
      · have hzy := cmpEq_zero x y he hz
        simp only [hz, hzy, and_self, if_true]
        cases signBit x <;> cases signBit y <;> simp
      · have : ¬ (isZero y = true ∧ isZero x = true) := fun h => hz h.2
        simp [hz, this]
    · have he' : ¬ cmpReal y x = some .eq := fun h => he ((cmpEq_comm x y).mpr h)
      have hq : eqNum x y = false := by simp [eqNum, he]
      simp only [hq, Bool.false_eq_true, if_false, he', decide_false]
      by_cases hz : isZero y = true ∧ isZero x = true
      · exfalso
        -- two zeros compare equal
        obtain ⟨hy, hx⟩ := hz
        cases x with
        | nan => simp [isZero] at hx
        | inf s => simp [isZero] at hx
        | fin s1 m1 e1 =>
          cases y with
          | nan => simp [isZero] at hy
          | inf s => simp [isZero] at hy
          | fin s2 m2 e2 =>
            have h1 : m1 = 0 := by cases m1 with | zero => rfl | succ n => simp [isZero] at hx
            have h2 : m2 = 0 := by cases m2 with | zero => rfl | succ n => simp [isZero] at hy
            subst h1; subst h2
            apply he
            rw [cmpEq_fin, (alignInt_zero_iff _ _ _ _).mpr rfl, (alignInt_zero_iff _ _ _ _).mpr rfl]
      · simp [hz]

theorem sameValue_eq (E : Env) (a b : Val) : sameValue E a b = Spec.sameValue E b a := by
  have hf : ∀ v, toFloat E v = Spec.toNumber E v := fun v => by cases v <;> rfl
  cases a <;> cases b <;>
    first
      | (simp only [sameValue, Spec.sameValue, hf]; exact sameNum _ _)
      | (simp [sameValue, Spec.sameValue, eq_comm]; done)
      | (simp only [sameValue, Spec.sameValue]; rename_i p q; by_cases h : p = q
         · subst h; simp
         · have h' : ¬ q = p := fun e => h e.symm
           simp [h, h'])




theorem optb (x : Option Bool) : (x == some true) = x.getD false := by
  cases x with
  | none => rfl
  | some b => cases b <;> rfl

/-- objectDefineOwnProperty = §8.12.9 for every descriptor that is not generic on an existing property
    (the generic case is C07's `generic_loses_writable` finding). -/
theorem objectDefineOwnProperty_refines (E : Env) (k : Key) (d : Desc) (throw : Bool) (o : Obj)
    (hng : d.v.isSome = true ∨ d.w.isSome = true ∨ lookup k o.props = none) :
    objectDefineOwnProperty E k d throw o = Spec.defineOwnDefault E k d throw o := by
  obtain ⟨dv, dw, de, dc⟩ := d
  unfold objectDefineOwnProperty Spec.defineOwnDefault
  cases hl : lookup k o.props with
  | none =>
    simp only [reject, optb]
  | some p =>
    obtain ⟨pv, pw, pe, pc⟩ := p
    simp only [hl] at hng
    simp only [reject, Desc.isEmpty, Desc.isGeneric, Desc.isData, sameValue_eq]
    cases dv <;> cases dw <;> simp at hng <;>
      cases de <;> cases dc <;> cases pw <;> cases pe <;> cases pc <;> cases throw <;> simp


/-- objectDelete = §8.12.7 [[Delete]] -/
theorem objectDelete_refines (k : Key) (throw : Bool) : objectDelete k throw = Spec.delete k throw := by
  funext o
  unfold objectDelete Spec.delete
  cases lookup k o.props with
  | none => rfl
  | some p => cases p.c <;> cases throw <;> simp [reject]

/-- strictEqualityComparison = §11.9.6 -/
theorem strictEquals_eq (E : Env) (a b : Val) : strictEquals E a b = Spec.strictEq E a b := by
  have hf : ∀ v, toFloat E v = Spec.toNumber E v := fun v => by cases v <;> rfl
  have hn : ∀ x y : FV, (if (isNaN x || isNaN y) = true then false else eqNum x y) = decide (cmpReal x y = some .eq) := by
    intro x y
    cases x <;> cases y <;> simp [isNaN, eqNum, cmpReal]
  cases a <;> cases b <;>
    first
      | (simp only [strictEquals, Spec.strictEq, hf]; exact hn _ _)
      | (simp [strictEquals, Spec.strictEq]; done)
      | (simp only [strictEquals, Spec.strictEq]; rename_i p q; by_cases h : p = q
         · subst h; simp
         · simp [h])

theorem flatMap_congr' {α β : Type} (l : List α) (f g : α → List β) (h : ∀ a ∈ l, f a = g a) :
    l.flatMap f = l.flatMap g := by
  induction l with
  | nil => rfl
  | cons x xs ih =>
    simp only [List.flatMap_cons]
    rw [h x (List.mem_cons_self ..), ih (fun a ha => h a (List.mem_cons_of_mem _ ha))]

/-- concat: model = spec when neither the receiver (if it is an array) nor an array argument has a hole -/
theorem concat_refines (O : Ops σ) (items : List CArg) (s : σ)
    (hthis : ∀ k, k < O.len s → O.has s k = true)
    (hitems : ∀ es, CArg.arr es ∈ items → ∀ e ∈ es, e ≠ none) :
    concat O items s = Spec.concat O items s := by
  have h1 : (List.range (O.len s)).map (fun index => if O.has s index then some (O.get s index) else some Val.undef)
      = (List.range (O.len s)).map (fun k => if O.has s k then some (O.get s k) else none) := by
    apply List.map_congr_left
    intro k hk
    simp [hthis k (by simpa using hk)]
  have h2 : ∀ it ∈ items, concatItem it = Spec.concatItem it := by
    intro it hit
    cases it with
    | v x => rfl
    | arr es =>
      simp only [concatItem, Spec.concatItem]
      have := hitems es hit
      conv => rhs; rw [← List.map_id es]
      apply List.map_congr_left
      intro e he
      cases e with
      | none => exact absurd rfl (this none he)
      | some x => rfl
  have h3 := flatMap_congr' items _ _ h2
  simp only [concat, Spec.concat, h1, h3]

end OttoVerif.C08.Thm
