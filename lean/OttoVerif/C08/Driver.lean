/-
  C08/Driver — line protocol front end (core-only).

  idx k<hex>                         stringToArrayIndex on the bytes
  range <val> <len> <0|1>            valueToRangeIndex(val, len, negativeIsZero)
  h a=<elems> p=<protos> <step>…     a history on one receiver; reply = per-step outcomes + final dump

  value tokens   u n T F d<16 hex> s<hex bytes> R(receiver) ; `_` = hole in an element list
  key tokens     k<hex bytes>
  steps          put/<key>/<val>  del/<key>  def/<key>/<val|->/<w>/<e>/<c> (w,e,c ∈ 0 1 -)
                 frz  seal  noext  new/<val>
                 call/<method>/<args,…>/<callback returns,…>[/<script>]
  methods        push pop shift unshift slice splice indexOf lastIndexOf reverse join concat every some forEach map filter
                 reduce reduceRight sort sortNum sortInf toString toLocaleString (`name!` = non-callable first argument)
                 toString.<mode>.<src>: mode ∈ call add str eq key (how toString is reached), src = the `join` of the receiver
                 during the call (b own ownb nc und acc accb accn proto pdel none, see `joinSrc?`)
  key tokens     k<hex bytes> | N<number token> (numeric subscript)
  objects        O<id>: 1…49 scripted (valueOf/toString/toLocaleString play the script; 7: toLocaleString not callable),
                 50…59 nested arrays [O(10+k), k, null, O(20+k)]
-/
import OttoVerif.Base.Proto
import OttoVerif.Base.ParseNumber
import OttoVerif.C08.Spec
namespace OttoVerif.C08.Driver
open OttoVerif.F64 OttoVerif.Proto OttoVerif.C08

/-- ToString on the primitives the generators use (numbers: integers below 2^53, NaN, ±Infinity). -/
def numToBytes (x : FV) : List Nat :=
  match x with
  | .nan => [78, 97, 78]
  | .inf s => (if s then [45] else []) ++ [73, 110, 102, 105, 110, 105, 116, 121]
  | .fin s m e =>
    if m = 0 then [48]
    else if isIntegral m e then (if s then [45] else []) ++ dec (truncAbs m e)
    else if isIntegral (m * 2) e then (if s then [45] else []) ++ dec (truncAbs m e) ++ [46, 53]     -- k + 0.5
    else [63]     -- not generated

def valToBytes (v : Val) : List Nat :=
  match v with
  | .undef => [117, 110, 100, 101, 102, 105, 110, 101, 100]
  | .null => [110, 117, 108, 108]
  | .bool true => [116, 114, 117, 101]
  | .bool false => [102, 97, 108, 115, 101]
  | .int i => (if i < 0 then [45] else []) ++ dec i.natAbs
  | .num x => numToBytes x
  | .str s => s
  | .recv => [63]
  | .obj _ => [63]

def env : Env := { pn := OttoVerif.PN.parseNumber, ts := valToBytes }

/-! ### parsing -/

def val? (t : String) : Option Val :=
  match t.toList with
  | ['u'] => some .undef
  | ['n'] => some .null
  | ['T'] => some (.bool true)
  | ['F'] => some (.bool false)
  | ['R'] => some .recv
  | 'O' :: r => (String.ofList r).toNat?.map .obj
  | 'd' :: r => (f64? (String.ofList r)).map .num
  | 's' :: r => (bytes? (String.ofList r)).map .str
  | _ => none

/-- key bytes ↦ Key: "length", canonical decimal numerals, everything else -/
def keyOfBytes (b : List Nat) : Key :=
  if b = lengthBytes then .length
  else
    let canon : Bool := match b with
      | [] => false
      | c :: r => (c ≠ 48 || r.isEmpty) && b.all (fun c => 48 ≤ c && c ≤ 57)
    if canon then .idx (b.foldl (fun a c => a * 10 + (c - 48)) 0) else .name b

def key? (t : String) : Option Key :=
  match t.toList with
  | 'k' :: r => (bytes? (String.ofList r)).map keyOfBytes
  | 'N' :: r => (val? (String.ofList r)).map fun v => keyOfBytes (valToBytes v)     -- a numeric subscript: ToString (§11.2.1 step 6)
  | _ => none

def tri? (t : String) : Option (Option Bool) :=
  if t = "1" then some (some true) else if t = "0" then some (some false) else if t = "-" then some none else none

def splitList (t : String) : List String := if t.isEmpty then [] else t.splitOn ","

def elems? (t : String) : Option (List (Option Val)) :=
  (splitList t).mapM (fun e => if e = "_" then some none else (val? e).map some)

def vals? (t : String) : Option (List Val) := (splitList t).mapM val?

/-- one scripted conversion `<eff>~<res>`: eff ∈ `-` | `p<val>` | `l<val>` | `d<k>`, res ∈ value | `!T` | `!R` -/
def conv? (t : String) : Option Conv :=
  match t.splitOn "~" with
  | [e, r] => do
    let eff ← match e.toList with
      | ['-'] => some Eff.none
      | 'p' :: x => (val? (String.ofList x)).map Eff.push
      | 'l' :: x => (val? (String.ofList x)).map Eff.setLen
      | 'd' :: x => (String.ofList x).toNat?.map Eff.del
      | _ => none
    if r = "!T" then pure { eff := eff, res := none }
    else if r = "!R" then pure { eff := eff, res := none, throwRange := true }
    else do let v ← val? r; pure { eff := eff, res := some v }
  | _ => none

def script? (t : String) : Option (List Conv) := (splitList t).mapM conv?

def protos? (t : String) : Option (List (Nat × Val)) :=
  (splitList t).mapM (fun e => match e.splitOn ":" with
    | [i, v] => do let i ← i.toNat?; let v ← val? v; pure (i, v)
    | _ => none)

/-! ### printing -/

def valOut : Val → String
  | .undef => "u" | .null => "n"
  | .bool b => if b then "T" else "F"
  | .int i => "d" ++ f64Out (ofInt i)
  | .num x => "d" ++ f64Out x
  | .str s => "s" ++ bytesOut s
  | .recv => "R"
  | .obj id => "O" ++ toString id

def b01 (b : Bool) : String := if b then "1" else "0"

def retOut : Ret → String
  | .val v => valOut v
  | .arr es => "[" ++ ",".intercalate (es.map fun e => match e with | some v => valOut v | none => "_") ++ "]"

def insertSorted {α : Type} (lt : α → α → Bool) (x : α) : List α → List α
  | [] => [x]
  | y :: r => if lt x y then x :: y :: r else y :: insertSorted lt x r

def sortBy {α : Type} (lt : α → α → Bool) (l : List α) : List α := l.foldr (insertSorted lt) []

def dump (o : Obj) : String :=
  let lenP := lookup .length o.props
  let idxs := o.props.filterMap fun (k, p) => match k with | .idx n => some (n, p) | _ => none
  let names := o.props.filterMap fun (k, p) => match k with | .name s => some (bytesOut s, p) | _ => none
  let pOut (p : PropD) : String := valOut p.v ++ b01 p.w ++ b01 p.e ++ b01 p.c
  let is := (sortBy (fun a b => a.1 < b.1) idxs).map fun (n, p) => "i" ++ toString n ++ "=" ++ pOut p
  let ns := (sortBy (fun a b => a.1 < b.1) names).map fun (s, p) => "n" ++ s ++ "=" ++ pOut p
  "L" ++ (match lenP with | some p => valOut p.v ++ "w" ++ b01 p.w | none => "-")
    ++ "x" ++ b01 o.ext ++ "{" ++ ";".intercalate (is ++ ns) ++ "}"

def errOut : Err → String
  | .type => "ETypeError"
  | .range => "ERangeError"

/-! ### one side (model or spec) of the object layer and of the methods -/

structure Side where
  put : Key → Val → Bool → M Obj Unit
  del : Key → Bool → M Obj Bool
  define : Key → Desc → Bool → M Obj Bool
  stPut : Key → Val → Bool → M St Unit
  stDefine : Key → Desc → Bool → M St Bool
  newLen : Val → Option Nat
  freeze : Bool → M Obj Unit
  ops : Ops St
  method : List (Nat × Val) → String → String → Option (M St Ret)

/-- concat arguments: a value token, or `a:<e>:<e>…` for an array literal; holes of an array
    argument are resolved against the inherited index properties (what [[HasProperty]]/[[Get]] see) -/
def carg? (ps : List (Nat × Val)) (t : String) : Option CArg :=
  match t.splitOn ":" with
  | "a" :: es => do
    let es ← es.mapM (fun e => if e = "_" then some none else (val? e).map some)
    pure (.arr (((List.range es.length).zip es).map fun (i, e) =>
      match e with
      | some v => some v
      | none => (ps.find? (fun q => q.1 = i)).map (·.2)))
  | _ => (val? t).map .v

def cargs? (ps : List (Nat × Val)) (t : String) : Option (List CArg) := (splitList t).mapM (carg? ps)

/-- comparefn `function(x,y){return x-y}`: otto's toIntSign of the difference (NaN counts as 0) -/
def numCmpModel (x y : Val) : Int :=
  match sub (toFloat env x) (toFloat env y) with
  | .fin s m _ => if m = 0 then 0 else if s then -1 else 1
  | .inf s => if s then -1 else 1
  | .nan => 0
/-- the sign ES5 sees -/
def numCmpSpec (x y : Val) : Int :=
  match sub (Spec.toNumber env x) (Spec.toNumber env y) with
  | .fin s m _ => if m = 0 then 0 else if s then -1 else 1
  | .inf s => if s then -1 else 1
  | .nan => 0
/-- comparefn `function(x,y){return x<y?-Infinity:(x>y?Infinity:0)}` -/
def infCmpSpec (x y : Val) : Int :=
  if lt (Spec.toNumber env x) (Spec.toNumber env y) then -1
  else if lt (Spec.toNumber env y) (Spec.toNumber env x) then 1 else 0

/-- `name!` = the same method called with a non-callable first argument -/
def splitBang (name : String) : String × Bool :=
  if name.endsWith "!" then ((name.dropEnd 1).toString, false) else (name, true)

def modelMethod (ps : List (Nat × Val)) (name : String) (argTok : String) : Option (M St Ret) :=
  let O := modelOps env
  let (name, callable) := splitBang name
  if name = "concat" then (cargs? ps argTok).map (concat O) else
  match vals? argTok with
  | none => none
  | some args =>
    match name with
    | "push" => some (push O args)
    | "pop" => some (pop O)
    | "shift" => some (shift O)
    | "unshift" => some (unshift O args)
    | "slice" => some (slice O env args)
    | "indexOf" => some (indexOf O env args)
    | "reverse" => some (reverse O)
    | "join" => some (join O env args)
    | "splice" => some (splice O env args)
    | "lastIndexOf" => some (lastIndexOf O env args)
    | "every" => some (every O callable)
    | "some" => some (some_ O callable)
    | "forEach" => some (forEach O callable)
    | "map" => some (map O callable)
    | "filter" => some (filter O callable)
    | "reduce" => some (reduce O callable args)
    | "reduceRight" => some (reduceRight O callable args)
    | "toString" => some (toStringM O env args)
    | "toLocaleString" => some (toLocaleStringM O env args)
    | "sort" => some (sort O env true none)
    | "sortNum" => some (sort O env true (some numCmpModel))
    | "sortInf" => some (sort O env true (some infCmpSpec))        -- toIntSign(±Infinity) = ±1
    | _ => none

def specMethod (ps : List (Nat × Val)) (name : String) (argTok : String) : Option (M St Ret) :=
  let O := Spec.specOps env
  let (name, callable) := splitBang name
  if name = "concat" then (cargs? ps argTok).map (Spec.concat O) else
  match vals? argTok with
  | none => none
  | some args =>
    match name with
    | "push" => some (Spec.push O args)
    | "pop" => some (Spec.pop O)
    | "shift" => some (Spec.shift O)
    | "unshift" => some (Spec.unshift O args)
    | "slice" => some (Spec.slice O env args)
    | "indexOf" => some (Spec.indexOf O env args)
    | "reverse" => some (Spec.reverse O)
    | "join" => some (Spec.join O env args)
    | "splice" => some (Spec.splice O env args)
    | "lastIndexOf" => some (Spec.lastIndexOf O env args)
    | "every" => some (Spec.every O callable)
    | "some" => some (Spec.some_ O callable)
    | "forEach" => some (Spec.forEach O callable)
    | "map" => some (Spec.map O callable)
    | "filter" => some (Spec.filter O callable)
    | "reduce" => some (Spec.reduce O callable args)
    | "reduceRight" => some (Spec.reduceRight O callable args)
    | "toString" => some (Spec.toStringS O env args)
    | "toLocaleString" => some (Spec.toLocaleStringS O env args)
    | "sort" => some (Spec.sort O env true none)
    | "sortNum" => some (Spec.sort O env true (some numCmpSpec))
    | "sortInf" => some (Spec.sort O env true (some infCmpSpec))
    | _ => none

def modelSide : Side :=
  { put := objectPut env, del := objectDelete, define := defineOwnProperty env, stPut := stPut env, stDefine := stDefine env,
    newLen := arrayUint32 env, freeze := freeze env, ops := modelOps env, method := modelMethod }

def specSide : Side :=
  { put := Spec.put env, del := Spec.delete, define := Spec.defineOwn env, stPut := Spec.stPut env, stDefine := Spec.stDefine env,
    newLen := Spec.lengthOf env, freeze := Spec.freeze env, ops := Spec.specOps env, method := specMethod }

def logOut (log : List (List Val)) : String :=
  if log.isEmpty then "" else "~" ++ ";".intercalate (log.reverse.map fun a => ",".intercalate (a.map valOut))

/-- the `join` the harness gives the receiver for one call: (is it an accessor, what the value is) -/
def joinSrc? : String → Option (Bool × JoinKind)
  | "b" => some (false, .builtin)       -- untouched: Array.prototype.join
  | "ownb" => some (false, .builtin)    -- own data property holding Array.prototype.join
  | "own" => some (false, .user)        -- own data property holding a script function
  | "proto" => some (false, .user)      -- the prototype's join replaced by a script function
  | "nc" => some (false, .other)        -- own data property 5
  | "und" => some (false, .other)       -- own data property undefined
  | "none" => some (false, .other)      -- no join anywhere (array-likes, primitives)
  | "pdel" => some (false, .other)      -- Array.prototype.join deleted
  | "acc" => some (true, .user)         -- own accessor whose getter returns a script function
  | "accb" => some (true, .builtin)     -- … Array.prototype.join
  | "accn" => some (true, .other)       -- … 5
  | _ => none

/-- [[Class]] of ToObject(this) -/
def classOf (tr : Val) (o : Obj) : List Nat :=
  if o.isArr then "Array".toUTF8.toList.map (·.toNat) else
  match tr with
  | .str _ => "String".toUTF8.toList.map (·.toNat)
  | .num _ => "Number".toUTF8.toList.map (·.toNat)
  | .int _ => "Number".toUTF8.toList.map (·.toNat)
  | .bool _ => "Boolean".toUTF8.toList.map (·.toNat)
  | _ => "Object".toUTF8.toList.map (·.toNat)

/-- how the harness reaches toString of an array other than by calling it (§8.12.8 [[DefaultValue]] with the untouched
    Object.prototype.valueOf, which returns the object: the result is what toString returns if that is a primitive, a
    TypeError otherwise), and what the surrounding expression makes of the primitive:
    `add` = ""+a, `str` = String(a), `eq` = a=="x", `key` = ({x:"hit"})[a]. Harness semantics, the same on both sides. -/
def viaPrimitive (mode : String) (r : Res St Ret) : Res St Ret :=
  if mode = "call" then r else
  match r with
  | .err e s => .err e s
  | .ok (.arr _) s => .err .type s
  | .ok (.val (.obj _)) s => .err .type s
  | .ok (.val .recv) s => .err .type s
  | .ok (.val p) s =>
    let str := valToBytes p
    if mode = "eq" then .ok (.val (.bool (p == Val.str [120]))) s
    else if mode = "key" then .ok (.val (if str = [120] then .str [104, 105, 116] else .undef)) s
    else .ok (.val (.str str)) s

/-- run one step; returns the outcome token and the new object -/
def step (S : Side) (tr : Val) (o : Obj) (t : String) : Option (String × Obj) :=
  let fields := t.splitOn "/"
  let putStep (k v sc : String) : Option (String × Obj) := do
    let k ← key? k; let v ← val? v; let script ← script? sc
    match S.stPut k v false { o := o, script := script, thisRaw := tr } with
    | .ok _ s => pure ("ok" ++ logOut s.log, s.o)
    | .err e s => pure (errOut e ++ logOut s.log, s.o)
  let defStep (k v w e c sc : String) : Option (String × Obj) := do
    let k ← key? k
    let v ← if v = "-" then some none else (val? v).map some
    let w ← tri? w; let e ← tri? e; let c ← tri? c; let script ← script? sc
    match S.stDefine k ⟨v, w, e, c⟩ true { o := o, script := script, thisRaw := tr } with
    | .ok _ s => pure ("ok" ++ logOut s.log, s.o)
    | .err e s => pure (errOut e ++ logOut s.log, s.o)
  let callStep (m args rets script : String) : Option (String × Obj) := do
    let rets ← vals? rets
    let script ← script? script
    -- `toString.<mode>.<src>`: how toString is reached and what `join` of the receiver is
    let (m, mode, getter, kind) ← (match m.splitOn "." with
      | [m] => some (m, "call", false, JoinKind.builtin)
      | [m, mode, src] => (joinSrc? src).map fun (g, k) => (m, mode, g, k)
      | _ => none)
    let f ← S.method o.proto m args
    match viaPrimitive mode (f { o := o, rets := rets, script := script, thisRaw := tr,
                                 joinGetter := getter, joinKind := kind, cls := classOf tr o }) with
    | .ok r s => pure (retOut r ++ logOut s.log, s.o)
    | .err e s => pure (errOut e ++ logOut s.log, s.o)
  match fields with
  | ["put", k, v] => putStep k v ""
  | ["put", k, v, sc] => putStep k v sc
  | ["del", k] => do
    let k ← key? k
    match S.del k false o with
    | .ok b o' => pure (if b then "T" else "F", o')
    | .err e o' => pure (errOut e, o')
  | ["def", k, v, w, e, c] => defStep k v w e c ""
  | ["def", k, v, w, e, c, sc] => defStep k v w e c sc
  | ["frz"] =>
    match S.freeze false o with
    | .ok _ o' => pure ("ok", o')
    | .err e o' => pure (errOut e, o')
  | ["seal"] =>
    match S.freeze true o with
    | .ok _ o' => pure ("ok", o')
    | .err e o' => pure (errOut e, o')
  | ["noext"] => pure ("ok", { o with ext := false })
  | ["new", v] => do
    let v ← val? v
    match v with
    | .num _ => match S.newLen v with
      | some n => pure ("L" ++ toString n, o)
      | none => pure ("ERangeError", o)
    | _ => pure ("L1", o)
  | ["call", m, args, rets] => callStep m args rets ""
  | ["call", m, args, rets, script] => callStep m args rets script
  | _ => none

def runSteps (S : Side) (tr : Val) (o0 : Obj) : Obj → List String → List String → Option (List String × Obj)
  | o, [], acc => some (acc.reverse, o)
  | o, t :: ts, acc => do
    let (r, o') ← step S tr o t
    -- a primitive receiver is wrapped anew (ToObject) by every call: nothing carries over
    runSteps S tr o0 (if tr = .recv then o' else o0) ts (r :: acc)

def initObj (es : List (Option Val)) (ps : List (Nat × Val)) : Obj :=
  let props : List (Key × PropD) := (Key.length, ⟨.int es.length, true, false, false⟩) ::
    ((List.range es.length).zip es).filterMap fun (i, e) => e.map fun v => (Key.idx i, ⟨v, true, true, true⟩)
  { isArr := true, ext := true, props := props, proto := ps }

/-- an array-like: a plain object with an ordinary `length` property (absent for `-`) and index properties -/
def initLike (len : Option Val) (es : List (Option Val)) : Obj :=
  let lp : List (Key × PropD) := match len with | some v => [(Key.length, ⟨v, true, true, true⟩)] | none => []
  let props : List (Key × PropD) := lp ++
    ((List.range es.length).zip es).filterMap fun (i, e) => e.map fun v => (Key.idx i, ⟨v, true, true, true⟩)
  { isArr := false, ext := true, props := props, proto := [] }

/-- `tr` = the `this` value of the calls: the receiver object, or the primitive it is made from by ToObject (then the
    wrapper is not observable after the call and no final dump is printed) -/
def runHist (S : Side) (tr : Val) (o : Obj) (steps : List String) : String :=
  match runSteps S tr o o steps [] with
  | some (rs, o') => "|".intercalate (rs ++ [if tr = .recv then dump o' else "P"])
  | none => "bad-step"

/-- ToObject(primitive): a String object has the non-writable, non-configurable `length` and one read-only
    enumerable property per UTF-16 code unit (ASCII strings only are generated); Number and Boolean objects have none -/
def initPrim (v : Val) : Obj :=
  match v with
  | .str b =>
    let props : List (Key × PropD) := (Key.length, ⟨.int b.length, false, false, false⟩) ::
      ((List.range b.length).zip b).map fun (i, c) => (Key.idx i, ⟨.str [c], false, true, false⟩)
    { isArr := false, ext := true, props := props, proto := [] }
  | _ => { isArr := false, ext := true, props := [], proto := [] }

/-! ### deviation regions: decidable predicates on the request -/

def addDev (acc : List String) (d : String) : List String := if acc.contains d then acc else acc ++ [d]

/-- regions of one step, evaluated on the object the *model* has reached before the step -/
def isObj : Val → Bool
  | .obj _ => true
  | _ => false

def stepDev (tr : Val) (o : Obj) (t : String) : List String :=
  match t.splitOn "/" with
  | "call" :: m :: argTok :: _ :: rest =>
    let O := modelOps env
    let script : List Conv := match rest with | [sc] => (script? sc).getD [] | _ => []
    let s : St := { o := o, script := script, thisRaw := tr }
    let (name, _) := splitBang m
    match vals? argTok with
    | some args =>
      (if name = "splice" then
        -- ES5.1 letter: a missing deleteCount is ToInteger(undefined) = 0; otto (and ES2015) remove up to the end
        match readLen O s with
        | .ok len s1 =>
          match O.conv (argAt args 0) s1 with
          | .ok p _ =>
            let start := (valueToRangeIndex env p len false).toNat
            if args.length = 1 ∧ len - start > 0 then ["splice_one_argument"] else []
          | .err _ _ => []
        | .err _ _ => []
       else [])
    | none => []
  | _ => []

def histDev (tr : Val) (o : Obj) (steps : List String) : List String :=
  (steps.foldl (fun (acc : List String × Obj) t =>
    let ds := (stepDev tr acc.2 t).foldl addDev acc.1
    match step modelSide tr acc.2 t with
    | some (_, o') => (ds, if tr = .recv then o' else o)
    | none => (ds, acc.2)) ([], o)).1

def devOut (ds : List String) : String := if ds.isEmpty then "-" else ",".intercalate ds

def reply (m s dev : String) : String := m ++ " " ++ s ++ " " ++ dev

def stripPrefix (p : String) (t : String) : Option String :=
  if t.startsWith p then some (t.drop p.length).toString else none

def handle (ws : List String) : String :=
  match ws with
  | ["idx", k] =>
    match k.toList with
    | 'k' :: r =>
      match bytes? (String.ofList r) with
      | some b =>
        let m := stringToArrayIndexRaw b
        let s : Int := match Spec.arrayIndex? b with | some n => n | none => -1
        reply (toString m) (toString s) "-"
      | none => "bad-op"
    | _ => "bad-op"
  | ["range", v, len, nz] =>
    match val? v, len.toNat? with
    | some v, some len =>
      let m := valueToRangeIndex env v len (nz = "1")
      let s : Nat :=
        if nz = "1" then
          (match Spec.toInteger env v with
            | .ninf => 0 | .pinf => len | .fin i => if i < 0 then 0 else if i < len then i.toNat else len)
        else Spec.relIndex (Spec.toInteger env v) len
      reply (toString m) (toString s) "-"
    | _, _ => "bad-op"
  | "h" :: a :: p :: steps =>
    match (stripPrefix "a=" a).bind elems?, (stripPrefix "p=" p).bind protos? with
    | some es, some ps =>
      let o := initObj es ps
      reply (runHist modelSide .recv o steps) (runHist specSide .recv o steps) (devOut (histDev .recv o steps))
    | _, _ =>
      -- `o=<length|->|<elems>`: an array-like receiver
      if a = "A=" then
        -- Array.prototype itself: an Array of length 0 (§15.4.4)
        let o := initObj [] []
        reply (runHist modelSide .recv o steps) (runHist specSide .recv o steps) (devOut (histDev .recv o steps))
      else match (stripPrefix "v=" a).bind val? with
      | some pv =>
        let o := initPrim pv
        reply (runHist modelSide pv o steps) (runHist specSide pv o steps) (devOut (histDev pv o steps))
      | none =>
      match (stripPrefix "o=" a).map (·.splitOn "|") with
      | some [l, e] =>
        match (if l = "-" then some none else (val? l).map some), elems? e with
        | some len, some es =>
          let o := initLike len es
          reply (runHist modelSide .recv o steps) (runHist specSide .recv o steps) (devOut (histDev .recv o steps))
        | _, _ => "bad-op"
      | _ => "bad-op"
  | _ => "bad-op"

end OttoVerif.C08.Driver
