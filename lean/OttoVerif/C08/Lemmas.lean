/-
  C08/Lemmas — helper lemmas for the ledger (audited together with Theorems.lean):
  decimal numerals vs strconv.ParseInt, the property store (lookup/write/erase), the effect of
  objectDefineOwnProperty / objectDelete on the store, and the array length invariant.
-/
import OttoVerif.C08.Spec
namespace OttoVerif.C08.Thm
open OttoVerif.C08 OttoVerif.F64 OttoVerif.GoStd

/-- the digit step of strconv.ParseUint in base 10 -/
def pstep (st : Option (Nat × Bool)) (c : Nat) : Option (Nat × Bool) :=
  match st with
  | none => none
  | some (n, us) =>
    if c = ch '_' ∧ False then some (n, true)
    else match digitVal c with
      | none => none
      | some d => if d ≥ 10 then none else some (n * 10 + d, us)

theorem digitVal_digit (d : Nat) (h : d < 10) : digitVal (48 + d) = some d := by
  simp only [digitVal, isDigit]
  have : (decide (48 ≤ 48 + d) && decide (48 + d ≤ 57)) = true := by simp; omega
  simp
  intro h'; omega

theorem pstep_digit (a d : Nat) (h : d < 10) : pstep (some (a, false)) (48 + d) = some (a * 10 + d, false) := by
  simp only [pstep, digitVal_digit d h]
  have : ¬ d ≥ 10 := by omega
  simp [this]

theorem foldl_decAux (fuel n : Nat) (acc : List Nat) (h : n < fuel) :
    (decAux fuel n acc).foldl pstep (some (0, false)) = acc.foldl pstep (some (n, false)) := by
  induction fuel generalizing n acc with
  | zero => omega
  | succ f ih =>
    simp only [decAux]
    by_cases h10 : n < 10
    · simp only [h10, if_true, List.foldl_cons, pstep_digit 0 n h10]; simp
    · simp only [h10, if_false]
      rw [ih (n / 10) _ (by omega)]
      simp only [List.foldl_cons, pstep_digit (n / 10) (n % 10) (Nat.mod_lt _ (by decide))]
      have : n / 10 * 10 + n % 10 = n := by omega
      rw [this]

theorem decAux_digits (fuel n : Nat) (acc : List Nat) : ∀ c ∈ decAux fuel n acc, c ∈ acc ∨ (48 ≤ c ∧ c ≤ 57) := by
  induction fuel generalizing n acc with
  | zero => intro c hc; exact Or.inl hc
  | succ f ih =>
    intro c hc
    simp only [decAux] at hc
    by_cases h10 : n < 10
    · simp only [h10, if_true, List.mem_cons] at hc
      rcases hc with h | h
      · right; omega
      · left; exact h
    · simp only [h10, if_false] at hc
      rcases ih _ _ c hc with h | h
      · simp only [List.mem_cons] at h
        rcases h with h | h
        · right; have := Nat.mod_lt n (show 10 > 0 by decide); omega
        · left; exact h
      · right; exact h

theorem decAux_ne_nil (fuel n : Nat) (acc : List Nat) (h : n < fuel) : decAux fuel n acc ≠ [] := by
  induction fuel generalizing n acc with
  | zero => omega
  | succ f ih =>
    simp only [decAux]
    by_cases h10 : n < 10
    · simp [h10]
    · simp only [h10, if_false]; exact ih _ _ (by omega)

/-- head of the numeral: a non-zero digit unless n = 0 -/
theorem decAux_head (fuel n : Nat) (acc : List Nat) (h : n < fuel) (hn : 1 ≤ n) :
    ∃ c r, decAux fuel n acc = c :: r ∧ 49 ≤ c ∧ c ≤ 57 := by
  induction fuel generalizing n acc with
  | zero => omega
  | succ f ih =>
    simp only [decAux]
    by_cases h10 : n < 10
    · simp only [h10, if_true]; exact ⟨48 + n, acc, rfl, by omega, by omega⟩
    · simp only [h10, if_false]; exact ih _ _ (by omega) (by omega)

theorem dec_zero : dec 0 = [48] := by decide

theorem parseUint_dec (n : Nat) : parseUint (dec n) 10 = if n ≥ 2^64 then .range else .ok n := by
  have hne : dec n ≠ [] := decAux_ne_nil _ _ _ (by omega)
  have hf := foldl_decAux (n + 1) n [] (by omega)
  simp only [List.foldl_nil] at hf
  unfold parseUint
  have he : (dec n).isEmpty = false := by cases hd : dec n with | nil => exact absurd hd hne | cons _ _ => rfl
  simp only [he, Bool.false_eq_true, if_false]
  simp
  have hf' : List.foldl pstep (some (0, false)) (dec n) = some (n, false) := hf
  generalize hF : List.foldl _ (some (0, false)) (dec n) = R
  have hR : R = some (n, false) := by
    rw [← hF, ← hf']
    congr 1
    funext st c
    cases st with
    | none => rfl
    | some p => obtain ⟨a, us⟩ := p; simp [pstep]; cases digitVal c <;> rfl
  subst hR
  simp

theorem parseInt_dec (n : Nat) : parseInt (dec n) 10 = if n ≥ 2^63 then .range else .ok n := by
  have hne : dec n ≠ [] := decAux_ne_nil _ _ _ (by omega)
  unfold parseInt
  cases hd : dec n with
  | nil => exact absurd hd hne
  | cons c r =>
    have hc : 48 ≤ c ∧ c ≤ 57 := by
      have := decAux_digits (n + 1) n [] c (by show c ∈ dec n; rw [hd]; exact List.mem_cons_self ..)
      simpa using this
    have h1 : ¬ c = ch '+' := by simp [ch]; omega
    have h2 : ¬ c = ch '-' := by simp [ch]; omega
    simp only [List.isEmpty_cons, Bool.false_eq_true, if_false, h1, h2]
    rw [← hd, parseUint_dec n]
    by_cases h64 : n ≥ 2^64
    · have : n ≥ 2^63 := by omega
      simp [h64, this]
    · by_cases h63 : n ≥ 2^63
      · simp [h64, h63]; omega
      · simp [h64, h63]; omega

/-- `array_index` on canonical numerals: stringToArrayIndex of the decimal numeral of n is n below 2^32−1
    and −1 from there on (including beyond int64) -/
theorem stringToArrayIndex_idx (n : Nat) :
    stringToArrayIndex (.idx n) = if n < 2^32 - 1 then (n : Int) else -1 := by
  simp only [stringToArrayIndex, Key.toBytes, stringToArrayIndexRaw]
  rw [parseInt_dec n]
  simp only [maxUint32]
  by_cases h63 : n ≥ 2^63
  · have : ¬ n < 2^32 - 1 := by omega
    simp [h63, this]
  · simp only [h63, if_false]
    have hnat : ((n : Nat) : Int).toNat = n := by omega
    simp only [hnat, ne_eq, not_true_eq_false, if_false]
    repeat' (first | omega | split)

theorem digitsValue_decAux (fuel n : Nat) (acc : List Nat) (h : n < fuel) :
    Spec.digitsValue (decAux fuel n acc) 0 = Spec.digitsValue acc n := by
  induction fuel generalizing n acc with
  | zero => omega
  | succ f ih =>
    simp only [decAux]
    by_cases h10 : n < 10
    · simp only [h10, if_true, Spec.digitsValue]
      have : 48 ≤ 48 + n ∧ 48 + n ≤ 57 := by omega
      simp [this]
    · simp only [h10, if_false]
      rw [ih (n / 10) _ (by omega)]
      simp only [Spec.digitsValue]
      have hm := Nat.mod_lt n (show 10 > 0 by decide)
      have : 48 ≤ 48 + n % 10 ∧ 48 + n % 10 ≤ 57 := by omega
      simp only [this, and_self, if_true]
      have : n / 10 * 10 + (48 + n % 10 - 48) = n := by omega
      rw [this]

/-- the canonical-index specification on canonical numerals -/
theorem arrayIndex_dec (n : Nat) : Spec.arrayIndex? (dec n) = if n < 2^32 - 1 then some n else none := by
  have hv : Spec.digitsValue (dec n) 0 = some n := by
    have := digitsValue_decAux (n + 1) n [] (by omega)
    simp only [Spec.digitsValue] at this
    exact this
  by_cases h0 : n = 0
  · subst h0; decide
  · obtain ⟨c, r, hd, hc1, hc2⟩ := decAux_head (n + 1) n [] (by omega) (by omega)
    have hd' : dec n = c :: r := hd
    unfold Spec.arrayIndex?
    rw [hd'] at hv ⊢
    have : ¬ (c = 48 ∧ r ≠ []) := by omega
    simp only [this, if_false, hv]

/-- `array_index_partial`: on every canonical numeral otto's stringToArrayIndex is the ES5 array index -/
theorem array_index_partial (n : Nat) :
    stringToArrayIndex (.idx n) = (match Spec.arrayIndex? (Key.idx n).toBytes with | some i => (i : Int) | none => -1) := by
  rw [stringToArrayIndex_idx]
  simp only [Key.toBytes, arrayIndex_dec]
  split <;> simp

/-! ## the property store -/

theorem lookup_write_self (k : Key) (p : PropD) (l : List (Key × PropD)) : lookup k (write k p l) = some p := by
  induction l with
  | nil => simp [write, lookup]
  | cons q r ih =>
    obtain ⟨k', p'⟩ := q
    by_cases h : k' = k
    · simp [write, h, lookup]
    · simp [write, h, lookup, ih]

theorem lookup_write_ne (k k' : Key) (p : PropD) (l : List (Key × PropD)) (h : k' ≠ k) :
    lookup k' (write k p l) = lookup k' l := by
  induction l with
  | nil => have : ¬ k = k' := fun e => h e.symm; simp [write, lookup, this]
  | cons q r ih =>
    obtain ⟨k'', p''⟩ := q
    by_cases h1 : k'' = k
    · subst h1
      have : ¬ k'' = k' := fun e => h e.symm
      simp [write, lookup, this]
    · by_cases h2 : k'' = k'
      · subst h2; simp [write, h1, lookup]
      · simp [write, h1, lookup, h2, ih]

theorem lookup_erase_self (k : Key) (l : List (Key × PropD)) : lookup k (erase k l) = none := by
  induction l with
  | nil => rfl
  | cons q r ih =>
    obtain ⟨k', p'⟩ := q
    by_cases h : k' = k
    · simp [erase, h, ih]
    · simp [erase, h, lookup, ih]

theorem lookup_erase_ne (k k' : Key) (l : List (Key × PropD)) (h : k' ≠ k) : lookup k' (erase k l) = lookup k' l := by
  induction l with
  | nil => rfl
  | cons q r ih =>
    obtain ⟨k'', p''⟩ := q
    by_cases h1 : k'' = k
    · subst h1
      have : ¬ k'' = k' := fun e => h e.symm
      simp [erase, lookup, this, ih]
    · by_cases h2 : k'' = k'
      · subst h2; simp [erase, h1, lookup]
      · simp [erase, h1, lookup, h2, ih]

def stateOf {σ α : Type} : Res σ α → σ
  | .ok _ s => s
  | .err _ s => s

/-! ## effect of objectDefineOwnProperty -/

/-- Either nothing changes (rejection or an empty descriptor), or the call succeeds and rewrites exactly the
    property `k`; a non-configurable property stays non-configurable and keeps its enumerable flag. -/
theorem odp_effect (E : Env) (k : Key) (d : Desc) (t : Bool) (o : Obj) :
    stateOf (objectDefineOwnProperty E k d t o) = o ∨
    ∃ p', objectDefineOwnProperty E k d t o = .ok true { o with props := write k p' o.props } ∧
      (match lookup k o.props with
        | none => p'.v = d.v.getD .undef
        | some p => p'.v = d.v.getD p.v ∧ (p.c = false → p'.c = false ∧ p'.e = p.e)) := by
  unfold objectDefineOwnProperty
  cases hl : lookup k o.props with
  | none =>
    by_cases he : o.ext = true
    · right; exact ⟨⟨d.v.getD .undef, d.w == some true, d.e == some true, d.c == some true⟩, by simp [he], rfl⟩
    · left; simp [he, reject]; cases t <;> rfl
  | some p =>
    obtain ⟨pv, pw, pe, pc⟩ := p
    obtain ⟨dv, dw, de, dc⟩ := d
    have hrej : stateOf (reject t o : Res Obj Bool) = o := by simp only [reject]; cases t <;> rfl
    cases dv with
    | none =>
      simp only
      repeat' split
      all_goals first
        | (left; first | rfl | exact hrej)
        | (right
           refine ⟨_, rfl, rfl, ?_⟩
           intro hc
           try simp only at hc
           subst hc
           rename_i h1 h2 _ _
           cases dc with
           | none => cases de with
             | none => simp
             | some b => cases b <;> cases pe <;> simp_all
           | some b =>
             cases b with
             | true => simp at h1
             | false => cases de with
               | none => simp
               | some b => cases b <;> cases pe <;> simp_all)
    | some v =>
      simp only
      repeat' split
      all_goals first
        | (left; first | rfl | exact hrej)
        | (right
           refine ⟨_, rfl, rfl, ?_⟩
           intro hc
           try simp only at hc
           subst hc
           rename_i h1 h2 _ _
           cases dc with
           | none => cases de with
             | none => simp
             | some b => cases b <;> cases pe <;> simp_all
           | some b =>
             cases b with
             | true => simp at h1
             | false => cases de with
               | none => simp
               | some b => cases b <;> cases pe <;> simp_all)

/-! ## the array length invariant -/

/-- the own "length" property is the uint32 data property n (non-enumerable, non-configurable) -/
def LenProp (o : Obj) (n : Nat) (w : Bool) : Prop :=
  lookup .length o.props = some ⟨.int (n : Nat), w, false, false⟩

/-- every present array index is below m -/
def Bound (o : Obj) (m : Nat) : Prop :=
  ∀ n, n < 2^32 - 1 → (lookup (.idx n) o.props).isSome = true → n < m

/-- the invariant of §15.4: an Array object whose length is a uint32 data property greater than every
    present array index -/
structure WFArr (o : Obj) : Prop where
  arr : o.isArr = true
  len : ∃ n w, LenProp o n w ∧ n < 2^32 ∧ Bound o n

theorem arrLength_of (o : Obj) (n : Nat) (w : Bool) (h : LenProp o n w) : arrLength o = n := by
  simp only [LenProp] at h
  simp [arrLength, h]

theorem lengthWritable_of (o : Obj) (n : Nat) (w : Bool) (h : LenProp o n w) : lengthWritable o = w := by
  simp only [LenProp] at h
  simp [lengthWritable, h]

theorem Bound.mono {o : Obj} {m m' : Nat} (h : Bound o m) (hm : m ≤ m') : Bound o m' :=
  fun n h1 h2 => Nat.lt_of_lt_of_le (h n h1 h2) hm

/-- rewriting a property other than "length" keeps the invariant, provided an array index stays below length -/
theorem wf_write_other (o : Obj) (k : Key) (p : PropD) (h : WFArr o) (hk : k ≠ .length)
    (hi : ∀ n, k = .idx n → n < 2^32 - 1 → n < arrLength o) :
    WFArr { o with props := write k p o.props } := by
  obtain ⟨ha, n, w, hl, hn, hb⟩ := h
  refine ⟨ha, n, w, ?_, hn, ?_⟩
  · simp only [LenProp]; rw [lookup_write_ne k .length p _ (fun e => hk e.symm)]; exact hl
  · intro m hm1 hm2
    simp only at hm2
    by_cases hkm : Key.idx m = k
    · have := hi m hkm.symm hm1
      rw [arrLength_of o n w hl] at this; exact this
    · rw [lookup_write_ne k (.idx m) p _ hkm] at hm2
      exact hb m hm1 hm2

theorem wf_odp_other (E : Env) (o : Obj) (k : Key) (d : Desc) (t : Bool) (h : WFArr o) (hk : k ≠ .length)
    (hi : ∀ n, k = .idx n → n < 2^32 - 1 → n < arrLength o) :
    WFArr (stateOf (objectDefineOwnProperty E k d t o)) := by
  rcases odp_effect E k d t o with h1 | ⟨p', h1, _⟩
  · rw [h1]; exact h
  · rw [h1]; exact wf_write_other o k p' h hk hi

/-- defining "length" with no value, or with a uint32 value that still bounds every present index,
    keeps the invariant whatever the outcome -/
theorem wf_odp_length (E : Env) (o : Obj) (d : Desc) (t : Bool) (n : Nat) (w : Bool)
    (ha : o.isArr = true) (hl : LenProp o n w) (hn : n < 2^32) (hb : Bound o n)
    (hv : d.v = none ∨ ∃ m : Nat, d.v = some (.int m) ∧ m < 2^32 ∧ Bound o m) :
    WFArr (stateOf (objectDefineOwnProperty E .length d t o)) := by
  rcases odp_effect E .length d t o with h1 | ⟨p', h1, h2⟩
  · rw [h1]; exact ⟨ha, n, w, hl, hn, hb⟩
  · rw [h1]
    simp only [LenProp] at hl
    rw [hl] at h2
    obtain ⟨hv', hce⟩ := h2
    obtain ⟨hc, he⟩ := hce rfl
    have hbw : ∀ m, Bound o m → Bound { o with props := write .length p' o.props } m := by
      intro m hbm i hi1 hi2
      simp only at hi2
      rw [lookup_write_ne .length (.idx i) p' _ (by intro e; cases e)] at hi2
      exact hbm i hi1 hi2
    obtain ⟨pv, pw, pe, pc⟩ := p'
    simp only at hv' hc he
    subst hc; subst he
    rcases hv with hv | ⟨m, hv, hm, hbm⟩
    · rw [hv] at hv'; simp at hv'; subst hv'
      exact ⟨ha, n, pw, by simp [LenProp, stateOf, lookup_write_self], hn, hbw n hb⟩
    · rw [hv] at hv'; simp at hv'; subst hv'
      exact ⟨ha, m, pw, by simp [LenProp, stateOf, lookup_write_self], hm, hbw m hbm⟩

/-- objectDelete keeps the invariant -/
theorem wf_delete (o : Obj) (k : Key) (t : Bool) (h : WFArr o) : WFArr (stateOf (objectDelete k t o)) := by
  obtain ⟨ha, n, w, hl, hn, hb⟩ := h
  unfold objectDelete
  cases hk : lookup k o.props with
  | none => exact ⟨ha, n, w, hl, hn, hb⟩
  | some p =>
    by_cases hc : p.c = true
    · simp only [hc, if_true, stateOf]
      have hkl : k ≠ .length := by
        intro e; subst e; simp only [LenProp] at hl; rw [hl] at hk; cases hk; simp at hc
      refine ⟨ha, n, w, ?_, hn, ?_⟩
      · simp only [LenProp]; rw [lookup_erase_ne k .length _ (fun e => hkl e.symm)]; exact hl
      · intro m hm1 hm2
        simp only at hm2
        by_cases hkm : Key.idx m = k
        · subst hkm; rw [lookup_erase_self] at hm2; cases hm2
        · rw [lookup_erase_ne k (.idx m) _ hkm] at hm2; exact hb m hm1 hm2
    · have : stateOf (reject t o : Res Obj Bool) = o := by simp only [reject]; cases t <;> rfl
      simp only [hc, Bool.false_eq_true, if_false, this]
      exact ⟨ha, n, w, hl, hn, hb⟩

theorem stateOf_reject (t : Bool) (o : Obj) : stateOf (reject t o : Res Obj Bool) = o := by
  simp only [reject]; cases t <;> rfl

/-- redefining a writable length with a complete descriptor {value: m, writable: w', enumerable: false,
    configurable: false} succeeds -/
theorem odp_length_set (E : Env) (o : Obj) (n m : Nat) (w' t : Bool) (hl : LenProp o n true) :
    objectDefineOwnProperty E .length ⟨some (.int m), some w', some false, some false⟩ t o
      = .ok true { o with props := write .length ⟨.int m, w', false, false⟩ o.props } := by
  simp only [LenProp] at hl
  simp [objectDefineOwnProperty, hl, Desc.isEmpty, Desc.isGeneric, Desc.isData]

theorem stringToArrayIndex_lt (k : Key) (h : stringToArrayIndex k ≥ 0) : (stringToArrayIndex k).toNat < 2^32 - 1 := by
  simp only [stringToArrayIndex, stringToArrayIndexRaw, maxUint32] at *
  cases hp : GoStd.parseInt k.toBytes 10 with
  | ok i => rw [hp] at h; simp only at h ⊢; repeat' (first | omega | split at h | split)
  | range => rw [hp] at h; simp at h
  | «syntax» => rw [hp] at h; simp at h

/-- the index branch of arrayDefineOwnProperty keeps the invariant -/
theorem wf_defineIndex (E : Env) (o : Obj) (k : Key) (d : Desc) (t : Bool) (index : Nat) (h : WFArr o)
    (hidx : index < 2^32 - 1) (hk : k ≠ .length) (hki : ∀ m, k = .idx m → m < 2^32 - 1 → m = index) :
    WFArr (stateOf (arrayDefineIndex E k d t index o)) := by
  have hwf := h
  obtain ⟨ha, n, w, hl, hn, hb⟩ := h
  unfold arrayDefineIndex
  simp only [arrLength_of o n w hl, lengthWritable_of o n w hl]
  by_cases hrej : index ≥ n ∧ w = false
  · simp only [hrej, and_self, if_true, stateOf_reject]; exact hwf
  · simp only [hrej, if_false, bind, M.bind]
    have hlp : (lookup Key.length o.props).getD ⟨.int 0, false, false, false⟩ = ⟨.int (n : Nat), w, false, false⟩ := by
      simp only [LenProp] at hl; simp [hl]
    rw [hlp]
    -- the tail after the first define, on a state o1 that still has the old length property
    have tail : ∀ o1 : Obj, o1.isArr = true → LenProp o1 n w → Bound o1 (if index ≥ n then index + 1 else n) →
        WFArr (stateOf ((if index ≥ n then
            (do let _ ← objectDefineOwnProperty E .length ⟨some (.int (index + 1 : Nat)), some w, some false, some false⟩ false
                pure true)
          else objectDefineOwnProperty E k d t : M Obj Bool) o1)) := by
      intro o1 ha1 hl1 hb1
      by_cases hge : index ≥ n
      · have hw : w = true := by
          cases w with
          | true => rfl
          | false => exact absurd ⟨hge, rfl⟩ hrej
        subst hw
        simp only [hge, if_true, bind, M.bind] at hb1 ⊢
        rw [odp_length_set E o1 n (index + 1) true false hl1]
        simp only [pure, M.pure, stateOf]
        refine ⟨ha1, index + 1, true, by simp [LenProp, lookup_write_self], by omega, ?_⟩
        intro i hi1 hi2
        simp only at hi2
        rw [lookup_write_ne .length (.idx i) _ _ (by intro e; cases e)] at hi2
        exact hb1 i hi1 hi2
      · simp only [hge, if_false] at hb1 ⊢
        apply wf_odp_other E o1 k d t ⟨ha1, n, w, hl1, hn, hb1⟩ hk
        intro m hm1 hm2
        rw [arrLength_of o1 n w hl1, hki m hm1 hm2]; omega
    rcases odp_effect E (.idx index) d false o with h1 | ⟨p', h1, _⟩
    · cases hr : objectDefineOwnProperty E (.idx index) d false o with
      | err e s => rw [hr] at h1; simp only [stateOf] at h1 ⊢; subst h1; exact hwf
      | ok b s =>
        rw [hr] at h1; simp only [stateOf] at h1; subst h1
        cases b with
        | false => simp only [Bool.not_false, if_true, stateOf_reject]; exact hwf
        | true =>
          simp only [Bool.not_true, Bool.false_eq_true, if_false]
          refine tail s ha hl ?_
          split
          · exact hb.mono (by omega)
          · exact hb
    · rw [h1]
      simp only [Bool.not_true, Bool.false_eq_true, if_false]
      refine tail { o with props := write (Key.idx index) p' o.props } ha ?_ ?_
      · simp only [LenProp]; rw [lookup_write_ne (.idx index) .length _ _ (by intro e; cases e)]; exact hl
      · intro i hi1 hi2
        simp only at hi2
        by_cases hii : i = index
        · subst hii; split <;> omega
        · rw [lookup_write_ne (.idx index) (.idx i) _ _ (by intro e; injection e; omega)] at hi2
          have := hb i hi1 hi2
          split <;> omega

/-- what objectDelete(name, false) does -/
theorem objectDelete_cases (k : Key) (o : Obj) :
    (objectDelete k false o = .ok true { o with props := erase k o.props }) ∨
    (objectDelete k false o = .ok false o ∧ ∃ p, lookup k o.props = some p ∧ p.c = false) := by
  unfold objectDelete
  cases hl : lookup k o.props with
  | none =>
    left
    have : erase k o.props = o.props := by
      have : ∀ l : List (Key × PropD), lookup k l = none → erase k l = l := by
        intro l
        induction l with
        | nil => intro _; rfl
        | cons q r ih =>
          obtain ⟨k', p'⟩ := q
          intro h
          by_cases hk : k' = k
          · simp [lookup, hk] at h
          · simp only [lookup, hk, if_false] at h
            simp [erase, hk, ih h]
      exact this _ hl
    simp [this]
  | some p =>
    cases hc : p.c with
    | true => left; simp [hc]
    | false => right; exact ⟨by simp [reject, hc], p, rfl, hc⟩

/-- the descriptor does not ask for configurable:true or enumerable:true (what a non-configurable,
    non-enumerable property such as "length" rejects) -/
def Cok (d : Desc) : Prop := d.c ≠ some true ∧ d.e ≠ some true

theorem odp_length_ok (E : Env) (o : Obj) (M N : Nat) (d : Desc) (t : Bool) (hl : LenProp o M true)
    (hv : d.v = some (.int N)) (hc : Cok d) :
    objectDefineOwnProperty E .length d t o
      = .ok true { o with props := write .length ⟨.int N, d.w.getD true, false, false⟩ o.props } := by
  obtain ⟨dv, dw, de, dc⟩ := d
  simp only at hv; subst hv
  simp only [LenProp] at hl
  obtain ⟨h1, h2⟩ := hc
  simp only at h1 h2
  cases dc with
  | none => cases de with
    | none => cases dw <;> simp [objectDefineOwnProperty, hl, Desc.isEmpty, Desc.isGeneric, Desc.isData]
    | some b => cases b with
      | true => exact absurd rfl h2
      | false => cases dw <;> simp [objectDefineOwnProperty, hl, Desc.isEmpty, Desc.isGeneric, Desc.isData]
  | some b => cases b with
    | true => exact absurd rfl h1
    | false => cases de with
      | none => cases dw <;> simp [objectDefineOwnProperty, hl, Desc.isEmpty, Desc.isGeneric, Desc.isData]
      | some b => cases b with
        | true => exact absurd rfl h2
        | false => cases dw <;> simp [objectDefineOwnProperty, hl, Desc.isEmpty, Desc.isGeneric, Desc.isData]

theorem odp_length_rej (E : Env) (o : Obj) (M : Nat) (w : Bool) (d : Desc) (t : Bool) (hl : LenProp o M w)
    (hv : d.v.isSome = true) (hc : ¬ Cok d) :
    objectDefineOwnProperty E .length d t o = reject t o := by
  obtain ⟨dv, dw, de, dc⟩ := d
  simp only [LenProp] at hl
  simp only [Cok] at hc
  cases dv with
  | none => simp at hv
  | some v =>
    cases dc with
    | none => cases de with
      | none => exact absurd ⟨by simp, by simp⟩ hc
      | some b => cases b with
        | false => exact absurd ⟨by simp, by simp⟩ hc
        | true => simp [objectDefineOwnProperty, hl, Desc.isEmpty, Desc.isGeneric, Desc.isData]
    | some b => cases b with
      | true => simp [objectDefineOwnProperty, hl, Desc.isEmpty, Desc.isGeneric, Desc.isData]
      | false => cases de with
        | none => exact absurd ⟨by simp, by simp⟩ hc
        | some b => cases b with
          | false => exact absurd ⟨by simp, by simp⟩ hc
          | true => simp [objectDefineOwnProperty, hl, Desc.isEmpty, Desc.isGeneric, Desc.isData]

/-- the shrink loop on a state whose length property already says N while elements up to N+cnt may remain:
    either it completes and every present index is below N, or it stops and has restored the invariant -/
theorem shrink_inv (E : Env) (N : Nat) (d : Desc) (nw t : Bool) (hc : Cok d) (cnt : Nat) :
    ∀ o1 : Obj, o1.isArr = true → LenProp o1 N true → Bound o1 (N + cnt) → N + cnt < 2^32 →
      match shrinkLoop E N d nw t cnt o1 with
      | .ok none o2 => o2.isArr = true ∧ LenProp o2 N true ∧ Bound o2 N
      | .ok (some _) o2 => WFArr o2
      | .err _ o2 => WFArr o2 := by
  induction cnt with
  | zero => intro o1 ha hl hb _; exact ⟨ha, hl, hb⟩
  | succ c ih =>
    intro o1 ha hl hb hlt
    simp only [shrinkLoop, bind, M.bind]
    rcases objectDelete_cases (.idx (N + c)) o1 with h1 | ⟨h1, _⟩
    · rw [h1]
      simp only [Bool.not_true, Bool.false_eq_true, if_false]
      refine ih { o1 with props := erase (Key.idx (N + c)) o1.props } ha ?_ ?_ ?_
      · simp only [LenProp]; rw [lookup_erase_ne _ _ _ (by intro e; cases e)]; exact hl
      · intro i hi1 hi2
        simp only at hi2
        by_cases hii : i = N + c
        · subst hii; rw [lookup_erase_self] at hi2; cases hi2
        · rw [lookup_erase_ne _ _ _ (by intro e; injection e; omega)] at hi2
          have := hb i hi1 hi2; omega
      · omega
    · rw [h1]
      simp only [Bool.not_false, if_true]
      generalize hD : (if (!nw) = true then ({ v := some (Val.int ↑(N + c + 1)), w := some false, e := d.e, c := d.c } : Desc)
          else { v := some (Val.int ↑(N + c + 1)), w := d.w, e := d.e, c := d.c }) = D
      have hDc : Cok D := by subst hD; cases nw <;> exact hc
      have hDv : D.v = some (.int ((N + c + 1 : Nat) : Int)) := by subst hD; cases nw <;> rfl
      simp only [M.bind]
      rw [odp_length_ok E o1 N (N + c + 1) D false hl hDv hDc]
      have hwf : WFArr { o1 with props := write .length ⟨.int ((N + c + 1 : Nat) : Int), D.w.getD true, false, false⟩ o1.props } := by
        refine ⟨ha, N + c + 1, D.w.getD true, by simp [LenProp, lookup_write_self], by omega, ?_⟩
        intro i hi1 hi2
        simp only at hi2
        rw [lookup_write_ne .length (.idx i) _ _ (by intro e; cases e)] at hi2
        have := hb i hi1 hi2; omega
      cases t <;> simp only [reject, pure, M.pure] <;> exact hwf

/-- redefining "length" with its current value N leaves a state whose length is N, whatever the outcome -/
theorem lenstate_odp_same (E : Env) (o : Obj) (d : Desc) (t : Bool) (N : Nat) (w : Bool)
    (ha : o.isArr = true) (hl : LenProp o N w) (hb : Bound o N) (hv : d.v = some (.int N)) :
    (stateOf (objectDefineOwnProperty E .length d t o)).isArr = true ∧
    (∃ w', LenProp (stateOf (objectDefineOwnProperty E .length d t o)) N w') ∧
    Bound (stateOf (objectDefineOwnProperty E .length d t o)) N := by
  rcases odp_effect E .length d t o with h1 | ⟨p', h1, h2⟩
  · rw [h1]; exact ⟨ha, ⟨w, hl⟩, hb⟩
  · rw [h1]
    have hl' := hl
    simp only [LenProp] at hl'
    rw [hl'] at h2
    obtain ⟨hv', hce⟩ := h2
    obtain ⟨hc, he⟩ := hce rfl
    obtain ⟨pv, pw, pe, pc⟩ := p'
    simp only at hv' hc he
    subst hc; subst he
    rw [hv] at hv'; simp at hv'; subst hv'
    refine ⟨ha, ⟨pw, by simp [LenProp, stateOf, lookup_write_self]⟩, ?_⟩
    intro i hi1 hi2
    simp only [stateOf] at hi2
    rw [lookup_write_ne .length (.idx i) _ _ (by intro e; cases e)] at hi2
    exact hb i hi1 hi2

/-- the part of arrayDefineOwnProperty after the first define of a shrinking length keeps the invariant -/
theorem wf_shrinkTail (E : Env) (N : Nat) (d : Desc) (nw t : Bool) (cnt : Nat) (o1 : Obj)
    (hc : Cok d) (hv : d.v = some (.int N)) (ha : o1.isArr = true) (hl : LenProp o1 N true)
    (hb : Bound o1 (N + cnt)) (hlt : N + cnt < 2^32) :
    WFArr (stateOf (arrayShrinkTail E N d nw t cnt o1)) := by
  have hs := shrink_inv E N d nw t hc cnt o1 ha hl hb hlt
  simp only [arrayShrinkTail, bind, M.bind]
  cases hr : shrinkLoop E N d nw t cnt o1 with
  | err e o2 => rw [hr] at hs; exact hs
  | ok r o2 =>
    rw [hr] at hs
    cases r with
    | some b => exact hs
    | none =>
      obtain ⟨ha2, hl2, hb2⟩ := hs
      simp only
      have hN : N < 2^32 := by omega
      cases nw with
      | true =>
        simp only [Bool.not_true, Bool.false_eq_true, if_false]
        obtain ⟨h1, ⟨w', h2⟩, h3⟩ := lenstate_odp_same E o2 d t N true ha2 hl2 hb2 hv
        exact ⟨h1, N, w', h2, hN, h3⟩
      | false =>
        simp only [Bool.not_false, if_true, M.bind]
        have hv' : ({ d with w := some false } : Desc).v = some (.int N) := hv
        obtain ⟨h1, ⟨w', h2⟩, h3⟩ := lenstate_odp_same E o2 { d with w := some false } false N true ha2 hl2 hb2 hv'
        cases hr1 : objectDefineOwnProperty E .length { d with w := some false } false o2 with
        | err e s => rw [hr1] at h1 h2 h3; exact ⟨h1, N, w', h2, hN, h3⟩
        | ok b s =>
          rw [hr1] at h1 h2 h3
          simp only [stateOf] at h1 h2 h3
          obtain ⟨g1, ⟨w'', g2⟩, g3⟩ := lenstate_odp_same E s { d with w := some false } t N w' h1 h2 h3 hv'
          exact ⟨g1, N, w'', g2, hN, g3⟩

theorem arrayUint32_lt (E : Env) (v : Val) (N : Nat) (h : arrayUint32 E v = some N) : N < 2^32 := by
  simp only [arrayUint32] at h
  generalize toI64 E v = i at h
  by_cases hu : isUint32 i = true
  · simp only [isUint32, maxUint32, Bool.and_eq_true, decide_eq_true_eq] at hu
    split at h
    · cases h
    · injection h with h
      have h2 : i ≤ 4294967295 := of_decide_eq_true hu.2
      omega
  · have : isUint32 i = false := by cases hh : isUint32 i <;> simp_all
    simp [this] at h

/-- the "length" branch of arrayDefineOwnProperty keeps the invariant -/
theorem wf_setLength (E : Env) (o : Obj) (d : Desc) (t : Bool) (N : Nat) (h : WFArr o) (hN : N < 2^32) :
    WFArr (stateOf (arraySetLength E d t N o)) := by
  have hwf := h
  obtain ⟨ha, n, w, hl, hn, hb⟩ := h
  unfold arraySetLength
  simp only [arrLength_of o n w hl, lengthWritable_of o n w hl]
  by_cases hgt : N ≥ n
  · simp only [hgt, if_true]
    exact wf_odp_length E o _ t n w ha hl hn hb (Or.inr ⟨N, rfl, hN, hb.mono (by omega)⟩)
  · simp only [hgt, if_false]
    cases w with
    | false => simp only [Bool.not_false, if_true, stateOf_reject]; exact hwf
    | true =>
      simp only [Bool.not_true, Bool.false_eq_true, if_false, bind, M.bind]
      generalize hD : (if (!!(({ d with v := some (Val.int ↑N) } : Desc).w == some false)) = true
          then ({ ({ d with v := some (Val.int ↑N) } : Desc) with w := some true } : Desc)
          else ({ d with v := some (Val.int ↑N) } : Desc)) = D
      have hDv : D.v = some (.int N) := by subst hD; split <;> rfl
      by_cases hc : Cok D
      · rw [odp_length_ok E o n N D t hl hDv hc]
        simp only [Bool.not_true, Bool.false_eq_true, if_false]
        have hDw : D.w.getD true = true := by
          subst hD
          cases hw : d.w with
          | none => simp
          | some b => cases b <;> simp
        rw [hDw]
        refine wf_shrinkTail E N D _ t (n - N)
          { o with props := write .length ⟨.int N, true, false, false⟩ o.props } hc hDv ha ?_ ?_ ?_
        · simp [LenProp, lookup_write_self]
        · intro i hi1 hi2
          simp only at hi2
          rw [lookup_write_ne .length (.idx i) _ _ (by intro e; cases e)] at hi2
          have := hb i hi1 hi2; omega
        · omega
      · rw [odp_length_rej E o n true D t hl (by rw [hDv]; rfl) hc]
        cases t <;> simp [reject, pure, M.pure, stateOf] <;> exact hwf

/-- arrayDefineOwnProperty keeps the invariant: for every key (canonical or not), every descriptor, either
    throw flag, and whether it succeeds, rejects or throws -/
theorem wf_arrayDefine (E : Env) (o : Obj) (k : Key) (d : Desc) (t : Bool) (h : WFArr o) :
    WFArr (stateOf (arrayDefineOwnProperty E k d t o)) := by
  unfold arrayDefineOwnProperty
  by_cases hk : k = .length
  · subst hk
    simp only [if_true]
    obtain ⟨ha, n, w, hl, hn, hb⟩ := h
    cases hv : d.v with
    | none => exact wf_odp_length E o d t n w ha hl hn hb (Or.inl hv)
    | some nv =>
      simp only
      cases hu : arrayUint32 E nv with
      | none => exact ⟨ha, n, w, hl, hn, hb⟩
      | some N => exact wf_setLength E o d t N ⟨ha, n, w, hl, hn, hb⟩ (arrayUint32_lt E nv N hu)
  · simp only [hk, if_false]
    by_cases hi : stringToArrayIndex k ≥ 0
    · simp only [hi, if_true]
      apply wf_defineIndex E o k d t _ h (stringToArrayIndex_lt k hi) hk
      intro m hm1 hm2
      subst hm1
      rw [stringToArrayIndex_idx]
      simp [hm2]
    · simp only [hi, if_false]
      apply wf_odp_other E o k d t h hk
      intro m hm1 hm2
      subst hm1
      rw [stringToArrayIndex_idx] at hi
      simp [hm2] at hi

theorem wf_defineOwn (E : Env) (o : Obj) (k : Key) (d : Desc) (t : Bool) (h : WFArr o) :
    WFArr (stateOf (defineOwnProperty E k d t o)) := by
  simp only [defineOwnProperty, h.arr, if_true]
  exact wf_arrayDefine E o k d t h

/-- objectPut keeps the invariant -/
theorem wf_put (E : Env) (o : Obj) (k : Key) (v : Val) (t : Bool) (h : WFArr o) :
    WFArr (stateOf (objectPut E k v t o)) := by
  unfold objectPut
  have key : ∀ d : Desc, WFArr (stateOf ((do let _ ← defineOwnProperty E k d t; pure () : M Obj Unit) o)) := by
    intro d
    have := wf_defineOwn E o k d t h
    simp only [bind, M.bind]
    cases hr : defineOwnProperty E k d t o with
    | ok b s => rw [hr] at this; exact this
    | err e s => rw [hr] at this; exact this
  cases hc : canPutDetails o k with
  | mk b p =>
    cases b with
    | false => cases t <;> exact h
    | true =>
      cases p with
      | none => exact key _
      | some p => exact key _

/-! ### histories -/

/-- the operations of a history on one array: [[DefineOwnProperty]], [[Put]], [[Delete]] with any key
    (including "length" and non-canonical numerals), any descriptor / value, either Throw flag -/
inductive HOp where
  | define (k : Key) (d : Desc) (throw : Bool)
  | put (k : Key) (v : Val) (throw : Bool)
  | delete (k : Key) (throw : Bool)

/-- the state an operation leaves, whether it returns or throws -/
def HOp.run (E : Env) : HOp → Obj → Obj
  | .define k d t, o => stateOf (defineOwnProperty E k d t o)
  | .put k v t, o => stateOf (objectPut E k v t o)
  | .delete k t, o => stateOf (objectDelete k t o)

def runHist (E : Env) : List HOp → Obj → Obj
  | [], o => o
  | op :: ops, o => runHist E ops (op.run E o)

/-- **C08.length_invariant** (model): after every history of defineOwnProperty / put / delete / length writes on
    an array, `length` is still a uint32, non-enumerable, non-configurable data property and is greater than
    every present array index. -/
theorem length_invariant (E : Env) (ops : List HOp) (o : Obj) (h : WFArr o) : WFArr (runHist E ops o) := by
  induction ops generalizing o with
  | nil => exact h
  | cons op ops ih =>
    apply ih
    cases op with
    | define k d t => exact wf_defineOwn E o k d t h
    | put k v t => exact wf_put E o k v t h
    | delete k t => exact wf_delete o k t h


/-- objectDelete(name, false): success removes the key (which was absent or configurable), failure means a
    non-configurable property and no change -/
theorem objectDelete_cases' (k : Key) (o : Obj) :
    (objectDelete k false o = .ok true { o with props := erase k o.props } ∧ ∀ q, lookup k o.props = some q → q.c = true) ∨
    (objectDelete k false o = .ok false o ∧ ∃ p, lookup k o.props = some p ∧ p.c = false) := by
  rcases objectDelete_cases k o with h | h
  · left
    refine ⟨h, ?_⟩
    intro q hq
    unfold objectDelete at h
    rw [hq] at h
    cases hc : q.c with
    | true => rfl
    | false => simp [hc, reject] at h
  · right; exact h

/-- "…stopping at the first non-configurable element with length = its index + 1": when the shrink loop does
    not run to completion it stopped at an index l whose element is non-configurable; everything above l (all
    configurable) is gone, length is l + 1, nothing else changed. -/
theorem shrinkLoop_stops (E : Env) (N : Nat) (d : Desc) (nw t : Bool) (hc : Cok d) (cnt : Nat) :
    ∀ (o1 o2 : Obj), LenProp o1 N true →
      ((∃ b, shrinkLoop E N d nw t cnt o1 = .ok (some b) o2) ∨ (∃ e, shrinkLoop E N d nw t cnt o1 = .err e o2)) →
      ∃ l p, N ≤ l ∧ l < N + cnt ∧ lookup (.idx l) o1.props = some p ∧ p.c = false ∧
        (∀ i, l < i → i < N + cnt →
          lookup (.idx i) o2.props = none ∧ ∀ q, lookup (.idx i) o1.props = some q → q.c = true) ∧
        (∃ w', LenProp o2 (l + 1) w') ∧
        (∀ k, k ≠ .length → (∀ i, l < i → i < N + cnt → k ≠ .idx i) → lookup k o2.props = lookup k o1.props) := by
  induction cnt with
  | zero =>
    intro o1 o2 _ h
    simp only [shrinkLoop, pure, M.pure] at h
    rcases h with ⟨b, h⟩ | ⟨e, h⟩ <;> cases h
  | succ c ih =>
    intro o1 o2 hl h
    simp only [shrinkLoop, bind, M.bind] at h
    rcases objectDelete_cases' (.idx (N + c)) o1 with ⟨h1, hconf⟩ | ⟨h1, p, hp, hpc⟩
    · rw [h1] at h
      simp only [Bool.not_true, Bool.false_eq_true, if_false] at h
      have hl' : LenProp { o1 with props := erase (Key.idx (N + c)) o1.props } N true := by
        simp only [LenProp]; rw [lookup_erase_ne _ _ _ (by intro e; cases e)]; exact hl
      obtain ⟨l, p, h1l, h2l, hlp, hpc, habove, hlen, hother⟩ := ih _ o2 hl' h
      have hne : Key.idx l ≠ Key.idx (N + c) := by intro e; injection e; omega
      refine ⟨l, p, h1l, by omega, ?_, hpc, ?_, hlen, ?_⟩
      · simp only at hlp; rw [lookup_erase_ne _ _ _ hne] at hlp; exact hlp
      · intro i hi1 hi2
        by_cases hic : i = N + c
        · subst hic
          refine ⟨?_, hconf⟩
          rw [hother (.idx (N + c)) (by intro e; cases e) (fun j hj1 hj2 e => by injection e; omega)]
          exact lookup_erase_self _ _
        · obtain ⟨g1, g2⟩ := habove i hi1 (by omega)
          refine ⟨g1, ?_⟩
          intro q hq
          apply g2 q
          simp only; rw [lookup_erase_ne _ _ _ (by intro e; injection e; omega)]; exact hq
      · intro k hk1 hk2
        rw [hother k hk1 (fun i hi1 hi2 => hk2 i hi1 (by omega))]
        simp only
        exact lookup_erase_ne _ _ _ (hk2 (N + c) (by omega) (by omega))
    · rw [h1] at h
      simp only [Bool.not_false, if_true] at h
      generalize hD : (if (!nw) = true then ({ v := some (Val.int ↑(N + c + 1)), w := some false, e := d.e, c := d.c } : Desc)
          else { v := some (Val.int ↑(N + c + 1)), w := d.w, e := d.e, c := d.c }) = D at h
      have hDc : Cok D := by subst hD; cases nw <;> exact hc
      have hDv : D.v = some (.int ((N + c + 1 : Nat) : Int)) := by subst hD; cases nw <;> rfl
      simp only [M.bind] at h
      rw [odp_length_ok E o1 N (N + c + 1) D false hl hDv hDc] at h
      have ho2 : o2 = { o1 with props := write .length ⟨.int ((N + c + 1 : Nat) : Int), D.w.getD true, false, false⟩ o1.props } := by
        cases t <;> simp only [reject, pure, M.pure] at h
        · rcases h with ⟨b, h⟩ | ⟨e, h⟩
          · injection h with _ h; exact h.symm
          · cases h
        · rcases h with ⟨b, h⟩ | ⟨e, h⟩
          · cases h
          · injection h with _ h; exact h.symm
      subst ho2
      refine ⟨N + c, p, by omega, by omega, hp, hpc, ?_, ⟨D.w.getD true, by simp [LenProp, lookup_write_self]⟩, ?_⟩
      · intro i hi1 hi2; omega
      · intro k hk1 _
        simp only
        exact lookup_write_ne _ _ _ _ hk1


theorem toFloat_eq' (E : Env) (v : Val) : toFloat E v = Spec.toNumber E v := by cases v <;> rfl

/-- the finite-double core of `length_range` -/
theorem length_range_fin (s : Bool) (m : Nat) (e : Int) :
    (if (!(if m = 0 then true else
            if truncInt (.fin s m e) ≥ 2^63 then false else if truncInt (.fin s m e) ≤ -(2^63 : Int) then false else isIntegral m e)
          || !isUint32 (if truncInt (.fin s m e) ≥ 2^63 then maxInt64 else if truncInt (.fin s m e) ≤ -(2^63 : Int) then minInt64 else truncInt (.fin s m e))) = true
      then none
      else some (if truncInt (.fin s m e) ≥ 2^63 then maxInt64 else if truncInt (.fin s m e) ≤ -(2^63 : Int) then minInt64 else truncInt (.fin s m e)).toNat)
    = (if Spec.valEqNat (.fin s m e) ((truncInt (.fin s m e) % (2^32 : Int)).toNat) = true
        then some ((truncInt (.fin s m e) % (2^32 : Int)).toNat) else none) := by
  simp only [truncInt, truncAbs, isIntegral, Spec.valEqNat, isUint32, maxUint32, maxInt64, minInt64]
  by_cases he : e ≥ 0
  · simp only [he, if_true]
    generalize hA : m * 2 ^ e.toNat = A
    have hA0 : m = 0 → A = 0 := by intro h; subst h; simp at hA; exact hA.symm
    have hA1 : m ≠ 0 → A ≥ 1 := by
      intro h
      have : 0 < 2 ^ e.toNat := Nat.two_pow_pos _
      have := Nat.mul_pos (Nat.pos_of_ne_zero h) this
      omega
    by_cases hm : m = 0
    · have := hA0 hm; subst this; subst hm
      cases s <;> simp
    · have := hA1 hm
      cases s with
      | true =>
        simp only [hm, if_false, if_true]
        simp
        repeat' (first | rfl | omega | (apply congrArg some; omega) | split)
      | false =>
        simp only [hm, if_false, Bool.false_eq_true]
        by_cases hlt : A < 2^32
        · have h1 : ((A : Int) % 2^32).toNat = A := by omega
          simp [h1]
          repeat' (first | rfl | omega | (apply congrArg some; omega) | split)
        · have h1 : ¬ (A = ((A : Int) % 2^32).toNat) := by omega
          simp [h1]
          repeat' (first | rfl | omega | (apply congrArg some; omega) | split)
  · simp only [he, if_false]
    generalize hP : 2 ^ (-e).toNat = P
    have hP1 : P ≥ 1 := by have := Nat.two_pow_pos (-e).toNat; omega
    generalize hQ : m / P = Q
    generalize hR : m % P = R
    have hQR : Q = 0 → m ≠ 0 → R ≠ 0 := by
      intro hq hm
      have : m < P := by
        rcases Nat.lt_or_ge m P with h | h
        · exact h
        · have := Nat.div_pos h (by omega); omega
      rw [Nat.mod_eq_of_lt this] at hR; omega
    by_cases hm : m = 0
    · subst hm
      have : Q = 0 := by rw [← hQ]; simp
      subst this
      have : R = 0 := by rw [← hR]; simp
      subst this
      cases s <;> simp
    · have hqr := fun h => hQR h hm
      cases s with
      | true =>
        simp only [hm, if_false, if_true]
        simp
        by_cases hq0 : Q = 0
        · have := hqr hq0; subst hq0; simp [this]
        · repeat' (first | rfl | omega | (apply congrArg some; omega) | split)
      | false =>
        simp only [hm, if_false, Bool.false_eq_true]
        by_cases hlt : Q < 2^32
        · have h1 : ((Q : Int) % 2^32).toNat = Q := by omega
          simp [h1]
          by_cases hr : R = 0
          · simp [hr]; repeat' (first | rfl | omega | (apply congrArg some; omega) | split)
          · simp [hr]
        · have h1 : ¬ (Q = ((Q : Int) % 2^32).toNat) := by omega
          simp [h1]
          repeat' (first | rfl | omega | (apply congrArg some; omega) | split)

/-- **length_range**: arrayUint32 accepts exactly the values with ToUint32(v) = ToNumber(v) (and yields that
    uint32); everything else is a RangeError (§15.4.5.1 step 3.d, §15.4.2.2) -/
theorem length_range (E : Env) (v : Val) : arrayUint32 E v = Spec.lengthOf E v := by
  have key : ∀ x : FV, (∀ i, v ≠ .int i) → toFloat E v = x →
      arrayUint32 E v = (match x with
        | .fin s m e => if Spec.valEqNat (.fin s m e) ((truncInt (.fin s m e) % (2^32 : Int)).toNat) = true
            then some ((truncInt (.fin s m e) % (2^32 : Int)).toNat) else none
        | _ => none) := by
    intro x hv hx
    have h1 : isIntegerKind E v = (match x with
        | .nan => false | .inf _ => false
        | .fin s m e => if m = 0 then true else
            if truncInt (.fin s m e) ≥ 2^63 then false else if truncInt (.fin s m e) ≤ -(2^63 : Int) then false else isIntegral m e) := by
      cases v <;> first | exact absurd rfl (hv _) | (simp only [isIntegerKind, hx]; cases x <;> rfl)
    have h2 : toI64 E v = (match x with
        | .nan => 0 | .inf s => if s then minInt64 else maxInt64
        | .fin s m e => if truncInt (.fin s m e) ≥ 2^63 then maxInt64 else if truncInt (.fin s m e) ≤ -(2^63 : Int) then minInt64 else truncInt (.fin s m e)) := by
      cases v <;> first | exact absurd rfl (hv _) | (simp only [toI64, hx]; cases x <;> rfl)
    simp only [arrayUint32, h1, h2]
    cases x with
    | nan => simp
    | inf s => simp
    | fin s m e => exact length_range_fin s m e
  cases v with
  | int i =>
    simp only [arrayUint32, isIntegerKind, toI64, isUint32, maxUint32, Spec.lengthOf]
    by_cases h1 : 0 ≤ i <;> by_cases h2 : i ≤ 4294967295 <;> simp [h1, h2] <;> omega
  | undef | null | bool _ | num _ | str _ | recv | obj _ =>
    rw [key _ (fun i h => by cases h) rfl]
    simp only [Spec.lengthOf, Spec.toUint32, ← toFloat_eq']
    cases toFloat E _ <;> simp [Spec.valEqNat]


theorem decAux_acc : ∀ (m fuel fuel' : Nat) (acc : List Nat), m < fuel → m < fuel' →
    decAux fuel m acc = decAux fuel' m [] ++ acc := by
  intro m
  induction m using Nat.strongRecOn with
  | _ m ih =>
    intro fuel fuel' acc h1 h2
    cases fuel with
    | zero => omega
    | succ f =>
      cases fuel' with
      | zero => omega
      | succ f' =>
        simp only [decAux]
        by_cases h10 : m < 10
        · simp [h10]
        · simp only [h10, if_false]
          have hlt : m / 10 < m := by omega
          rw [ih (m / 10) hlt f f' _ (by omega) (by omega)]
          rw [ih (m / 10) hlt f' f' [48 + m % 10] (by omega) (by omega)]
          simp

theorem dec_snoc (n : Nat) (h : n ≥ 10) : dec n = dec (n / 10) ++ [48 + n % 10] := by
  have : ¬ n < 10 := by omega
  simp only [dec, decAux, this, if_false]
  exact decAux_acc (n / 10) n (n / 10 + 1) _ (by omega) (by omega)

theorem dec_small (n : Nat) (h : n < 10) : dec n = [48 + n] := by
  simp [dec, decAux, h]

theorem digitsValue_snoc (r : List Nat) (c acc : Nat) :
    Spec.digitsValue (r ++ [c]) acc =
      (Spec.digitsValue r acc).bind (fun a => if 48 ≤ c ∧ c ≤ 57 then some (a * 10 + (c - 48)) else none) := by
  induction r generalizing acc with
  | nil => simp only [List.nil_append, Spec.digitsValue]; split <;> rfl
  | cons x xs ih =>
    simp only [List.cons_append, Spec.digitsValue]
    split
    · exact ih _
    · rfl

/-- a digit string without leading zero is the decimal numeral of its value -/
theorem dec_digitsValue : ∀ (len : Nat) (s : List Nat) (n : Nat), s.length = len → s ≠ [] →
    (∀ c r, s = c :: r → r ≠ [] → c ≠ 48) → Spec.digitsValue s 0 = some n → s = dec n ∧ (s.length ≥ 2 → n ≥ 10) := by
  intro len
  induction len with
  | zero => intro s n hl hne; cases s <;> simp_all
  | succ l ih =>
    intro s n hl hne hlead hv
    rcases List.eq_nil_or_concat s with h | ⟨r, c, h⟩
    · exact absurd h hne
    · rw [List.concat_eq_append] at h
      subst h
      rw [digitsValue_snoc] at hv
      cases hr : Spec.digitsValue r 0 with
      | none => rw [hr] at hv; simp at hv
      | some a =>
        rw [hr] at hv
        simp only [Option.bind] at hv
        by_cases hc : 48 ≤ c ∧ c ≤ 57
        · simp only [hc, and_self, if_true] at hv
          injection hv with hv
          by_cases hrn : r = []
          · subst hrn
            simp only [Spec.digitsValue] at hr
            injection hr with hr
            subst hr
            have : n < 10 := by omega
            constructor
            · rw [dec_small n this]; simp; omega
            · simp
          · have hrl : r.length = l := by simp at hl; omega
            have hlead' : ∀ c' r', r = c' :: r' → r' ≠ [] → c' ≠ 48 := by
              intro c' r' e hne'
              apply hlead c' (r' ++ [c])
              · rw [e]; rfl
              · simp
            obtain ⟨ih1, ih2⟩ := ih r a hrl hrn hlead' hr
            -- the value of r is at least 1: its head is a non-zero digit or r is a single non-zero digit
            have ha : a ≥ 1 := by
              cases r with
              | nil => exact absurd rfl hrn
              | cons c' r' =>
                by_cases hr' : r' = []
                · subst hr'
                  have := hlead c' [c] rfl (by simp)
                  simp only [Spec.digitsValue] at hr
                  split at hr
                  · injection hr with hr; omega
                  · cases hr
                · have := ih2 (by cases r' with | nil => exact absurd rfl hr' | cons _ _ => simp)
                  omega
            have hn10 : n ≥ 10 := by omega
            constructor
            · rw [dec_snoc n hn10]
              have h1 : n / 10 = a := by omega
              have h2 : 48 + n % 10 = c := by omega
              rw [h1, h2, ← ih1]
            · intro _; exact hn10
        · simp [hc] at hv


/-- every string that §15.4 takes for an array index is the canonical numeral of that index -/
theorem arrayIndex_canonical (s : List Nat) (n : Nat) (h : Spec.arrayIndex? s = some n) : s = dec n ∧ n < 2^32 - 1 := by
  unfold Spec.arrayIndex? at h
  cases s with
  | nil => cases h
  | cons c r =>
    simp only at h
    split at h
    · cases h
    · rename_i hlead
      cases hv : Spec.digitsValue (c :: r) 0 with
      | none => rw [hv] at h; cases h
      | some m =>
        rw [hv] at h
        simp only at h
        split at h
        · injection h with h; subst h
          refine ⟨(dec_digitsValue _ (c :: r) m rfl (by simp) ?_ hv).1, by assumption⟩
          intro c' r' e hr'
          injection e with e1 e2
          subst e1; subst e2
          intro hc; exact hlead ⟨hc, hr'⟩
        · cases h

/-- array_index (spec ⇒ otto): on every string that ES5 treats as an array index, stringToArrayIndex returns
    that index (the converse is `array_index_eq`). -/
theorem array_index_agrees (s : List Nat) (n : Nat) (h : Spec.arrayIndex? s = some n) :
    stringToArrayIndexRaw s = (n : Int) := by
  obtain ⟨hs, hn⟩ := arrayIndex_canonical s n h
  subst hs
  have := stringToArrayIndex_idx n
  simp only [stringToArrayIndex, Key.toBytes, hn, if_true] at this
  exact this


/-- **array_index**: stringToArrayIndex is exactly the §15.4 array-index test, on every string -/
theorem array_index_eq (s : List Nat) :
    stringToArrayIndexRaw s = (match Spec.arrayIndex? s with | some n => (n : Int) | none => -1) := by
  cases h : Spec.arrayIndex? s with
  | some n => exact array_index_agrees s n h
  | none =>
    simp only [stringToArrayIndexRaw, maxUint32]
    cases GoStd.parseInt s 10 with
    | ok i =>
      simp only
      by_cases h1 : i < 0
      · simp [h1]
      · by_cases h2 : i ≥ 4294967295
        · simp [h1, h2]
        · by_cases h3 : dec i.toNat = s
          · exfalso
            rw [← h3, arrayIndex_dec] at h
            have : i.toNat < 2^32 - 1 := by omega
            simp [this] at h
          · simp [h1, h2, h3]
    | range => rfl
    | «syntax» => rfl


/-! ## the object layer against §8.12 and §15.4.5.1 (moved here from Theorems.lean) -/

theorem alignInt_zero_iff (s : Bool) (m : Nat) (e emin : Int) : alignInt s m e emin = 0 ↔ m = 0 := by
  unfold alignInt
  have hp : 0 < 2 ^ (e - emin).toNat := Nat.two_pow_pos _
  constructor
  · intro h
    have h0 : ((m * 2 ^ (e - emin).toNat : Nat) : Int) = 0 := by
      simp only at h
      split at h <;> omega
    have : m * 2 ^ (e - emin).toNat = 0 := by exact_mod_cast h0
    rcases Nat.mul_eq_zero.mp this with h | h
    · exact h
    · omega
  · intro h; subst h; simp

theorem emin_comm (e1 e2 : Int) : (if e1 ≤ e2 then e1 else e2) = (if e2 ≤ e1 then e2 else e1) := by
  split <;> split <;> omega

theorem ord_eq_iff (a b : Int) : (if a < b then Ordering.lt else if a = b then Ordering.eq else Ordering.gt) = Ordering.eq ↔ a = b := by
  split
  · simp; omega
  · split <;> simp_all

theorem cmpEq_fin (s1 : Bool) (m1 : Nat) (e1 : Int) (s2 : Bool) (m2 : Nat) (e2 : Int) :
    cmpReal (.fin s1 m1 e1) (.fin s2 m2 e2) = some .eq ↔
      alignInt s1 m1 e1 (if e1 ≤ e2 then e1 else e2) = alignInt s2 m2 e2 (if e1 ≤ e2 then e1 else e2) := by
  simp only [cmpReal, Option.some.injEq, ord_eq_iff]

theorem cmpEq_comm (x y : FV) : cmpReal x y = some .eq ↔ cmpReal y x = some .eq := by
  cases x with
  | nan => cases y <;> simp [cmpReal]
  | inf s =>
    cases y with
    | nan => simp [cmpReal]
    | inf t => cases s <;> cases t <;> simp [cmpReal]
    | fin t m e => cases s <;> cases t <;> simp [cmpReal]
  | fin s1 m1 e1 =>
    cases y with
    | nan => simp [cmpReal]
    | inf t => cases s1 <;> cases t <;> simp [cmpReal]
    | fin s2 m2 e2 =>
      rw [cmpEq_fin, cmpEq_fin, emin_comm e2 e1]
      exact eq_comm

theorem cmpEq_zero (x y : FV) (h : cmpReal x y = some .eq) (hz : isZero x = true) : isZero y = true := by
  cases x with
  | nan => simp [isZero] at hz
  | inf s => simp [isZero] at hz
  | fin s1 m1 e1 =>
    cases y with
    | nan => simp [cmpReal] at h
    | inf t => cases t <;> simp [cmpReal] at h
    | fin s2 m2 e2 =>
      have hm : m1 = 0 := by cases m1 with | zero => rfl | succ n => simp [isZero] at hz
      subst hm
      rw [cmpEq_fin] at h
      rw [(alignInt_zero_iff _ _ _ _).mpr rfl] at h
      have := (alignInt_zero_iff _ _ _ _).mp h.symm
      subst this; rfl

/-- the number arm of sameValue: otto's formulation (x, y) = §9.12's formulation (y, x) -/
theorem sameNum (x y : FV) :
    (if (isNaN x && isNaN y) = true then true
      else if eqNum x y = true then (if isZero x = true then signBit x == signBit y else true) else false)
    = (if isNaN y = true ∧ isNaN x = true then true
      else if isZero y = true ∧ isZero x = true then decide (signBit y = signBit x) else decide (cmpReal y x = some .eq)) := by
  by_cases hn : isNaN x = true ∧ isNaN y = true
  · simp [hn.1, hn.2]
  · have hn' : ¬ (isNaN y = true ∧ isNaN x = true) := fun h => hn ⟨h.2, h.1⟩
    have hb : (isNaN x && isNaN y) = false := by
      cases hx : isNaN x <;> cases hy : isNaN y <;> simp_all
    simp only [hb, hn', if_false, Bool.false_eq_true]
    by_cases he : cmpReal x y = some .eq
    · have he' := (cmpEq_comm x y).mp he
      have hq : eqNum x y = true := by simp [eqNum, he]
      simp only [hq, if_true, he', decide_true]
      by_cases hz : isZero x = true
      · have hzy := cmpEq_zero x y he hz
        simp only [hz, hzy, and_self, if_true]
        cases signBit x <;> cases signBit y <;> simp
      · have : ¬ (isZero y = true ∧ isZero x = true) := fun h => hz h.2
        simp [hz, this]
    · have he' : ¬ cmpReal y x = some .eq := fun h => he ((cmpEq_comm x y).mpr h)
      have hq : eqNum x y = false := by simp [eqNum, he]
      simp only [hq, Bool.false_eq_true, if_false, he', decide_false]
      by_cases hz : isZero y = true ∧ isZero x = true
      · exfalso
        -- two zeros compare equal
        obtain ⟨hy, hx⟩ := hz
        cases x with
        | nan => simp [isZero] at hx
        | inf s => simp [isZero] at hx
        | fin s1 m1 e1 =>
          cases y with
          | nan => simp [isZero] at hy
          | inf s => simp [isZero] at hy
          | fin s2 m2 e2 =>
            have h1 : m1 = 0 := by cases m1 with | zero => rfl | succ n => simp [isZero] at hx
            have h2 : m2 = 0 := by cases m2 with | zero => rfl | succ n => simp [isZero] at hy
            subst h1; subst h2
            apply he
            rw [cmpEq_fin, (alignInt_zero_iff _ _ _ _).mpr rfl, (alignInt_zero_iff _ _ _ _).mpr rfl]
      · simp [hz]

theorem sameValue_eq (E : Env) (a b : Val) : sameValue E a b = Spec.sameValue E b a := by
  have hf : ∀ v, toFloat E v = Spec.toNumber E v := fun v => by cases v <;> rfl
  cases a <;> cases b <;>
    first
      | (simp only [sameValue, Spec.sameValue, hf]; exact sameNum _ _)
      | (simp [sameValue, Spec.sameValue, eq_comm]; done)
      | (simp only [sameValue, Spec.sameValue]; rename_i p q; by_cases h : p = q
         · subst h; simp
         · have h' : ¬ q = p := fun e => h e.symm
           simp [h, h'])




theorem optb (x : Option Bool) : (x == some true) = x.getD false := by
  cases x with
  | none => rfl
  | some b => cases b <;> rfl

/-- objectDefineOwnProperty = §8.12.9 for every property state and every data or generic descriptor -/
theorem objectDefineOwnProperty_refines (E : Env) (k : Key) (d : Desc) (throw : Bool) (o : Obj) :
    objectDefineOwnProperty E k d throw o = Spec.defineOwnDefault E k d throw o := by
  obtain ⟨dv, dw, de, dc⟩ := d
  unfold objectDefineOwnProperty Spec.defineOwnDefault
  cases hl : lookup k o.props with
  | none =>
    simp only [reject, optb]
  | some p =>
    obtain ⟨pv, pw, pe, pc⟩ := p
    simp only [reject, Desc.isEmpty, Desc.isGeneric, Desc.isData, sameValue_eq]
    cases dv <;> cases dw <;>
      cases de <;> cases dc <;> cases pw <;> cases pe <;> cases pc <;> cases throw <;> simp

/-- objectDelete = §8.12.7 [[Delete]] -/
theorem objectDelete_refines (k : Key) (throw : Bool) : objectDelete k throw = Spec.delete k throw := by
  funext o
  unfold objectDelete Spec.delete
  cases lookup k o.props with
  | none => rfl
  | some p => cases p.c <;> cases throw <;> simp [reject]

/-- strictEqualityComparison = §11.9.6 -/
theorem strictEquals_eq (E : Env) (a b : Val) : strictEquals E a b = Spec.strictEq E a b := by
  have hf : ∀ v, toFloat E v = Spec.toNumber E v := fun v => by cases v <;> rfl
  have hn : ∀ x y : FV, (if (isNaN x || isNaN y) = true then false else eqNum x y) = decide (cmpReal x y = some .eq) := by
    intro x y
    cases x <;> cases y <;> simp [isNaN, eqNum, cmpReal]
  cases a <;> cases b <;>
    first
      | (simp only [strictEquals, Spec.strictEq, hf]; exact hn _ _)
      | (simp [strictEquals, Spec.strictEq]; done)
      | (simp only [strictEquals, Spec.strictEq]; rename_i p q; by_cases h : p = q
         · subst h; simp
         · simp [h])


/-- what objectDelete does to the store: on success the key is absent and every other key is untouched;
    on failure nothing changes -/
theorem objectDelete_effect (k : Key) (o : Obj) :
    (∃ o', objectDelete k false o = .ok true o' ∧ lookup k o'.props = none ∧
        (∀ k', k' ≠ k → lookup k' o'.props = lookup k' o.props)) ∨
    (objectDelete k false o = .ok false o ∧ ∃ p, lookup k o.props = some p ∧ p.c = false) := by
  unfold objectDelete
  cases hl : lookup k o.props with
  | none => exact Or.inl ⟨o, rfl, hl, fun _ _ => rfl⟩
  | some p =>
    cases hc : p.c with
    | true =>
      refine Or.inl ⟨{ o with props := erase k o.props }, by simp [hc], lookup_erase_self k _, fun k' h => lookup_erase_ne k k' _ h⟩
    | false => exact Or.inr ⟨by simp [reject, hc], p, rfl, hc⟩

/-- "shrinking length deletes the elements beyond it": when the shrink loop of arrayDefineOwnProperty runs to
    completion, no element with index in [newLength, newLength + cnt) is left and no other key is touched. -/
theorem shrinkLoop_deletes (E : Env) (newLength : Nat) (d : Desc) (nw throw : Bool) (cnt : Nat) (o o' : Obj)
    (h : shrinkLoop E newLength d nw throw cnt o = .ok none o') :
    (∀ n, newLength ≤ n → n < newLength + cnt → lookup (.idx n) o'.props = none) ∧
    (∀ k, (∀ n, newLength ≤ n → n < newLength + cnt → k ≠ .idx n) → lookup k o'.props = lookup k o.props) := by
  induction cnt generalizing o with
  | zero =>
    simp only [shrinkLoop, pure, M.pure] at h
    cases h
    exact ⟨fun n h1 h2 => by omega, fun _ _ => rfl⟩
  | succ c ih =>
    simp only [shrinkLoop, bind, M.bind] at h
    rcases objectDelete_effect (.idx (newLength + c)) o with ⟨o1, h1, hnone, hother⟩ | ⟨h1, _⟩
    · rw [h1] at h
      simp only [Bool.not_true, Bool.false_eq_true, if_false] at h
      obtain ⟨ihA, ihB⟩ := ih o1 h
      constructor
      · intro n hn1 hn2
        by_cases hn : n = newLength + c
        · subst hn
          rw [ihB (.idx (newLength + c)) (fun m hm1 hm2 heq => by injection heq; omega)]
          exact hnone
        · exact ihA n hn1 (by omega)
      · intro k hk
        rw [ihB k (fun n hn1 hn2 => hk n hn1 (by omega))]
        exact hother k (hk (newLength + c) (by omega) (by omega))
    · rw [h1] at h
      simp only [Bool.not_false, if_true] at h
      -- the failure branch never returns `none`
      exfalso
      simp only [M.bind] at h
      split at h
      · cases throw <;> simp [reject, M.pure, pure] at h
      · cases h

/-- the shrink loop of arrayDefineOwnProperty is §15.4.5.1 step 3.l -/
theorem shrinkLoop_refines (E : Env) (newLength : Nat) (d : Desc) (nw throw : Bool) (cnt : Nat) :
    shrinkLoop E newLength d nw throw cnt = Spec.truncateLoop E newLength d nw throw cnt := by
  induction cnt with
  | zero => rfl
  | succ c ih =>
    funext o
    simp only [shrinkLoop, Spec.truncateLoop, objectDelete_refines, ih, bind, M.bind]
    cases Spec.delete (.idx (newLength + c)) false o with
    | err e s => rfl
    | ok a s =>
      cases a with
      | true => simp
      | false =>
        simp only [Bool.not_false, if_true]
        have hd : ∀ d' : Desc, d'.v.isSome = true → objectDefineOwnProperty E .length d' false = Spec.defineOwnDefault E .length d' false :=
          fun d' _ => funext fun s' => objectDefineOwnProperty_refines E .length d' false s'
        cases nw <;> simp only [Bool.not_false, Bool.not_true, if_true, if_false, Bool.false_eq_true] <;>
          rw [hd _ rfl] <;> simp only [M.bind] <;>
          (cases Spec.defineOwnDefault E .length _ false s <;> cases throw <;> simp [reject, M.throw, pure, M.pure])






/-! ## arrayDefineOwnProperty = §15.4.5.1 -/

theorem write_same (k : Key) (p : PropD) (l : List (Key × PropD)) (h : lookup k l = some p) : write k p l = l := by
  induction l with
  | nil => simp [lookup] at h
  | cons q r ih =>
    obtain ⟨k', p'⟩ := q
    by_cases hk : k' = k
    · subst hk; simp [lookup] at h; subst h; simp [write]
    · simp only [lookup, hk, if_false] at h
      simp [write, hk, ih h]

theorem write_write (k : Key) (p q : PropD) (l : List (Key × PropD)) : write k p (write k q l) = write k p l := by
  induction l with
  | nil => simp [write]
  | cons x r ih =>
    obtain ⟨k', p'⟩ := x
    by_cases hk : k' = k
    · simp [write, hk]
    · simp [write, hk, ih]

theorem cmpReal_refl (x : FV) (h : isNaN x = false) : cmpReal x x = some .eq := by
  cases x with
  | nan => simp [isNaN] at h
  | inf s => simp [cmpReal]
  | fin s m e => simp [cmpReal]

theorem sameValue_refl (E : Env) (v : Val) : sameValue E v v = true := by
  have num : ∀ x : FV, (if (isNaN x && isNaN x) = true then true
      else if eqNum x x = true then (if isZero x = true then signBit x == signBit x else true) else false) = true := by
    intro x
    cases hn : isNaN x with
    | true => simp
    | false => simp [eqNum, cmpReal_refl x hn]
  cases v <;> first | (simp only [sameValue]; exact num _) | simp [sameValue]

/-- a successful objectDefineOwnProperty is idempotent: defining the same (data) descriptor again on the result
    succeeds and changes nothing -/
theorem odp_idem (E : Env) (k : Key) (d : Desc) (t0 t : Bool) (o o1 : Obj)
    (h : objectDefineOwnProperty E k d t0 o = .ok true o1) :
    objectDefineOwnProperty E k d t o1 = .ok true o1 := by
  obtain ⟨dv, dw, de, dc⟩ := d
  unfold objectDefineOwnProperty at h
  cases hl : lookup k o.props with
  | none =>
    rw [hl] at h
    simp only at h
    by_cases he : o.ext = true
    · simp only [he, Bool.not_true, Bool.false_eq_true, if_false] at h
      injection h with _ h
      subst h
      unfold objectDefineOwnProperty
      simp only [lookup_write_self, Desc.isEmpty, Desc.isGeneric, Desc.isData, write_write]
      cases dv <;> cases dw <;> cases de <;> cases dc <;> simp [sameValue_refl]
      all_goals (intros; simp_all)
    · simp [he, reject] at h; cases t0 <;> simp at h
  | some p =>
    obtain ⟨pv, pw, pe, pc⟩ := p
    rw [hl] at h
    simp only [Desc.isEmpty, Desc.isGeneric, Desc.isData, reject] at h
    rcases dv with _ | v <;> rcases dw with _ | (_ | _) <;> rcases de with _ | (_ | _) <;>
      rcases dc with _ | (_ | _) <;> cases pw <;> cases pe <;> cases pc <;> cases t0 <;> simp at h
    all_goals (try (split at h <;> simp at h))
    all_goals (first | (obtain ⟨_, _, rfl⟩ := h) | (obtain ⟨_, rfl⟩ := h) | (obtain rfl := h))
    all_goals (simp [objectDefineOwnProperty, lookup_write_self, write_write, sameValue_refl, Desc.isEmpty, Desc.isGeneric,
                 Desc.isData, reject])
    all_goals (intros; simp_all)

theorem obj_eta (o : Obj) : ({ o with props := o.props } : Obj) = o := by cases o; rfl

theorem odp_eq (E : Env) (k : Key) (d : Desc) (t : Bool) :
    objectDefineOwnProperty E k d t = Spec.defineOwnDefault E k d t := by
  funext s
  exact objectDefineOwnProperty_refines E k d t s

theorem oldLen_eq (o : Obj) : Spec.oldLen o = arrLength o := rfl

/-- the index branch: arrayDefineOwnProperty on a canonical index = §15.4.5.1 step 4 -/
theorem defineIndex_refines (E : Env) (m : Nat) (d : Desc) (t : Bool) (o : Obj) (hwf : WFArr o) :
    arrayDefineIndex E (.idx m) d t m o = Spec.arrayDefineIdx E (.idx m) d t m o := by
  obtain ⟨ha, n, w, hl, hn, hb⟩ := hwf
  have hlp : (lookup Key.length o.props).getD ⟨.int 0, false, false, false⟩ = ⟨.int (n : Nat), w, false, false⟩ := by
    simp only [LenProp] at hl; simp [hl]
  simp only [arrayDefineIndex, Spec.arrayDefineIdx, oldLen_eq, arrLength_of o n w hl, lengthWritable_of o n w hl, hlp, reject]
  by_cases hrej : m ≥ n ∧ w = false
  · simp only [hrej, and_self, if_true]
  · simp only [hrej, if_false, bind, M.bind, odp_eq E (.idx m) d false]
    cases hr : Spec.defineOwnDefault E (.idx m) d false o with
    | err e s => rfl
    | ok b s =>
      cases b with
      | false => cases t <;> simp [M.throw, pure, M.pure, reject]
      | true =>
        simp only [Bool.not_true, Bool.false_eq_true, if_false]
        by_cases hge : m ≥ n
        · simp only [hge, if_true]
          rw [odp_eq E .length _ false]
        · simp only [hge, if_false]
          rw [← odp_eq E (.idx m) d false] at hr
          rw [odp_idem E (.idx m) d false t o s hr]
          rfl


/-- on a state whose length property is ⟨N, writable⟩: {writable:false} alone turns it read-only -/
theorem odp_length_wfalse (E : Env) (o : Obj) (N : Nat) (hl : LenProp o N true) :
    Spec.defineOwnDefault E .length { w := some false } false o
      = .ok true { o with props := write .length ⟨.int N, false, false, false⟩ o.props } := by
  rw [← odp_eq E .length { w := some false } false]
  simp only [LenProp] at hl
  simp [objectDefineOwnProperty, hl, Desc.isEmpty, Desc.isGeneric, Desc.isData]

/-- the tail of the length branch (after the first define succeeded) = §15.4.5.1 steps 3.l–3.n -/
theorem shrinkTail_refines (E : Env) (N : Nat) (D : Desc) (t : Bool) (cnt : Nat) (o1 : Obj)
    (hc : Cok D) (hv : D.v = some (.int N)) (hw : D.w ≠ some false) (nw : Bool)
    (ha : o1.isArr = true) (hl : LenProp o1 N true) (hb : Bound o1 (N + cnt)) (hlt : N + cnt < 2^32) :
    arrayShrinkTail E N D nw t cnt o1 = Spec.truncateTail E N D nw t cnt o1 := by
  have hs := shrink_inv E N D nw t hc cnt o1 ha hl hb hlt
  simp only [arrayShrinkTail, Spec.truncateTail, bind, M.bind, ← shrinkLoop_refines]
  cases hr : shrinkLoop E N D nw t cnt o1 with
  | err e o2 => rfl
  | ok r o2 =>
    rw [hr] at hs
    cases r with
    | some b => rfl
    | none =>
      obtain ⟨ha2, hl2, hb2⟩ := hs
      simp only
      cases nw with
      | true =>
        simp only [Bool.not_true, Bool.false_eq_true, if_false]
        rw [odp_length_ok E o2 N N D t hl2 hv hc]
        have hw' : D.w.getD true = true := by
          cases hD : D.w with
          | none => rfl
          | some b => cases b with
            | true => rfl
            | false => exact absurd hD hw
        rw [hw']
        have hsame : ({ o2 with props := write .length ⟨.int N, true, false, false⟩ o2.props } : Obj) = o2 := by
          rw [write_same _ _ _ hl2]
        rw [hsame]
        rfl
      | false =>
        simp only [Bool.not_false, if_true, M.bind]
        have hv' : ({ D with w := some false } : Desc).v = some (.int N) := hv
        have h1 := odp_length_ok E o2 N N { D with w := some false } false hl2 hv' hc
        rw [h1]
        simp only []
        rw [odp_idem E .length { D with w := some false } false t o2 _ h1]
        rw [odp_length_wfalse E o2 N hl2]
        rfl

/-- the "length" branch: arrayDefineOwnProperty = §15.4.5.1 step 3 -/
theorem setLength_refines (E : Env) (d : Desc) (t : Bool) (N : Nat) (o : Obj) (hwf : WFArr o) (hN : N < 2^32) :
    arraySetLength E d t N o = Spec.arraySetLen E d t N o := by
  obtain ⟨ha, n, w, hl, hn, hb⟩ := hwf
  have hlp : (lookup Key.length o.props).getD ⟨.int 0, false, false, false⟩ = ⟨.int (n : Nat), w, false, false⟩ := by
    simp only [LenProp] at hl; simp [hl]
  simp only [arraySetLength, Spec.arraySetLen, oldLen_eq, arrLength_of o n w hl, lengthWritable_of o n w hl, hlp, reject]
  by_cases hge : N ≥ n
  · simp only [hge, if_true]
    rw [odp_eq E .length _ t]
  · simp only [hge, if_false]
    -- the chain define; tail on a writable length with N < n
    have chain : ∀ (D : Desc) (nw : Bool), D.v = some (.int N) → D.w ≠ some false → w = true →
        ((do let ok ← objectDefineOwnProperty E .length D t
             if !ok then pure false else arrayShrinkTail E N D nw t (n - N)) : M Obj Bool) o
        = ((do let succeeded ← Spec.defineOwnDefault E .length D t
               if !succeeded then pure false else Spec.truncateTail E N D nw t (n - N)) : M Obj Bool) o := by
      intro D nw hDv hDw hw
      subst hw
      simp only [bind, M.bind, ← odp_eq E .length D t]
      by_cases hc : Cok D
      · rw [odp_length_ok E o n N D t hl hDv hc]
        simp only [Bool.not_true, Bool.false_eq_true, if_false]
        have hw' : D.w.getD true = true := by
          cases hD : D.w with
          | none => rfl
          | some b => cases b with
            | true => rfl
            | false => exact absurd hD hDw
        rw [hw']
        refine shrinkTail_refines E N D t (n - N)
          { o with props := write .length ⟨.int N, true, false, false⟩ o.props } hc hDv hDw nw ha ?_ ?_ ?_
        · simp [LenProp, lookup_write_self]
        · intro i hi1 hi2
          simp only at hi2
          rw [lookup_write_ne .length (.idx i) _ _ (by intro e; cases e)] at hi2
          have := hb i hi1 hi2; omega
        · omega
      · rw [odp_length_rej E o n true D t hl (by rw [hDv]; rfl) hc]
        cases t <;> rfl
    cases w with
    | false => simp
    | true =>
      simp only [Bool.not_true, Bool.false_eq_true, if_false]
      rcases hdw : d.w with _ | (_ | _)
      · simpa using chain ⟨some (.int N), none, d.e, d.c⟩ true rfl (by simp) rfl
      · simpa using chain ⟨some (.int N), some true, d.e, d.c⟩ false rfl (by simp) rfl
      · simpa using chain ⟨some (.int N), some true, d.e, d.c⟩ true rfl (by simp) rfl

/-- the representation invariant of keys: `name s` is never used for "length" … nor for a canonical index
    numeral (those are `idx n`); the driver's `keyOfBytes` guarantees it -/
def KeyOK : Key → Prop
  | .length => True
  | .idx _ => True
  | .name s => Spec.arrayIndex? s = none

/-- **arrayDefineOwnProperty = §15.4.5.1** on a well-formed array, for every key, every data descriptor with
    optional fields, either throw flag. -/
theorem arrayDefineOwnProperty_refines (E : Env) (k : Key) (d : Desc) (t : Bool) (o : Obj) (hwf : WFArr o)
    (hk : KeyOK k) :
    arrayDefineOwnProperty E k d t o = Spec.arrayDefineOwn E k d t o := by
  unfold arrayDefineOwnProperty Spec.arrayDefineOwn
  by_cases hkl : k = .length
  · subst hkl
    simp only [if_true]
    cases hv : d.v with
    | none =>
      simp only
      rw [odp_eq E .length d t]
    | some nv =>
      simp only [← length_range]
      cases hu : arrayUint32 E nv with
      | none => rfl
      | some N =>
        simp only
        exact setLength_refines E d t N o hwf (arrayUint32_lt E nv N hu)
  · simp only [hkl, if_false]
    cases k with
    | length => exact absurd rfl hkl
    | idx m =>
      rw [stringToArrayIndex_idx]
      simp only [Key.toBytes, arrayIndex_dec]
      by_cases hm : m < 2^32 - 1
      · have h0 : ((m : Nat) : Int) ≥ 0 := by omega
        simp only [hm, if_true, h0, Int.toNat_natCast]
        exact defineIndex_refines E m d t o hwf
      · simp only [hm, if_false]
        have : ¬ ((-1 : Int) ≥ 0) := by omega
        simp only [this, if_false]
        rw [odp_eq E _ d t]
    | name s =>
      have h2 : Spec.arrayIndex? s = none := hk
      have : ¬ (stringToArrayIndex (.name s) ≥ 0) := by
        simp only [stringToArrayIndex, Key.toBytes, array_index_eq, h2]; omega
      simp only [this, if_false, Key.toBytes, h2]
      rw [odp_eq E _ d t]

/-- hence §15.4.5.1 itself keeps the length invariant (transfer through the refinement) -/
theorem wf_specArrayDefine (E : Env) (k : Key) (d : Desc) (t : Bool) (o : Obj) (hwf : WFArr o)
    (hk : KeyOK k) :
    WFArr (stateOf (Spec.arrayDefineOwn E k d t o)) := by
  rw [← arrayDefineOwnProperty_refines E k d t o hwf hk]
  exact wf_arrayDefine E o k d t hwf

/-! ## objectPut = §8.12.5, histories -/

/-- [[Put]] on an existing writable data property: otto passes the property's own attributes along with the new
    value, §8.12.5 step 3 passes the value alone — the same [[DefineOwnProperty]] -/
theorem dod_full_vo (E : Env) (k : Key) (v : Val) (t : Bool) (o : Obj) (p : PropD)
    (hl : lookup k o.props = some p) (hw : p.w = true) :
    Spec.defineOwnDefault E k ⟨some v, some p.w, some p.e, some p.c⟩ t o = Spec.defineOwnDefault E k { v := some v } t o := by
  obtain ⟨pv, pw, pe, pc⟩ := p
  simp only at hw; subst hw
  simp only [Spec.defineOwnDefault, hl]
  cases pe <;> cases pc <;> cases t <;> simp

/-- the truncation loop does not depend on which of the two descriptors it carries -/
theorem truncateLoop_irrel (E : Env) (N : Nat) (v : Val) (t : Bool) (cnt : Nat) :
    ∀ o1 : Obj, LenProp o1 N true →
      Spec.truncateLoop E N ⟨some v, some true, some false, some false⟩ true t cnt o1
        = Spec.truncateLoop E N { v := some v } true t cnt o1 := by
  induction cnt with
  | zero => intro _ _; rfl
  | succ c ih =>
    intro o1 hl
    simp only [Spec.truncateLoop, bind, M.bind, ← objectDelete_refines]
    rcases objectDelete_cases (.idx (N + c)) o1 with h1 | ⟨h1, _⟩
    · rw [h1]
      simp only [Bool.not_true, Bool.false_eq_true, if_false]
      apply ih
      simp only [LenProp]; rw [lookup_erase_ne _ _ _ (by intro e; cases e)]; exact hl
    · rw [h1]
      simp only [Bool.not_false, if_true, Bool.not_true, Bool.false_eq_true, if_false]
      rw [← odp_eq E .length _ false, ← odp_eq E .length _ false]
      simp only [M.bind]
      rw [odp_length_ok E o1 N (N + c + 1) ⟨some (.int ((N + c + 1 : Nat) : Int)), some true, some false, some false⟩ false hl rfl ⟨by simp, by simp⟩,
          odp_length_ok E o1 N (N + c + 1) { v := some (.int ((N + c + 1 : Nat) : Int)) } false hl rfl ⟨by simp, by simp⟩]
      rfl

/-- §15.4.5.1 gives the same result for otto's full descriptor and §8.12.5's value-only descriptor -/
theorem specDefine_full_vo (E : Env) (k : Key) (v : Val) (t : Bool) (o : Obj) (p : PropD) (hwf : WFArr o)
    (hl : lookup k o.props = some p) (hw : p.w = true) :
    Spec.arrayDefineOwn E k ⟨some v, some p.w, some p.e, some p.c⟩ t o = Spec.arrayDefineOwn E k { v := some v } t o := by
  unfold Spec.arrayDefineOwn
  by_cases hk : k = .length
  · subst hk
    obtain ⟨ha, n, w, hlen, hn, hb⟩ := hwf
    have hp : p = ⟨.int (n : Nat), w, false, false⟩ := by
      simp only [LenProp] at hlen; rw [hlen] at hl; injection hl with hl; exact hl.symm
    subst hp
    simp only at hw; subst hw
    simp only [if_true]
    cases hN : Spec.lengthOf E v with
    | none => rfl
    | some N =>
      simp only
      have hlp : (lookup Key.length o.props).getD ⟨.int 0, false, false, false⟩ = ⟨.int (n : Nat), true, false, false⟩ := by
        simp only [LenProp] at hlen; simp [hlen]
      simp only [Spec.arraySetLen, oldLen_eq, arrLength_of o n true hlen, hlp]
      have hfv := dod_full_vo E .length (.int N) t o ⟨.int (n : Nat), true, false, false⟩ hl rfl
      simp only at hfv
      by_cases hge : N ≥ n
      · simp only [hge, if_true]; exact hfv
      · simp only [hge, if_false, Bool.true_eq_false, if_false]
        have e1 : (!decide ((some true : Option Bool) = some false)) = true := by decide
        have e2 : (!decide ((none : Option Bool) = some false)) = true := by decide
        simp only [e1, e2, if_true, bind, M.bind, hfv]
        rw [← odp_eq E .length { v := some (.int N) } t,
            odp_length_ok E o n N { v := some (.int N) } t hlen rfl ⟨by simp, by simp⟩]
        simp only [Option.getD_none, Bool.not_true, Bool.false_eq_true, if_false, Spec.truncateTail, bind, M.bind]
        rw [truncateLoop_irrel E N (.int N) t (n - N) _ (by simp [LenProp, lookup_write_self])]
  · simp only [hk, if_false]
    cases hi : Spec.arrayIndex? k.toBytes with
    | none => exact dod_full_vo E k v t o p hl hw
    | some index =>
      simp only [Spec.arrayDefineIdx, bind, M.bind, dod_full_vo E k v false o p hl hw]

/-- **objectPut = §8.12.5 [[Put]]** (with §15.4.5.1 underneath) on a well-formed array, for every key in `KeyOK` -/
theorem objectPut_refines (E : Env) (k : Key) (v : Val) (t : Bool) (o : Obj) (hwf : WFArr o) (hk : KeyOK k) :
    objectPut E k v t o = Spec.put E k v t o := by
  unfold objectPut Spec.put
  simp only [canPutDetails, Spec.canPut, defineOwnProperty, Spec.defineOwn, hwf.arr, if_true, bind, M.bind]
  cases hl : lookup k o.props with
  | some p =>
    simp only
    cases hw : p.w with
    | false => simp
    | true =>
      simp only [Bool.not_true, Bool.false_eq_true, if_false]
      rw [arrayDefineOwnProperty_refines E k _ t o hwf hk]
      rw [specDefine_full_vo E k v t o p hwf hl hw]
  | none =>
    cases hp : protoLookup k o with
    | none =>
      simp only
      cases he : o.ext with
      | false => simp
      | true =>
        simp only [Bool.not_true, Bool.false_eq_true, if_false]
        rw [arrayDefineOwnProperty_refines E k _ t o hwf hk]
    | some pv =>
      simp only
      cases he : o.ext with
      | false => simp
      | true =>
        simp only [Bool.not_true, Bool.false_eq_true, if_false]
        rw [arrayDefineOwnProperty_refines E k _ t o hwf hk]


/-! ### histories: model = specification -/

/-- the same history on the specification side (§15.4.5.1 / §8.12.5 / §8.12.7) -/
def HOp.specRun (E : Env) : HOp → Obj → Obj
  | .define k d t, o => stateOf (Spec.defineOwn E k d t o)
  | .put k v t, o => stateOf (Spec.put E k v t o)
  | .delete k t, o => stateOf (Spec.delete k t o)

def specRunHist (E : Env) : List HOp → Obj → Obj
  | [], o => o
  | op :: ops, o => specRunHist E ops (op.specRun E o)

/-- the side condition of a step: keys respect the representation invariant -/
def StepOK : HOp → Prop
  | .define k _ _ => KeyOK k
  | .put k _ _ => KeyOK k
  | .delete _ _ => True

def HistOK (ops : List HOp) : Prop := ∀ op ∈ ops, StepOK op

theorem step_refines (E : Env) (op : HOp) (o : Obj) (hwf : WFArr o) (hok : StepOK op) :
    op.run E o = op.specRun E o := by
  cases op with
  | define k d t =>
    simp only [HOp.run, HOp.specRun, defineOwnProperty, Spec.defineOwn, hwf.arr, if_true]
    rw [arrayDefineOwnProperty_refines E k d t o hwf hok]
  | put k v t =>
    simp only [HOp.run, HOp.specRun]
    rw [objectPut_refines E k v t o hwf hok]
  | delete k t =>
    simp only [HOp.run, HOp.specRun, objectDelete_refines]

/-- **history_refines**: every finite history of [[DefineOwnProperty]] / [[Put]] / [[Delete]] on an array (any
    descriptor, any key) leaves exactly the object that ES5 prescribes — and that object satisfies the length
    invariant. -/
theorem history_refines (E : Env) (ops : List HOp) (o : Obj) (hwf : WFArr o) (hok : HistOK ops) :
    runHist E ops o = specRunHist E ops o ∧ WFArr (specRunHist E ops o) := by
  induction ops generalizing o with
  | nil => exact ⟨rfl, hwf⟩
  | cons op ops ih =>
    have h1 : StepOK op := hok op (List.mem_cons_self ..)
    have h2 : HistOK ops := fun x hx => hok x (List.mem_cons_of_mem _ hx)
    have hwf' : WFArr (op.run E o) := by
      cases op with
      | define k d t => exact wf_defineOwn E o k d t hwf
      | put k v t => exact wf_put E o k v t hwf
      | delete k t => exact wf_delete o k t hwf
    have hs := step_refines E op o hwf h1
    simp only [runHist, specRunHist]
    rw [← hs]
    exact ih (op.run E o) hwf' h2


end OttoVerif.C08.Thm
