/-
  C08/Model — transcription of otto's array code.

  otto_.go:      stringToArrayIndex (l.32), isUint32 (l.49), valueToRangeIndex (l.74),
                 rangeStartEnd (l.97), rangeStartLength (l.115)
  value_number.go: Value.number (l.147)
  type_array.go: arrayUint32 (l.44), arrayDefineOwnProperty (l.54)
  object_class.go: objectGetOwnProperty (l.166), objectGetProperty (l.176), objectGet (l.188),
                 objectCanPutDetails (l.201), objectPut (l.240), objectHasProperty (l.303),
                 objectDefineOwnProperty (l.312), objectDelete (l.447)
  builtin_array.go: every builtinArray* (cited per function below)
  global.go:     newArrayOf (l.102)

  Abstractions (stated once, validated per sample by the correspondence harness):
  * Only data properties are modelled (no getters/setters), so [[Get]] and [[HasProperty]] are pure.
  * A property key is `Key`: `idx n` stands for the canonical decimal string of `n`
    (`Key.toBytes` gives the bytes), `name s` for any other string, `length` for "length".
  * otto's trit-encoded mode is stored as three Booleans: trit 2 ("not set") in a *stored* mode
    reads as false through writable()/enumerable()/configurable() and is identified with 0.
    Descriptors keep the three-valued form (`Option Bool`, `none` = trit 2).
  * Integer-kinded Go number Values (uint32Value, int64Value) are `Val.int`.
  * The callback is an arbitrary state transformer `Ops.call`; the receiver is `Val.recv`.
-/
import OttoVerif.Base.F64
import OttoVerif.Base.GoStd
namespace OttoVerif.C08
open OttoVerif.F64

/-! ## Values -/

inductive Val where
  | undef | null
  | bool (b : Bool)
  | int (i : Int)          -- integer-kinded number Value (uint32Value / int64Value / intValue)
  | num (x : FV)           -- float64-kinded number Value
  | str (s : List Nat)     -- Go string, UTF-8 bytes
  | recv                   -- the receiver object itself (objectValue(thisObject))
  | obj (id : Nat)         -- a scripted object: its valueOf/toString is played by `Ops.conv`
deriving DecidableEq, Repr, Inhabited

structure Env where
  pn : List Nat → FV        -- parseNumber  (value_number.go:14; C06's subject)
  ts : Val → List Nat       -- Value.string() on primitives (C06's subject)

/-- Value.float64 (value_number.go:46) -/
def toFloat (E : Env) : Val → FV
  | .undef => .nan
  | .null => zero
  | .bool b => if b then one else zero
  | .int i => ofInt i
  | .num x => x
  | .str s => E.pn s
  | .recv => .nan           -- ToPrimitive of the receiver is not modelled; never generated as a numeric argument
  | .obj _ => .nan          -- objects are converted by `Ops.conv` before any pure conversion sees them

/-- Value.bool (value_boolean.go:10) -/
def toBool : Val → Bool
  | .undef => false | .null => false
  | .bool b => b
  | .int i => i != 0
  | .num x => !(isNaN x || isZero x)
  | .str s => s.length != 0
  | .recv => true
  | .obj _ => true

def maxInt64 : Int := 2^63 - 1
def minInt64 : Int := -(2^63)

/-- `Value.number().int64` (value_number.go:147): saturating truncation, NaN ↦ 0. -/
def toI64 (E : Env) (v : Val) : Int :=
  match v with
  | .int i => i
  | _ =>
    match toFloat E v with
    | .nan => 0
    | .inf s => if s then minInt64 else maxInt64
    | .fin s m e =>
      let t := truncInt (.fin s m e)
      if t ≥ 2^63 then maxInt64 else if t ≤ -(2^63 : Int) then minInt64 else t

/-- `Value.number().kind == numberInteger` -/
def isIntegerKind (E : Env) (v : Val) : Bool :=
  match v with
  | .int _ => true
  | _ =>
    match toFloat E v with
    | .nan => false
    | .inf _ => false
    | .fin s m e =>
      if m = 0 then true
      else
        let t := truncInt (.fin s m e)
        if t ≥ 2^63 then false else if t ≤ -(2^63 : Int) then false else isIntegral m e

def maxUint32 : Int := 4294967295

/-- isUint32 (otto_.go:49) -/
def isUint32 (i : Int) : Bool := i ≥ 0 && i ≤ maxUint32

/-- arrayUint32 (type_array.go:44): `none` = RangeError -/
def arrayUint32 (E : Env) (v : Val) : Option Nat :=
  if !isIntegerKind E v || !isUint32 (toI64 E v) then none else some (toI64 E v).toNat

/-- toUint32 (value_number.go:228) restricted to the range where Go's float→int64 is exact
    (|x| < 2^63; C05's `toInt_big` region is outside this property's generators). -/
def toUint32 (E : Env) (v : Val) : Nat :=
  match v with
  | .int i => (i % (2^32 : Int)).toNat
  | _ =>
    match toFloat E v with
    | .fin s m e => if m = 0 then 0 else (truncInt (.fin s m e) % (2^32 : Int)).toNat
    | _ => 0

/-- sameValue (value.go:534) -/
def sameValue (E : Env) (x y : Val) : Bool :=
  match x, y with
  | .undef, .undef => true
  | .null, .null => true
  | .str a, .str b => a == b
  | .bool a, .bool b => a == b
  | .recv, .recv => true
  | .obj a, .obj b => a == b
  | .int _, .int _ | .int _, .num _ | .num _, .int _ | .num _, .num _ =>
    let fx := toFloat E x
    let fy := toFloat E y
    if isNaN fx && isNaN fy then true
    else if eqNum fx fy then (if isZero fx then signBit fx == signBit fy else true)
    else false
  | _, _ => false

/-- strictEqualityComparison (value.go:568) -/
def strictEquals (E : Env) (x y : Val) : Bool :=
  match x, y with
  | .undef, .undef => true
  | .null, .null => true
  | .str a, .str b => a == b
  | .bool a, .bool b => a == b
  | .recv, .recv => true
  | .obj a, .obj b => a == b
  | .int _, .int _ | .int _, .num _ | .num _, .int _ | .num _, .num _ =>
    let fx := toFloat E x
    let fy := toFloat E y
    if isNaN fx || isNaN fy then false else eqNum fx fy
  | _, _ => false

/-! ## Keys -/

inductive Key where
  | length
  | idx (n : Nat)          -- the canonical decimal string of n
  | name (s : List Nat)    -- any other string (bytes)
deriving DecidableEq, Repr, Inhabited

/-- decimal digits of n, most significant first (strconv.FormatInt(n, 10) for n ≥ 0) -/
def decAux : Nat → Nat → List Nat → List Nat
  | 0, _, acc => acc
  | fuel+1, n, acc => if n < 10 then (48 + n) :: acc else decAux fuel (n / 10) ((48 + n % 10) :: acc)

def dec (n : Nat) : List Nat := decAux (n + 1) n []

def lengthBytes : List Nat := [108, 101, 110, 103, 116, 104]

def Key.toBytes : Key → List Nat
  | .length => lengthBytes
  | .idx n => dec n
  | .name s => s

/-- stringToArrayIndex (otto_.go:32) on the raw bytes -/
def stringToArrayIndexRaw (s : List Nat) : Int :=
  match GoStd.parseInt s 10 with
  | .ok i =>
    if i < 0 then -1 else if i ≥ maxUint32 then -1
    else if dec i.toNat ≠ s then -1          -- strconv.FormatInt(index, 10) != name
    else i
  | _ => -1

def stringToArrayIndex (k : Key) : Int := stringToArrayIndexRaw k.toBytes

/-! ## valueToRangeIndex and friends (otto_.go) -/

/-- valueToRangeIndex (otto_.go:74) on the already converted `number().int64` -/
def rangeIndex (index : Int) (length : Int) (negativeIsZero : Bool) : Int :=
  if negativeIsZero then
    let index := if index < 0 then 0 else index
    if index ≥ length then length else index
  else if index < 0 then
    let index := index + length
    if index < 0 then 0 else index
  else if index > length then length else index

def valueToRangeIndex (E : Env) (v : Val) (length : Int) (negativeIsZero : Bool) : Int :=
  rangeIndex (toI64 E v) length negativeIsZero

/-- valueOfArrayIndex (otto_.go:57) -/
def argAt (args : List Val) (i : Nat) : Val := (args[i]?).getD .undef

/-- rangeStartEnd (otto_.go:97) with negativeIsZero = false -/
def rangeStartEnd (E : Env) (args : List Val) (size : Int) : Int × Int :=
  let start := valueToRangeIndex E (argAt args 0) size false
  if args.length = 1 then (start, size)
  else
    let endValue := argAt args 1
    if endValue = .undef then (start, size) else (start, valueToRangeIndex E endValue size false)

/-! ## The object store -/

structure PropD where
  v : Val
  w : Bool
  e : Bool
  c : Bool
deriving DecidableEq, Repr, Inhabited

/-- a property descriptor with data fields only; `none` = field absent (mode trit 2 / value nil) -/
structure Desc where
  v : Option Val := none
  w : Option Bool := none
  e : Option Bool := none
  c : Option Bool := none
deriving DecidableEq, Repr, Inhabited

structure Obj where
  isArr : Bool                      -- objectClass = classArray (else classObject)
  ext : Bool                        -- extensible
  props : List (Key × PropD)        -- own properties in propertyOrder
  proto : List (Nat × Val)          -- index-named data properties (writable) found on the prototype chain
deriving Repr, Inhabited

def lookup (k : Key) : List (Key × PropD) → Option PropD
  | [] => none
  | (k', p) :: r => if k' = k then some p else lookup k r

/-- writeProperty (object.go:123): replace in place or append -/
def write (k : Key) (p : PropD) : List (Key × PropD) → List (Key × PropD)
  | [] => [(k, p)]
  | (k', p') :: r => if k' = k then (k, p) :: r else (k', p') :: write k p r

/-- deleteProperty (object.go:133): the map entry goes, and every occurrence in propertyOrder -/
def erase (k : Key) : List (Key × PropD) → List (Key × PropD)
  | [] => []
  | (k', p') :: r => if k' = k then erase k r else (k', p') :: erase k r

def protoLookup (k : Key) (o : Obj) : Option Val :=
  match k with
  | .idx n => (o.proto.find? (fun q => q.1 = n)).map (·.2)
  | _ => none

/-! ## The result monad: every operation returns a value or throws, and always a final state -/

inductive Err | type | range
deriving DecidableEq, Repr

inductive Res (σ α : Type) where
  | ok (a : α) (s : σ)
  | err (e : Err) (s : σ)
deriving Repr

def M (σ α : Type) := σ → Res σ α

namespace M
variable {σ α β : Type}
@[inline] def pure (a : α) : M σ α := fun s => .ok a s
@[inline] def bind (m : M σ α) (f : α → M σ β) : M σ β := fun s =>
  match m s with
  | .ok a s' => f a s'
  | .err e s' => .err e s'
@[inline] def throw (e : Err) : M σ α := fun s => .err e s
@[inline] def read (f : σ → α) : M σ α := fun s => .ok (f s) s
@[inline] def modify (f : σ → σ) : M σ Unit := fun s => .ok () (f s)
end M

instance {σ : Type} : Monad (M σ) where
  pure := M.pure
  bind := M.bind

/-- `for i := lo; i < lo+n; i++ { body i }` -/
def forUp {σ : Type} (body : Nat → M σ Unit) : Nat → Nat → M σ Unit
  | _, 0 => pure ()
  | lo, n+1 => do body lo; forUp body (lo+1) n

/-- `for i := lo+n; i > lo; i-- { body (i-1) }`, i.e. body (lo+n-1), …, body lo -/
def forDown {σ : Type} (body : Nat → M σ Unit) (lo : Nat) : Nat → M σ Unit
  | 0 => pure ()
  | n+1 => do body (lo+n); forDown body lo n

/-- ascending loop with an accumulator -/
def foldUp {σ β : Type} (body : Nat → β → M σ β) : Nat → Nat → β → M σ β
  | _, 0, acc => pure acc
  | lo, n+1, acc => do let acc' ← body lo acc; foldUp body (lo+1) n acc'

/-- descending loop with an accumulator: body (lo+n-1), …, body lo -/
def foldDown {σ β : Type} (body : Nat → β → M σ β) (lo : Nat) : Nat → β → M σ β
  | 0, acc => pure acc
  | n+1, acc => do let acc' ← body (lo+n) acc; foldDown body lo n acc'

/-- ascending loop with early exit: the first `some` wins -/
def findUp {σ β : Type} (body : Nat → M σ (Option β)) : Nat → Nat → M σ (Option β)
  | _, 0 => pure none
  | lo, n+1 => do
    match ← body lo with
    | some r => pure (some r)
    | none => findUp body (lo+1) n

/-- descending loop with early exit: body (lo+n-1), …, body lo -/
def findDown {σ β : Type} (body : Nat → M σ (Option β)) (lo : Nat) : Nat → M σ (Option β)
  | 0 => pure none
  | n+1 => do
    match ← body (lo+n) with
    | some r => pure (some r)
    | none => findDown body lo n

/-! ## Object internals (object_class.go, type_array.go) -/

def Desc.isData (d : Desc) : Bool := d.w.isSome || d.v.isSome       -- property.isDataDescriptor
def Desc.isGeneric (d : Desc) : Bool := !d.isData                    -- (no accessor descriptors here)
def Desc.isEmpty (d : Desc) : Bool := d.w.isNone && d.e.isNone && d.c.isNone && d.isGeneric

/-- the `reject` closure / typeErrorResult(throw) -/
def reject (throw : Bool) : M Obj Bool := fun o => if throw then .err .type o else .ok false o

/-- objectDefineOwnProperty (object_class.go:312), data properties and data/generic descriptors -/
def objectDefineOwnProperty (E : Env) (k : Key) (d : Desc) (throw : Bool) : M Obj Bool := fun o =>
  match lookup k o.props with
  | none =>
    if !o.ext then reject throw o
    else .ok true { o with props := write k ⟨d.v.getD .undef, d.w == some true, d.e == some true, d.c == some true⟩ o.props }
  | some p =>
    if d.isEmpty then .ok true o
    else if !p.c && d.c == some true then reject throw o
    else if !p.c && d.e.isSome && d.e != some p.e then reject throw o
    else if d.isData && !p.c && !p.w && d.w == some true then reject throw o
    else if d.isData && !p.c && !p.w && (match d.v with | some v => !sameValue E p.v v | none => false) then reject throw o
    else
      let w' := d.w.getD p.w        -- the property stays a data property: `mode1 |= mode0 & 0o100` when writable is unset
      .ok true { o with props := write k ⟨d.v.getD p.v, w', d.e.getD p.e, d.c.getD p.c⟩ o.props }

/-- objectDelete (object_class.go:447) -/
def objectDelete (k : Key) (throw : Bool) : M Obj Bool := fun o =>
  match lookup k o.props with
  | none => .ok true o
  | some p =>
    if p.c then .ok true { o with props := erase k o.props }
    else reject throw o

/-- the uint32 stored in the array's length property (`lengthValue.value.(uint32)`) -/
def arrLength (o : Obj) : Nat :=
  match lookup .length o.props with
  | some ⟨.int n, _, _, _⟩ => n.toNat
  | _ => 0

def lengthWritable (o : Obj) : Bool :=
  match lookup .length o.props with
  | some p => p.w
  | none => false

/-- the shrink loop of arrayDefineOwnProperty: `for newLength < length { length--; … }`;
    `cnt` = length − newLength.  Returns `some r` when the function returns inside the loop. -/
def shrinkLoop (E : Env) (newLength : Nat) (d : Desc) (newWritable throw : Bool) : Nat → M Obj (Option Bool)
  | 0 => pure none
  | cnt+1 => do
    let length := newLength + cnt          -- after `length--`
    let ok ← objectDelete (.idx length) false
    if !ok then
      let d1 : Desc := { d with v := some (.int (length + 1 : Nat)) }
      let d2 : Desc := if !newWritable then { d1 with w := some false } else d1
      let _ ← objectDefineOwnProperty E .length d2 false
      let r ← reject throw
      pure (some r)
    else shrinkLoop E newLength d newWritable throw cnt

/-- arrayDefineOwnProperty, `name == "length"` with a value, from `for newLength < length` to the end
    (type_array.go:89-107); `d` already carries the forced writable flag, `cnt` = length − newLength -/
def arrayShrinkTail (E : Env) (newLength : Nat) (d : Desc) (newWritable throw : Bool) (cnt : Nat) : M Obj Bool := do
  match ← shrinkLoop E newLength d newWritable throw cnt with
  | some r => pure r
  | none =>
    if !newWritable then
      let d' : Desc := { d with w := some false }      -- descriptor.mode &= 0o077
      let _ ← objectDefineOwnProperty E .length d' false
      objectDefineOwnProperty E .length d' throw         -- falls through to the final return
    else objectDefineOwnProperty E .length d throw

/-- arrayDefineOwnProperty, `name == "length"` with descriptor.value = uint32Value(newLength)
    (type_array.go:75-107) -/
def arraySetLength (E : Env) (d : Desc) (throw : Bool) (newLength : Nat) : M Obj Bool := fun o =>
  let length := arrLength o
  let d : Desc := { d with v := some (.int newLength) }
  if newLength ≥ length then objectDefineOwnProperty E .length d throw o
  else if !lengthWritable o then reject throw o
  else
    let newWritable := !(d.w == some false)
    let d : Desc := if !newWritable then { d with w := some true } else d
    (do
      let ok ← objectDefineOwnProperty E .length d throw
      if !ok then pure false else
      arrayShrinkTail E newLength d newWritable throw (length - newLength)) o

/-- arrayDefineOwnProperty, `index := stringToArrayIndex(name); index >= 0` (type_array.go:108-119) -/
def arrayDefineIndex (E : Env) (k : Key) (d : Desc) (throw : Bool) (index : Nat) : M Obj Bool := fun o =>
  let length := arrLength o
  if index ≥ length ∧ lengthWritable o = false then reject throw o
  else
    (do
      let ok ← objectDefineOwnProperty E (.idx index) d false
      if !ok then reject throw else
      if index ≥ length then
        let lp := (lookup .length o.props).getD ⟨.int 0, false, false, false⟩
        let _ ← objectDefineOwnProperty E .length ⟨some (.int (index + 1 : Nat)), some lp.w, some lp.e, some lp.c⟩ false
        pure true
      else objectDefineOwnProperty E k d throw) o

/-- arrayDefineOwnProperty (type_array.go:54) -/
def arrayDefineOwnProperty (E : Env) (k : Key) (d : Desc) (throw : Bool) : M Obj Bool := fun o =>
  if k = .length then
    match d.v with
    | none => objectDefineOwnProperty E k d throw o
    | some nv =>
      match arrayUint32 E nv with
      | none => .err .range o
      | some newLength => arraySetLength E d throw newLength o
  else
    let index := stringToArrayIndex k
    if index ≥ 0 then arrayDefineIndex E k d throw index.toNat o
    else objectDefineOwnProperty E k d throw o

/-- obj.defineOwnProperty: dispatch on the object class -/
def defineOwnProperty (E : Env) (k : Key) (d : Desc) (throw : Bool) : M Obj Bool := fun o =>
  if o.isArr then arrayDefineOwnProperty E k d throw o else objectDefineOwnProperty E k d throw o

/-- objectGetProperty / objectGet / objectHasProperty -/
def objGet (o : Obj) (k : Key) : Val :=
  match lookup k o.props with
  | some p => p.v
  | none => (protoLookup k o).getD .undef

def objHas (o : Obj) (k : Key) : Bool :=
  (lookup k o.props).isSome || (protoLookup k o).isSome

/-- objectCanPutDetails (object_class.go:201): (canPut, own property if any) -/
def canPutDetails (o : Obj) (k : Key) : Bool × Option PropD :=
  match lookup k o.props with
  | some p => (p.w, some p)
  | none =>
    match protoLookup k o with
    | none => (o.ext, none)
    | some _ => if !o.ext then (false, none) else (true, none)   -- inherited data property, writable

/-- objectPut (object_class.go:240) -/
def objectPut (E : Env) (k : Key) (v : Val) (throw : Bool) : M Obj Unit := fun o =>
  match canPutDetails o k with
  | (false, _) => if throw then .err .type o else .ok () o
  | (true, some p) =>
    (do let _ ← defineOwnProperty E k ⟨some v, some p.w, some p.e, some p.c⟩ throw; pure ()) o
  | (true, none) =>
    (do let _ ← defineOwnProperty E k ⟨some v, some true, some true, some true⟩ throw; pure ()) o

/-- builtinObjectFreeze (builtin_object.go:274) / builtinObjectSeal (l.239): the loop over propertyOrder -/
def freezeLoop (E : Env) (onlySeal : Bool) : List Key → M Obj Unit
  | [] => pure ()
  | name :: rest => fun o =>
    match lookup name o.props with
    | some prop =>
      let w' := if onlySeal then prop.w else false
      let update := (!onlySeal && prop.w) || prop.c
      if update then
        (do let _ ← defineOwnProperty E name ⟨some prop.v, some w', some prop.e, some false⟩ true
            freezeLoop E onlySeal rest) o
      else freezeLoop E onlySeal rest o
    | none => freezeLoop E onlySeal rest o

def freeze (E : Env) (onlySeal : Bool) : M Obj Unit := fun o =>
  (do freezeLoop E onlySeal (o.props.map Prod.fst); M.modify (fun (o : Obj) => { o with ext := false })) o

/-! ## Array.prototype methods (builtin_array.go), generic over the object operations -/

/-- what `thisObject.get("join")` is -/
inductive JoinKind where
  | builtin      -- builtinArrayJoin (the function Array.prototype.join is created with)
  | user         -- a function of the script
  | other        -- not callable
deriving DecidableEq, Repr, Inhabited

/-- what a builtin sees of its `this` object -/
structure Ops (σ : Type) where
  len : σ → Nat                       -- toUint32(thisObject.get("length"))
  has : σ → Nat → Bool                -- thisObject.hasProperty(arrayIndexToString(k))
  get : σ → Nat → Val                 -- thisObject.get(arrayIndexToString(k))
  put : Nat → Val → M σ Unit          -- thisObject.put(arrayIndexToString(k), v, true)
  del : Nat → M σ Unit                -- thisObject.delete(arrayIndexToString(k), true)
  putLen : Val → M σ Unit             -- thisObject.put("length", v, true)
  call : List Val → M σ Val           -- iterator.call(…) with the given argument list
  isArr : σ → Bool                    -- isArray(thisObject)
  lenRead : M σ Unit                  -- what reading `length` does besides yielding `len` (valueOf of an object-valued length)
  conv : Val → M σ Val                -- an argument to a primitive (Value.number() / Value.string() of an object runs script)
  thisRaw : σ → Val                   -- call.This as passed: `recv` for an object, the primitive itself for a primitive receiver
  locale : Val → List Val → M σ Val   -- obj := toObject(value); obj.get("toLocaleString") (TypeError unless callable) .call(obj, args…)
  joinGet : M σ JoinKind              -- thisObject.get("join"): which kind of value it is (a getter runs)
  userJoin : List Val → M σ Val       -- a script function found as `join`, called with call.This as this and the arguments
  objToString : σ → Val               -- builtinObjectToString(call): "[object " + class + "]"

/-- a value returned by a builtin -/
inductive Ret where
  | val (v : Val)
  | arr (elems : List (Option Val))   -- a fresh array; `none` = hole (newArrayOf skips empty Values)
deriving DecidableEq, Repr

section Methods
variable {σ : Type} (O : Ops σ) (E : Env)

/-- move step shared by shift / unshift / splice:
    `if has(from) { put(to, get(from)) } else { delete(to) }` -/
def moveStep (src dst : Nat) : M σ Unit := fun s =>
  if O.has s src then O.put dst (O.get s src) s else O.del dst s

/-- builtinArrayPush (builtin_array.go:117) -/
def pushLoop : List Val → Nat → M σ Nat
  | [], index => pure index
  | item :: rest, index => do O.put index item; pushLoop rest (index + 1)

def pushCore (length : Nat) (items : List Val) : M σ Ret := do
  let index ← pushLoop O items length
  O.putLen (.int index)
  pure (Ret.val (.int index))

/-- every builtin starts with `length := toUint32(thisObject.get("length"))` unless noted -/
def readLen : M σ Nat := do O.lenRead; M.read O.len

def push (items : List Val) : M σ Ret := do
  let length ← readLen O
  pushCore O length items

/-- builtinArrayPop (builtin_array.go:130) -/
def popCore (length : Nat) : M σ Ret := fun s =>
  if length = 0 then
    (do O.putLen (.int 0); pure (Ret.val .undef)) s
  else
    let last := O.get s (length - 1)
    (do O.del (length - 1); O.putLen (.int (length - 1 : Nat)); pure (Ret.val last)) s

def pop : M σ Ret := do
  let length ← readLen O
  popCore O length

/-- builtinArrayShift (builtin_array.go:96) -/
def shiftCore (length : Nat) : M σ Ret := fun s =>
  if length = 0 then
    (do O.putLen (.int 0); pure (Ret.val .undef)) s
  else
    let first := O.get s 0
    (do
      forUp (fun index => moveStep O index (index - 1)) 1 (length - 1)
      O.del (length - 1)
      O.putLen (.int (length - 1 : Nat))
      pure (Ret.val first)) s

def shift : M σ Ret := do
  let length ← readLen O
  shiftCore O length

/-- put the items at consecutive indices starting at `at` -/
def putItems : List Val → Nat → M σ Unit
  | [], _ => pure ()
  | item :: rest, i => do O.put i item; putItems rest (i + 1)

/-- builtinArrayUnshift (builtin_array.go:272) -/
def unshiftCore (length : Nat) (items : List Val) : M σ Ret := fun s =>
  let itemCount := items.length
  (do
    forDown (fun i => moveStep O i (i + itemCount)) 0 length      -- index = i+1: from = index-1, to = index+itemCount-1
    putItems O items 0
    O.putLen (.int (length + itemCount : Nat))
    pure (Ret.val (.int (length + itemCount : Nat)))) s

def unshift (items : List Val) : M σ Ret := do
  let length ← readLen O
  unshiftCore O length items

/-- builtinArraySlice (builtin_array.go:249), on converted arguments -/
def sliceCore (length : Nat) (args : List Val) : M σ Ret := fun s =>
  let (start, stop) := rangeStartEnd E args length
  if start ≥ stop then .ok (Ret.arr []) s
  else
    let sliceLength := (stop - start).toNat
    .ok (Ret.arr ((List.range sliceLength).map fun index =>
      if O.has s (index + start.toNat) then some (O.get s (index + start.toNat)) else none)) s     -- emptyValue

/-- a converted position as a number: `undefined` from an object's valueOf counts as NaN, it is not "no argument" -/
def numPrim (p : Val) : Val := if p = .undef then .num .nan else p

/-- rangeStartEnd's conversions (otto_.go:97): start first; end only if there is one and it is not undefined -/
def sliceArgs (args : List Val) : M σ (List Val) := do
  let p0 ← O.conv (argAt args 0)
  if args.length = 1 then pure [p0]
  else
    let endValue := argAt args 1
    if endValue = .undef then pure [p0, .undef]
    else do
      let p1 ← O.conv endValue
      pure [p0, numPrim p1]

def slice (args : List Val) : M σ Ret := do
  let length ← readLen O
  let pargs ← sliceArgs O args
  sliceCore O E length pargs

/-- builtinArrayIndexOf (builtin_array.go:460), on a converted fromIndex -/
def indexOfCore (len : Nat) (args : List Val) : M σ Ret := fun s =>
  let matchValue := argAt args 0
  let length : Int := len
  if length > 0 then
    let index : Int := if args.length > 1 then toI64 E (argAt args 1) else 0
    let index : Int :=
      if index < 0 then (if index + length < 0 then 0 else index + length)
      else if index ≥ length then -1 else index
    if index ≥ 0 ∧ index < length then
      match (List.range (length - index).toNat).find? (fun j =>
          O.has s (index.toNat + j) && strictEquals E matchValue (O.get s (index.toNat + j))) with
      | some j => .ok (Ret.val (.int (index + j))) s
      | none => .ok (Ret.val (.int (-1))) s
    else .ok (Ret.val (.int (-1))) s
  else .ok (Ret.val (.int (-1))) s

/-- convert the argument at position `i` if it was passed (Value.number() on an object runs its valueOf) -/
def convAt (args : List Val) (i : Nat) : M σ (List Val) :=
  if args.length > i then do
    let p ← O.conv (argAt args i)
    pure (args.set i p)
  else pure args

def indexOf (args : List Val) : M σ Ret := do
  let length ← readLen O
  -- `if length > 0 { … index = call.Argument(1).number().int64 … }`
  let pargs ← if length > 0 then convAt O args 1 else pure args
  indexOfCore O E length pargs

/-- `for j := lo; j < lo+n; j++ { if p j { return j } }` -/
def searchUp (p : Nat → Bool) : Nat → Nat → Option Nat
  | _, 0 => none
  | lo, n+1 => if p lo then some lo else searchUp p (lo+1) n

/-- `for j := n-1; j >= 0; j-- { if p j { return j } }` -/
def searchDown (p : Nat → Bool) : Nat → Option Nat
  | 0 => none
  | n+1 => if p n then some n else searchDown p n

/-- builtinArrayReverse (builtin_array.go:296): one iteration of the loop -/
def reverseStep (lower upper : Nat) : M σ Unit := fun s =>
  let lowerExists := O.has s lower
  let upperExists := O.has s upper
  if lowerExists && upperExists then
    let lowerValue := O.get s lower
    let upperValue := O.get s upper
    (do O.put lower upperValue; O.put upper lowerValue) s
  else if !lowerExists && upperExists then
    let value := O.get s upper
    (do O.put lower value; O.del upper) s
  else if lowerExists && !upperExists then
    let value := O.get s lower
    (do O.del lower; O.put upper value) s
  else .ok () s

def reverseCore (length : Nat) : M σ Ret := fun s =>
  let middle := length / 2
  (do forUp (fun lower => reverseStep O lower (length - lower - 1)) 0 middle; pure (Ret.val .recv)) s     -- return objectValue(thisObject)

def reverse : M σ Ret := do
  let length ← readLen O
  reverseCore O length

/-- strings.Join -/
def goJoin : List (List Nat) → List Nat → List Nat
  | [], _ => []
  | [a], _ => a
  | a :: r, sep => a ++ sep ++ goJoin r sep

/-- the string of one element in builtinArrayJoin: "" for empty, undefined and null, otherwise `value.string()` (an object
    runs its toString) -/
def joinElem (value : Val) : M σ (List Nat) :=
  match value with
  | .undef => pure []
  | .null => pure []
  | v => do
    let p ← O.conv v
    pure (E.ts p)

/-- one turn of the loop of join / toLocaleString: `value := thisObject.get(arrayIndexToString(index))`, then the
    element's string is appended to stringList -/
def collectStep (elem : Val → M σ (List Nat)) (index : Nat) (stringList : List (List Nat)) : M σ (List (List Nat)) := fun s =>
  (do let x ← elem (O.get s index); pure (stringList ++ [x])) s

/-- builtinArrayJoin (builtin_array.go:143), on a converted separator (the allocation guard `checkDenseLength`,
    RangeError for length > 1<<24, is not modelled: no request has such a length) -/
def joinCore (length : Nat) (args : List Val) : M σ Ret :=
  let argument := argAt args 0
  let separator := if argument ≠ .undef then E.ts argument else [44]
  if length = 0 then pure (Ret.val (.str []))
  else do
    let stringList ← foldUp (collectStep O (joinElem O E)) 0 length []
    pure (Ret.val (.str (goJoin stringList separator)))

/-- `length` is read, then the separator converted (`argument.string()`) -/
def join (args : List Val) : M σ Ret := do
  let length ← readLen O
  let pargs ← if argAt args 0 ≠ .undef then (do
      let p ← O.conv (argAt args 0)
      pure (args.set 0 (.str (E.ts p))))       -- separator = argument.string()
    else pure args
  joinCore O E length pargs

/-- builtinArrayToString (builtin_array.go:28): `join := thisObject.get("join")`; callable ⇒ `join.call(call.This, nil, …)`
    — the function found is called, with no arguments, and what it returns is returned —, otherwise
    builtinObjectToString(call) -/
def toStringM (_args : List Val) : M σ Ret := do
  let joinValue ← O.joinGet
  match joinValue with
  | .builtin => join O E []
  | .user => do let v ← O.userJoin []; pure (Ret.val v)
  | .other => fun s => .ok (Ret.val (O.objToString s)) s

/-- one element of builtinArrayToLocaleString (builtin_array.go:47-59): empty, undefined and null give "", any other
    value `toLocaleString.call(call.runtime, objectValue(obj)).string()` — no arguments are handed on -/
def localeElem (value : Val) : M σ (List Nat) :=
  match value with
  | .undef => pure []
  | .null => pure []
  | v => do
    let r ← O.locale v []
    let p ← O.conv r          -- Value.string() of an object result runs its toString
    pure (E.ts p)

/-- builtinArrayToLocaleString (builtin_array.go:38), the separator is "," -/
def toLocaleStringCore (length : Nat) : M σ Ret :=
  if length = 0 then pure (Ret.val (.str []))
  else do
    let stringList ← foldUp (collectStep O (localeElem O E)) 0 length []
    pure (Ret.val (.str (goJoin stringList [44])))

def toLocaleStringM (_args : List Val) : M σ Ret := do
  let length ← readLen O
  toLocaleStringCore O E length

/-- an argument of concat: a primitive / non-array value, or an array given by its elements as
    [[HasProperty]]/[[Get]] see them (`none` = absent) -/
inductive CArg where
  | v (x : Val)
  | arr (es : List (Option Val))
deriving DecidableEq, Repr

/-- builtinArrayConcat: what one item appends (`emptyValue` for an absent index) -/
def concatItem : CArg → List (Option Val)
  | .v x => [some x]
  | .arr es => es

/-- builtinArrayConcat (builtin_array.go:64) -/
def concat (items : List CArg) : M σ Ret := fun s =>
  let thisPart : List (Option Val) :=
    if O.isArr s then
      (List.range (O.len s)).map fun index => if O.has s index then some (O.get s index) else none
    else [some .recv]
  let rest : List (Option Val) := items.flatMap concatItem
  .ok (Ret.arr (thisPart ++ rest)) s

/-- builtinArraySplice (builtin_array.go:166), on converted start / deleteCount -/
def spliceCore (len : Nat) (args : List Val) : M σ Ret := fun s =>
  let length : Int := len
  let start := valueToRangeIndex E (argAt args 0) length false
  let deleteCount :=
    if args.length > 1 then valueToRangeIndex E (argAt args 1) (length - start) true
    else if args.length = 0 then 0 else length - start
  let length := len
  let start := start.toNat
  let deleteCount := deleteCount.toNat
  let valueArray : List (Option Val) := (List.range deleteCount).map fun index =>
    if O.has s (start + index) then some (O.get s (start + index)) else none
  let itemList := args.drop 2
  let itemCount := itemList.length
  (do
    if itemCount < deleteCount then
      let stop := length - deleteCount
      forUp (fun index => moveStep O (index + deleteCount) (index + itemCount)) start (stop - start)
      forDown (fun i => O.del i) (stop + itemCount) (length - (stop + itemCount))
    else if itemCount > deleteCount then
      forDown (fun i => moveStep O (i + deleteCount) (i + itemCount)) start (length - deleteCount - start)
    else pure ()
    putItems O itemList start
    O.putLen (.int ((length : Int) + itemCount - deleteCount))
    pure (Ret.arr valueArray)) s

def splice (args : List Val) : M σ Ret := do
  let length ← readLen O
  let a1 ← convAt O args 0
  let a2 ← convAt O a1 1
  spliceCore O E length a2

/-- `return uint32Value(index)` / `return intValue(-1)` -/
def indexRet : Option Nat → Ret
  | some j => .val (.int j)
  | none => .val (.int (-1))

/-- builtinArrayLastIndexOf (builtin_array.go:487), on a converted fromIndex -/
def lastIndexOfCore (len : Nat) (args : List Val) : M σ Ret := fun s =>
  let matchValue := argAt args 0
  let length : Int := len
  let index : Int := if args.length > 1 then toI64 E (argAt args 1) else length - 1
  let index : Int := if 0 > index then index + length else index
  let search (from_ : Int) : Res σ Ret :=
    .ok (indexRet (searchDown (fun j => O.has s j && strictEquals E matchValue (O.get s j)) (from_ + 1).toNat)) s
  if index ≥ length then search (length - 1)
  else if 0 > index then .ok (indexRet none) s
  else search index

/-- `if length == 0 { return -1 }` precedes the conversion of fromIndex -/
def lastIndexOf (args : List Val) : M σ Ret := do
  let length ← readLen O
  let pargs ← if length = 0 then pure args else convAt O args 1
  lastIndexOfCore O E length pargs

/-- the callback builtins read `length`, then test `iterator.isCallable()` -/
def iterate (callable : Bool) (core : Nat → M σ Ret) : M σ Ret := do
  let length ← readLen O
  if !callable then M.throw .type else core length

/-- builtinArrayEvery (builtin_array.go:514) -/
def everyCore (length : Nat) : M σ Ret := fun s =>
  (do
    let r ← findUp (fun index => fun s' =>
      if O.has s' index then
        (do let r ← O.call [O.get s' index, .int index, .recv]
            pure (if toBool r then none else some ())) s'
      else .ok none s') 0 length
    match r with
    | some _ => pure (Ret.val (.bool false))
    | none => pure (Ret.val (.bool true))) s

def every (callable : Bool) : M σ Ret := iterate O callable (everyCore O)

/-- builtinArraySome (builtin_array.go:534) -/
def someCore (length : Nat) : M σ Ret := fun s =>
  (do
    let r ← findUp (fun index => fun s' =>
      if O.has s' index then
        (do let r ← O.call [O.get s' index, .int index, .recv]
            pure (if toBool r then some () else none)) s'
      else .ok none s') 0 length
    match r with
    | some _ => pure (Ret.val (.bool true))
    | none => pure (Ret.val (.bool false))) s

def some_ (callable : Bool) : M σ Ret := iterate O callable (someCore O)

/-- builtinArrayForEach (builtin_array.go:553) -/
def forEachCore (length : Nat) : M σ Ret := fun s =>
  (do
    forUp (fun index => fun s' =>
      if O.has s' index then (do let _ ← O.call [O.get s' index, .int index, .recv]; pure ()) s'
      else .ok () s') 0 length
    pure (Ret.val .undef)) s

def forEach (callable : Bool) : M σ Ret := iterate O callable (forEachCore O)

/-- builtinArrayMap (builtin_array.go:569) -/
def mapCore (length : Nat) : M σ Ret := fun s =>
  (do
    let values ← foldUp (fun index (values : List (Option Val)) => fun s' =>
      if O.has s' index then
        (do let r ← O.call [O.get s' index, .int index, .recv]; pure (values ++ [some r])) s'
      else .ok (values ++ [none]) s') 0 length []      -- values[index] = emptyValue
    pure (Ret.arr values)) s

def map (callable : Bool) : M σ Ret := iterate O callable (mapCore O)

/-- builtinArrayFilter (builtin_array.go:589) -/
def filterCore (length : Nat) : M σ Ret := fun s =>
  (do
    let values ← foldUp (fun index (values : List (Option Val)) => fun s' =>
      if O.has s' index then
        let value := O.get s' index
        (do let r ← O.call [value, .int index, .recv]
            pure (if toBool r then values ++ [some value] else values)) s'
      else .ok values s') 0 length []
    pure (Ret.arr values)) s

def filter (callable : Bool) : M σ Ret := iterate O callable (filterCore O)

/-- builtinArrayReduce (builtin_array.go:611); `args` = the arguments after the callback -/
def reduceCore (args : List Val) (length : Nat) : M σ Ret := fun s =>
  let initial := args.length > 0
  let start := argAt args 0
  if length > 0 ∨ initial then
    let (accumulator, index) : Val × Nat :=
      if !initial then
        match searchUp (O.has s) 0 length with
        | some k => (O.get s k, k + 1)
        | none => (.undef, length)
      else (start, 0)
    if !initial ∧ searchUp (O.has s) 0 length = none then .err .type s else       -- `if !found { panic(TypeError) }`
    (do
      let acc ← foldUp (fun index (accumulator : Val) => fun s' =>
        if O.has s' index then O.call [accumulator, O.get s' index, .int index, .recv] s'
        else .ok accumulator s') index (length - index) accumulator
      pure (Ret.val acc)) s
  else .err .type s

def reduce (callable : Bool) (args : List Val) : M σ Ret := iterate O callable (reduceCore O args)

/-- builtinArrayReduceRight (builtin_array.go:646) -/
def reduceRightCore (args : List Val) (length : Nat) : M σ Ret := fun s =>
  let initial := args.length > 0
  let start := argAt args 0
  if length > 0 ∨ initial then
    let (accumulator, count) : Val × Nat :=        -- count = index + 1
      if !initial then
        match searchDown (O.has s) length with
        | some k => (O.get s k, k)
        | none => (.undef, 0)
      else (start, length)
    if !initial ∧ searchDown (O.has s) length = none then .err .type s else
    (do
      let acc ← foldDown (fun index (accumulator : Val) => fun s' =>
        if O.has s' index then O.call [accumulator, O.get s' index, .int index, .recv] s'
        else .ok accumulator s') 0 count accumulator
      pure (Ret.val acc)) s
  else .err .type s

def reduceRight (callable : Bool) (args : List Val) : M σ Ret := iterate O callable (reduceRightCore O args)

/-- Go string comparison `a < b` (bytes) -/
def bytesLt : List Nat → List Nat → Bool
  | [], [] => false
  | [], _ :: _ => true
  | _ :: _, [] => false
  | a :: as, b :: bs => if a < b then true else if a > b then false else bytesLt as bs

/-- the comparator of sort: `none` = no comparefn (compare by string), `some f` = the sign otto derives from
    the comparefn's result (toIntSign(compare.call(undefined, x, y))); comparefn is assumed pure -/
abbrev SortCmp := Option (Val → Val → Int)

/-- sortCompare (builtin_array.go:338) -/
def sortCompare (cmp : SortCmp) (s : σ) (index0 index1 : Nat) : Int :=
  let jExists := O.has s index0
  let kExists := O.has s index1
  if !jExists && !kExists then 0
  else if !jExists then 1
  else if !kExists then -1
  else
    let x := O.get s index0
    let y := O.get s index1
    let jDefined := x != .undef
    let kDefined := y != .undef
    if !jDefined && !kDefined then 0
    else if !jDefined then 1
    else if !kDefined then -1
    else
      match cmp with
      | none =>
        let jv := E.ts x
        let kv := E.ts y
        -- lessThanUTF16 (evaluate.go:178): the order of the UTF-16 code units of the two Go strings
        if jv = kv then 0
        else if bytesLt (OttoVerif.Str.unitsOfBytes jv) (OttoVerif.Str.unitsOfBytes kv) then -1 else 1
      | some f => f x y

/-- arraySortSwap (builtin_array.go:388) -/
def sortSwap (index0 index1 : Nat) : M σ Unit := fun s =>
  let jExists := O.has s index0
  let kExists := O.has s index1
  if jExists && kExists then
    let jv := O.get s index0
    let kv := O.get s index1
    (do O.put index0 kv; O.put index1 jv) s
  else if !jExists && kExists then
    let value := O.get s index1
    (do O.del index1; O.put index0 value) s
  else if jExists && !kExists then
    let value := O.get s index0
    (do O.del index0; O.put index1 value) s
  else .ok () s

/-- one iteration of the loop of arraySortQuickPartition; `c` = (cursor, cursor2) -/
def sortPartitionStep (cmp : SortCmp) (right index : Nat) (c : Nat × Nat) : M σ (Nat × Nat) := fun s =>
  let comparison := sortCompare O E cmp s index right
  if comparison < 0 then
    (do sortSwap O index c.1
        if c.1 < c.2 then sortSwap O index c.2
        pure (c.1 + 1, c.2 + 1)) s
  else if comparison = 0 then
    (do sortSwap O index c.2
        pure (c.1, c.2 + 1)) s
  else .ok c s

/-- arraySortQuickPartition (builtin_array.go:414): returns (cursor, cursor2) -/
def sortPartition (cmp : SortCmp) (left right pivot : Nat) : M σ (Nat × Nat) := do
  sortSwap O pivot right
  let (cursor, cursor2) ← foldUp (sortPartitionStep O E cmp right) left (right - left) (left, left)
  sortSwap O cursor2 right
  pure (cursor, cursor2)

/-- arraySortQuickSort (builtin_array.go:437); `fuel` bounds the recursion depth (≥ right − left + 1) -/
def sortQuick (cmp : SortCmp) : Nat → Nat → Nat → M σ Unit
  | 0, _, _ => pure ()
  | fuel+1, left, right =>
    if left < right then do
      let middle := left + (right - left) / 2
      let (pivot, pivot2) ← sortPartition O E cmp left right middle
      if pivot > 0 then sortQuick cmp fuel left (pivot - 1)
      sortQuick cmp fuel (pivot2 + 1) right
    else pure ()

/-- builtinArraySort (builtin_array.go:447); `callable` = comparefn is undefined or callable -/
def sortCore (callable : Bool) (cmp : SortCmp) (length : Nat) : M σ Ret := fun s =>
  if !callable then .err .type s
  else if length > 1 then (do sortQuick O E cmp length 0 (length - 1); pure (Ret.val .recv)) s   -- return objectValue(thisObject)
  else .ok (Ret.val .recv) s

def sort (callable : Bool) (cmp : SortCmp) : M σ Ret := do
  let length ← readLen O
  sortCore O E callable cmp length

end Methods

/-! ## The concrete instance: an object plus the scripts (callback results, object conversions) and the log -/

/-- what a scripted object's valueOf/toString does to the receiver before it returns -/
inductive Eff where
  | none
  | push (v : Val)          -- a[a.length] = v
  | setLen (v : Val)        -- a.length = v
  | del (k : Nat)           -- delete a[k]
deriving Repr, Inhabited

/-- one scripted conversion: an effect, then a primitive result or an exception -/
structure Conv where
  eff : Eff := .none
  res : Option Val := some .undef     -- `none` = throw
  throwRange : Bool := false           -- … a RangeError instead of a TypeError
deriving Repr, Inhabited

structure St where
  o : Obj
  log : List (List Val) := []       -- callback argument lists and `[obj]` for each conversion of a scripted object, newest first
  rets : List Val := []             -- scripted return values of the callback, consumed in order
  script : List Conv := []          -- scripted conversions, consumed in order by whichever object is converted next
  lenPrim : Option Val := none      -- the primitive an object-valued `length` was converted to by `lenRead`
  thisRaw : Val := .recv            -- the `this` value of the call: the receiver object, or the primitive it was made from
  joinGetter : Bool := false        -- `join` of the receiver is an accessor property (its getter logs `G,<this>`)
  joinKind : JoinKind := .builtin   -- the value `join` has / the getter returns
  cls : List Nat := [65, 114, 114, 97, 121]   -- [[Class]] of the receiver object ("Array")
deriving Repr, Inhabited

def liftObj {α : Type} (m : M Obj α) : M St α := fun s =>
  match m s.o with
  | .ok a o' => .ok a { s with o := o' }
  | .err e o' => .err e { s with o := o' }

def scriptedCall (args : List Val) : M St Val := fun s =>
  match s.rets with
  | r :: rest => .ok r { s with log := args :: s.log, rets := rest }
  | [] => .ok .undef { s with log := args :: s.log }

/-- the conversion of a value to a primitive: a scripted object logs itself, plays the next script entry
    (effect through the given [[Put]]/[[Delete]], non-strict), and returns or throws; primitives are unchanged -/
def scriptedConv (putF : Key → Val → Bool → M Obj Unit) (delF : Key → Bool → M Obj Bool) (lenOf : Obj → Nat)
    (v : Val) : M St Val := fun s =>
  match v with
  | .obj id =>
    let s1 := { s with log := [Val.obj id] :: s.log }
    match s1.script with
    | [] => .ok .undef s1
    | c :: rest =>
      let s2 := { s1 with script := rest }
      let r : Res St Unit :=
        match c.eff with
        | .none => .ok () s2
        | .push x => liftObj (putF (.idx (lenOf s2.o)) x false) s2
        | .setLen x => liftObj (putF .length x false) s2
        | .del k => liftObj (do let _ ← delF (.idx k) false; pure ()) s2
      match r with
      | .err e s3 => .err e s3
      | .ok _ s3 =>
        match c.res with
        | some p => .ok p s3
        | none => .err (if c.throwRange then .range else .type) s3
  | p => .ok p s

/-- a function of a scripted object is entered: the entry is logged and the next script entry played (as scriptedConv) -/
def scriptedPlay (putF : Key → Val → Bool → M Obj Unit) (delF : Key → Bool → M Obj Bool) (lenOf : Obj → Nat)
    (entry : List Val) : M St Val := fun s =>
  let s1 := { s with log := entry :: s.log }
  match s1.script with
  | [] => .ok .undef s1
  | c :: rest =>
    let s2 := { s1 with script := rest }
    let r : Res St Unit :=
      match c.eff with
      | .none => .ok () s2
      | .push x => liftObj (putF (.idx (lenOf s2.o)) x false) s2
      | .setLen x => liftObj (putF .length x false) s2
      | .del k => liftObj (do let _ ← delF (.idx k) false; pure ()) s2
    match r with
    | .err e s3 => .err e s3
    | .ok _ s3 =>
      match c.res with
      | some p => .ok p s3
      | none => .err (if c.throwRange then .range else .type) s3

/-- what the harness's `toLocaleString` functions log: the marker "L", their `this` (the primitive value of a wrapper),
    `arguments.length`, the arguments -/
def localeEntry (this : Val) (args : List Val) : List Val := [.str [76], this, .int args.length] ++ args

/-- `toLocaleString` of the harness's element values, called on ToObject(value) with `args`: a scripted object logs and
    plays the next script entry (object 7 has a `toLocaleString` that is not callable); on a primitive the (replaced)
    Number/String/Boolean.prototype.toLocaleString logs and returns String(this.valueOf()) -/
def leafLocale (putF : Key → Val → Bool → M Obj Unit) (delF : Key → Bool → M Obj Bool) (lenOf : Obj → Nat) (E : Env)
    (v : Val) (args : List Val) : M St Val :=
  match v with
  | .obj id => if id = 7 then M.throw .type else scriptedPlay putF delF lenOf (localeEntry v args)
  | p => fun s => .ok (.str (E.ts p)) { s with log := localeEntry p args :: s.log }

/-- the elements of the nested arrays 50 + k of the harness -/
def nestedElems (k : Nat) : List Val := [.obj (10 + k), .int (k : Int), .null, .obj (20 + k)]

/-- the loop of builtinArrayToLocaleString once more, on the fixed elements of a nested array -/
def nestedLocale (leaf : Val → M St Val) (conv : Val → M St Val) (E : Env) : List Val → M St (List (List Nat))
  | [] => pure []
  | v :: r => do
    let x ← (match v with
      | .undef => pure []
      | .null => pure []
      | v => do let y ← leaf v; let p ← conv y; pure (E.ts p))
    let rest ← nestedLocale leaf conv E r
    pure (x :: rest)

/-- the element's toLocaleString: objects 50…59 are arrays (`nestedElems`), whose toLocaleString is
    builtinArrayToLocaleString again — it hands no arguments on either -/
def scriptedLocale (putF : Key → Val → Bool → M Obj Unit) (delF : Key → Bool → M Obj Bool) (lenOf : Obj → Nat) (E : Env)
    (v : Val) (args : List Val) : M St Val :=
  match v with
  | .obj id =>
    if 50 ≤ id ∧ id < 60 then do
      let l ← nestedLocale (fun x => leafLocale putF delF lenOf E x []) (scriptedConv putF delF lenOf) E (nestedElems (id - 50))
      pure (.str (goJoin l [44]))
    else leafLocale putF delF lenOf E v args
  | _ => leafLocale putF delF lenOf E v args

/-- the getter of an accessor `join` logs `G,<this>`; then the value -/
def scriptedJoinGet : M St JoinKind := fun s =>
  if s.joinGetter then .ok s.joinKind { s with log := [.str [71], .recv] :: s.log } else .ok s.joinKind s

/-- what the script's join function logs: `J`, its this, arguments.length, the arguments -/
def joinEntry (args : List Val) : List Val := [.str [74], .recv, .int args.length] ++ args

/-- "[object " + class + "]" -/
def stObjToString (s : St) : Val := .str ([91, 111, 98, 106, 101, 99, 116, 32] ++ s.cls ++ [93])

/-- reading `length`: an object value is converted (ToUint32 runs its valueOf) and the primitive remembered -/
def scriptedLenRead (getLen : Obj → Val) (conv : Val → M St Val) : M St Unit := fun s =>
  match getLen s.o with
  | .obj id =>
    match conv (.obj id) s with
    | .ok p s' => .ok () { s' with lenPrim := some p }
    | .err e s' => .err e s'
  | _ => .ok () s

/-- the operations as otto performs them on a real object -/
def modelOps (E : Env) : Ops St where
  len := fun s => match s.lenPrim with
    | some p => toUint32 E p
    | none => toUint32 E (objGet s.o .length)
  has := fun s k => objHas s.o (.idx k)
  get := fun s k => objGet s.o (.idx k)
  put := fun k v => liftObj (objectPut E (.idx k) v true)
  del := fun k => liftObj (do let _ ← objectDelete (.idx k) true; pure ())
  putLen := fun v => liftObj (objectPut E .length v true)
  call := scriptedCall
  isArr := fun s => s.o.isArr
  lenRead := scriptedLenRead (fun o => objGet o .length)
    (scriptedConv (objectPut E) objectDelete (fun o => toUint32 E (objGet o .length)))
  conv := scriptedConv (objectPut E) objectDelete (fun o => toUint32 E (objGet o .length))
  thisRaw := fun s => s.thisRaw
  locale := scriptedLocale (objectPut E) objectDelete (fun o => toUint32 E (objGet o .length)) E
  joinGet := scriptedJoinGet
  userJoin := fun args => scriptedPlay (objectPut E) objectDelete (fun o => toUint32 E (objGet o .length)) (joinEntry args)
  objToString := stObjToString

/-- `a[k] = v` / Object.defineProperty(a, k, {value: v, …}) when v may be a scripted object: only the length of an
    array converts its value — for an object `newLength = toUint32(v)` and then `float64(newLength) != v.float64()`
    ⇒ RangeError (type_array.go:74-83), after [[Put]]'s CanPut -/
def stDefine (E : Env) (k : Key) (d : Desc) (throw : Bool) : M St Bool := fun s =>
  match k, d.v, s.o.isArr with
  | .length, some (.obj id), true =>
    ((modelOps E).conv (.obj id) >>= fun p1 =>
      (modelOps E).conv (.obj id) >>= fun p2 =>
        let newLength := toUint32 E p1
        if eqNum (ofInt newLength) (toFloat E p2)
        then liftObj (defineOwnProperty E .length { d with v := some (.int newLength) } throw)
        else M.throw .range) s
  | _, _, _ => liftObj (defineOwnProperty E k d throw) s

def stPut (E : Env) (k : Key) (v : Val) (throw : Bool) : M St Unit := fun s =>
  match k, v, s.o.isArr with
  | .length, .obj id, true =>
    match canPutDetails s.o .length with
    | (false, _) => if throw then .err .type s else .ok () s
    | (true, some p) => (do let _ ← stDefine E .length ⟨some (.obj id), some p.w, some p.e, some p.c⟩ throw; pure ()) s
    | (true, none) => (do let _ ← stDefine E .length ⟨some (.obj id), some true, some true, some true⟩ throw; pure ()) s
  | _, _, _ => liftObj (objectPut E k v throw) s

end OttoVerif.C08
