/-
  C05/StrKind — operators on STRING operands in both internal representations.

  A string Value holds either a Go string (UTF-8; every literal, and every result of utf16Value that
  has no unpaired surrogate) or the UTF-16 code units themselves (`[]uint16`: every String.fromCharCode
  result, and any string with an unpaired surrogate).  ES5 knows one thing only: the sequence of code
  units (§8.4).  Model = what otto's code does with each payload; spec = functions of the unit sequence.

  MODEL: value_string.go Value.string (l.48: `[]uint16` → string(utf16.Decode(…))), value_boolean.go
  Value.bool (l.30–34), value_number.go Value.float64 (l.96–100), value.go strictEqualityComparison
  (l.597 `x.string() == y.string()`), evaluate.go calculateComparison (l.308, same) and calculateLessThan
  (lessThanUTF16 on the two `.string()`s), calculateBinaryExpression PLUS (l.64–77: code units are joined
  when an operand is held as units), builtin_string.go utf16Value (l.476), object property names
  (`memberValue.string()`, `leftValue.string()` for `in`).
  SPEC: §11.9.3/11.9.6 (same sequence of code units), §11.8.5 step 4, §11.6.1 step 7 (concatenation),
  §9.2 (ToBoolean: empty ↔ false), §9.3.1, §8.12 (property names are strings).
-/
import OttoVerif.C05.Spec
import OttoVerif.C09.Model
namespace OttoVerif.C05.StrKind
open OttoVerif.C05 OttoVerif.Str

/-- a primitive string Value: its code units, and whether the payload is `[]uint16` (else a Go string
    holding the UTF-8 form of the same text) -/
structure SV where
  units : List Nat
  rep16 : Bool
deriving DecidableEq, Repr, Inhabited

/-- a Go string payload exists only for text without unpaired surrogates (utf16Value, literals) -/
def SV.WF (x : SV) : Prop :=
  (∀ u ∈ x.units, u < 0x10000) ∧ (x.rep16 = false → OttoVerif.C09.wellPaired x.units = true)

/-- Value.string() (value_string.go:48): the Go string; for `[]uint16` string(utf16.Decode(units)) -/
def SV.string (x : SV) : List Nat := bytesOfUnits x.units

/-- the units calculateBinaryExpression joins: the payload itself, or utf16.Encode([]rune(v.string())) -/
def SV.joinUnits (x : SV) : List Nat := if x.rep16 then x.units else unitsOfBytes x.string

/-- utf16Value (builtin_string.go:476) -/
def utf16Value (us : List Nat) : SV :=
  if OttoVerif.C09.wellPaired us then ⟨unitsOfBytes (bytesOfUnits us), false⟩ else ⟨us, true⟩

/-- `===` / `==` on two strings: x.string() == y.string() -/
def eqM (x y : SV) : Bool := x.string == y.string
/-- `<` on two strings -/
def ltM (x y : SV) : Bool := lessThanUTF16 x.string y.string
/-- `+` on two strings (evaluate.go:64–77) -/
def catM (x y : SV) : SV :=
  if x.rep16 || y.rep16 then utf16Value (x.joinUnits ++ y.joinUnits)
  else ⟨unitsOfBytes (x.string ++ y.string), false⟩
/-- Value.bool: `len(value) != 0` on the Go string, `len(utf16.Decode(value)) != 0` on units -/
def boolM (x : SV) : Bool := if x.rep16 then (utf16Decode x.units).length != 0 else x.string.length != 0
/-- Value.float64: parseNumber of the Go string form -/
def numM (E : Env) (x : SV) : OttoVerif.F64.FV := E.pn x.string
/-- two strings name the same property iff their Go string forms are equal -/
def keyM (x y : SV) : Bool := x.string == y.string

/-- the [[PrimitiveValue]] a String object gets: newStringObject(value.string()) (type_string.go:75) – the Go
    string form, so ToPrimitive of `new String(s)` hands back a Go-string Value -/
def objM (x : SV) : SV := ⟨unitsOfBytes x.string, false⟩

def cmpM (c : Cmp) (x y : SV) : Bool :=
  match c with
  | .lt => ltM x y
  | .gt => ltM y x
  | .le => !ltM y x
  | .ge => !ltM x y
  | .eq | .seq => eqM x y
  | .ne | .sne => !eqM x y

namespace Spec
def eqS (x y : SV) : Bool := x.units == y.units                       -- §11.9.6 step 4 / §11.9.3 1.d
def ltS (x y : SV) : Bool := strLt x.units y.units                    -- §11.8.5 step 4
def catS (x y : SV) : List Nat := x.units ++ y.units                  -- §11.6.1 step 7
def boolS (x : SV) : Bool := !x.units.isEmpty                         -- §9.2
def numS (E : Env) (x : SV) : OttoVerif.F64.FV := E.pn (bytesOfUnits x.units)   -- §9.3.1 on the text
def keyS (x y : SV) : Bool := x.units == y.units
def cmpS (c : Cmp) (x y : SV) : Bool :=
  match c with
  | .lt => ltS x y
  | .gt => ltS y x
  | .le => !ltS y x
  | .ge => !ltS x y
  | .eq | .seq => eqS x y
  | .ne | .sne => !eqS x y
end Spec

/-- region `lone_surrogate_operand` (root: C09 `lone_surrogate` – Value.string() turns an unpaired surrogate
    into U+FFFD): comparisons and property names of strings holding one -/
def hasLone (x : SV) : Bool := !OttoVerif.C09.wellPaired x.units

end OttoVerif.C05.StrKind
