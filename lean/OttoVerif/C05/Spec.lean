/-
  C05/Spec — ES5 §9.2–9.7, §11.5–11.10, §9.12 written from the standard over the same value
  universe.  ToNumber on strings is the parameter `pn` (its conformance is C06's subject).
-/
import OttoVerif.C05.Model
namespace OttoVerif.C05.Spec
open OttoVerif.F64 OttoVerif.C05

/-- §9.3 ToNumber -/
def toNumber (E : Env) : Val → FV
  | .undef => .nan
  | .null => zero
  | .bool b => if b then one else zero
  | .int _ i => ofInt i              -- the number value the Go integer denotes
  | .f64 x => x
  | .str s => E.pn s

/-- §9.2 ToBoolean -/
def toBoolean : Val → Bool
  | .undef => false | .null => false
  | .bool b => b
  | .int _ i => !(i = 0)
  | .f64 x => !(isNaN x || isZero x)
  | .str s => !s.isEmpty

/-- sign(x)·floor(|x|) for finite x, as an integer -/
def signFloorAbs (x : FV) : Int := truncInt x

/-- §9.5 ToInt32 -/
def toInt32 (E : Env) (v : Val) : Int :=
  let n := toNumber E v
  if isNaN n || isInf n || isZero n then 0 else
  let posInt := signFloorAbs n
  let int32bit := posInt % (2^32 : Int)
  if int32bit ≥ (2^31 : Int) then int32bit - (2^32 : Int) else int32bit

/-- §9.6 ToUint32 -/
def toUint32 (E : Env) (v : Val) : Int :=
  let n := toNumber E v
  if isNaN n || isInf n || isZero n then 0 else (signFloorAbs n) % (2^32 : Int)

/-- §9.7 ToUint16 -/
def toUint16 (E : Env) (v : Val) : Int :=
  let n := toNumber E v
  if isNaN n || isInf n || isZero n then 0 else (signFloorAbs n) % (2^16 : Int)

/-- §9.4 ToInteger -/
def toInteger (E : Env) (v : Val) : FV :=
  let n := toNumber E v
  match n with
  | .nan => zero
  | .inf s => .inf s
  | .fin s m e => trunc (.fin s m e)

/-- §11.5.2 division = IEEE 754 division -/
def divide (l r : FV) : FV := div l r

/-- code-unit order on Go strings: what ES5 §11.8.5 step 4 compares -/
def unitLt (a b : List Nat) : Bool := strLt (OttoVerif.Str.unitsOfBytes a) (OttoVerif.Str.unitsOfBytes b)

/-- §11.8.5 abstract relational comparison on primitives; strings compare by code units (`cmpStr` = `unitLt`). -/
def lessThan (E : Env) (cmpStr : List Nat → List Nat → Bool) (x y : Val) : Tri :=
  match x, y with
  | .str a, .str b => if cmpStr a b then .t else .f
  | _, _ =>
    let nx := toNumber E x
    let ny := toNumber E y
    match cmpReal nx ny with
    | none => .u
    | some .lt => .t
    | some _ => .f

def isNum : Val → Bool | .int .. => true | .f64 _ => true | _ => false
def isStr : Val → Bool | .str _ => true | _ => false
def isBool : Val → Bool | .bool _ => true | _ => false
def isNullish : Val → Bool | .undef => true | .null => true | _ => false

/-- §11.9.6 strict equality on primitives (numbers by value: NaN ≠ NaN, +0 = −0) -/
def strictEq (E : Env) (x y : Val) : Bool :=
  match x, y with
  | .undef, .undef => true
  | .null, .null => true
  | .bool a, .bool b => a == b
  | .str a, .str b => a == b
  | _, _ => if isNum x ∧ isNum y then eqNum (toNumber E x) (toNumber E y) else false

/-- §11.9.3 abstract equality on primitives (steps 1–7, 10) -/
def looseEq (E : Env) : Nat → Val → Val → Bool
  | 0, _, _ => false
  | n+1, x, y =>
    if x.kind = y.kind then strictEq E x y                     -- step 1
    else if isNullish x ∧ isNullish y then true                 -- 2,3
    else if isNum x ∧ isStr y then looseEq E n x (.f64 (toNumber E y))   -- 4
    else if isStr x ∧ isNum y then looseEq E n (.f64 (toNumber E x)) y   -- 5
    else if isBool x then looseEq E n (.f64 (toNumber E x)) y   -- 6
    else if isBool y then looseEq E n x (.f64 (toNumber E y))   -- 7
    else false                                                  -- 10

def compare (E : Env) (cmpStr : List Nat → List Nat → Bool) (c : Cmp) (x y : Val) : Bool :=
  match c with
  | .lt => lessThan E cmpStr x y = .t                 -- §11.8.1
  | .gt => lessThan E cmpStr y x = .t                 -- §11.8.2
  | .le => lessThan E cmpStr y x = .f                 -- §11.8.3 (true or undefined → false)
  | .ge => lessThan E cmpStr x y = .f                 -- §11.8.4
  | .seq => strictEq E x y
  | .sne => !strictEq E x y
  | .eq => looseEq E 4 x y
  | .ne => !looseEq E 4 x y

/-- §9.12 SameValue on primitives -/
def sameValue (E : Env) (x y : Val) : Bool :=
  match x, y with
  | .undef, .undef => true
  | .null, .null => true
  | .bool a, .bool b => a = b
  | .str a, .str b => a = b
  | _, _ =>
    if isNum x ∧ isNum y then
      let nx := toNumber E x
      let ny := toNumber E y
      if isNaN nx ∧ isNaN ny then true
      else if isZero nx ∧ isZero ny then signBit nx = signBit ny
      else cmpReal nx ny = some .eq
    else false

/-- two's-complement reading of a 32-bit pattern -/
def s32 (u : Nat) : Int := if u ≥ 2^31 then (u : Int) - (2^32 : Int) else (u : Int)

/-- §11.5–11.7, §11.10 on non-string primitives.  Result is a Number; int-kinded here when the
    standard's result is an Int32/Uint32 so both sides print alike. -/
def binNum (E : Env) (op : BinOp) (x y : Val) : Val :=
  let a := toNumber E x
  let b := toNumber E y
  match op with
  | .add => .f64 (add a b)
  | .sub => .f64 (sub a b)
  | .mul => .f64 (mul a b)
  | .div => .f64 (div a b)
  | .rem => .f64 (fmod a b)
  | .band => .int .i32 (s32 ((toUint32 E x).toNat &&& (toUint32 E y).toNat))
  | .bor => .int .i32 (s32 ((toUint32 E x).toNat ||| (toUint32 E y).toNat))
  | .bxor => .int .i32 (s32 ((toUint32 E x).toNat ^^^ (toUint32 E y).toNat))
  | .shl => .int .i32 (s32 (((toUint32 E x).toNat * 2 ^ ((toUint32 E y).toNat % 32)) % 2^32))
  | .shr => .int .i32 (toInt32 E x / (2 ^ ((toUint32 E y).toNat % 32) : Int))
  | .ushr => .int .u32 ((toUint32 E x) / (2 ^ ((toUint32 E y).toNat % 32) : Int))

end OttoVerif.C05.Spec
