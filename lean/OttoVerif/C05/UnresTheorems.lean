/-
  C05/UnresTheorems — ledger, part 5: operators outside the Ops2 language on an unresolvable identifier.
-/
import OttoVerif.C05.Unres
namespace OttoVerif.C05.UnresThm
open OttoVerif.C05.Unres

/-- every form, every step: otto's order is ES5's -/
theorem model_eq_spec (f : Form) : model f = spec f := by cases f <;> rfl

theorem outcome_eq (f : Form) : outcomeM f = outcomeS f := by simp only [outcomeM, outcomeS, model_eq_spec]

/-- only `typeof`, `delete` and the left side of `=` tolerate an unresolvable identifier -/
theorem throws_unless_tolerant (f : Form) (h : f ≠ .typeofN ∧ f ≠ .deleteN ∧ f ≠ .assignN) :
    (outcomeS f).result = "throw:ReferenceError" ∧ (outcomeS f).global = false := by
  obtain ⟨h1, h2, h3⟩ := h
  cases f <;> first | exact absurd rfl h1 | exact absurd rfl h2 | exact absurd rfl h3 | decide

/-- nothing to the right of the failing GetValue runs (the log never holds "Z" on an error) -/
theorem nothing_after_error (f : Form) (h : (outcomeS f).result = "throw:ReferenceError") : "Z" ∉ (outcomeS f).log := by
  cases f <;> first | decide | (exfalso; revert h; decide)

example : outcomeS .assignN = ⟨two, ["Z"], true⟩ := by decide

end OttoVerif.C05.UnresThm
