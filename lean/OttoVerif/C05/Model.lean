/-
  C05/Model — transcription of otto's conversion and comparison code.
  value_number.go: Value.float64 (l.46), toIntegerFloat (l.117), toInt32 (l.208), toUint32 (l.228),
  toUint16 (l.252); value.go: sameValue (l.534), strictEqualityComparison (l.568);
  evaluate.go: evaluateDivide (l.17), calculateBinaryExpression (l.53), calculateLessThan (l.146),
  lessThanUTF16 (l.178), calculateComparison (l.227); value_boolean.go: Value.bool (l.10).
  Strings enter only through the parameter `pn` (= parseNumber, modelled in C06).
-/
import OttoVerif.Base.F64
import OttoVerif.Base.Str
namespace OttoVerif.C05
open OttoVerif.F64

/-- Go numeric kinds a number Value may carry (value.go toValue keeps the Go kind). -/
inductive NK | i8 | i16 | i32 | i64 | int | u8 | u16 | u32 | u64 | uint
deriving DecidableEq, Repr, Inhabited

inductive Val where
  | undef | null
  | bool (b : Bool)
  | int (k : NK) (i : Int)        -- an integer-kinded number Value
  | f64 (x : FV)                  -- a float64-kinded number Value
  | str (bytes : List Nat)        -- Go string (UTF-8 bytes)
deriving DecidableEq, Repr, Inhabited

/-- value kinds in otto's order (value_kind.gen.go): Undefined<Null<Number<String<Boolean<Object -/
def Val.kind : Val → Nat
  | .undef => 0 | .null => 1 | .int .. => 2 | .f64 _ => 2 | .str _ => 3 | .bool _ => 4

structure Env where
  pn : List Nat → FV            -- parseNumber (value_number.go:14)

/-- Value.float64 -/
def toFloat (E : Env) : Val → FV
  | .undef => .nan
  | .null => zero
  | .bool b => if b then one else zero
  | .int _ i => ofInt i
  | .f64 x => x
  | .str s => E.pn s

/-- Go (amd64) `int64(f)` for float64 f: truncation in range, else 0x8000000000000000. -/
def goInt64 (x : FV) : Int :=
  match x with
  | .fin .. => let t := truncInt x; if -(2^63 : Int) ≤ t ∧ t < 2^63 then t else -(2^63 : Int)
  | _ => -(2^63 : Int)

/-- Go integer conversion to an unsigned width: keep low bits -/
def wrapU (bits : Nat) (i : Int) : Int := i % (2^bits : Int)
/-- Go integer conversion to a signed width: two's complement -/
def wrapS (bits : Nat) (i : Int) : Int :=
  let u := i % (2^bits : Int)
  if u ≥ (2^(bits-1) : Int) then u - (2^bits : Int) else u

def degenerate (x : FV) : Bool := isNaN x || isInf x || isZero x

/-- Go `math.Mod(x, 4294967296)` for finite non-zero x: sign of x, exact (no rounding: the
    remainder has no more significant bits than its operands); kept un-normalised. -/
def mod2p32 : FV → FV
  | .fin s m e =>
    if e ≥ 0 then .fin s ((m * 2 ^ e.toNat) % 2 ^ 32) 0
    else .fin s (m % (2 ^ 32 * 2 ^ (-e).toNat)) e
  | x => x

/-- toInt64Modulo32 (value_number.go): int64(math.Mod(value, 2^32)) -/
def toInt64Modulo32 (x : FV) : Int := goInt64 (mod2p32 x)

/-- toInt32 (value_number.go:208) -/
def toInt32 (E : Env) (v : Val) : Int :=
  match v with
  | .int .i8 i => wrapS 32 i
  | .int .i16 i => wrapS 32 i
  | .int .i32 i => i
  | _ =>
    let f := toFloat E v
    if degenerate f then 0 else wrapS 32 (toInt64Modulo32 f)

/-- toUint32 (value_number.go:228) -/
def toUint32 (E : Env) (v : Val) : Int :=
  match v with
  | .int .i8 i => wrapU 32 i
  | .int .i16 i => wrapU 32 i
  | .int .u8 i => wrapU 32 i
  | .int .u16 i => wrapU 32 i
  | .int .u32 i => i
  | _ =>
    let f := toFloat E v
    if degenerate f then 0 else wrapU 32 (toInt64Modulo32 f)

/-- toUint16 (value_number.go:252) -/
def toUint16 (E : Env) (v : Val) : Int :=
  match v with
  | .int .i8 i => wrapU 16 i
  | .int .u8 i => wrapU 16 i
  | .int .u16 i => i
  | _ =>
    let f := toFloat E v
    if degenerate f then 0 else wrapU 16 (toInt64Modulo32 f)

/-- toIntegerFloat (value_number.go:117) -/
def toIntegerFloat (E : Env) (v : Val) : FV :=
  let f := toFloat E v
  if isInf f then f
  else if isNaN f then zero
  else if lt zero f then floor f
  else ceil f

/-- Value.bool (value_boolean.go:10) -/
def toBool : Val → Bool
  | .undef => false | .null => false
  | .bool b => b
  | .int _ i => i != 0
  | .f64 x => !(isNaN x || isZero x)
  | .str s => s.length != 0

/-- evaluateDivide (evaluate.go:16) -/
def evaluateDivide (l r : FV) : FV :=
  if isNaN l || isNaN r then .nan
  else if isInf l && isInf r then .nan
  else if isZero l && isZero r then .nan
  else if isInf l then (if signBit l = signBit r then .inf false else .inf true)
  else if isInf r then (if signBit l = signBit r then zero else negZero)
  else if isZero r then (if signBit l = signBit r then .inf false else .inf true)
  else div l r

inductive Tri | f | t | u deriving DecidableEq, Repr

def strLt : List Nat → List Nat → Bool
  | [], [] => false
  | [], _ :: _ => true
  | _ :: _, [] => false
  | a :: as, b :: bs => if a < b then true else if a > b then false else strLt as bs

/-- the comparison of two differing runes in lessThanUTF16 (evaluate.go:182–190): a rune outside the BMP is a
    surrogate pair whose first unit lies in 0xD800–0xDBFF -/
def cmpRune (rx ry : Nat) : Bool :=
  if (decide (rx ≥ 0x10000)) != (decide (ry ≥ 0x10000)) then
    (if rx ≥ 0x10000 then decide (ry ≥ 0xE000) else decide (rx < 0xD800))
  else decide (rx < ry)

/-- the loop of lessThanUTF16 over the two rune sequences in lockstep (utf8.DecodeRuneInString, advance);
    `len(x) < len(y)` at the exit: the shorter sequence is smaller -/
def runeLess : List Nat → List Nat → Bool
  | [], [] => false
  | [], _ :: _ => true
  | _ :: _, [] => false
  | rx :: xs, ry :: ys => if rx ≠ ry then cmpRune rx ry else runeLess xs ys

/-- lessThanUTF16 (evaluate.go:178) on Go strings (UTF-8 bytes; `Str.decodeRunes` = stepping with DecodeRune) -/
def lessThanUTF16 (a b : List Nat) : Bool := runeLess (OttoVerif.Str.decodeRunes a) (OttoVerif.Str.decodeRunes b)

/-- calculateLessThan (evaluate.go:146) on primitives (ToPrimitive is the identity there). -/
def calculateLessThan (E : Env) (x y : Val) : Tri :=
  match x, y with
  | .str a, .str b => if lessThanUTF16 a b then .t else .f
  | _, _ =>
    let fx := toFloat E x
    let fy := toFloat E y
    if isNaN fx || isNaN fy then .u else if lt fx fy then .t else .f

inductive Cmp | lt | gt | le | ge | eq | ne | seq | sne deriving DecidableEq, Repr

/-- same-kind comparison tail of calculateComparison -/
def kindEqual (E : Env) (x y : Val) : Bool :=
  match x, y with
  | .undef, _ => true
  | .null, _ => true
  | .str a, .str b => a == b
  | .bool a, .bool b => a == b
  | _, _ =>
    let fx := toFloat E x
    let fy := toFloat E y
    if isNaN fx || isNaN fy then false else eqNum fx fy

/-- the EQUAL arm (evaluate.go:243); `fuel` bounds the two re-entries (boolean→number). -/
def looseEq (E : Env) : Nat → Val → Val → Bool
  | 0, _, _ => false
  | n+1, x, y =>
    if x.kind = y.kind then kindEqual E x y
    else if x.kind ≤ 1 ∧ y.kind ≤ 1 then true
    else if x.kind ≤ 1 ∨ y.kind ≤ 1 then false
    else if x.kind ≤ 3 ∧ y.kind ≤ 3 then eqNum (toFloat E x) (toFloat E y)
    else if x.kind = 4 then looseEq E n (.f64 (toFloat E x)) y
    else if y.kind = 4 then looseEq E n x (.f64 (toFloat E y))
    else false

def calculateComparison (E : Env) (c : Cmp) (x y : Val) : Bool :=
  match c with
  | .lt => match calculateLessThan E x y with | .t => true | _ => false
  | .gt => match calculateLessThan E y x with | .t => true | _ => false
  | .le => match calculateLessThan E y x with | .f => true | _ => false
  | .ge => match calculateLessThan E x y with | .f => true | _ => false
  | .seq => if x.kind = y.kind then kindEqual E x y else false
  | .sne => !(if x.kind = y.kind then kindEqual E x y else false)
  | .eq => looseEq E 3 x y
  | .ne => !(looseEq E 3 x y)

/-- sameValue (value.go:534) -/
def sameValue (E : Env) (x y : Val) : Bool :=
  if x.kind ≠ y.kind then false else
  match x, y with
  | .undef, _ => true
  | .null, _ => true
  | .str a, .str b => a == b
  | .bool a, .bool b => a == b
  | _, _ =>
    let fx := toFloat E x
    let fy := toFloat E y
    if isNaN fx && isNaN fy then true
    else if eqNum fx fy then (if isZero fx then signBit fx == signBit fy else true)
    else false

inductive BinOp | add | sub | mul | div | rem | band | bor | bxor | shl | shr | ushr
deriving DecidableEq, Repr

def natAnd (a b : Nat) : Nat := a &&& b
def toU32 (i : Int) : Nat := (wrapU 32 i).toNat

/-- numeric arms of calculateBinaryExpression (evaluate.go:52) for non-string primitives.
    (`+` with a string operand concatenates; that arm lives in C06/C09.) -/
def binNum (E : Env) (op : BinOp) (x y : Val) : Val :=
  match op with
  | .add => .f64 (add (toFloat E x) (toFloat E y))
  | .sub => .f64 (sub (toFloat E x) (toFloat E y))
  | .mul => .f64 (mul (toFloat E x) (toFloat E y))
  | .div => .f64 (evaluateDivide (toFloat E x) (toFloat E y))
  | .rem => .f64 (fmod (toFloat E x) (toFloat E y))
  | .band => .int .i32 (wrapS 32 ((toU32 (toInt32 E x) &&& toU32 (toInt32 E y) : Nat) : Int))
  | .bor => .int .i32 (wrapS 32 ((toU32 (toInt32 E x) ||| toU32 (toInt32 E y) : Nat) : Int))
  | .bxor => .int .i32 (wrapS 32 ((toU32 (toInt32 E x) ^^^ toU32 (toInt32 E y) : Nat) : Int))
  | .shl => .int .i32 (wrapS 32 (toInt32 E x * (2 ^ ((toUint32 E y).toNat % 32) : Int)))
  | .shr => .int .i32 (toInt32 E x / (2 ^ ((toUint32 E y).toNat % 32) : Int))   -- Int.div floors = arithmetic shift
  | .ushr => .int .u32 ((toUint32 E x) / (2 ^ ((toUint32 E y).toNat % 32) : Int))

end OttoVerif.C05
