/-
  C05/Theorems — the ledger for property C05.  Every `theorem` in this file is audited
  (`#print axioms` ⊆ {propext, Classical.choice, Quot.sound}) on every run.
-/
import OttoVerif.C05.Spec
namespace OttoVerif.C05.Thm
open OttoVerif.F64 OttoVerif.C05

/-- the region where Go's float→int64 conversion is exact truncation -/
def InRange (x : FV) : Prop := -(2^63 : Int) ≤ truncInt x ∧ truncInt x < 2^63

theorem toNumber_eq (E : Env) (v : Val) : toFloat E v = Spec.toNumber E v := by
  cases v <;> rfl

theorem toBoolean_eq (v : Val) : toBool v = Spec.toBoolean v := by
  cases v with
  | str s => cases s <;> simp [toBool, Spec.toBoolean]
  | _ => simp [toBool, Spec.toBoolean, bne, BEq.beq]

theorem goInt64_inrange (x : FV) (hd : degenerate x = false) (h : InRange x) : goInt64 x = truncInt x := by
  cases x with
  | nan => simp [degenerate, isNaN] at hd
  | inf s => simp [degenerate, isNaN, isInf] at hd
  | fin s m e => unfold InRange at h; simp only [goInt64]; split <;> omega

private theorem deg_eq (x : FV) : (isNaN x || isInf x || isZero x) = degenerate x := rfl


/-- Go's static types bound the payload of integer-kinded values. -/
def WF : Val → Prop
  | .int .i8 i => -(2^7 : Int) ≤ i ∧ i < 2^7
  | .int .i16 i => -(2^15 : Int) ≤ i ∧ i < 2^15
  | .int .i32 i => -(2^31 : Int) ≤ i ∧ i < 2^31
  | .int .u8 i => 0 ≤ i ∧ i < 2^8
  | .int .u16 i => 0 ≤ i ∧ i < 2^16
  | .int .u32 i => 0 ≤ i ∧ i < 2^32
  | .int .i64 i => -(2^63 : Int) ≤ i ∧ i < 2^63
  | .int .int i => -(2^63 : Int) ≤ i ∧ i < 2^63
  | .int .u64 i => 0 ≤ i ∧ i < 2^64
  | .int .uint i => 0 ≤ i ∧ i < 2^64
  | _ => True

theorem truncInt_ofInt_small (i : Int) (h : i.natAbs < 2^53) : truncInt (ofInt i) = i := by
  simp [ofInt, h, truncInt, truncAbs]; split <;> omega


theorem ofInt_small_deg (i : Int) (h : i.natAbs < 2^53) : degenerate (ofInt i) = decide (i = 0) := by
  simp [ofInt, h, degenerate, isNaN, isInf]
  by_cases h0 : i = 0
  · subst h0; simp [isZero]
  · have : i.natAbs ≠ 0 := by omega
    simp [h0]
    cases hn : i.natAbs with
    | zero => omega
    | succ n => simp [isZero]

theorem truncInt_mod2p32 (s : Bool) (m : Nat) (e : Int) :
    truncInt (mod2p32 (.fin s m e)) =
      (if s then -((truncAbs m e % 2^32 : Nat) : Int) else ((truncAbs m e % 2^32 : Nat) : Int)) := by
  unfold mod2p32
  by_cases he : e ≥ 0
  · simp only [he, if_true, truncInt, truncAbs]
    simp
  · simp only [he, if_false, truncInt, truncAbs]
    have : (m % (2 ^ 32 * 2 ^ (-e).toNat)) / 2 ^ (-e).toNat = m / 2 ^ (-e).toNat % 2 ^ 32 := by
      rw [Nat.mul_comm]
      exact Nat.mod_mul_right_div_self m (2 ^ (-e).toNat) (2 ^ 32)
    rw [this]

/-- the reduced value always fits int64, so Go's conversion is exact truncation -/
theorem toInt64Modulo32_eq (s : Bool) (m : Nat) (e : Int) :
    toInt64Modulo32 (.fin s m e) =
      (if s then -((truncAbs m e % 2^32 : Nat) : Int) else ((truncAbs m e % 2^32 : Nat) : Int)) := by
  have h := truncInt_mod2p32 s m e
  have hlt : truncAbs m e % 2^32 < 2^32 := Nat.mod_lt _ (by decide)
  unfold toInt64Modulo32 goInt64
  have hfin : ∃ s' m' e', mod2p32 (.fin s m e) = .fin s' m' e' := by
    by_cases he : e ≥ 0
    · exact ⟨s, (m * 2 ^ e.toNat) % 2 ^ 32, 0, by simp only [mod2p32, he, if_true]⟩
    · exact ⟨s, m % (2 ^ 32 * 2 ^ (-e).toNat), e, by simp only [mod2p32, he, if_false]⟩
  obtain ⟨s', m', e', hf⟩ := hfin
  rw [hf] at h ⊢
  simp only
  rw [h]
  cases s <;> simp <;> omega

private theorem slow32 (f : FV) :
    (if degenerate f then (0:Int) else wrapS 32 (toInt64Modulo32 f)) =
    (if isNaN f || isInf f || isZero f then (0:Int) else
      (if truncInt f % (2^32 : Int) ≥ (2^31 : Int) then truncInt f % (2^32 : Int) - (2^32 : Int) else truncInt f % (2^32 : Int))) := by
  rw [deg_eq]
  cases hd : degenerate f with
  | true => simp
  | false =>
    cases f with
    | nan => simp [degenerate, isNaN] at hd
    | inf s => simp [degenerate, isNaN, isInf] at hd
    | fin s m e =>
      simp only [Bool.false_eq_true, if_false, toInt64Modulo32_eq, wrapS, truncInt]
      cases s <;> simp <;> omega

/-- ToInt32 (§9.5): model = spec for EVERY value (since fix 919cc4b reduces modulo 2^32 before the
    int64 conversion, the former hypothesis |x| < 2^63 is gone). -/
theorem toInt32_eq (E : Env) (v : Val) (hwf : WF v) : toInt32 E v = Spec.toInt32 E v := by
  have fast : ∀ k i, i.natAbs < 2^53 → -(2^31 : Int) ≤ i → i < 2^31 → wrapS 32 i = Spec.toInt32 E (.int k i) := by
    intro k i h1 h2 h3
    simp only [Spec.toInt32, Spec.toNumber, Spec.signFloorAbs, deg_eq, ofInt_small_deg i h1, truncInt_ofInt_small i h1, wrapS]
    by_cases h0 : i = 0
    · subst h0; simp
    · simp [h0]
  cases v with
  | int k i =>
    cases k <;> simp only [toInt32] <;>
      first
        | (simp only [WF] at hwf; first | exact fast _ i (by omega) (by omega) (by omega) | (rw [← fast _ i (by omega) (by omega) (by omega)]; simp [wrapS]; omega))
        | exact slow32 (toFloat E (.int _ i))
  | undef => exact slow32 (toFloat E .undef)
  | null => exact slow32 (toFloat E .null)
  | bool b => exact slow32 (toFloat E (.bool b))
  | f64 x => exact slow32 (toFloat E (.f64 x))
  | str t => exact slow32 (toFloat E (.str t))

private theorem slowU (bits : Nat) (hb : bits = 32 ∨ bits = 16) (f : FV) :
    (if degenerate f then (0:Int) else wrapU bits (toInt64Modulo32 f)) =
    (if isNaN f || isInf f || isZero f then (0:Int) else truncInt f % (2^bits : Int)) := by
  rw [deg_eq]
  cases hd : degenerate f with
  | true => simp
  | false =>
    cases f with
    | nan => simp [degenerate, isNaN] at hd
    | inf s => simp [degenerate, isNaN, isInf] at hd
    | fin s m e =>
      simp only [Bool.false_eq_true, if_false, toInt64Modulo32_eq, wrapU, truncInt]
      rcases hb with hb | hb <;> subst hb <;> cases s <;> simp <;> omega

/-- ToUint32 (§9.6) for every value -/
theorem toUint32_eq (E : Env) (v : Val) (hwf : WF v) : toUint32 E v = Spec.toUint32 E v := by
  have fast : ∀ k i, i.natAbs < 2^53 → wrapU 32 i = Spec.toUint32 E (.int k i) := by
    intro k i h1
    simp only [Spec.toUint32, Spec.toNumber, Spec.signFloorAbs, deg_eq, ofInt_small_deg i h1, truncInt_ofInt_small i h1, wrapU]
    by_cases h0 : i = 0
    · subst h0; simp
    · simp [h0]
  cases v with
  | int k i =>
    cases k <;> simp only [toUint32] <;>
      first
        | (simp only [WF] at hwf; first | exact fast _ i (by omega) | (rw [← fast _ i (by omega)]; simp [wrapU]; omega))
        | exact slowU 32 (Or.inl rfl) (toFloat E (.int _ i))
  | undef => exact slowU 32 (Or.inl rfl) (toFloat E .undef)
  | null => exact slowU 32 (Or.inl rfl) (toFloat E .null)
  | bool b => exact slowU 32 (Or.inl rfl) (toFloat E (.bool b))
  | f64 x => exact slowU 32 (Or.inl rfl) (toFloat E (.f64 x))
  | str t => exact slowU 32 (Or.inl rfl) (toFloat E (.str t))

/-- ToUint16 (§9.7) for every value -/
theorem toUint16_eq (E : Env) (v : Val) (hwf : WF v) : toUint16 E v = Spec.toUint16 E v := by
  have fast : ∀ k i, i.natAbs < 2^53 → wrapU 16 i = Spec.toUint16 E (.int k i) := by
    intro k i h1
    simp only [Spec.toUint16, Spec.toNumber, Spec.signFloorAbs, deg_eq, ofInt_small_deg i h1, truncInt_ofInt_small i h1, wrapU]
    by_cases h0 : i = 0
    · subst h0; simp
    · simp [h0]
  cases v with
  | int k i =>
    cases k <;> simp only [toUint16] <;>
      first
        | (simp only [WF] at hwf; first | exact fast _ i (by omega) | (rw [← fast _ i (by omega)]; simp [wrapU]; omega))
        | exact slowU 16 (Or.inr rfl) (toFloat E (.int _ i))
  | undef => exact slowU 16 (Or.inr rfl) (toFloat E .undef)
  | null => exact slowU 16 (Or.inr rfl) (toFloat E .null)
  | bool b => exact slowU 16 (Or.inr rfl) (toFloat E (.bool b))
  | f64 x => exact slowU 16 (Or.inr rfl) (toFloat E (.f64 x))
  | str t => exact slowU 16 (Or.inr rfl) (toFloat E (.str t))

/-- non-vacuity: the witness of the repaired defect, (2^63+2048)|0 = 2048 on both sides -/
example : toInt32 ⟨fun _ => .nan⟩ (.f64 (.fin false (2^52+1) 11)) = 2048 := by decide

theorem cmpReal_nan_l (y : FV) : cmpReal .nan y = none := by cases y <;> rfl
theorem cmpReal_nan_r (x : FV) : cmpReal x .nan = none := by cases x <;> rfl

theorem eqNum_guard (x y : FV) : (if isNaN x || isNaN y then false else eqNum x y) = eqNum x y := by
  cases x <;> cases y <;> simp [isNaN, eqNum, cmpReal]

theorem evaluateDivide_eq (l r : FV) : evaluateDivide l r = Spec.divide l r := by
  cases l with
  | nan => cases r <;> simp [evaluateDivide, Spec.divide, div, isNaN]
  | inf s =>
    cases r with
    | nan => simp [evaluateDivide, Spec.divide, div, isNaN]
    | inf t => simp [evaluateDivide, Spec.divide, div, isNaN, isInf]
    | fin t m e =>
      cases s <;> cases t <;> simp [evaluateDivide, Spec.divide, div, isNaN, isInf, isZero, signBit] <;>
        (cases m <;> simp [isZero])
  | fin s m e =>
    cases r with
    | nan => simp [evaluateDivide, Spec.divide, div, isNaN]
    | inf t => cases s <;> cases t <;> simp [evaluateDivide, Spec.divide, div, isNaN, isInf, isZero, signBit, zero, negZero] <;> (cases m <;> simp [isZero])
    | fin t m2 e2 =>
      cases m2 with
      | zero =>
        cases m with
        | zero => simp [evaluateDivide, Spec.divide, div, isNaN, isInf, isZero]
        | succ k => cases s <;> cases t <;> simp [evaluateDivide, Spec.divide, div, isNaN, isInf, isZero, signBit]
      | succ k2 =>
        simp [evaluateDivide, Spec.divide, isNaN, isInf, isZero]

theorem eqNum_true_not_nan (x y : FV) (h : eqNum x y = true) : isNaN x = false ∧ isNaN y = false := by
  cases x <;> cases y <;> simp_all [eqNum, cmpReal, isNaN]

theorem kindEqual_eq_strict (E : Env) (x y : Val) (h : x.kind = y.kind) :
    kindEqual E x y = Spec.strictEq E x y := by
  cases x <;> cases y <;> simp [Val.kind] at h <;>
    first
      | rfl
      | (simp only [kindEqual, Spec.strictEq, Spec.isNum, toFloat, Spec.toNumber]; simp; exact eqNum_true_not_nan _ _)

theorem lt_guard (x y : FV) :
    (if isNaN x || isNaN y then Tri.u else if lt x y then Tri.t else Tri.f) =
      (match cmpReal x y with | none => Tri.u | some Ordering.lt => Tri.t | some _ => Tri.f) := by
  cases x <;> cases y <;> simp [isNaN, cmpReal, lt] <;> (repeat' split) <;> simp_all

/-! ### string order: lessThanUTF16 = comparison of UTF-16 code units, for ALL byte strings -/
section StrOrder
open OttoVerif.Str

def ScalarRune (r : Nat) : Prop := r < 0x110000 ∧ ¬ (0xD800 ≤ r ∧ r ≤ 0xDFFF)

def encUnits (r : Nat) : List Nat :=
    if (0xD800 ≤ r ∧ r ≤ 0xDFFF) ∨ r > 0x10FFFF then [runeError]
    else if r < 0x10000 then [r]
    else let r' := r - 0x10000; [0xD800 + r' / 1024, 0xDC00 + r' % 1024]

theorem utf16Encode_cons (r : Nat) (t : List Nat) : utf16Encode (r :: t) = encUnits r ++ utf16Encode t := by
  simp [utf16Encode, encUnits, List.flatMap_cons]

theorem strLt_append_same (p a b : List Nat) : strLt (p ++ a) (p ++ b) = strLt a b := by
  induction p with
  | nil => rfl
  | cons x p ih => simp [strLt, ih]

theorem encUnits_ne_nil (r : Nat) : encUnits r ≠ [] := by
  simp only [encUnits]; split <;> try split
  all_goals simp

theorem runeLess_eq (l1 l2 : List Nat) (h1 : ∀ r ∈ l1, ScalarRune r) (h2 : ∀ r ∈ l2, ScalarRune r) :
    runeLess l1 l2 = strLt (utf16Encode l1) (utf16Encode l2) := by
  induction l1 generalizing l2 with
  | nil =>
    cases l2 with
    | nil => rfl
    | cons r t =>
      rw [utf16Encode_cons]
      cases he : encUnits r with
      | nil => exact absurd he (encUnits_ne_nil r)
      | cons u us => simp [runeLess, utf16Encode, strLt]
  | cons r1 t1 ih =>
    cases l2 with
    | nil =>
      rw [utf16Encode_cons]
      cases he : encUnits r1 with
      | nil => exact absurd he (encUnits_ne_nil r1)
      | cons u us => simp [runeLess, utf16Encode, strLt]
    | cons r2 t2 =>
      have s1 := h1 r1 (List.mem_cons_self ..)
      have s2 := h2 r2 (List.mem_cons_self ..)
      rw [utf16Encode_cons, utf16Encode_cons]
      by_cases hr : r1 = r2
      · subst hr
        simp only [runeLess, ne_eq, not_true_eq_false, if_false, strLt_append_same]
        exact ih t2 (fun r hr => h1 r (List.mem_cons_of_mem _ hr)) (fun r hr => h2 r (List.mem_cons_of_mem _ hr))
      · simp only [runeLess, ne_eq, hr, not_false_eq_true, if_true]
        unfold ScalarRune at s1 s2
        have e1 : ¬ ((0xD800 ≤ r1 ∧ r1 ≤ 0xDFFF) ∨ r1 > 0x10FFFF) := by omega
        have e2 : ¬ ((0xD800 ≤ r2 ∧ r2 ≤ 0xDFFF) ∨ r2 > 0x10FFFF) := by omega
        simp only [encUnits, e1, e2, if_false, cmpRune]
        by_cases b1 : r1 < 0x10000 <;> by_cases b2 : r2 < 0x10000
        · simp only [b1, b2, if_true, List.cons_append, List.nil_append, strLt]
          have n1 : ¬ r1 ≥ 0x10000 := by omega
          have n2 : ¬ r2 ≥ 0x10000 := by omega
          simp only [n1, n2, decide_false, bne_self_eq_false, Bool.false_eq_true, if_false]
          by_cases c : r1 < r2
          · simp [c]
          · have : r1 > r2 := by omega
            simp [c, this]
        · have n1 : ¬ r1 ≥ 0x10000 := by omega
          have n2 : r2 ≥ 0x10000 := by omega
          simp only [b1, b2, n1, n2, if_true, if_false, List.cons_append, List.nil_append, strLt, decide_true, decide_false]
          simp only [show (false != true) = true from rfl, if_true]
          split
          · simp; omega
          · split
            · simp; omega
            · exfalso; omega
        · have n1 : r1 ≥ 0x10000 := by omega
          have n2 : ¬ r2 ≥ 0x10000 := by omega
          simp only [b1, b2, n1, n2, if_true, if_false, List.cons_append, List.nil_append, strLt, decide_true, decide_false]
          simp only [show (true != false) = true from rfl, if_true]
          split
          · simp; omega
          · split
            · simp; omega
            · exfalso; omega
        · have n1 : r1 ≥ 0x10000 := by omega
          have n2 : r2 ≥ 0x10000 := by omega
          simp only [b1, b2, n1, n2, if_true, if_false, List.cons_append, List.nil_append, strLt, decide_true, decide_false]
          simp only [show (true != true) = false from rfl, Bool.false_eq_true, if_false]
          split
          · simp; omega
          · split
            · simp; omega
            · split
              · simp; omega
              · split
                · simp; omega
                · exfalso; omega

theorem scalarRune_runeError : ScalarRune runeError := by unfold ScalarRune runeError; omega

theorem decodeRune_scalar (bs : List Nat) (r w : Nat) (h : decodeRune bs = some (r, w)) : ScalarRune r := by
  unfold decodeRune at h
  cases bs with
  | nil => cases h
  | cons b0 rest =>
    simp only at h
    have re := scalarRune_runeError
    unfold ScalarRune runeError at re
    unfold ScalarRune
    simp only [isCont, runeError] at h
    repeat' split at h
    all_goals (try simp only [decide_eq_true_eq] at *)
    all_goals (repeat' split at h)
    all_goals (simp only [Option.some.injEq, Prod.mk.injEq] at h; omega)

theorem decodeRunesAux_scalar (fuel : Nat) (bs : List Nat) : ∀ r ∈ decodeRunesAux fuel bs, ScalarRune r := by
  induction fuel generalizing bs with
  | zero => intro r hr; simp [decodeRunesAux] at hr
  | succ n ih =>
    intro r hr
    simp only [decodeRunesAux] at hr
    cases hd : decodeRune bs with
    | none => rw [hd] at hr; simp at hr
    | some p =>
      obtain ⟨r0, w⟩ := p
      rw [hd] at hr
      simp only [List.mem_cons] at hr
      rcases hr with rfl | hr
      · exact decodeRune_scalar bs _ w hd
      · exact ih _ r hr

theorem decodeRunes_scalar (bs : List Nat) : ∀ r ∈ decodeRunes bs, ScalarRune r := decodeRunesAux_scalar _ bs

/-- the new string order of calculateLessThan = comparison of UTF-16 code units, for ALL byte strings -/
theorem lessThanUTF16_eq (a b : List Nat) : lessThanUTF16 a b = Spec.unitLt a b :=
  runeLess_eq _ _ (decodeRunes_scalar a) (decodeRunes_scalar b)

end StrOrder

theorem lessThan_eq (E : Env) (x y : Val) : calculateLessThan E x y = Spec.lessThan E Spec.unitLt x y := by
  cases x <;> cases y <;> simp only [calculateLessThan, Spec.lessThan, toFloat, Spec.toNumber, lessThanUTF16_eq] <;>
    first | rfl | exact lt_guard _ _

theorem strictEq_diff_kind (E : Env) (x y : Val) (h : x.kind ≠ y.kind) : Spec.strictEq E x y = false := by
  cases x <;> cases y <;> simp [Val.kind] at h <;> simp [Spec.strictEq, Spec.isNum]

theorem strict_eq (E : Env) (x y : Val) :
    (if x.kind = y.kind then kindEqual E x y else false) = Spec.strictEq E x y := by
  by_cases h : x.kind = y.kind
  · simp only [h, if_true]; exact kindEqual_eq_strict E x y h
  · simp only [h, if_false]; exact (strictEq_diff_kind E x y h).symm

theorem loose_eq (E : Env) (x y : Val) : looseEq E 3 x y = Spec.looseEq E 4 x y := by
  cases x <;> cases y <;>
    simp [looseEq, Spec.looseEq, Val.kind, kindEqual, Spec.strictEq, Spec.isNum, Spec.isStr, Spec.isBool, Spec.isNullish,
      toFloat, Spec.toNumber, eqNum_guard] <;>
    first
      | done
      | exact eqNum_true_not_nan _ _

/-- C05.comparison: every comparison operator on every pair of primitive values (any Go number
    kind, any string): otto's calculateComparison = ES5 §11.8.1–4, §11.9.1–6 -/
theorem comparison_eq (E : Env) (c : Cmp) (x y : Val) :
    calculateComparison E c x y = Spec.compare E Spec.unitLt c x y := by
  cases c <;> simp only [calculateComparison, Spec.compare, lessThan_eq, strict_eq, loose_eq]
  · cases Spec.lessThan E Spec.unitLt x y <;> rfl
  · cases Spec.lessThan E Spec.unitLt y x <;> rfl
  · cases Spec.lessThan E Spec.unitLt y x <;> rfl
  · cases Spec.lessThan E Spec.unitLt x y <;> rfl

theorem alignInt_zero (s : Bool) (e emin : Int) : alignInt s 0 e emin = 0 := by
  unfold alignInt; cases s <;> simp

theorem alignInt_ne_zero (s : Bool) (k : Nat) (e emin : Int) : alignInt s (k+1) e emin ≠ 0 := by
  unfold alignInt
  have h : 0 < (k+1) * 2 ^ (e - emin).toNat := Nat.mul_pos (Nat.succ_pos k) (Nat.two_pow_pos _)
  generalize (k+1) * 2 ^ (e - emin).toNat = n at h
  cases s <;> simp <;> omega

theorem sv_fv (a b : FV) :
    (if isNaN a && isNaN b then true
     else if eqNum a b then (if isZero a then signBit a == signBit b else true) else false) =
    (if isNaN a ∧ isNaN b then true
     else if isZero a ∧ isZero b then decide (signBit a = signBit b) else eqNum a b) := by
  cases a with
  | nan => cases b <;> simp [isNaN, eqNum, cmpReal, isZero]
  | inf s => cases b <;> simp [isNaN, eqNum, cmpReal, isZero] <;> (try (rename_i t; cases s <;> cases t <;> simp))
  | fin s m e =>
    cases b with
    | nan => simp [isNaN, eqNum, cmpReal, isZero]
    | inf t => simp [isNaN, eqNum, cmpReal, isZero]; cases t <;> simp
    | fin t m2 e2 =>
      cases m with
      | zero =>
        cases m2 with
        | zero => simp [isNaN, eqNum, cmpReal, isZero, alignInt_zero, signBit]; cases s <;> cases t <;> rfl
        | succ k =>
          have := alignInt_ne_zero t k e2 (if e ≤ e2 then e else e2)
          simp only [isNaN, eqNum, cmpReal, isZero, alignInt_zero, signBit]
          simp
          intro h
          by_cases h1 : 0 < alignInt t (k + 1) e2 (if e ≤ e2 then e else e2)
          · simp [h1] at h
          · by_cases h2 : 0 = alignInt t (k + 1) e2 (if e ≤ e2 then e else e2)
            · exact absurd h2.symm this
            · simp [h1, h2] at h
      | succ k => simp [isNaN, eqNum, cmpReal, isZero]

/-- C05.sameValue: otto's sameValue = ES5 §9.12 on all primitive pairs -/
theorem sameValue_eq (E : Env) (x y : Val) : sameValue E x y = Spec.sameValue E x y := by
  cases x <;> cases y <;>
    simp only [sameValue, Spec.sameValue, Val.kind, Spec.isNum, toFloat, Spec.toNumber] <;>
    first
      | rfl
      | (simp; done)
      | (simp only [ne_eq, not_true_eq_false, if_false, and_self, if_true]; exact sv_fv _ _)
      | (simp only [ne_eq, not_true_eq_false, if_false]; rename_i a b; by_cases h : a = b <;> simp [h])

end OttoVerif.C05.Thm
