/-
  C05/Theorems — the ledger for property C05.  Every `theorem` in this file is audited
  (`#print axioms` ⊆ {propext, Classical.choice, Quot.sound}) on every run.
-/
import OttoVerif.C05.Spec
namespace OttoVerif.C05.Thm
open OttoVerif.F64 OttoVerif.C05

/-- the region where Go's float→int64 conversion is exact truncation -/
def InRange (x : FV) : Prop := -(2^63 : Int) ≤ truncInt x ∧ truncInt x < 2^63

theorem toNumber_eq (E : Env) (v : Val) : toFloat E v = Spec.toNumber E v := by
  cases v <;> rfl

theorem toBoolean_eq (v : Val) : toBool v = Spec.toBoolean v := by
  cases v with
  | str s => cases s <;> simp [toBool, Spec.toBoolean]
  | _ => simp [toBool, Spec.toBoolean, bne, BEq.beq]

theorem goInt64_inrange (x : FV) (hd : degenerate x = false) (h : InRange x) : goInt64 x = truncInt x := by
  cases x with
  | nan => simp [degenerate, isNaN] at hd
  | inf s => simp [degenerate, isNaN, isInf] at hd
  | fin s m e => unfold InRange at h; simp only [goInt64]; split <;> omega

private theorem deg_eq (x : FV) : (isNaN x || isInf x || isZero x) = degenerate x := rfl


/-- Go's static types bound the payload of integer-kinded values. -/
def WF : Val → Prop
  | .int .i8 i => -(2^7 : Int) ≤ i ∧ i < 2^7
  | .int .i16 i => -(2^15 : Int) ≤ i ∧ i < 2^15
  | .int .i32 i => -(2^31 : Int) ≤ i ∧ i < 2^31
  | .int .u8 i => 0 ≤ i ∧ i < 2^8
  | .int .u16 i => 0 ≤ i ∧ i < 2^16
  | .int .u32 i => 0 ≤ i ∧ i < 2^32
  | .int .i64 i => -(2^63 : Int) ≤ i ∧ i < 2^63
  | .int .int i => -(2^63 : Int) ≤ i ∧ i < 2^63
  | .int .u64 i => 0 ≤ i ∧ i < 2^64
  | .int .uint i => 0 ≤ i ∧ i < 2^64
  | _ => True

theorem truncInt_ofInt_small (i : Int) (h : i.natAbs < 2^53) : truncInt (ofInt i) = i := by
  simp [ofInt, h, truncInt, truncAbs]; split <;> omega


theorem ofInt_small_deg (i : Int) (h : i.natAbs < 2^53) : degenerate (ofInt i) = decide (i = 0) := by
  simp [ofInt, h, degenerate, isNaN, isInf]
  by_cases h0 : i = 0
  · subst h0; simp [isZero]
  · have : i.natAbs ≠ 0 := by omega
    simp [h0]
    cases hn : i.natAbs with
    | zero => omega
    | succ n => simp [isZero]

/-- ToInt32 (§9.5): model = spec whenever the truncated number fits int64. -/
theorem toInt32_partial (E : Env) (v : Val) (hwf : WF v) (hr : InRange (toFloat E v)) :
    toInt32 E v = Spec.toInt32 E v := by
  have slow : ∀ f : FV, InRange f →
      (if degenerate f then (0:Int) else wrapS 32 (goInt64 f)) =
      (if isNaN f || isInf f || isZero f then (0:Int) else
        (if truncInt f % (2^32 : Int) ≥ (2^31 : Int) then truncInt f % (2^32 : Int) - (2^32 : Int) else truncInt f % (2^32 : Int))) := by
    intro f hf
    rw [deg_eq]
    cases hd : degenerate f with
    | true => simp
    | false => simp [goInt64_inrange f hd hf, wrapS]
  have fast : ∀ k i, i.natAbs < 2^53 → -(2^31 : Int) ≤ i → i < 2^31 → wrapS 32 i = Spec.toInt32 E (.int k i) := by
    intro k i h1 h2 h3
    simp only [Spec.toInt32, Spec.toNumber, Spec.signFloorAbs, deg_eq, ofInt_small_deg i h1, truncInt_ofInt_small i h1, wrapS]
    by_cases h0 : i = 0
    · subst h0; simp
    · simp [h0]
  cases v with
  | int k i =>
    cases k <;> simp only [toInt32] <;>
      first
        | (simp only [WF] at hwf; first | exact fast _ i (by omega) (by omega) (by omega) | (rw [← fast _ i (by omega) (by omega) (by omega)]; simp [wrapS]; omega))
        | exact slow _ hr
  | _ => exact slow _ hr

end OttoVerif.C05.Thm
