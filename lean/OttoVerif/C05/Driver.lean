/-
  C05/Driver — line protocol front end (core-only).
  request:  <op> <args…>      reply:  <model> <spec> <dev>
-/
import OttoVerif.Base.Proto
import OttoVerif.C05.Spec
import OttoVerif.Base.ParseNumber
import OttoVerif.C05.Obj
import OttoVerif.C05.Ops2
import OttoVerif.C06.Spec
import OttoVerif.C05.StrKind
import OttoVerif.C05.Unres
namespace OttoVerif.C05.Driver
open OttoVerif.F64 OttoVerif.Proto OttoVerif.C05

/-- ToNumber on strings = parseNumber (value_number.go), modelled in Base/ParseNumber (= C06.stringToNumber) -/
def env : Env := { pn := OttoVerif.PN.parseNumber }

def nk? : String → Option NK
  | "i8" => some .i8 | "i16" => some .i16 | "i32" => some .i32 | "i64" => some .i64 | "int" => some .int
  | "u8" => some .u8 | "u16" => some .u16 | "u32" => some .u32 | "u64" => some .u64 | "uint" => some .uint
  | _ => none

def val? (t : String) : Option Val :=
  if t = "u" then some .undef
  else if t = "n" then some .null
  else match t.splitOn ":" with
    | ["b", "0"] => some (.bool false)
    | ["b", "1"] => some (.bool true)
    | ["f", h] => (f64? h).map .f64
    | ["s", h] => (bytes? h).map .str
    | [k, i] => do let k ← nk? k; let i ← int? i; pure (.int k i)
    | _ => none

def valOut : Val → String
  | .undef => "u" | .null => "n"
  | .bool b => if b then "b:1" else "b:0"
  | .int _ i => "f:" ++ f64Out (ofInt i)       -- results are compared as number values
  | .f64 x => "f:" ++ f64Out x
  | .str s => "s:" ++ bytesOut s

def boolOut (b : Bool) : String := if b then "true" else "false"

def cmp? : String → Option Cmp
  | "lt" => some .lt | "gt" => some .gt | "le" => some .le | "ge" => some .ge
  | "eq" => some .eq | "ne" => some .ne | "seq" => some .seq | "sne" => some .sne | _ => none

def bin? : String → Option BinOp
  | "add" => some .add | "sub" => some .sub | "mul" => some .mul | "div" => some .div | "rem" => some .rem
  | "band" => some .band | "bor" => some .bor | "bxor" => some .bxor
  | "shl" => some .shl | "shr" => some .shr | "ushr" => some .ushr | _ => none

def inRange (x : FV) : Bool := decide (-(2^63 : Int) ≤ truncInt x ∧ truncInt x < 2^63)

/-- deviation regions (each is a decidable predicate over the request) -/
def devConv (_v : Val) : String := "-"    -- (region toInt_big repaired by fix 919cc4b)

def reply (m s : String) (dev : String) : String := m ++ " " ++ s ++ " " ++ dev

/-- operand token: a primitive value token, or `o(<id>;<date 0|1>;<valueOf beh>;<toString beh>)` with
    beh = `p<val>` | `o` | `n` | `t<val>` -/
def beh? (t : String) : Option Obj.Beh :=
  match t.toList with
  | ['o'] => some .obj
  | ['n'] => some .notCallable
  | 'p' :: r => (val? (String.ofList r)).map .prim
  | 't' :: r => (val? (String.ofList r)).map .throws
  | _ => none

def operand? (t : String) : Option Obj.OV :=
  if t.startsWith "o(" then
    match (String.ofList ((t.toList.drop 2).dropLast)).splitOn ";" with
    | [i, d, v, s] => do
      let i ← i.toNat?
      let v ← beh? v
      let s ← beh? s
      pure (.obj { id := i, isDate := d = "1", valueOf := v, toStr := s })
    | _ => none
  else (val? t).map .prim

def rOut (r : Obj.R Val) : String :=
  let lg (l : List String) := if l.isEmpty then "-" else ",".intercalate l
  match r with
  | .ok v l => valOut v ++ "|" ++ lg l
  | .typeError l => "throw:TypeError|" ++ lg l
  | .thrown v l => "throw:" ++ valOut v ++ "|" ++ lg l

/-! ### Ops2: expression requests

  `ex <expr>` with <expr> in prefix form over space-separated words:
    v <val> | U | g <tag> <val> | q <tag> <expr> | u <uop> <expr> | b <bop> <expr> <expr>
    | a <expr> <expr> | o <expr> <expr> | c <expr> <expr> <expr>
    | A <binop> <leaf> <expr>  (`leaf op= expr`) | M <binop> <expr b> <expr k> <prop> <expr>  (`b[k] op= expr`),
      <prop> = d <val> | a <gtag> <stag> <val>
  <val> = a primitive token, or `O(id;kind;valueOf;toString;fk;chain;layers)` with kind `d` = Date (other
  kinds only tell the harness how to build the object), fk = `-` | `F<id>` | `Fp` | `B<fk>`,
  chain = `-` | ids joined by `.`, layers = `-` | layers joined by `/`, layer = `e` | keys joined by `.`,
  key = hex bytes (`_` = the empty name).
  `instr <name-val> <len> <layer>`: `name in new String(<len chars>)` with the stored own names <layer>. -/
open Ops2 in
def fk? (cs : List Char) : Option FK :=
  match cs with
  | ['-'] => some .none
  | ['F', 'p'] => some (.fn none)
  | 'F' :: r => (String.ofList r).toNat?.map fun i => .fn (some i)
  | 'B' :: r => (fk? r).map .bound
  | _ => none

def key? (t : String) : Option (List Nat) := if t = "_" then some [] else bytes? t

def allSome {α : Type} : List (Option α) → Option (List α)
  | [] => some []
  | none :: _ => none
  | some a :: r => (allSome r).map (a :: ·)

def layer? (t : String) : Option Ops2.Layer :=
  if t = "e" then some [] else allSome ((t.splitOn ".").map key?)

def layers? (t : String) : Option (List Ops2.Layer) :=
  if t = "-" then some [] else allSome ((t.splitOn "/").map layer?)

def chain? (t : String) : Option (List Nat) :=
  if t = "-" then some [] else allSome ((t.splitOn ".").map String.toNat?)

def vl? (t : String) : Option Ops2.Vl :=
  if t.startsWith "O(" then
    match (String.ofList ((t.toList.drop 2).dropLast)).splitOn ";" with
    | [i, k, v, s, f, c, l] => do
      let i ← i.toNat?
      let v ← beh? v
      let s ← beh? s
      let f ← fk? f.toList
      let c ← chain? c
      let l ← layers? l
      pure (.obj { o := { id := i, isDate := k = "d", valueOf := v, toStr := s }, fk := f, chain := c, layers := l })
    | _ => none
  else (val? t).map .prim

def uop? : String → Option Ops2.UOp
  | "pos" => some .plus | "neg" => some .neg | "bnot" => some .bnot | "not" => some .lnot
  | "typeof" => some .typeof | "void" => some .void | _ => none

def bop? (t : String) : Option Ops2.BOp :=
  if t = "inst" then some .instOf else if t = "in" then some .inOp else
  match bin? t with
  | some o => some (.num o)
  | none => (cmp? t).map .cmp

def prop? : List String → Option (Ops2.PropK × List String)
  | "d" :: t :: r => (vl? t).map fun v => (.data v, r)
  | "a" :: g :: st :: t :: r => (vl? t).map fun v => (.acc g st v, r)
  | _ => none

partial def ex? : List String → Option (Ops2.Ex × List String)
  | "v" :: t :: r => (vl? t).map fun v => (.leaf (.value v), r)
  | "U" :: r => some (.leaf .unres, r)
  | "Up" :: r => some (.leaf .unres, r)          -- `(undeclared)`: the grouping operator keeps the Reference (§11.1.6)
  | "g" :: tag :: t :: r => (vl? t).map fun v => (.leaf (.getter tag v), r)
  | "q" :: tag :: r => do let (e, r) ← ex? r; pure (.seq tag e, r)
  | "u" :: op :: r => do let op ← uop? op; let (e, r) ← ex? r; pure (.un op e, r)
  | "b" :: op :: r => do let op ← bop? op; let (a, r) ← ex? r; let (b, r) ← ex? r; pure (.bin op a b, r)
  | "a" :: r => do let (a, r) ← ex? r; let (b, r) ← ex? r; pure (.and a b, r)
  | "o" :: r => do let (a, r) ← ex? r; let (b, r) ← ex? r; pure (.or a b, r)
  | "c" :: r => do let (c, r) ← ex? r; let (a, r) ← ex? r; let (b, r) ← ex? r; pure (.cond c a b, r)
  | "A" :: op :: r => do
    let o ← bin? op
    let (l, r) ← ex? r
    match l with
    | .leaf lref => do let (e, r) ← ex? r; pure (.asg o lref e, r)
    | _ => none
  | "M" :: op :: r => do
    let o ← bin? op
    let (b, r) ← ex? r
    let (k, r) ← ex? r
    let (p, r) ← prop? r
    let (e, r) ← ex? r
    pure (.asgMem o b k p e, r)
  | _ => none

def vlOut : Ops2.Vl → String
  | .prim v => valOut v
  | .obj b => "o" ++ toString b.o.id

def resOut (r : Ops2.Res Ops2.Vl) : String :=
  let lg (l : List String) := if l.isEmpty then "-" else ",".intercalate l
  match r with
  | .ok v l => vlOut v ++ "|" ++ lg l
  | .typeError l => "throw:TypeError|" ++ lg l
  | .refError l => "throw:ReferenceError|" ++ lg l
  | .thrown v l => "throw:" ++ valOut v ++ "|" ++ lg l

/-! ### operands of every INTERNAL kind (requests `knd`, `knda`)

  `knd <op> <A> <B>`: `(A) op (B)`;  `knda <op> <A> <B>`: `var t = A; t op= B`.  A, B are PRODUCER tokens: the
  harness writes an expression that makes the evaluator itself (or the Go bridge) yield a number Value of a given Go
  kind; the model gets that kinded `Val`:
    or:n `(n|0)` int32 · not:n `(~n)` int32 (−n−1) · ushr:n `(n>>>0)` uint32 · len:n `"aaa".length` int ·
    idx:n `"abc…".indexOf(c)` int · cc:n `String.fromCharCode(n).charCodeAt(0)` uint16 · lit:n integer literal int64 ·
    neg:n `-n` float64 · g<val> a Go value set into the runtime (any kind token of `val?`).
  Reply token: `<number as f64 hex | b:0/1>;<typeof>;<String(r) hex>;<z+|z-|nz>;<Go type of Export()>`.
  String(r): model = Value.string() by kind (C06.formatInt for integer kinds, C06.numToString for float64),
  spec = §9.8.1 (C06.Spec.toStringNum) of the number value. -/
def prod? (t : String) : Option Val :=
  match t.splitOn ":" with
  | ["or", n] => (int? n).map (.int .i32)
  | ["not", n] => (int? n).map fun i => .int .i32 (-i - 1)
  | ["ushr", n] => (int? n).map (.int .u32)
  | ["len", n] => (int? n).map (.int .int)
  | ["idx", n] => (int? n).map (.int .int)
  | ["cc", n] => (int? n).map (.int .u16)
  | ["lit", n] => (int? n).map (.int .i64)
  | ["neg", n] => (int? n).map fun i => .f64 (neg (ofInt i))
  | _ => match t.toList with
    | 'g' :: r => val? (String.ofList r)
    | _ => none

def goType : NK → String
  | .i8 => "int8" | .i16 => "int16" | .i32 => "int32" | .i64 => "int64" | .int => "int"
  | .u8 => "uint8" | .u16 => "uint16" | .u32 => "uint32" | .u64 => "uint64" | .uint => "uint"

def zeroTok (x : FV) : String := if isZero x then (if signBit x then "z-" else "z+") else "nz"

/-- what the harness observes of a result as otto holds it -/
def obsModel (v : Val) : String :=
  match v with
  | .int k i => "f:" ++ f64Out (ofInt i) ++ ";number;" ++ bytesOut (OttoVerif.C06.formatInt i 10) ++ ";" ++
      (if i = 0 then "z+" else "nz") ++ ";" ++ goType k
  | .f64 x => "f:" ++ f64Out x ++ ";number;" ++ bytesOut (OttoVerif.C06.numToString OttoVerif.C06.Spec.exactLib x) ++ ";" ++
      zeroTok x ++ ";float64"
  | .bool b => (if b then "b:1;boolean;74727565" else "b:0;boolean;66616c7365") ++ ";nz;bool"
  | _ => "?"

/-- what ES5 says of a result: a Number is the double and nothing else; the Go type reported is the one otto
    documents for the operator (float64 for arithmetic, int32/uint32 for bitwise/shift results) -/
def obsSpec (v : Val) : String :=
  match v with
  | .int k i => "f:" ++ f64Out (ofInt i) ++ ";number;" ++ bytesOut (OttoVerif.C06.Spec.toStringNum (ofInt i)) ++ ";" ++
      zeroTok (ofInt i) ++ ";" ++ goType k
  | .f64 x => "f:" ++ f64Out x ++ ";number;" ++ bytesOut (OttoVerif.C06.Spec.toStringNum x) ++ ";" ++ zeroTok x ++ ";float64"
  | .bool b => (if b then "b:1;boolean;74727565" else "b:0;boolean;66616c7365") ++ ";nz;bool"
  | _ => "?"

def handleKnd (o a b : String) : String :=
  match prod? a, prod? b with
  | some x, some y =>
    match bin? o with
    | some bo => reply (obsModel (binNum env bo x y)) (obsSpec (Spec.binNum env bo x y)) "-"
    | none => match cmp? o with
      | some c => reply (obsModel (.bool (calculateComparison env c x y))) (obsSpec (.bool (Spec.compare env Spec.unitLt c x y))) "-"
      | none => "bad-op"
  | _, _ => "bad-op"

/-! ### string operands in both internal representations (requests `sk`, `sku`)

  `sk <op> <A> <B>` with op = lt gt le ge eq ne seq sne | add | key (`o[B] = 1; A in o, o[A]`) | sw (`switch (A) { case B: … }`);
  `sku <op> <A>` with op = typeof not pos neg and or cond.  A, B = [O]<producer>:<units as 4-hex-digit groups, `e` = none>:
  lit (Go string literal) · fcc (String.fromCharCode(all units): []uint16) · cat (fromCharCode of each unit, joined with +) ·
  sl (slice of a literal: utf16Value) · cuth / cutl (first / second half of the literal pair: an unpaired surrogate) ·
  chr (charAt); prefix O = wrapped in `new String(…)`. -/
open StrKind in
def svProd? (t : String) : Option (SV × Bool) :=
  let (isObj, t) := if t.startsWith "O" then (true, String.ofList (t.toList.drop 1)) else (false, t)
  match t.splitOn ":" with
  | [k, h] =>
    match (if h = "e" then some [] else units? h) with
    | none => none
    | some us =>
      let sv : Option SV :=
        if k = "lit" then some ⟨us, false⟩
        else if k = "fcc" then some ⟨us, true⟩
        else if k = "cat" then
          match us with
          | [] => some ⟨[], false⟩
          | u :: r => some (r.foldl (fun acc v => catM acc ⟨[v], true⟩) ⟨[u], true⟩)
        else if k = "sl" then some (StrKind.utf16Value us)
        else if k = "cuth" then (us.head?).map fun u => StrKind.utf16Value [u]
        else if k = "cutl" then (us.drop 1).head?.map fun u => StrKind.utf16Value [u]
        else if k = "chr" then some ⟨us, false⟩
        else none
      sv.map fun v => (v, isObj)
  | _ => none

def unitsTok (us : List Nat) : String := "u:" ++ (if us.isEmpty then "e" else unitsOut us)
def bTok (b : Bool) : String := if b then "b:1" else "b:0"

open StrKind in
def handleSk (o a b : String) : String :=
  match svProd? a, svProd? b with
  | some (x, xo), some (y, yo) =>
    let dev := if hasLone x || hasLone y then "lone_surrogate_operand" else "-"
    -- what a program reads back from a string with charCodeAt: the units of its Go string form
    let seen (v : SV) : List Nat := OttoVerif.Str.unitsOfBytes v.string
    -- model side: ToPrimitive of a String object yields the Go string its constructor stored
    let xm := if xo then objM x else x
    let ym := if yo then objM y else y
    if o = "add" then reply (unitsTok (seen (catM xm ym))) (unitsTok (Spec.catS x y)) dev
    else if o = "key" then reply (bTok (keyM xm ym)) (bTok (Spec.keyS x y)) dev
    else if o = "sw" then
      if xo || yo then reply "b:0" "b:0" "-" else reply (bTok (eqM x y)) (bTok (Spec.eqS x y)) dev
    else match cmp? o with
      | some c =>
        let strictC := c = .seq || c = .sne
        let eqC := c = .eq || c = .ne
        let neg := c = .ne || c = .sne
        if (strictC && (xo || yo)) || (eqC && xo && yo) then reply (bTok neg) (bTok neg) "-"   -- objects: identity
        else reply (bTok (cmpM c xm ym)) (bTok (Spec.cmpS c x y)) dev
      | none => "bad-op"
  | _, _ => "bad-op"

open StrKind in
def handleSku (o a : String) : String :=
  match svProd? a with
  | some (x, xo) =>
    let tf (b : Bool) : String := if b then "T" else "F"
    if o = "typeof" then (let t := if xo then "t:object" else "t:string"; reply t t "-")
    else if o = "not" then reply (bTok (!(xo || boolM x))) (bTok (!(xo || Spec.boolS x))) "-"
    else if o = "and" ∨ o = "or" ∨ o = "cond" then reply (tf (xo || boolM x)) (tf (xo || Spec.boolS x)) "-"
    else if o = "pos" then reply ("f:" ++ f64Out (numM env x)) ("f:" ++ f64Out (Spec.numS env x)) "-"
    else if o = "neg" then
      reply ("f:" ++ f64Out (let f := numM env x; if isNaN f then .nan else neg f)) ("f:" ++ f64Out (let f := Spec.numS env x; if isNaN f then .nan else neg f)) "-"
    else "bad-op"
  | none => "bad-op"

/-! ### `ur <form> <0|1>`: an operator outside the Ops2 language on an unresolvable identifier (1 = written `(N)`);
    reply `<value | throw:ReferenceError>|<log>|<g+ | g->` (g+ = the global `N` exists afterwards) -/
def uform? : String → Option Unres.Form
  | "typeofN" => some .typeofN | "deleteN" => some .deleteN
  | "preInc" => some .preInc | "preDec" => some .preDec | "postInc" => some .postInc | "postDec" => some .postDec
  | "assignN" => some .assignN | "assignFrom" => some .assignFrom
  | "dotN" => some .dotN | "idxN" => some .idxN | "idxKey" => some .idxKey
  | "callN0" => some .callN0 | "callN1" => some .callN1 | "callArg" => some .callArg
  | "newN0" => some .newN0 | "newN1" => some .newN1 | "newArg" => some .newArg
  | "methN" => some .methN | "methArg" => some .methArg
  | _ => none

def outcomeTok (o : Unres.Outcome) : String :=
  o.result ++ "|" ++ (if o.log.isEmpty then "-" else ",".intercalate o.log) ++ "|" ++ (if o.global then "g+" else "g-")

def handle2 (ws : List String) : String :=
  match ws with
  | ["ur", f, _] => match uform? f with
    | some f => reply (outcomeTok (Unres.outcomeM f)) (outcomeTok (Unres.outcomeS f)) "-"
    | none => "bad-op"
  | ["sk", o, a, b] => handleSk o a b
  | ["sku", o, a] => handleSku o a
  | ["knd", o, a, b] => handleKnd o a b
  | ["knda", o, a, b] => handleKnd o a b
  | "ex" :: r =>
    match ex? r with
    | some (e, []) => reply (resOut (Ops2.run env e)) (resOut (Ops2.Spec.run env e)) "-"
    | _ => "bad-op"
  | ["instr", a, n, l] =>
    match val? a, n.toNat?, layer? l with
    | some v, some n, some l =>
      let name := Obj.primToStr env v
      reply (boolOut (Ops2.strGetOwn l n name)) (boolOut (Ops2.Spec.strGetOwn l n name)) "-"
    | _, _, _ => "bad-op"
  | _ => "bad-op"

def handle (ws : List String) : String :=
  match ws with
  | ["toInt32", a] => match val? a with
    | some v => reply (toString (toInt32 env v)) (toString (Spec.toInt32 env v)) (devConv v)
    | none => "bad-op"
  | ["toUint32", a] => match val? a with
    | some v => reply (toString (toUint32 env v)) (toString (Spec.toUint32 env v)) (devConv v)
    | none => "bad-op"
  | ["toUint16", a] => match val? a with
    | some v => reply (toString (toUint16 env v)) (toString (Spec.toUint16 env v)) (devConv v)
    | none => "bad-op"
  | ["toInteger", a] => match val? a with
    | some v => reply (f64Out (toIntegerFloat env v)) (f64Out (Spec.toInteger env v)) "-"
    | none => "bad-op"
  | ["toNumber", a] => match val? a with
    | some v => reply (f64Out (toFloat env v)) (f64Out (Spec.toNumber env v)) "-"
    | none => "bad-op"
  | ["toBoolean", a] => match val? a with
    | some v => reply (boolOut (toBool v)) (boolOut (Spec.toBoolean v)) "-"
    | none => "bad-op"
  | ["cmp", c, a, b] => match cmp? c, val? a, val? b with
    | some c, some x, some y =>
      reply (boolOut (calculateComparison env c x y)) (boolOut (Spec.compare env Spec.unitLt c x y)) "-"
    | _, _, _ => "bad-op"
  | ["same", a, b] => match val? a, val? b with
    | some x, some y => reply (boolOut (sameValue env x y)) (boolOut (Spec.sameValue env x y)) "-"
    | _, _ => "bad-op"
  | ["bin", o, a, b] => match bin? o, val? a, val? b with
    | some o, some x, some y =>
      let dev := "-"
      reply (valOut (binNum env o x y)) (valOut (Spec.binNum env o x y)) dev
    | _, _, _ => "bad-op"
  | ["oop", o, a, b] =>
    let op : Option Obj.Op := match bin? o with
      | some bo => some (.bin bo)
      | none => (cmp? o).map .cmp
    match op, operand? a, operand? b with
    | some op, some x, some y => reply (rOut (Obj.apply env op x y)) (rOut (Obj.Spec.apply env op x y)) "-"
    | _, _, _ => "bad-op"
  | _ => handle2 ws

end OttoVerif.C05.Driver
