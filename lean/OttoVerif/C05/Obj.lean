/-
  C05/Obj — operators on OBJECT operands with scripted valueOf/toString: which conversions run,
  with which hint, in which order (observable through side effects), and what comes out.
  Model: object.go:70 DefaultValue, value_primitive.go toPrimitive, evaluate.go
  calculateBinaryExpression / calculateLessThan / calculateComparison as they treat objects.
  Spec: ES5 §8.12.8, §9.1, §11.5–11.10 (operand conversion order), §11.8.5, §11.9.3, §11.9.6.
-/
import OttoVerif.C05.Spec
import OttoVerif.Base.Str
import OttoVerif.C06.Spec
namespace OttoVerif.C05.Obj
open OttoVerif.F64 OttoVerif.C05

/-- what calling the object's valueOf / toString does -/
inductive Beh where
  | prim (p : Val)        -- returns a primitive
  | obj                   -- returns an object (not a primitive)
  | notCallable           -- the property is not callable
  | throws (p : Val)      -- throws a primitive value
deriving DecidableEq, Repr, Inhabited

structure ObjV where
  id : Nat
  isDate : Bool
  valueOf : Beh
  toStr : Beh
deriving DecidableEq, Repr, Inhabited

inductive OV where
  | prim (v : Val)
  | obj (o : ObjV)
deriving DecidableEq, Repr, Inhabited

/-- result of an evaluation with its log of conversion-method calls ("<id>v" / "<id>s"), oldest first -/
inductive R (α : Type) where
  | ok (a : α) (log : List String)
  | typeError (log : List String)
  | thrown (v : Val) (log : List String)
deriving Repr

def R.bind {α β : Type} (r : R α) (f : α → List String → R β) : R β :=
  match r with
  | .ok a log => f a log
  | .typeError log => .typeError log
  | .thrown v log => .thrown v log

inductive Hint | none | number | string deriving DecidableEq, Repr

def callM (o : ObjV) (isValueOf : Bool) (log : List String) : Beh × List String :=
  let b := if isValueOf then o.valueOf else o.toStr
  match b with
  | .notCallable => (b, log)                                   -- not called, nothing logged
  | _ => (b, log ++ [toString o.id ++ (if isValueOf then "v" else "s")])

/-- try the two methods in the given order -/
def tryMethods (o : ObjV) (firstValueOf : Bool) (log : List String) : R Val :=
  match callM o firstValueOf log with
  | (.prim p, l1) => .ok p l1
  | (.throws v, l1) => .thrown v l1
  | (_, l1) =>
    match callM o (!firstValueOf) l1 with
    | (.prim p, l2) => .ok p l2
    | (.throws v, l2) => .thrown v l2
    | (_, l2) => .typeError l2

/-- MODEL object.go:70 DefaultValue -/
def defaultValue (o : ObjV) (hint : Hint) (log : List String) : R Val :=
  let hint := if hint = .none then (if o.isDate then Hint.string else Hint.number) else hint
  tryMethods o (hint != .string) log

/-- MODEL toPrimitive (value_primitive.go:11) -/
def toPrimitive (x : OV) (hint : Hint) (log : List String) : R Val :=
  match x with
  | .prim v => .ok v log
  | .obj o => defaultValue o hint log

/-- SPEC §8.12.8 [[DefaultValue]](hint) -/
def Spec.defaultValue (o : ObjV) (hint : Hint) (log : List String) : R Val :=
  match hint with
  | .string => tryMethods o false log          -- toString, then valueOf
  | .number => tryMethods o true log           -- valueOf, then toString
  | .none => if o.isDate then tryMethods o false log else tryMethods o true log   -- "as if hint Number unless Date"

/-- SPEC §9.1 ToPrimitive -/
def Spec.toPrimitive (x : OV) (hint : Hint) (log : List String) : R Val :=
  match x with
  | .prim v => .ok v log
  | .obj o => Spec.defaultValue o hint log

inductive Op where
  | bin (o : BinOp)
  | cmp (c : Cmp)
deriving DecidableEq, Repr

def isStrV : Val → Bool | .str _ => true | _ => false

/-- ToString of a primitive (§9.8).  Numbers: §9.8.1 as written in C06 (`C06.Spec.toStringNum`); how otto's
    Value.string() relates to it is C06's subject (float64 kind: `toString_eq_spec`; integer kinds print their
    digits, equal for |i| ≤ 2^53) – both sides of C05 share this function. -/
def primToStr (E : Env) (v : Val) : List Nat :=
  match v with
  | .undef => OttoVerif.Str.ofString "undefined"
  | .null => OttoVerif.Str.ofString "null"
  | .bool b => OttoVerif.Str.ofString (if b then "true" else "false")
  | .str s => s
  | _ => OttoVerif.C06.Spec.toStringNum (toFloat E v)

/-- MODEL: a binary or comparison operator applied to two resolved operand values -/
def apply (E : Env) (op : Op) (x y : OV) : R Val :=
  match op with
  | .bin .add =>
    (toPrimitive x .none []).bind fun px l1 =>
    (toPrimitive y .none l1).bind fun py l2 =>
      if isStrV px || isStrV py then .ok (.str (primToStr E px ++ primToStr E py)) l2
      else .ok (binNum E .add px py) l2
  | .bin o =>
    -- leftValue.float64() / toInt32(leftValue) first, then the right operand
    (toPrimitive x .number []).bind fun px l1 =>
    (toPrimitive y .number l1).bind fun py l2 => .ok (binNum E o px py) l2
  | .cmp .lt | .cmp .ge =>
    (toPrimitive x .number []).bind fun px l1 =>
    (toPrimitive y .number l1).bind fun py l2 =>
      .ok (.bool (calculateComparison E (match op with | .cmp c => c | _ => .lt) px py)) l2
  | .cmp .gt | .cmp .le =>
    -- calculateLessThan(y, x, leftFirst=false): the ORIGINAL left operand is still converted first
    (toPrimitive x .number []).bind fun px l1 =>
    (toPrimitive y .number l1).bind fun py l2 =>
      .ok (.bool (calculateComparison E (match op with | .cmp c => c | _ => .lt) px py)) l2
  | .cmp .seq | .cmp .sne =>
    let neg := op = .cmp .sne
    match x, y with
    | .prim a, .prim b => .ok (.bool (calculateComparison E (if neg then .sne else .seq) a b)) []
    | .obj a, .obj b => .ok (.bool ((a.id == b.id) != neg)) []
    | _, _ => .ok (.bool neg) []
  | .cmp c =>   -- eq / ne
    let neg := c = .ne
    match x, y with
    | .prim a, .prim b => .ok (.bool (calculateComparison E c a b)) []
    | .obj a, .obj b => .ok (.bool ((a.id == b.id) != neg)) []
    | .obj a, .prim b =>
      if b.kind ≤ 1 then .ok (.bool neg) []                       -- null / undefined
      else (defaultValue a .none []).bind fun pa l => .ok (.bool (calculateComparison E c pa b)) l
    | .prim a, .obj b =>
      if a.kind ≤ 1 then .ok (.bool neg) []
      else (defaultValue b .none []).bind fun pb l => .ok (.bool (calculateComparison E c a pb)) l

/-- SPEC: §11.6.1 (+), §11.5/11.6.2/11.7/11.10 (ToNumber / ToInt32 of the left operand, then of the
    right), §11.8.1–4 with §11.8.5 LeftFirst, §11.9.3 steps 8–9, §11.9.6 -/
def Spec.apply (E : Env) (op : Op) (x y : OV) : R Val :=
  match op with
  | .bin .add =>
    (Spec.toPrimitive x .none []).bind fun px l1 =>
    (Spec.toPrimitive y .none l1).bind fun py l2 =>
      if isStrV px || isStrV py then .ok (.str (primToStr E px ++ primToStr E py)) l2
      else .ok (Spec.binNum E .add px py) l2
  | .bin o =>
    (Spec.toPrimitive x .number []).bind fun px l1 =>
    (Spec.toPrimitive y .number l1).bind fun py l2 => .ok (Spec.binNum E o px py) l2
  | .cmp .seq => (match x, y with
    | .prim a, .prim b => .ok (.bool (Spec.strictEq E a b)) []
    | .obj a, .obj b => .ok (.bool (a.id == b.id)) []
    | _, _ => .ok (.bool false) [])
  | .cmp .sne => (match x, y with
    | .prim a, .prim b => .ok (.bool (!Spec.strictEq E a b)) []
    | .obj a, .obj b => .ok (.bool (!(a.id == b.id))) []
    | _, _ => .ok (.bool true) [])
  | .cmp .eq | .cmp .ne =>
    let neg := op = .cmp .ne
    match x, y with
    | .prim a, .prim b => .ok (.bool (Spec.looseEq E 4 a b != neg)) []
    | .obj a, .obj b => .ok (.bool ((a.id == b.id) != neg)) []
    | .obj a, .prim b =>
      if Spec.isNullish b then .ok (.bool neg) []
      else (Spec.defaultValue a .none []).bind fun pa l => .ok (.bool (Spec.looseEq E 4 pa b != neg)) l
    | .prim a, .obj b =>
      if Spec.isNullish a then .ok (.bool neg) []
      else (Spec.defaultValue b .none []).bind fun pb l => .ok (.bool (Spec.looseEq E 4 a pb != neg)) l
  | .cmp c =>
    -- §11.8.5: px, py with hint Number; for `<`,`>=` LeftFirst = true; for `>`,`<=` the operands are
    -- swapped and LeftFirst = false, so in every case the source-left operand is converted first
    (Spec.toPrimitive x .number []).bind fun px l1 =>
    (Spec.toPrimitive y .number l1).bind fun py l2 =>
      .ok (.bool (Spec.compare E Spec.unitLt c px py)) l2

end OttoVerif.C05.Obj
