/-
  C05/Unres — every operator that is NOT part of the Ops2 expression language, applied to an operand that
  is an UNRESOLVABLE identifier `N` (§8.7: a Reference whose base is undefined): `typeof`, `delete`, `++`/`--`
  (prefix and postfix), simple assignment (both sides), member access (`N.p`, `N[k]`, `o[N]`), calls and `new`
  (callee and argument positions, method calls).  (Unary `+ - ~ ! void`, the 21 binary operators, `&& || ?:`,
  comma and compound assignment on `N` are Ops2 expressions with an `.unres` leaf – stream `ex:unres`.)

  A form is reduced to the ORDER of its observable steps: neighbouring operand expressions are `(log(t), v)`,
  GetValue(N) throws ReferenceError, PutValue(N, v) in non-strict code creates a global.
  MODEL = the order in otto's evaluator (cmpl_evaluate_expression.go: …UnaryExpression l.360 – the
  `typeof`/`delete` pre-check of an invalid reference, INCREMENT/DECREMENT `target.resolve()` –,
  …AssignExpression l.118, …DotExpression, …BracketExpression l.168, …CallExpression l.192 and
  …NewExpression l.280 – `callee.resolve()` before the arguments).
  SPEC = ES5 §11.4.1 (delete: unresolvable → true), §11.4.3 (typeof → "undefined"), §11.3.1/2, §11.4.4/5
  (GetValue first), §11.13.1 (lref, rref, GetValue(rref), PutValue → §8.7.2 step 3: global property), §11.2.1
  (GetValue(baseReference) before the property expression), §11.2.2 / §11.2.3 (GetValue of the constructor /
  function reference BEFORE the argument list is evaluated; arguments left to right).
-/
namespace OttoVerif.C05.Unres

inductive Form where
  | typeofN | deleteN
  | preInc | preDec | postInc | postDec
  | assignN        -- N = (log("Z"), 2)
  | assignFrom     -- x = N
  | dotN           -- N.p
  | idxN           -- N[(log("Z"), 2)]
  | idxKey         -- o[N]
  | callN0         -- N()
  | callN1         -- N((log("Z"), 2))
  | callArg        -- f((log("A"), 1), N, (log("Z"), 2))
  | newN0 | newN1 | newArg
  | methN          -- N.m((log("Z"), 2))
  | methArg        -- o.m((log("A"), 1), N)
deriving DecidableEq, Repr, Inhabited

inductive Step where
  | log (t : String)        -- a neighbouring operand expression is evaluated
  | getN                    -- GetValue(N): ReferenceError
  | putN                    -- PutValue(N, v): a global is created
  | ret (v : String)        -- the expression has this value (token)
deriving DecidableEq, Repr

structure Outcome where
  result : String           -- value token or `throw:ReferenceError`
  log : List String
  global : Bool             -- does `nosuch` exist afterwards?
deriving DecidableEq, Repr

def run : List Step → List String → Bool → Outcome
  | [], log, g => ⟨"u", log, g⟩
  | .log t :: rest, log, g => run rest (log ++ [t]) g
  | .getN :: _, log, g => ⟨"throw:ReferenceError", log, g⟩
  | .putN :: rest, log, _ => run rest log true
  | .ret v :: _, log, g => ⟨v, log, g⟩

def sUndefined : String := "s:756e646566696e6564"
def two : String := "f:4000000000000000"

/-- MODEL: otto's order -/
def model : Form → List Step
  | .typeofN => [.ret sUndefined]                 -- l.363: invalid reference, TYPEOF → "undefined" without resolve
  | .deleteN => [.ret "b:1"]                      -- l.363: invalid reference, DELETE → true
  | .preInc | .preDec | .postInc | .postDec => [.getN]          -- targetValue := target.resolve()
  | .assignN => [.log "Z", .putN, .ret two]       -- left (no resolve for `=`), right evaluated + resolved, putValue
  | .assignFrom => [.getN]                        -- right.resolve()
  | .dotN => [.getN]                              -- target.resolve()
  | .idxN => [.getN]                              -- target.resolve() precedes the member expression
  | .idxKey => [.getN]                            -- member.resolve()
  | .callN0 => [.getN]                            -- callee.resolve() (l.196)
  | .callN1 => [.getN]                            -- … before the argument loop (l.202)
  | .callArg => [.log "A", .getN]                 -- arguments left to right, each resolved at once
  | .newN0 => [.getN]
  | .newN1 => [.getN]                             -- l.283 before l.286
  | .newArg => [.log "A", .getN]
  | .methN => [.getN]                             -- the callee `N.m` is a dot expression: target.resolve()
  | .methArg => [.log "A", .getN]

/-- SPEC: ES5's order -/
def spec : Form → List Step
  | .typeofN => [.ret sUndefined]                 -- §11.4.3 step 2.a
  | .deleteN => [.ret "b:1"]                      -- §11.4.1 step 3 (non-strict)
  | .preInc | .preDec => [.getN]                  -- §11.4.4/5 step 3: ToNumber(GetValue(expr))
  | .postInc | .postDec => [.getN]                -- §11.3.1/2 step 3
  | .assignN => [.log "Z", .putN, .ret two]       -- §11.13.1: lref; rref; rval = GetValue(rref); PutValue(lref, rval) → §8.7.2 step 3.b
  | .assignFrom => [.getN]                        -- §11.13.1 step 3
  | .dotN => [.getN]                              -- §11.2.1 step 2
  | .idxN => [.getN]                              -- §11.2.1 step 2 (before step 3, the property expression)
  | .idxKey => [.getN]                            -- §11.2.1 step 4
  | .callN0 => [.getN]                            -- §11.2.3 step 2
  | .callN1 => [.getN]                            -- §11.2.3 step 2 precedes step 3 (argument list)
  | .callArg => [.log "A", .getN]                 -- §11.2.4: left to right, GetValue of each
  | .newN0 => [.getN]                             -- §11.2.2 step 2
  | .newN1 => [.getN]
  | .newArg => [.log "A", .getN]
  | .methN => [.getN]                             -- §11.2.1 step 2 inside the callee
  | .methArg => [.log "A", .getN]

def outcomeM (f : Form) : Outcome := run (model f) [] false
def outcomeS (f : Form) : Outcome := run (spec f) [] false

end OttoVerif.C05.Unres
