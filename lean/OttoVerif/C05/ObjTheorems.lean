/-
  C05/ObjTheorems — ledger, part 2: operators on object operands (scripted valueOf/toString).
-/
import OttoVerif.C05.Obj
import OttoVerif.C05.Theorems
namespace OttoVerif.C05.ObjThm
open OttoVerif.F64 OttoVerif.C05 OttoVerif.C05.Obj OttoVerif.C05.Thm

theorem defaultValue_eq (o : ObjV) (h : Hint) (log : List String) :
    defaultValue o h log = Spec.defaultValue o h log := by
  have h1 : (Hint.number != Hint.string) = true := by decide
  have h2 : (Hint.string != Hint.string) = false := by decide
  cases h <;> cases hd : o.isDate <;> simp [defaultValue, Spec.defaultValue, hd, h1, h2]

theorem toPrimitive_eq (x : OV) (h : Hint) (log : List String) :
    toPrimitive x h log = Spec.toPrimitive x h log := by
  cases x <;> simp [toPrimitive, Spec.toPrimitive, defaultValue_eq]

theorem binNum_arith_eq (E : Env) (o : BinOp) (ho : o = .add ∨ o = .sub ∨ o = .mul ∨ o = .div ∨ o = .rem) (a b : Val) :
    binNum E o a b = Spec.binNum E o a b := by
  rcases ho with h | h | h | h | h <;> subst h <;>
    simp [binNum, Spec.binNum, toNumber_eq, evaluateDivide_eq, Spec.divide]

theorem kind_nullish (b : Val) : (b.kind ≤ 1) = (Spec.isNullish b = true) := by
  cases b <;> simp [Val.kind, Spec.isNullish]

/-- all eight comparison operators on every pair of operands, objects included -/
theorem apply_cmp_eq (E : Env) (c : Cmp) (x y : OV) : apply E (.cmp c) x y = Spec.apply E (.cmp c) x y := by
  cases c <;> simp only [apply, Spec.apply, toPrimitive_eq, comparison_eq]
  all_goals
    cases x <;> cases y <;>
      simp [defaultValue_eq, Spec.compare, kind_nullish, Cmp.noConfusion]

/-- + − * / % on every pair of operands, objects included: conversions, their order, and the result -/
theorem apply_arith_eq (E : Env) (o : BinOp) (ho : o = .add ∨ o = .sub ∨ o = .mul ∨ o = .div ∨ o = .rem) (x y : OV) :
    apply E (.bin o) x y = Spec.apply E (.bin o) x y := by
  rcases ho with h | h | h | h | h <;> subst h <;>
    simp only [apply, Spec.apply, toPrimitive_eq] <;>
    simp [binNum, Spec.binNum, toNumber_eq, evaluateDivide_eq, Spec.divide]

/-- non-vacuity: [10] < [9] compares the STRINGS "10" and "9" (true), with valueOf tried before toString -/
example : (match apply ⟨fun _ => .nan⟩ (.cmp .lt)
    (.obj ⟨1, false, .obj, .prim (.str [49, 48])⟩) (.obj ⟨2, false, .obj, .prim (.str [57])⟩) with
    | .ok (.bool true) ["1v", "1s", "2v", "2s"] => true
    | _ => false) = true := by decide

end OttoVerif.C05.ObjThm
