/-
  C05/StrKindTheorems — ledger, part 4: comparison, concatenation, ToBoolean and property-name identity of
  strings are functions of the sequence of code units, whatever the internal representation.
-/
import OttoVerif.C05.StrKind
import OttoVerif.C05.Theorems
import OttoVerif.C09.Lemmas
namespace OttoVerif.C05.StrKindThm
open OttoVerif.C05 OttoVerif.C05.StrKind OttoVerif.Str OttoVerif.C09 OttoVerif.C09.Lem

/-- text without unpaired surrogates survives the trip through its Go string form -/
theorem units_roundtrip (us : List Nat) (hw : wellPaired us = true) (hu : ∀ u ∈ us, u < 0x10000) :
    unitsOfBytes (bytesOfUnits us) = us := by
  obtain ⟨hs, he⟩ := utf16_roundtrip us hw hu
  unfold unitsOfBytes bytesOfUnits
  rw [decodeRunes_encodeRunes _ hs, he]

theorem string_inj (a b : List Nat) (ha : wellPaired a = true) (hb : wellPaired b = true)
    (hua : ∀ u ∈ a, u < 0x10000) (hub : ∀ u ∈ b, u < 0x10000) (h : bytesOfUnits a = bytesOfUnits b) : a = b := by
  rw [← units_roundtrip a ha hua, ← units_roundtrip b hb hub, h]

/-- `===`, `==`, property-name identity: the same sequence of code units, in either representation -/
theorem equal_units (x y : SV) (hx : x.WF) (hy : y.WF) (lx : hasLone x = false) (ly : hasLone y = false) :
    eqM x y = Spec.eqS x y := by
  simp only [hasLone, Bool.not_eq_false'] at lx ly
  simp only [eqM, Spec.eqS, SV.string]
  rw [Bool.eq_iff_iff]
  simp only [beq_iff_eq]
  exact ⟨string_inj _ _ lx ly hx.1 hy.1, fun h => by rw [h]⟩

theorem key_units (x y : SV) (hx : x.WF) (hy : y.WF) (lx : hasLone x = false) (ly : hasLone y = false) :
    keyM x y = Spec.keyS x y := equal_units x y hx hy lx ly

/-- `<`: code-unit order, in either representation -/
theorem lt_units (x y : SV) (hx : x.WF) (hy : y.WF) (lx : hasLone x = false) (ly : hasLone y = false) :
    ltM x y = Spec.ltS x y := by
  simp only [hasLone, Bool.not_eq_false'] at lx ly
  simp only [ltM, Spec.ltS, SV.string, OttoVerif.C05.Thm.lessThanUTF16_eq, C05.Spec.unitLt,
    units_roundtrip _ lx hx.1, units_roundtrip _ ly hy.1]

/-- all eight comparison operators on two strings -/
theorem cmp_units (c : Cmp) (x y : SV) (hx : x.WF) (hy : y.WF) (lx : hasLone x = false) (ly : hasLone y = false) :
    cmpM c x y = Spec.cmpS c x y := by
  cases c <;> simp only [cmpM, Spec.cmpS, lt_units x y hx hy lx ly, lt_units y x hy hx ly lx, equal_units x y hx hy lx ly]

theorem joinUnits_eq (x : SV) (hx : x.WF) : x.joinUnits = x.units := by
  unfold SV.joinUnits SV.string
  cases h : x.rep16
  · simp only [Bool.false_eq_true, if_false]; exact units_roundtrip _ (hx.2 h) hx.1
  · simp

theorem utf16Value_units (us : List Nat) (hu : ∀ u ∈ us, u < 0x10000) : (StrKind.utf16Value us).units = us := by
  unfold StrKind.utf16Value
  split
  · rename_i hw; exact units_roundtrip us hw hu
  · rfl

theorem scalar_append (a b : List Nat) (ha : ∀ r ∈ a, Scalar r) (hb : ∀ r ∈ b, Scalar r) : ∀ r ∈ a ++ b, Scalar r := by
  intro r hr
  rcases List.mem_append.mp hr with h | h
  · exact ha r h
  · exact hb r h

/-- `+`: the code units are concatenated EXACTLY, in every combination of representations and even when
    an operand holds an unpaired surrogate (a08e94f) -/
theorem cat_units (x y : SV) (hx : x.WF) (hy : y.WF) : (catM x y).units = Spec.catS x y := by
  unfold catM Spec.catS
  split
  · rw [utf16Value_units, joinUnits_eq x hx, joinUnits_eq y hy]
    rw [joinUnits_eq x hx, joinUnits_eq y hy]
    intro u hu
    rcases List.mem_append.mp hu with h | h
    · exact hx.1 u h
    · exact hy.1 u h
  · rename_i h
    simp only [Bool.or_eq_true, not_or, Bool.not_eq_true] at h
    obtain ⟨sa, ea⟩ := utf16_roundtrip x.units (hx.2 h.1) hx.1
    obtain ⟨sb, eb⟩ := utf16_roundtrip y.units (hy.2 h.2) hy.1
    simp only [SV.string, unitsOfBytes, bytesOfUnits, encodeRunes, ← List.flatMap_append]
    have := decodeRunes_encodeRunes (utf16Decode x.units ++ utf16Decode y.units) (scalar_append _ _ sa sb)
    simp only [encodeRunes] at this
    rw [this]
    simp only [utf16Encode, List.flatMap_append] at ea eb ⊢
    rw [ea, eb]

theorem utf16Decode_ne_nil (us : List Nat) (h : us ≠ []) : utf16Decode us ≠ [] := by
  match us, h with
  | [u], _ => simp only [utf16Decode]; split <;> simp
  | u :: v :: rest, _ => simp only [utf16Decode]; split <;> (try split) <;> simp

theorem encodeRunes_ne_nil (rs : List Nat) (h : rs ≠ []) : encodeRunes rs ≠ [] := by
  cases rs with
  | nil => exact absurd rfl h
  | cons r t =>
    rw [encodeRunes_cons]
    have := encodeRune_len r
    intro e
    have h0 : encodeRune r = [] := (List.append_eq_nil_iff.mp e).1
    rw [h0] at this
    simp at this

/-- ToBoolean: false exactly for the empty sequence of code units, in either representation -/
theorem bool_units (x : SV) : boolM x = Spec.boolS x := by
  unfold boolM Spec.boolS SV.string bytesOfUnits
  cases hu : x.units with
  | nil => cases x.rep16 <;> simp [utf16Decode, encodeRunes]
  | cons u t =>
    have h1 := utf16Decode_ne_nil (u :: t) (by simp)
    have h2 := encodeRunes_ne_nil _ h1
    cases x.rep16
    · simp only [Bool.false_eq_true, if_false, List.isEmpty_cons, Bool.not_false]
      cases he : encodeRunes (utf16Decode (u :: t)) with
      | nil => exact absurd he h2
      | cons _ _ => simp
    · simp only [if_true, List.isEmpty_cons, Bool.not_false]
      cases hd : utf16Decode (u :: t) with
      | nil => exact absurd hd h1
      | cons _ _ => simp

/-- `new String(s)` keeps the code units of s (§15.5.2.1) -/
theorem objM_units (x : SV) (hx : x.WF) (lx : hasLone x = false) : (objM x).units = x.units ∧ (objM x).WF := by
  simp only [hasLone, Bool.not_eq_false'] at lx
  have h := units_roundtrip x.units lx hx.1
  refine ⟨h, ?_⟩
  unfold objM SV.WF SV.string
  simp only [h]
  exact ⟨hx.1, fun _ => lx⟩

/-- ToNumber reads the text, whatever holds it -/
theorem num_units (E : Env) (x : SV) : numM E x = Spec.numS E x := rfl

/-- witnesses: "a" as a Go string and as String.fromCharCode(97) are `===`; a surrogate pair built by
    concatenating its halves equals the literal; the region: two different unpaired surrogates compare equal -/
example : eqM ⟨[97], false⟩ ⟨[97], true⟩ = true := by decide
example : (catM ⟨[0xD800], true⟩ ⟨[0xDC00], true⟩).units = [0xD800, 0xDC00] ∧ (catM ⟨[0xD800], true⟩ ⟨[0xDC00], true⟩).rep16 = false := by decide
example : eqM ⟨[0xD800], true⟩ ⟨[0xD801], true⟩ = true ∧ Spec.eqS ⟨[0xD800], true⟩ ⟨[0xD801], true⟩ = false := by decide

end OttoVerif.C05.StrKindThm
