/-
  C05/Ops2Theorems — ledger, part 3: unary operators, instanceof, in, && || ?:, all binary operators on
  object operands, and the order of operand evaluation, over the expression language of Ops2.lean.
-/
import OttoVerif.C05.Ops2
import OttoVerif.C05.ObjTheorems
import OttoVerif.C08.Lemmas
namespace OttoVerif.C05.Ops2Thm
open OttoVerif.F64 OttoVerif.C05 OttoVerif.C05.Obj OttoVerif.C05.Ops2 OttoVerif.C05.Thm OttoVerif.C05.ObjThm

/-! ## 32-bit arithmetic -/

theorem xor_allOnes32 (u : Nat) (h : u < 2^32) : u ^^^ (2^32 - 1) = 2^32 - 1 - u := by
  have := BitVec.toNat_not (x := BitVec.ofNat 32 u)
  have h2 : (~~~(BitVec.ofNat 32 u)) = (BitVec.ofNat 32 u) ^^^ BitVec.allOnes 32 := BitVec.xor_allOnes.symm
  rw [h2, BitVec.toNat_xor, BitVec.toNat_allOnes, BitVec.toNat_ofNat, Nat.mod_eq_of_lt h] at this
  exact this

theorem spec_toInt32_mod (E : Env) (v : Val) : (Spec.toInt32 E v) % (2^32 : Int) = Spec.toUint32 E v := by
  simp only [Spec.toInt32, Spec.toUint32]
  split
  · rfl
  · split <;> omega

theorem spec_toUint32_range (E : Env) (v : Val) : 0 ≤ Spec.toUint32 E v ∧ Spec.toUint32 E v < 2^32 := by
  simp only [Spec.toUint32]
  split <;> omega

theorem spec_toInt32_range (E : Env) (v : Val) : -(2^31 : Int) ≤ Spec.toInt32 E v ∧ Spec.toInt32 E v < 2^31 := by
  simp only [Spec.toInt32]
  split
  · omega
  · split <;> omega

theorem wrapS_nat (n : Nat) (h : n < 2^32) : wrapS 32 (n : Int) = Spec.s32 n := by
  simp only [wrapS, Spec.s32]
  have : ((n : Int) % (2^32 : Int)) = n := by omega
  simp only [this]
  split <;> split <;> omega

theorem toU32_spec (E : Env) (v : Val) : toU32 (Spec.toInt32 E v) = (Spec.toUint32 E v).toNat := by
  simp only [toU32, wrapU, spec_toInt32_mod]

theorem mul_emod_congr (i u p : Int) (h : i % (2^32 : Int) = u) : (i * p) % (2^32 : Int) = (u * p) % (2^32 : Int) := by
  subst h
  conv => rhs; rw [Int.mul_emod, Int.emod_emod]
  rw [Int.mul_emod]

theorem s32_toNat_mod (n : Nat) : Spec.s32 (n % 2^32) = wrapS 32 (n : Int) := by
  rw [← wrapS_nat _ (Nat.mod_lt _ (by decide))]
  simp only [wrapS]
  have : (((n % 2^32 : Nat) : Int) % (2^32 : Int)) = (n : Int) % (2^32 : Int) := by omega
  simp only [this]

/-- every arithmetic, bitwise and shift operator on two primitives: otto = ES5 -/
theorem binNum_eq (E : Env) (o : BinOp) (x y : Val) (hx : WF x) (hy : WF y) : binNum E o x y = Spec.binNum E o x y := by
  have r := spec_toUint32_range E x
  have r2 := spec_toUint32_range E y
  cases o <;> simp only [binNum, Spec.binNum, toNumber_eq, evaluateDivide_eq, Spec.divide,
     toInt32_eq E x hx, toInt32_eq E y hy, toUint32_eq E x hx, toUint32_eq E y hy, toU32_spec]
  · congr 1
    apply wrapS_nat
    exact Nat.and_lt_two_pow _ (by omega)
  · congr 1
    apply wrapS_nat
    exact Nat.or_lt_two_pow (by omega) (by omega)
  · congr 1
    apply wrapS_nat
    exact Nat.xor_lt_two_pow (by omega) (by omega)
  · -- shl
    congr 1
    rw [s32_toNat_mod]
    simp only [wrapS]
    have h := mul_emod_congr (Spec.toInt32 E x) (Spec.toUint32 E x) (2 ^ ((Spec.toUint32 E y).toNat % 32)) (spec_toInt32_mod E x)
    have hc : (((Spec.toUint32 E x).toNat * 2 ^ ((Spec.toUint32 E y).toNat % 32) : Nat) : Int)
        = Spec.toUint32 E x * 2 ^ ((Spec.toUint32 E y).toNat % 32) := by
      rw [Int.natCast_mul, Int.natCast_pow]
      congr 1
      omega
    rw [hc, h]

/-! ## Res -/

@[simp] theorem bind_ok {α β : Type} (a : α) (l : List String) (f : α → List String → Res β) :
    (Res.ok a l).bind f = f a l := rfl
@[simp] theorem bind_typeError {α β : Type} (l : List String) (f : α → List String → Res β) :
    (Res.typeError l : Res α).bind f = .typeError l := rfl
@[simp] theorem bind_refError {α β : Type} (l : List String) (f : α → List String → Res β) :
    (Res.refError l : Res α).bind f = .refError l := rfl
@[simp] theorem bind_thrown {α β : Type} (v : Val) (l : List String) (f : α → List String → Res β) :
    (Res.thrown v l : Res α).bind f = .thrown v l := rfl

theorem bind_assoc {α β γ : Type} (r : Res α) (f : α → List String → Res β) (g : β → List String → Res γ) :
    (r.bind f).bind g = r.bind fun a l => (f a l).bind g := by
  cases r <;> rfl

theorem bind_congr_on {α β : Type} (r : Res α) (f g : α → List String → Res β)
    (h : ∀ a l, r = .ok a l → f a l = g a l) : r.bind f = r.bind g := by
  cases r <;> simp only [bind_ok, bind_typeError, bind_refError, bind_thrown]
  exact h _ _ rfl

theorem bind_congr {α β : Type} (r : Res α) (f g : α → List String → Res β)
    (h : ∀ a l, f a l = g a l) : r.bind f = r.bind g :=
  bind_congr_on r f g fun a l _ => h a l

/-- a predicate on the value of a successful result -/
def ResAll {α : Type} (P : α → Prop) : Res α → Prop
  | .ok a _ => P a
  | _ => True

def RAll {α : Type} (P : α → Prop) : R α → Prop
  | .ok a _ => P a
  | _ => True

theorem ResAll_ofR {α : Type} (P : α → Prop) (r : R α) (h : RAll P r) : ResAll P (ofR r) := by
  cases r <;> simpa [ofR, ResAll, RAll] using h

theorem ResAll_bind {α β : Type} (P : α → Prop) (Q : β → Prop) (r : Res α) (f : α → List String → Res β)
    (hr : ResAll P r) (hf : ∀ a l, P a → ResAll Q (f a l)) : ResAll Q (r.bind f) := by
  cases r <;> simp only [bind_ok, bind_typeError, bind_refError, bind_thrown, ResAll]
  exact hf _ _ hr

theorem ResAll_ok {α : Type} (P : α → Prop) (r : Res α) (h : ResAll P r) (a : α) (l : List String)
    (e : r = .ok a l) : P a := by
  subst e; exact h

/-! ## Well-formed operands: Go's static types bound integer payloads (Thm.WF) -/

def WFBeh : Beh → Prop
  | .prim p => WF p
  | _ => True

def WFObj (o : ObjV) : Prop := WFBeh o.valueOf ∧ WFBeh o.toStr

def WFV : Vl → Prop
  | .prim p => WF p
  | .obj b => WFObj b.o

def WFRf : Rf → Prop
  | .value v => WFV v
  | .unres => True
  | .getter _ v => WFV v

def WFPropK : PropK → Prop
  | .data v => WFV v
  | .acc _ _ v => WFV v

def WFEx : Ex → Prop
  | .leaf r => WFRf r
  | .seq _ e => WFEx e
  | .un _ e => WFEx e
  | .bin _ a b => WFEx a ∧ WFEx b
  | .and a b => WFEx a ∧ WFEx b
  | .or a b => WFEx a ∧ WFEx b
  | .cond c t f => WFEx c ∧ WFEx t ∧ WFEx f
  | .asg _ lref r => WFRf lref ∧ WFEx r
  | .asgMem _ b k p r => WFEx b ∧ WFEx k ∧ WFPropK p ∧ WFEx r

theorem defaultValue_wf (o : ObjV) (hint : Hint) (log : List String) (h : WFObj o) :
    RAll WF (defaultValue o hint log) := by
  obtain ⟨id, d, v, s⟩ := o
  obtain ⟨hv, hs⟩ := h
  simp only [WFBeh] at hv hs
  simp only [defaultValue, tryMethods, callM]
  cases v <;> cases s <;> cases hint <;> cases d <;> simp_all [RAll, WFBeh]

theorem getValue_wf (r : Rf) (log : List String) (h : WFRf r) : ResAll WFV (getValue r log) := by
  cases r <;> simpa [getValue, ResAll, WFRf] using h

/-! ## Conversions of a value that may be an object -/

theorem boolV_eq (v : Vl) : boolV v = Spec.toBooleanV v := by
  cases v <;> simp [boolV, Spec.toBooleanV, toBoolean_eq]

theorem toPrimV_eq (v : Vl) (hint : Hint) (log : List String) :
    ofR (toPrimitive v.toOV hint log) = Spec.toPrimV v hint log := by
  simp only [Spec.toPrimV, toPrimitive_eq]

theorem float64V_eq (E : Env) (v : Vl) (log : List String) : float64V E v log = Spec.toNumberV E v log := by
  cases v with
  | prim p => simp [float64V, Spec.toNumberV, Spec.toPrimV, Vl.toOV, Obj.Spec.toPrimitive, ofR, toNumber_eq]
  | obj b => simp [float64V, Spec.toNumberV, Spec.toPrimV, Vl.toOV, Obj.Spec.toPrimitive, defaultValue_eq, toNumber_eq]

theorem stringV_eq (E : Env) (v : Vl) (log : List String) : stringV E v log = Spec.toStringV E v log := by
  cases v with
  | prim p => simp [stringV, Spec.toStringV, Spec.toPrimV, Vl.toOV, Obj.Spec.toPrimitive, ofR]
  | obj b => simp [stringV, Spec.toStringV, Spec.toPrimV, Vl.toOV, Obj.Spec.toPrimitive, defaultValue_eq]

/-! ## Unary operators -/

theorem copysign_neg (f : FV) :
    copysign f (if signBit f then one else neg one) = (if isNaN f then .nan else neg f) := by
  cases f with
  | nan => rfl
  | inf s => cases s <;> rfl
  | fin s m e => cases s <;> rfl

theorem typeofV_eq (v : Vl) : typeofV v = Spec.typeofV v := by
  cases v with
  | prim p => cases p <;> rfl
  | obj b =>
    simp only [typeofV, Spec.typeofV]
    cases b.fk <;> rfl

theorem bnot_arith (i : Int) (h : -(2^31 : Int) ≤ i ∧ i < 2^31) :
    -i - 1 = Spec.s32 ((i % (2^32 : Int)).toNat ^^^ (2^32 - 1)) := by
  have hu : (i % (2^32 : Int)).toNat < 2^32 := by omega
  rw [xor_allOnes32 _ hu]
  simp only [Spec.s32]
  split <;> omega

theorem spec_toInt32_f64 (E : Env) (p : Val) : Spec.toInt32 E (.f64 (Spec.toNumber E p)) = Spec.toInt32 E p := rfl
theorem spec_toUint32_f64 (E : Env) (p : Val) : Spec.toUint32 E (.f64 (Spec.toNumber E p)) = Spec.toUint32 E p := rfl

theorem WF_f64 (x : FV) : WF (.f64 x) := by simp [WF]

/-- `numPrim` hands the operators a value whose ToInt32/ToUint32/ToNumber images are those of
    ToPrimitive(v, hint Number) -/
theorem numPrim_eq (E : Env) (v : Vl) (log : List String) :
    numPrim E v log = (Spec.toPrimV v .number log).bind fun p l =>
      .ok (match v with | .prim _ => p | .obj _ => .f64 (Spec.toNumber E p)) l := by
  cases v with
  | prim p => simp [numPrim, Spec.toPrimV, Vl.toOV, Obj.Spec.toPrimitive, ofR]
  | obj b =>
    simp only [numPrim, float64V_eq, Spec.toNumberV, bind_assoc, bind_ok]

theorem unaryV_eq (E : Env) (op : UOp) (v : Vl) (log : List String) (hv : WFV v) :
    unaryV E op v log = Spec.unaryV E op v log := by
  cases op with
  | lnot => simp only [unaryV, Spec.unaryV, boolV_eq]
  | plus => simp only [unaryV, Spec.unaryV, float64V_eq]
  | neg => simp only [unaryV, Spec.unaryV, float64V_eq, copysign_neg]
  | void => rfl
  | typeof => simp only [unaryV, Spec.unaryV, typeofV_eq]
  | bnot =>
    cases v with
    | prim q =>
      simp only [unaryV, Spec.unaryV, numPrim, Spec.toPrimV, Vl.toOV, Obj.Spec.toPrimitive, ofR, bind_ok]
      rw [toInt32_eq E q hv, ← bnot_arith _ (spec_toInt32_range E q)]
    | obj b =>
      simp only [unaryV, Spec.unaryV, numPrim_eq, bind_assoc, bind_ok]
      apply bind_congr
      intro p l
      rw [toInt32_eq E _ (WF_f64 _), spec_toInt32_f64, ← bnot_arith _ (spec_toInt32_range E p)]

theorem unary_eq (E : Env) (op : UOp) (r : Rf) (log : List String) (hr : WFRf r) :
    unary E op r log = Spec.unary E op r log := by
  have key : (getValue r log).bind (unaryV E op) = (getValue r log).bind (Spec.unaryV E op) := by
    apply bind_congr_on
    intro a l e
    exact unaryV_eq E op a l (ResAll_ok WFV _ (getValue_wf r log hr) a l e)
  cases op <;> cases r <;> simp only [unary, Spec.unary] <;> first | exact key | rfl

/-! ## instanceof, in -/

/-- the prototype walk of hasInstance is §15.3.5.3 step 4 on every chain -/
theorem walk_eq (o : Nat) (chain : List Nat) : walk o chain = Spec.protoWalk o chain := by
  induction chain with
  | nil => rfl
  | cons v rest ih => simp only [walk, Spec.protoWalk, ih]

/-- [[HasInstance]] for every function kind (ordinary, bound to any depth, not callable), every left
    operand and every chain -/
theorem hasInstance_eq (f : FK) (v : Vl) (log : List String) : hasInstance f v log = Spec.hasInstance f v log := by
  induction f with
  | none => rfl
  | fn p => cases v <;> cases p <;> simp only [hasInstance, Spec.hasInstance, walk_eq]
  | bound t ih => simp only [hasInstance, Spec.hasInstance, ih]

/-- [[HasProperty]] through every prototype chain -/
theorem getProperty_eq (ls : List Layer) (name : List Nat) : getProperty ls name = Spec.hasProperty ls name := by
  induction ls with
  | nil => rfl
  | cons L rest ih =>
    simp only [getProperty, Spec.hasProperty, ih, getOwn, Spec.getOwn]
    cases L.contains name <;> simp

theorem strIndex_iff (len : Nat) (name : List Nat) (hlen : len < 2^32 - 1) :
    (stringToArrayIndex name ≥ 0 ∧ stringToArrayIndex name < len) ↔ ∃ n, n < len ∧ OttoVerif.C08.dec n = name := by
  constructor
  · intro ⟨h0, h1⟩
    unfold stringToArrayIndex at h0 h1
    cases hp : OttoVerif.GoStd.parseInt name 10 with
    | ok i =>
      rw [hp] at h0 h1
      simp only at h0 h1
      by_cases c1 : i < 0
      · simp [c1] at h0
      · by_cases c2 : i ≥ 4294967295
        · simp [c1, c2] at h0
        · by_cases c3 : OttoVerif.C08.dec i.toNat ≠ name
          · simp [c1, c2, c3] at h0
          · simp only [c1, c2, c3, if_false] at h1
            refine ⟨i.toNat, by omega, ?_⟩
            exact Classical.not_not.mp c3
    | range => rw [hp] at h0; simp at h0
    | «syntax» => rw [hp] at h0; simp at h0
  · intro ⟨n, hn, hd⟩
    have hp := OttoVerif.C08.Thm.parseInt_dec n
    have h63 : ¬ n ≥ 2^63 := by omega
    simp only [h63, if_false] at hp
    rw [hd] at hp
    unfold stringToArrayIndex
    rw [hp]
    have c1 : ¬ ((n : Int) < 0) := by omega
    have c2 : ¬ ((n : Int) ≥ 4294967295) := by omega
    have c3 : ¬ (OttoVerif.C08.dec (n : Int).toNat ≠ name) := by simp [hd]
    simp only [c1, c2, c3, if_false]
    omega

/-- [[GetOwnProperty]] of a String object (§15.5.5.2) on every name, for every length a string can have -/
theorem strGetOwn_eq (stored : Layer) (len : Nat) (name : List Nat) (hlen : len < 2^32 - 1) :
    strGetOwn stored len name = Spec.strGetOwn stored len name := by
  have hg : Spec.getOwn stored name = getOwn stored name := rfl
  simp only [strGetOwn, Spec.strGetOwn, hg]
  cases getOwn stored name
  · simp only [Bool.false_eq_true, if_false, Bool.false_or]
    rw [Bool.eq_iff_iff]
    simp only [decide_eq_true_eq, List.any_eq_true, List.mem_range, beq_iff_eq]
    exact strIndex_iff len name hlen
  · simp

/-! ## Binary operators on resolved operands -/

/-- `binary` when the right operand needs no GetValue any more -/
def binaryV (E : Env) (op : BOp) (lv rv : Vl) (log : List String) : Res Vl := binary E op lv (.value rv) log

/-- every operator resolves its right operand (GetValue) before any conversion -/
theorem binary_getValue (E : Env) (op : BOp) (lv : Vl) (right : Rf) (log : List String) :
    binary E op lv right log = (getValue right log).bind (binaryV E op lv) := by
  cases op with
  | num o =>
    cases o <;> (simp only [binary]; apply bind_congr; intro rv l; simp only [binaryV, binary, getValue, bind_ok])
  | cmp c => simp only [binary]; apply bind_congr; intro rv l; simp only [binaryV, binary, getValue, bind_ok]
  | instOf => simp only [binary]; apply bind_congr; intro rv l; simp only [binaryV, binary, getValue, bind_ok]
  | inOp => simp only [binary]; apply bind_congr; intro rv l; simp only [binaryV, binary, getValue, bind_ok]

theorem spec_binNum_f64_l (E : Env) (o : BinOp) (p y : Val) :
    Spec.binNum E o (.f64 (Spec.toNumber E p)) y = Spec.binNum E o p y := by cases o <;> rfl
theorem spec_binNum_f64_r (E : Env) (o : BinOp) (x p : Val) :
    Spec.binNum E o x (.f64 (Spec.toNumber E p)) = Spec.binNum E o x p := by cases o <;> rfl

theorem toPrimV_prim (q : Val) (hint : Hint) (log : List String) : Spec.toPrimV (.prim q) hint log = .ok q log := rfl

/-- the numeric operators other than `+`: conversions (left first, hint Number), their log, the result -/
theorem binaryV_num_eq (E : Env) (o : BinOp) (ho : o ≠ .add) (lv rv : Vl) (log : List String) (hl : WFV lv) (hr : WFV rv) :
    binaryV E (.num o) lv rv log = Spec.binary E (.num o) lv rv log := by
  have hm : binaryV E (.num o) lv rv log =
      (numPrim E lv log).bind fun px l2 => (numPrim E rv l2).bind fun py l3 => .ok (.prim (binNum E o px py)) l3 := by
    cases o <;> first | exact absurd rfl ho | simp only [binaryV, binary, getValue, bind_ok]
  have hs : Spec.binary E (.num o) lv rv log =
      (Spec.toPrimV lv .number log).bind fun lp l1 => (Spec.toPrimV rv .number l1).bind fun rp l2 =>
        .ok (.prim (C05.Spec.binNum E o lp rp)) l2 := by
    cases o <;> first | exact absurd rfl ho | simp only [Spec.binary]
  rw [hm, hs]
  cases lv with
  | prim p =>
    cases rv with
    | prim q =>
      simp only [numPrim, toPrimV_prim, bind_ok, binNum_eq E o p q hl hr]
    | obj c =>
      simp only [numPrim_eq, toPrimV_prim, bind_ok, bind_assoc]
      apply bind_congr; intro rp l
      rw [binNum_eq E o p _ hl (WF_f64 _), spec_binNum_f64_r]
  | obj b =>
    cases rv with
    | prim q =>
      simp only [numPrim_eq, toPrimV_prim, bind_ok, bind_assoc]
      apply bind_congr; intro lp l
      rw [binNum_eq E o _ q (WF_f64 _) hr, spec_binNum_f64_l]
    | obj c =>
      simp only [numPrim_eq, bind_ok, bind_assoc]
      apply bind_congr; intro lp l
      apply bind_congr; intro rp l'
      rw [binNum_eq E o _ _ (WF_f64 _) (WF_f64 _), spec_binNum_f64_l, spec_binNum_f64_r]

/-- every binary operator on two values: conversions, their order, errors, result -/
theorem binaryV_eq (E : Env) (op : BOp) (lv rv : Vl) (log : List String) (hl : WFV lv) (hr : WFV rv) :
    binaryV E op lv rv log = Spec.binary E op lv rv log := by
  cases op with
  | num o =>
    by_cases ho : o = .add
    · subst ho
      simp only [binaryV, binary, Spec.binary, getValue, bind_ok, toPrimV_eq]
      apply bind_congr; intro lp l1
      apply bind_congr; intro rp l2
      rw [binNum_arith_eq E .add (Or.inl rfl)]
    · exact binaryV_num_eq E o ho lv rv log hl hr
  | cmp c => simp only [binaryV, binary, Spec.binary, getValue, bind_ok, apply_cmp_eq]
  | instOf =>
    simp only [binaryV, binary, Spec.binary, getValue, bind_ok]
    cases rv <;> simp only [hasInstance_eq]
  | inOp =>
    simp only [binaryV, binary, Spec.binary, getValue, bind_ok]
    cases rv <;> simp only [stringV_eq, getProperty_eq]

/-! ## The internal kind of an operand is irrelevant -/

/-- A number Value keeps the Go type it was made with (int32 out of `|`, uint32 out of `>>>`, int for `.length`,
    uint16 for charCodeAt, int64 for literals, whatever the embedder set): for ALL 11 arithmetic / bitwise / shift
    operators the result is what ES5 computes from the two NUMBER VALUES alone – the kind tags do not matter. -/
theorem binNum_kind_irrelevant (E : Env) (o : BinOp) (x y : Val) (hx : WF x) (hy : WF y) :
    binNum E o x y = Spec.binNum E o (.f64 (Spec.toNumber E x)) (.f64 (Spec.toNumber E y)) := by
  rw [binNum_eq E o x y hx hy, spec_binNum_f64_l, spec_binNum_f64_r]

/-- two operands denoting the same numbers give the same result, whatever their kinds -/
theorem binNum_same_numbers (E : Env) (o : BinOp) (x y x' y' : Val) (hx : WF x) (hy : WF y) (hx' : WF x') (hy' : WF y')
    (h1 : toFloat E x = toFloat E x') (h2 : toFloat E y = toFloat E y') : binNum E o x y = binNum E o x' y' := by
  rw [binNum_kind_irrelevant E o x y hx hy, binNum_kind_irrelevant E o x' y' hx' hy', ← toNumber_eq, ← toNumber_eq,
    ← toNumber_eq, ← toNumber_eq, h1, h2]

/-- the result of `+ - * / %` is float64-kinded (so it keeps the sign of a zero and is printed by the float
    formatter), that of `& | ^ << >>` int32-kinded and of `>>>` uint32-kinded (small integers: FormatInt prints
    the digits of the double) -/
theorem binNum_result_kind (E : Env) (o : BinOp) (x y : Val) :
    (∃ r, binNum E o x y = .f64 r) ∨ (∃ i, binNum E o x y = .int .i32 i) ∨ (∃ i, binNum E o x y = .int .u32 i) := by
  cases o <;> simp [binNum]

theorem binNum_arith_float (E : Env) (o : BinOp) (ho : o = .add ∨ o = .sub ∨ o = .mul ∨ o = .div ∨ o = .rem) (x y : Val) :
    ∃ r, binNum E o x y = .f64 r := by
  rcases ho with h | h | h | h | h <;> subst h <;> exact ⟨_, rfl⟩

/-- comparisons of two numbers depend on the number values only -/
theorem comparison_kind_irrelevant (E : Env) (c : Cmp) (x y : Val) (hx : Spec.isNum x = true) (hy : Spec.isNum y = true) :
    calculateComparison E c x y = Spec.compare E Spec.unitLt c (.f64 (Spec.toNumber E x)) (.f64 (Spec.toNumber E y)) := by
  rw [comparison_eq]
  cases x <;> simp [Spec.isNum] at hx <;> cases y <;> simp [Spec.isNum] at hy <;> cases c <;> rfl

/-! ## Operator results are well formed (so that results can be operands again) -/

theorem wrapS32_range (z : Int) : -(2^31 : Int) ≤ wrapS 32 z ∧ wrapS 32 z < 2^31 := by
  simp only [wrapS]; split <;> omega

theorem pow2_ge_one (k : Nat) : (1 : Int) ≤ 2 ^ k := by
  have : (0 : Int) < 2 ^ k := Int.pow_pos (by omega)
  omega

theorem sdiv_range (I p : Int) (hp : 1 ≤ p) (h : -(2^31 : Int) ≤ I ∧ I < 2^31) :
    -(2^31 : Int) ≤ I / p ∧ I / p < 2^31 := by
  constructor
  · apply Int.le_ediv_of_mul_le (by omega)
    have : (-(2^31 : Int)) * p ≤ -(2^31 : Int) * 1 := Int.mul_le_mul_of_nonpos_left (by omega) hp
    omega
  · apply Int.ediv_lt_of_lt_mul (by omega)
    have : (2^31 : Int) * 1 ≤ (2^31 : Int) * p := Int.mul_le_mul_of_nonneg_left hp (by omega)
    omega

theorem udiv_range (U p : Int) (hp : 1 ≤ p) (h : 0 ≤ U ∧ U < 2^32) : 0 ≤ U / p ∧ U / p < 2^32 := by
  constructor
  · exact Int.ediv_nonneg h.1 (by omega)
  · have := Int.ediv_le_self p h.1
    omega

theorem binNum_wf (E : Env) (o : BinOp) (x y : Val) (hx : WF x) (_hy : WF y) : WF (binNum E o x y) := by
  cases o <;> simp only [binNum, WF]
  · exact wrapS32_range _
  · exact wrapS32_range _
  · exact wrapS32_range _
  · exact wrapS32_range _
  · rw [toInt32_eq E x hx]; exact sdiv_range _ _ (pow2_ge_one _) (spec_toInt32_range E x)
  · rw [toUint32_eq E x hx]; exact udiv_range _ _ (pow2_ge_one _) (spec_toUint32_range E x)

theorem RAll_bind_any {α β : Type} (Q : β → Prop) (r : R α) (f : α → List String → R β)
    (hf : ∀ a l, RAll Q (f a l)) : RAll Q (r.bind f) := by
  cases r <;> simp only [R.bind, RAll]
  exact hf _ _

theorem RAll_bool (b : Bool) (l : List String) : RAll WF (R.ok (Val.bool b) l) := by simp [RAll, WF]

theorem apply_cmp_wf (E : Env) (c : Cmp) (x y : OV) : RAll WF (Obj.apply E (.cmp c) x y) := by
  cases c <;> cases x <;> cases y <;> simp only [Obj.apply] <;>
    repeat' first
      | exact RAll_bool _ _
      | (apply RAll_bind_any; intro _ _)
      | split

theorem ResAll_ofRPre {α : Type} (P : α → Prop) (log : List String) (r : R α) (h : RAll P r) :
    ResAll P (ofRPre log r) := by
  cases r <;> simpa [ofRPre, ResAll, RAll] using h

theorem numPrim_wf (E : Env) (v : Vl) (log : List String) (hv : WFV v) : ResAll WF (numPrim E v log) := by
  cases v with
  | prim p => exact hv
  | obj b =>
    simp only [numPrim]
    exact ResAll_bind (fun _ => True) WF _ _ (by cases float64V E (.obj b) log <;> trivial) (fun f l _ => WF_f64 f)

theorem unaryV_wf (E : Env) (op : UOp) (v : Vl) (log : List String) (hv : WFV v) : ResAll WFV (unaryV E op v log) := by
  cases op <;> simp only [unaryV]
  · -- plus
    exact ResAll_bind (fun _ => True) WFV _ _ (by cases float64V E v log <;> trivial) (fun f l _ => WF_f64 f)
  · exact ResAll_bind (fun _ => True) WFV _ _ (by cases float64V E v log <;> trivial) (fun f l _ => by simp [ResAll, WFV, WF])
  · -- bnot
    refine ResAll_bind WF WFV _ _ (numPrim_wf E v log hv) ?_
    intro p l hp
    simp only [ResAll, WFV, WF]
    rw [toInt32_eq E p hp]
    have := spec_toInt32_range E p
    omega
  · simp [ResAll, WFV, WF]
  · simp [ResAll, WFV, WF]
  · simp [ResAll, WFV, WF]

theorem unary_wf (E : Env) (op : UOp) (r : Rf) (log : List String) (hr : WFRf r) : ResAll WFV (unary E op r log) := by
  have key : ResAll WFV ((getValue r log).bind (unaryV E op)) :=
    ResAll_bind WFV WFV _ _ (getValue_wf r log hr) (fun a l ha => unaryV_wf E op a l ha)
  cases op <;> cases r <;> simp only [unary] <;> first | exact key | simp [ResAll, WFV, WF]

theorem toPrimitive_wf (v : Vl) (hint : Hint) (log : List String) (hv : WFV v) :
    ResAll WF (ofR (toPrimitive v.toOV hint log)) := by
  apply ResAll_ofR
  cases v with
  | prim p => exact hv
  | obj b => exact defaultValue_wf b.o hint log hv

theorem binary_wf (E : Env) (op : BOp) (lv : Vl) (right : Rf) (log : List String) (hl : WFV lv) (hr : WFRf right) :
    ResAll WFV (binary E op lv right log) := by
  cases op with
  | num o =>
    by_cases ho : o = .add
    · subst ho
      simp only [binary]
      refine ResAll_bind WFV WFV _ _ (getValue_wf right log hr) ?_
      intro rv l1 hrv
      refine ResAll_bind WF WFV _ _ (toPrimitive_wf lv .none l1 hl) ?_
      intro lp l2 hlp
      refine ResAll_bind WF WFV _ _ (toPrimitive_wf rv .none l2 hrv) ?_
      intro rp l3 hrp
      split
      · simp [ResAll, WFV, WF]
      · exact binNum_wf E .add lp rp hlp hrp
    · rw [binary_getValue E (.num o) lv right log]
      refine ResAll_bind WFV WFV _ _ (getValue_wf right log hr) ?_
      intro rv l1 hrv
      have hm : binaryV E (.num o) lv rv l1 =
          (numPrim E lv l1).bind fun px l2 => (numPrim E rv l2).bind fun py l3 => .ok (.prim (binNum E o px py)) l3 := by
        cases o <;> first | exact absurd rfl ho | simp only [binaryV, binary, getValue, bind_ok]
      rw [hm]
      refine ResAll_bind WF WFV _ _ (numPrim_wf E lv l1 hl) ?_
      intro px l2 hpx
      refine ResAll_bind WF WFV _ _ (numPrim_wf E rv l2 hrv) ?_
      intro py l3 hpy
      exact binNum_wf E o px py hpx hpy
  | cmp c =>
    simp only [binary]
    refine ResAll_bind WFV WFV _ _ (getValue_wf right log hr) ?_
    intro rv l1 _
    refine ResAll_bind WF WFV _ _ (ResAll_ofRPre WF l1 _ (apply_cmp_wf E c _ _)) ?_
    intro r l2 h
    exact h
  | instOf =>
    simp only [binary]
    refine ResAll_bind WFV WFV _ _ (getValue_wf right log hr) ?_
    intro rv l1 _
    cases rv with
    | prim _ => trivial
    | obj f =>
      refine ResAll_bind (fun _ => True) WFV _ _ (by cases hasInstance f.fk lv l1 <;> trivial) ?_
      intro r l2 _
      simp [ResAll, WFV, WF]
  | inOp =>
    simp only [binary]
    refine ResAll_bind WFV WFV _ _ (getValue_wf right log hr) ?_
    intro rv l1 _
    cases rv with
    | prim _ => trivial
    | obj f =>
      refine ResAll_bind (fun _ => True) WFV _ _ (by cases stringV E lv l1 <;> trivial) ?_
      intro r l2 _
      simp [ResAll, WFV, WF]

theorem ResAll_true {α : Type} (r : Res α) : ResAll (fun _ => True) r := by cases r <;> trivial

theorem propGet_wf (p : PropK) (log : List String) (h : WFPropK p) : ResAll WFV (propGet p log) := by
  cases p <;> exact h

theorem eval_wf (E : Env) (e : Ex) (h : WFEx e) : ∀ log, ResAll WFRf (eval E e log) := by
  induction e with
  | leaf r => intro log; exact h
  | seq t e ih =>
    intro log
    simp only [eval]
    refine ResAll_bind WFRf WFRf _ _ (ih h _) ?_
    intro r l1 hr
    exact ResAll_bind WFV WFRf _ _ (getValue_wf r l1 hr) (fun v l2 hv => hv)
  | un op e ih =>
    intro log
    simp only [eval]
    refine ResAll_bind WFRf WFRf _ _ (ih h _) ?_
    intro r l1 hr
    exact ResAll_bind WFV WFRf _ _ (unary_wf E op r l1 hr) (fun v l2 hv => hv)
  | bin op a b iha ihb =>
    intro log
    simp only [eval]
    refine ResAll_bind WFRf WFRf _ _ (iha h.1 _) ?_
    intro left l1 hleft
    refine ResAll_bind WFV WFRf _ _ (getValue_wf left l1 hleft) ?_
    intro lv l2 hlv
    refine ResAll_bind WFRf WFRf _ _ (ihb h.2 _) ?_
    intro right l3 hright
    exact ResAll_bind WFV WFRf _ _ (binary_wf E op lv right l3 hlv hright) (fun v l4 hv => hv)
  | and a b iha ihb =>
    intro log
    simp only [eval]
    refine ResAll_bind WFRf WFRf _ _ (iha h.1 _) ?_
    intro left l1 hleft
    refine ResAll_bind WFV WFRf _ _ (getValue_wf left l1 hleft) ?_
    intro lv l2 hlv
    split
    · exact hlv
    · refine ResAll_bind WFRf WFRf _ _ (ihb h.2 _) ?_
      intro right l3 hright
      exact ResAll_bind WFV WFRf _ _ (getValue_wf right l3 hright) (fun v l4 hv => hv)
  | or a b iha ihb =>
    intro log
    simp only [eval]
    refine ResAll_bind WFRf WFRf _ _ (iha h.1 _) ?_
    intro left l1 hleft
    refine ResAll_bind WFV WFRf _ _ (getValue_wf left l1 hleft) ?_
    intro lv l2 hlv
    split
    · exact hlv
    · refine ResAll_bind WFRf WFRf _ _ (ihb h.2 _) ?_
      intro right l3 hright
      exact ResAll_bind WFV WFRf _ _ (getValue_wf right l3 hright) (fun v l4 hv => hv)
  | cond c t f ihc iht ihf =>
    intro log
    simp only [eval]
    refine ResAll_bind WFRf WFRf _ _ (ihc h.1 _) ?_
    intro test l1 htest
    refine ResAll_bind WFV WFRf _ _ (getValue_wf test l1 htest) ?_
    intro tv l2 _
    split
    · refine ResAll_bind WFRf WFRf _ _ (iht h.2.1 _) ?_
      intro r l3 hr
      exact ResAll_bind WFV WFRf _ _ (getValue_wf r l3 hr) (fun v l4 hv => hv)
    · refine ResAll_bind WFRf WFRf _ _ (ihf h.2.2 _) ?_
      intro r l3 hr
      exact ResAll_bind WFV WFRf _ _ (getValue_wf r l3 hr) (fun v l4 hv => hv)
  | asg o lref r ih =>
    intro log
    simp only [eval]
    refine ResAll_bind WFV WFRf _ _ (getValue_wf lref log h.1) ?_
    intro lv l1 hlv
    refine ResAll_bind WFRf WFRf _ _ (ih h.2 _) ?_
    intro right l2 hright
    refine ResAll_bind WFV WFRf _ _ (getValue_wf right l2 hright) ?_
    intro rv l3 hrv
    exact ResAll_bind WFV WFRf _ _ (binary_wf E (.num o) lv (.value rv) l3 hlv hrv) (fun v l4 hv => hv)
  | asgMem o b k p r ihb ihk ihr =>
    intro log
    simp only [eval]
    refine ResAll_bind (fun _ => True) WFRf _ _ (ResAll_true _) (fun _ _ _ => ?_)
    refine ResAll_bind (fun _ => True) WFRf _ _ (ResAll_true _) (fun _ _ _ => ?_)
    refine ResAll_bind (fun _ => True) WFRf _ _ (ResAll_true _) (fun _ _ _ => ?_)
    refine ResAll_bind (fun _ => True) WFRf _ _ (ResAll_true _) (fun _ _ _ => ?_)
    refine ResAll_bind (fun _ => True) WFRf _ _ (ResAll_true _) (fun _ l5 _ => ?_)
    refine ResAll_bind WFV WFRf _ _ (propGet_wf p l5 h.2.2.1) ?_
    intro lv l6 hlv
    refine ResAll_bind WFRf WFRf _ _ (ihr h.2.2.2 _) ?_
    intro right l7 hright
    refine ResAll_bind WFV WFRf _ _ (getValue_wf right l7 hright) ?_
    intro rv l8 hrv
    exact ResAll_bind WFV WFRf _ _ (binary_wf E (.num o) lv (.value rv) l8 hlv hrv) (fun v l9 hv => hv)

/-! ## Expressions: otto's evaluator = the ES5 evaluation -/

/-- GetValue of whatever the evaluation yields -/
def gv (r : Res Rf) : Res Vl := r.bind getValue

/-- a value as the result of an evaluation -/
def K (v : Vl) (l : List String) : Res Rf := .ok (.value v) l

theorem gv_wf (E : Env) (e : Ex) (h : WFEx e) (log : List String) : ResAll WFV (gv (eval E e log)) :=
  ResAll_bind WFRf WFV _ _ (eval_wf E e h log) (fun r l hr => getValue_wf r l hr)

theorem eval_seq (E : Env) (t : String) (e : Ex) (log : List String) :
    eval E (.seq t e) log = (gv (eval E e (log ++ [t]))).bind K := by
  rw [gv, bind_assoc]; rfl
theorem spec_seq (E : Env) (t : String) (e : Ex) (log : List String) :
    Spec.eval E (.seq t e) log = (gv (Spec.eval E e (log ++ [t]))).bind K := by
  rw [gv, bind_assoc]; rfl

theorem eval_un (E : Env) (op : UOp) (e : Ex) (log : List String) :
    eval E (.un op e) log = (eval E e log).bind fun target l1 => (unary E op target l1).bind K := rfl
theorem spec_un (E : Env) (op : UOp) (e : Ex) (log : List String) :
    Spec.eval E (.un op e) log = (Spec.eval E e log).bind fun r l1 => (Spec.unary E op r l1).bind K := rfl

theorem eval_bin (E : Env) (op : BOp) (a b : Ex) (log : List String) :
    eval E (.bin op a b) log = (gv (eval E a log)).bind fun lv l2 =>
      (gv (eval E b l2)).bind fun rv l4 => (binaryV E op lv rv l4).bind K := by
  rw [gv, bind_assoc]
  simp only [eval, gv, bind_assoc, binary_getValue]
  rfl
theorem spec_bin (E : Env) (op : BOp) (a b : Ex) (log : List String) :
    Spec.eval E (.bin op a b) log = (gv (Spec.eval E a log)).bind fun lv l2 =>
      (gv (Spec.eval E b l2)).bind fun rv l4 => (Spec.binary E op lv rv l4).bind K := by
  rw [gv, bind_assoc]
  simp only [Spec.eval, gv, bind_assoc]
  rfl

theorem eval_and (E : Env) (a b : Ex) (log : List String) :
    eval E (.and a b) log = (gv (eval E a log)).bind fun lv l2 =>
      if !boolV lv then K lv l2 else (gv (eval E b l2)).bind K := by
  rw [gv, bind_assoc]
  simp only [eval, gv, bind_assoc]
  rfl
theorem spec_and (E : Env) (a b : Ex) (log : List String) :
    Spec.eval E (.and a b) log = (gv (Spec.eval E a log)).bind fun lv l2 =>
      if !Spec.toBooleanV lv then K lv l2 else (gv (Spec.eval E b l2)).bind K := by
  rw [gv, bind_assoc]
  simp only [Spec.eval, gv, bind_assoc]
  rfl
theorem eval_or (E : Env) (a b : Ex) (log : List String) :
    eval E (.or a b) log = (gv (eval E a log)).bind fun lv l2 =>
      if boolV lv then K lv l2 else (gv (eval E b l2)).bind K := by
  rw [gv, bind_assoc]
  simp only [eval, gv, bind_assoc]
  rfl
theorem spec_or (E : Env) (a b : Ex) (log : List String) :
    Spec.eval E (.or a b) log = (gv (Spec.eval E a log)).bind fun lv l2 =>
      if Spec.toBooleanV lv then K lv l2 else (gv (Spec.eval E b l2)).bind K := by
  rw [gv, bind_assoc]
  simp only [Spec.eval, gv, bind_assoc]
  rfl

theorem eval_cond (E : Env) (c t f : Ex) (log : List String) :
    eval E (.cond c t f) log = (gv (eval E c log)).bind fun tv l2 =>
      if boolV tv then (gv (eval E t l2)).bind K else (gv (eval E f l2)).bind K := by
  rw [gv, bind_assoc]
  simp only [eval, gv, bind_assoc]
  rfl
theorem spec_cond (E : Env) (c t f : Ex) (log : List String) :
    Spec.eval E (.cond c t f) log = (gv (Spec.eval E c log)).bind fun tv l2 =>
      if Spec.toBooleanV tv then (gv (Spec.eval E t l2)).bind K else (gv (Spec.eval E f l2)).bind K := by
  rw [gv, bind_assoc]
  simp only [Spec.eval, gv, bind_assoc]
  rfl

theorem isNullishV_cases (bv : Vl) : isNullishV bv = true ↔ (bv = .prim .undef ∨ bv = .prim .null) := by
  cases bv with
  | prim p => cases p <;> simp [isNullishV]
  | obj b => simp [isNullishV]

/-- a member reference `b[k]`: TypeError for an undefined/null base BEFORE the key is converted, else
    ToString of the key (hint String on objects, logged) -/
theorem memberRef_eq (E : Env) (bv kv : Vl) (log : List String) : memberRef E bv kv log = Spec.memberRef E bv kv log := by
  cases bv with
  | prim p => cases p <;> simp [memberRef, Spec.memberRef, isNullishV, stringV_eq]
  | obj b => simp [memberRef, Spec.memberRef, isNullishV, stringV_eq]

theorem propGet_eq (p : PropK) (log : List String) : propGet p log = Spec.propGet p log := by cases p <;> rfl
theorem propPut_eq (p : PropK) (log : List String) : propPut p log = Spec.propPut p log := by cases p <;> rfl

/-- THE EXPRESSION THEOREM.  For every expression tree (unary, arithmetic, bitwise, shift, relational,
    equality, instanceof, in, && || ?:, comma; operands of any shape: scripted objects, getters, undeclared
    identifiers) and every starting log, otto's evaluation IS the ES5 evaluation: the same Reference or value
    or thrown error, and the same complete log of side effects, i.e. the order of operand evaluation
    (GetValue) and of every valueOf/toString call.  No deviation region. -/
theorem eval_eq (E : Env) (e : Ex) (hwf : WFEx e) : ∀ log, eval E e log = Spec.eval E e log := by
  induction e with
  | leaf r => intro log; rfl
  | seq t e ih => intro log; rw [eval_seq, spec_seq, ih hwf]
  | un op e ih =>
    intro log
    rw [eval_un, spec_un, ← ih hwf log]
    apply bind_congr_on
    intro a l ea
    rw [unary_eq E op a l (ResAll_ok WFRf _ (eval_wf E e hwf log) a l ea)]
  | bin op a b iha ihb =>
    intro log
    rw [eval_bin, spec_bin, ← iha hwf.1 log]
    apply bind_congr_on
    intro lv l2 elv
    have hlv : WFV lv := ResAll_ok WFV _ (gv_wf E a hwf.1 log) lv l2 elv
    rw [← ihb hwf.2 l2]
    apply bind_congr_on
    intro rv l4 erv
    have hrv : WFV rv := ResAll_ok WFV _ (gv_wf E b hwf.2 l2) rv l4 erv
    rw [binaryV_eq E op lv rv l4 hlv hrv]
  | and a b iha ihb =>
    intro log
    rw [eval_and, spec_and, iha hwf.1 log]
    apply bind_congr
    intro lv l2
    rw [boolV_eq, ihb hwf.2 l2]
  | or a b iha ihb =>
    intro log
    rw [eval_or, spec_or, iha hwf.1 log]
    apply bind_congr
    intro lv l2
    rw [boolV_eq, ihb hwf.2 l2]
  | cond c t f ihc iht ihf =>
    intro log
    rw [eval_cond, spec_cond, ihc hwf.1 log]
    apply bind_congr
    intro tv l2
    rw [boolV_eq, iht hwf.2.1 l2, ihf hwf.2.2 l2]
  | asg o lref r ih =>
    intro log
    simp only [eval, Spec.eval]
    apply bind_congr_on
    intro lv l1 elv
    have hlv : WFV lv := ResAll_ok WFV _ (getValue_wf lref log hwf.1) lv l1 elv
    rw [← ih hwf.2 l1]
    apply bind_congr_on
    intro right l2 er
    have hright : WFRf right := ResAll_ok WFRf _ (eval_wf E r hwf.2 l1) right l2 er
    apply bind_congr_on
    intro rv l3 erv
    have hrv : WFV rv := ResAll_ok WFV _ (getValue_wf right l2 hright) rv l3 erv
    have := binaryV_eq E (.num o) lv rv l3 hlv hrv
    simp only [binaryV] at this
    rw [this]
  | asgMem o b k p r ihb ihk ihr =>
    intro log
    simp only [eval, Spec.eval]
    rw [← ihb hwf.1 log]
    apply bind_congr; intro t l1
    apply bind_congr; intro bv l2
    rw [← ihk hwf.2.1 l2]
    apply bind_congr; intro m l3
    apply bind_congr; intro kv l4
    rw [memberRef_eq]
    apply bind_congr; intro _ l5
    rw [propGet_eq]
    apply bind_congr_on
    intro lv l6 elv
    have hlv : WFV lv := by
      have := propGet_wf p l5 hwf.2.2.1
      rw [propGet_eq] at this
      exact ResAll_ok WFV _ this lv l6 elv
    rw [← ihr hwf.2.2.2 l6]
    apply bind_congr_on
    intro right l7 er
    have hright : WFRf right := ResAll_ok WFRf _ (eval_wf E r hwf.2.2.2 l6) right l7 er
    apply bind_congr_on
    intro rv l8 erv
    have hrv : WFV rv := ResAll_ok WFV _ (getValue_wf right l7 hright) rv l8 erv
    have := binaryV_eq E (.num o) lv rv l8 hlv hrv
    simp only [binaryV] at this
    rw [this]
    apply bind_congr; intro res l9
    rw [propPut_eq]

/-- the expression in a value context: result (or error) and complete effect log -/
theorem run_eq (E : Env) (e : Ex) (hwf : WFEx e) : run E e = Spec.run E e := by
  simp only [run, Spec.run, eval_eq E e hwf]

/-! ## Corollaries -/

/-- ORDER OF EVALUATION: for EVERY binary operator (arithmetic, bitwise, shift, relational, equality,
    instanceof, in) applied to two side-effecting operand expressions `(log(tl), x)` and `(log(tr), y)` with
    x, y any values (scripted objects included): same result or error and the same log — tl, tr, then the
    conversions the operator prescribes, left before right. -/
theorem tagged_operands_eq (E : Env) (op : BOp) (tl tr : String) (lv rv : Vl) (hl : WFV lv) (hr : WFV rv) :
    run E (.bin op (.seq tl (.leaf (.value lv))) (.seq tr (.leaf (.value rv)))) =
    Spec.run E (.bin op (.seq tl (.leaf (.value lv))) (.seq tr (.leaf (.value rv)))) :=
  run_eq E _ ⟨hl, hr⟩

/-- §11.11: when ToBoolean(left) decides, the right operand is NOT evaluated: the result is the left VALUE
    and the log holds nothing of `b` (for any `b` whatsoever, in otto and in ES5) -/
theorem and_short_circuit (E : Env) (lv : Vl) (b : Ex) (h : boolV lv = false) :
    run E (.and (.leaf (.value lv)) b) = .ok lv [] ∧ Spec.run E (.and (.leaf (.value lv)) b) = .ok lv [] := by
  have h' : Spec.toBooleanV lv = false := by rw [← boolV_eq]; exact h
  simp [run, Spec.run, eval, Spec.eval, getValue, h, h']

theorem or_short_circuit (E : Env) (lv : Vl) (b : Ex) (h : boolV lv = true) :
    run E (.or (.leaf (.value lv)) b) = .ok lv [] ∧ Spec.run E (.or (.leaf (.value lv)) b) = .ok lv [] := by
  have h' : Spec.toBooleanV lv = true := by rw [← boolV_eq]; exact h
  simp [run, Spec.run, eval, Spec.eval, getValue, h, h']

/-- ToBoolean never calls valueOf/toString: an object operand decides `&&`, `||`, `?:`, `!` with an empty log -/
theorem toBoolean_object_silent (E : Env) (o : Ob) :
    run E (.un .lnot (.leaf (.value (.obj o)))) = .ok (.prim (.bool false)) [] := by
  simp [run, eval, unary, unaryV, boolV, getValue]

/-! ## Non-vacuity (kernel-evaluated) -/

def E0 : Env := ⟨fun _ => .nan⟩
def plainObj (id : Nat) (chain : List Nat) (v s : Beh) : Vl := .obj ⟨⟨id, false, v, s⟩, .none, chain, []⟩
def fnObj (id : Nat) (fk : FK) : Vl := .obj ⟨⟨id, false, .notCallable, .notCallable⟩, fk, [101, 100], []⟩

/-- F.prototype instanceof F is false (the walk starts at V.[[Prototype]]) … -/
example : run E0 (.bin .instOf (.leaf (.value (plainObj 1 [100] .obj .obj))) (.leaf (.value (fnObj 2 (.fn (some 1))))))
    = .ok (.prim (.bool false)) [] := by decide
/-- … an ancestor is found through a bound-of-bound function, and no conversion method is called -/
example : run E0 (.bin .instOf (.leaf (.value (plainObj 1 [7, 8, 100] .obj .obj)))
    (.leaf (.value (fnObj 2 (.bound (.bound (.fn (some 8)))))))) = .ok (.prim (.bool true)) [] := by decide
/-- a primitive on the left is false even when F.prototype is not an object; an object there is a TypeError -/
example : run E0 (.bin .instOf (.leaf (.value (.prim .null))) (.leaf (.value (fnObj 2 (.fn none)))))
    = .ok (.prim (.bool false)) [] := by decide
example : run E0 (.bin .instOf (.leaf (.value (plainObj 1 [100] .obj .obj))) (.leaf (.value (fnObj 2 (.fn none)))))
    = .typeError [] := by decide

/-- `in`: ToString of an object key uses hint String (toString first), the chain is searched -/
example : run E0 (.bin .inOp (.leaf (.value (plainObj 1 [100] (.prim (.str [98])) (.prim (.str [97])))))
    (.leaf (.value (.obj ⟨⟨2, false, .obj, .obj⟩, .none, [9], [[[120]], [[97]]]⟩)))) = .ok (.prim (.bool true)) ["1s"] := by decide

/-- typeof (true ? undeclared : undefined) throws: `?:` does GetValue on its branch (was region `cond_reference`) -/
example : run E0 (.un .typeof (.cond (.leaf (.value (.prim (.bool true)))) (.leaf .unres) (.leaf (.value (.prim .undef)))))
    = .refError [] := by decide

/-- `a + g.p` runs the getter before a.valueOf (was region `plus_getvalue_late`) -/
example : (match run E0 (.bin (.num .add) (.leaf (.value (plainObj 1 [100] (.prim (.bool true)) .notCallable)))
        (.leaf (.getter "G" (.prim (.bool true))))) with
    | .ok _ ["G", "1v"] => true
    | _ => false) = true := by decide

/-- compound assignment (§11.13.2): the old value is read (getter G) BEFORE the right side is evaluated (R);
    `b[k] -= r`: b, k, ToString(k), [[Get]], r, the conversions of `-`, [[Put]] -/
example : (match run E0 (.asgMem .sub (.seq "B" (.leaf (.value (plainObj 1 [100] .obj .obj))))
        (.seq "K" (.leaf (.value (plainObj 7 [100] .obj (.prim (.str [112])))))) (.acc "G" "S" (.prim (.int .i8 1)))
        (.seq "R" (.leaf (.value (plainObj 8 [100] (.prim (.bool true)) .obj))))) with
    | .ok _ ["B", "K", "7s", "G", "R", "8v", "S"] => true
    | _ => false) = true := by decide
/-- `undeclared += (log("R"), 1)`: ReferenceError from GetValue(lref), R is never logged -/
example : run E0 (.asg .add .unres (.seq "R" (.leaf (.value (.prim (.bool true)))))) = .refError [] := by decide
/-- `null[k] += …`: TypeError before the key's toString runs -/
example : run E0 (.asgMem .add (.leaf (.value (.prim .null))) (.leaf (.value (plainObj 7 [100] .obj (.prim (.str [112])))))
    (.data (.prim .undef)) (.leaf (.value (.prim .undef)))) = .typeError [] := by decide

/-- the hypothesis of `run_eq` holds for a nested tree with an object, a getter and an undeclared identifier:
    `!( (log("T"), o) && (g.p - undeclared) )` -/
example : WFEx (.un .lnot (.and (.seq "T" (.leaf (.value (plainObj 1 [100] .obj .obj))))
      (.bin (.num .sub) (.leaf (.getter "G" (.prim (.int .i8 5)))) (.leaf .unres)))) := by
  simp [WFEx, WFRf, WFV, WFObj, WFBeh, plainObj, WF]

end OttoVerif.C05.Ops2Thm
