/-
  C05/Ops2 — the operators C05 lists that Model/Obj do not cover: unary `+ - ~ ! typeof void`,
  `instanceof`, `in`, `&& || ?:`, the bitwise/shift operators on object operands, and the order in
  which operand EXPRESSIONS are evaluated (GetValue) relative to each other and to the conversions.

  The unit of modelling is a small expression language `Ex` (leaves = a variable holding a value, an
  undeclared identifier, a property with a logging getter; `(log(t), e)`; unary; binary; `&&`; `||`;
  `?:`; compound assignment `x op= e` and `b[k] op= e`).  Every side effect is an append to a log, so "what was called, in which order" is part of
  the result.

  MODEL  = otto: cmpl_evaluate_expression.go cmplEvaluateNodeUnaryExpression (l.347),
           cmplEvaluateNodeBinaryExpression (l.138), …Comparison (l.161), …ConditionalExpression
           (l.248), …SequenceExpression (l.338), …AssignExpression (l.118), …BracketExpression (l.168);
           evaluate.go calculateBinaryExpression (l.53);
           type_function.go isCall (l.152), hasInstance (l.253); object_class.go objectGetProperty
           (l.184), objectHasProperty (l.311); type_string.go stringGetOwnProperty (l.103);
           value_number.go float64 (l.46) / toInt32 (l.208) / toUint32 (l.228) and value_string.go
           string (l.48), value_boolean.go bool (l.10) as they treat objects.
  SPEC   = ES5 §11.4.2–11.4.9, §11.5–11.7, §11.2.1, §11.8.6, §11.8.7, §11.10, §11.11, §11.12, §11.13.2, §11.14,
           §8.7.1 GetValue, §8.12.6, §9.2, §9.3, §9.5, §9.6, §9.8, §15.3.5.3, §15.3.4.5.3, §15.5.5.2.
-/
import OttoVerif.C05.Obj
import OttoVerif.C08.Model
namespace OttoVerif.C05.Ops2
open OttoVerif.F64 OttoVerif.C05 OttoVerif.C05.Obj

/-! ## Values -/

/-- what an object is as a function (type_function.go: nodeFunctionObject / nativeFunctionObject /
    bindFunctionObject, or none of them) -/
inductive FK where
  | none                          -- no [[Call]]: not a function object
  | fn (proto : Option Nat)       -- a function; its `prototype` property holds the object with that id
                                  -- (`Option.none`: it holds a non-object, or is absent)
  | bound (target : FK)           -- result of Function.prototype.bind on `target`
deriving DecidableEq, Repr, Inhabited

/-- one object of a prototype chain as [[HasProperty]] sees it: the names (UTF-8 bytes) for which
    [[GetOwnProperty]] answers.  (For a String object the index names are computed, not stored: that
    computation is modelled separately below, `strGetOwn`.) -/
abbrev Layer := List (List Nat)

/-- an object operand: scripted conversions (Obj.ObjV), function-ness, the ids of its [[Prototype]]
    ancestors (nearest first), and the property view of the object itself followed by its ancestors -/
structure Ob where
  o : ObjV
  fk : FK
  chain : List Nat
  layers : List Layer
deriving DecidableEq, Repr, Inhabited

inductive Vl where
  | prim (v : Val)
  | obj (b : Ob)
deriving DecidableEq, Repr, Inhabited

def Vl.toOV : Vl → OV
  | .prim v => .prim v
  | .obj b => .obj b.o

/-- what evaluating an expression yields BEFORE GetValue (§8.7): a value, or a reference -/
inductive Rf where
  | value (v : Vl)                     -- a value, or a reference whose GetValue is pure (declared variable)
  | unres                              -- an unresolvable reference (undeclared identifier)
  | getter (tag : String) (v : Vl)     -- a property reference to an accessor: GetValue logs `tag`, yields v
deriving DecidableEq, Repr, Inhabited

inductive UOp | plus | neg | bnot | lnot | typeof | void
deriving DecidableEq, Repr

inductive BOp where
  | num (o : BinOp)      -- + - * / % & | ^ << >> >>>
  | cmp (c : Cmp)        -- < > <= >= == != === !==
  | instOf
  | inOp
deriving DecidableEq, Repr

/-- the property a member reference `b[k]` designates: a data property holding v, or an accessor whose
    getter logs `gtag` and returns v and whose setter logs `stag` -/
inductive PropK where
  | data (v : Vl)
  | acc (gtag stag : String) (v : Vl)
deriving DecidableEq, Repr, Inhabited

inductive Ex where
  | leaf (r : Rf)
  | seq (tag : String) (e : Ex)        -- (log(tag), e)
  | un (op : UOp) (e : Ex)
  | bin (op : BOp) (a b : Ex)
  | and (a b : Ex)
  | or (a b : Ex)
  | cond (c t f : Ex)
  | asg (o : BinOp) (lref : Rf) (r : Ex)                 -- `x op= r`, `undeclared op= r`, `g.p op= r`
  | asgMem (o : BinOp) (b k : Ex) (p : PropK) (r : Ex)   -- `b[k] op= r`; the reference designates property p
deriving Repr, Inhabited

/-! ## Results with a log -/

inductive Res (α : Type) where
  | ok (a : α) (log : List String)
  | typeError (log : List String)
  | refError (log : List String)
  | thrown (v : Val) (log : List String)
deriving Repr, DecidableEq

def Res.bind {α β : Type} (r : Res α) (f : α → List String → Res β) : Res β :=
  match r with
  | .ok a log => f a log
  | .typeError log => .typeError log
  | .refError log => .refError log
  | .thrown v log => .thrown v log

/-- a result of the Obj machinery (whose log already extends the one passed in) -/
def ofR {α : Type} : R α → Res α
  | .ok a l => .ok a l
  | .typeError l => .typeError l
  | .thrown v l => .thrown v l

/-- Obj.apply starts from the empty log; put the history so far in front -/
def ofRPre {α : Type} (log : List String) : R α → Res α
  | .ok a l => .ok a (log ++ l)
  | .typeError l => .typeError (log ++ l)
  | .thrown v l => .thrown v (log ++ l)

/-- Value.resolve (value.go:476) / §8.7.1 GetValue -/
def getValue (r : Rf) (log : List String) : Res Vl :=
  match r with
  | .value v => .ok v log
  | .unres => .refError log                       -- type_reference.go:34 panicReferenceError / §8.7.1 step 3
  | .getter t v => .ok v (log ++ [t])

def bytes (s : String) : List Nat := OttoVerif.Str.ofString s

/-! ## MODEL: conversions of a Value that may be an object -/

/-- Value.bool (value_boolean.go:10): an object is true, nothing is called -/
def boolV : Vl → Bool
  | .prim p => toBool p
  | .obj _ => true

/-- Value.float64 (value_number.go:46): `*object` → DefaultValue(hintNumber).float64() -/
def float64V (E : Env) (v : Vl) (log : List String) : Res FV :=
  match v with
  | .prim p => .ok (toFloat E p) log
  | .obj b => (ofR (defaultValue b.o .number log)).bind fun p l => .ok (toFloat E p) l

/-- the operand as toInt32/toUint32/float64 see it: a primitive is passed as is (integer kinds keep their
    fast paths); an object falls to `value.float64()` (value_number.go:218/242), i.e. a float64 -/
def numPrim (E : Env) (v : Vl) (log : List String) : Res Val :=
  match v with
  | .prim p => .ok p log
  | .obj _ => (float64V E v log).bind fun f l => .ok (.f64 f) l

/-- Value.string (value_string.go:48): `*object` → DefaultValue(hintString).string() -/
def stringV (E : Env) (v : Vl) (log : List String) : Res (List Nat) :=
  match v with
  | .prim p => .ok (primToStr E p) log
  | .obj b => (ofR (defaultValue b.o .string log)).bind fun p l => .ok (primToStr E p) l

/-! ## MODEL: unary operators (cmpl_evaluate_expression.go:347) -/

/-- math.Copysign -/
def copysign (x y : FV) : FV :=
  match x with
  | .nan => .nan
  | .inf _ => .inf (signBit y)
  | .fin _ m e => .fin (signBit y) m e

/-- object.isCall (type_function.go:152) -/
def isCall : FK → Bool
  | .none => false
  | _ => true

/-- the `typeof` switch on targetValue.kind (l.419–439) -/
def typeofV : Vl → List Nat
  | .prim .undef => bytes "undefined"
  | .prim .null => bytes "object"
  | .prim (.bool _) => bytes "boolean"
  | .prim (.int ..) => bytes "number"
  | .prim (.f64 _) => bytes "number"
  | .prim (.str _) => bytes "string"
  | .obj b => if isCall b.fk then bytes "function" else bytes "object"

/-- the operator applied to `target.resolve()` -/
def unaryV (E : Env) (op : UOp) (tv : Vl) (log : List String) : Res Vl :=
  match op with
  | .lnot => .ok (.prim (.bool (if boolV tv then false else true))) log          -- l.360
  | .bnot => (numPrim E tv log).bind fun p l => .ok (.prim (.int .i32 (-(toInt32 E p) - 1))) l   -- l.366 `^integerValue`
  | .plus => (float64V E tv log).bind fun f l => .ok (.prim (.f64 f)) l          -- l.370
  | .neg => (float64V E tv log).bind fun f l =>                                    -- l.373
      .ok (.prim (.f64 (copysign f (if signBit f then one else neg one)))) l
  | .void => .ok (.prim .undef) log                                                -- l.410
  | .typeof => .ok (.prim (.str (typeofV tv))) log                                 -- l.419

/-- cmplEvaluateNodeUnaryExpression: `typeof` of an invalid reference answers without resolving (l.350) -/
def unary (E : Env) (op : UOp) (target : Rf) (log : List String) : Res Vl :=
  match op, target with
  | .typeof, .unres => .ok (.prim (.str (bytes "undefined"))) log
  | _, _ => (getValue target log).bind (unaryV E op)

/-! ## MODEL: instanceof, in -/

/-- the loop of hasInstance (type_function.go:271): `value` runs over V.[[Prototype]], its prototype, … -/
def walk (prototypeObject : Nat) : List Nat → Bool
  | [] => false
  | value :: rest => if value = prototypeObject then true else walk prototypeObject rest

/-- object.hasInstance (type_function.go:253) -/
def hasInstance (f : FK) (v : Vl) (log : List String) : Res Bool :=
  match f with
  | .none => .typeError log                            -- !o.isCall()
  | .bound t => hasInstance t v log                    -- fn.target.hasInstance(of)
  | .fn proto =>
    match v with
    | .prim _ => .ok false log                         -- !of.IsObject()
    | .obj b =>
      match proto with
      | none => .typeError log                         -- !prototype.IsObject()
      | some p => .ok (walk p b.chain) log

/-- objectGetOwnProperty (object_class.go:174): readProperty on the stored names -/
def getOwn (L : Layer) (name : List Nat) : Bool := L.contains name

/-- stringToArrayIndex (otto_.go:33): strconv.ParseInt(name, 10, 64), rejected when negative, ≥ 2^32−1, or
    not the canonical numeral (strconv.FormatInt(index, 10) != name) -/
def stringToArrayIndex (name : List Nat) : Int :=
  match OttoVerif.GoStd.parseInt name 10 with
  | .ok index =>
    if index < 0 then -1 else if index ≥ 4294967295 then -1
    else if OttoVerif.C08.dec index.toNat ≠ name then -1
    else index
  | _ => -1

/-- stringGetOwnProperty (type_string.go:104) ≠ nil on a String object with stored own names `stored`
    and a value of `len` characters (stringAt, type_string.go:68: 0 ≤ index < Length) -/
def strGetOwn (stored : Layer) (len : Nat) (name : List Nat) : Bool :=
  if getOwn stored name then true
  else
    let index := stringToArrayIndex name
    decide (index ≥ 0 ∧ index < len)

/-- objectGetProperty (object_class.go:184) ≠ nil, i.e. objectHasProperty (l.311) -/
def getProperty : List Layer → List Nat → Bool
  | [], _ => false
  | L :: rest, name => if getOwn L name then true else getProperty rest name

/-! ## MODEL: binary operators -/

/-- calculateBinaryExpression (evaluate.go:53) with the left operand resolved and the right operand as
    cmplEvaluateNodeBinaryExpression passes it: evaluated but NOT yet resolved (l.158); every arm resolves it first -/
def binary (E : Env) (op : BOp) (lv : Vl) (right : Rf) (log : List String) : Res Vl :=
  match op with
  | .num .add =>
    -- l.59: rightValue := right.resolve(); then toPrimitiveValue of the left value, then of the right one
    (getValue right log).bind fun rv l1 =>
    (ofR (toPrimitive lv.toOV .none l1)).bind fun lp l2 =>
    (ofR (toPrimitive rv.toOV .none l2)).bind fun rp l3 =>
      if isStrV lp || isStrV rp then .ok (.prim (.str (primToStr E lp ++ primToStr E rp))) l3
      else .ok (.prim (binNum E .add lp rp)) l3
  | .num o =>
    -- rightValue := right.resolve(); then the left conversion, then the right one (Go evaluates the
    -- operands of a binary expression left to right)
    (getValue right log).bind fun rv l1 =>
    (numPrim E lv l1).bind fun px l2 =>
    (numPrim E rv l2).bind fun py l3 => .ok (.prim (binNum E o px py)) l3
  | .cmp c =>
    -- cmplEvaluateNodeBinaryExpressionComparison (l.161): both resolved, then calculateComparison
    (getValue right log).bind fun rv l1 =>
    (ofRPre l1 (Obj.apply E (.cmp c) lv.toOV rv.toOV)).bind fun r l2 => .ok (.prim r) l2
  | .instOf =>
    (getValue right log).bind fun rv l1 =>
      match rv with
      | .prim _ => .typeError l1                                             -- evaluate.go:122
      | .obj f => (hasInstance f.fk lv l1).bind fun r l2 => .ok (.prim (.bool r)) l2
  | .inOp =>
    (getValue right log).bind fun rv l1 =>
      match rv with
      | .prim _ => .typeError l1                                             -- evaluate.go:129
      | .obj r => (stringV E lv l1).bind fun name l2 => .ok (.prim (.bool (getProperty r.layers name))) l2

/-! ## MODEL: member references and compound assignment -/

def isNullishV : Vl → Bool
  | .prim .undef => true
  | .prim .null => true
  | _ => false

/-- cmplEvaluateNodeBracketExpression (cmpl_evaluate_expression.go:168) after target and member are
    resolved: objectCoerce (TypeError for undefined/null, whose message names the member only when that
    needs no conversion), then memberValue.string() -/
def memberRef (E : Env) (bv kv : Vl) (log : List String) : Res Unit :=
  if isNullishV bv then .typeError log
  else (stringV E kv log).bind fun _ l => .ok () l

/-- propertyReference.getValue (type_reference.go:34) → object.get: an accessor runs its getter -/
def propGet (p : PropK) (log : List String) : Res Vl :=
  match p with
  | .data v => .ok v log
  | .acc g _ v => .ok v (log ++ [g])

/-- propertyReference.putValue (type_reference.go:41) → object.put: an accessor runs its setter -/
def propPut (p : PropK) (log : List String) : List String :=
  match p with
  | .data _ => log
  | .acc _ s _ => log ++ [s]

/-! ## MODEL: expressions -/

def eval (E : Env) : Ex → List String → Res Rf
  | .leaf r, log => .ok r log
  | .seq t e, log =>
    -- cmplEvaluateNodeSequenceExpression (l.338): each element is evaluated and resolved
    (eval E e (log ++ [t])).bind fun r l1 => (getValue r l1).bind fun v l2 => .ok (.value v) l2
  | .un op e, log =>
    (eval E e log).bind fun target l1 => (unary E op target l1).bind fun v l2 => .ok (.value v) l2
  | .bin op a b, log =>
    (eval E a log).bind fun left l1 => (getValue left l1).bind fun lv l2 =>
    (eval E b l2).bind fun right l3 => (binary E op lv right l3).bind fun v l4 => .ok (.value v) l4
  | .and a b, log =>
    (eval E a log).bind fun left l1 => (getValue left l1).bind fun lv l2 =>
      if !boolV lv then .ok (.value lv) l2                                   -- l.145
      else (eval E b l2).bind fun right l3 => (getValue right l3).bind fun rv l4 => .ok (.value rv) l4
  | .or a b, log =>
    (eval E a log).bind fun left l1 => (getValue left l1).bind fun lv l2 =>
      if boolV lv then .ok (.value lv) l2                                    -- l.151
      else (eval E b l2).bind fun right l3 => (getValue right l3).bind fun rv l4 => .ok (.value rv) l4
  | .cond c t f, log =>
    -- l.248: the chosen branch, resolved (l.252/254 `.resolve()`)
    (eval E c log).bind fun test l1 => (getValue test l1).bind fun tv l2 =>
      if boolV tv
      then (eval E t l2).bind fun r l3 => (getValue r l3).bind fun v l4 => .ok (.value v) l4
      else (eval E f l2).bind fun r l3 => (getValue r l3).bind fun v l4 => .ok (.value v) l4

  | .asg o lref r, log =>
    -- cmplEvaluateNodeAssignExpression (l.118): the left reference is evaluated and, for `op=`, resolved
    -- (l.123) before the right side is evaluated and resolved; putValue on a variable or a getter-only
    -- property leaves no trace in the log
    (getValue lref log).bind fun lv l1 =>
    (eval E r l1).bind fun right l2 => (getValue right l2).bind fun rv l3 =>
    (binary E (.num o) lv (.value rv) l3).bind fun res l4 => .ok (.value res) l4
  | .asgMem o b k p r, log =>
    (eval E b log).bind fun t l1 => (getValue t l1).bind fun bv l2 =>
    (eval E k l2).bind fun m l3 => (getValue m l3).bind fun kv l4 =>
    (memberRef E bv kv l4).bind fun _ l5 =>
    (propGet p l5).bind fun lv l6 =>
    (eval E r l6).bind fun right l7 => (getValue right l7).bind fun rv l8 =>
    (binary E (.num o) lv (.value rv) l8).bind fun res l9 => .ok (.value res) (propPut p l9)

/-- the expression in a value context (`__r = <e>`) -/
def run (E : Env) (e : Ex) : Res Vl := (eval E e []).bind getValue

/-! ## SPEC -/
namespace Spec

/-- §9.2 ToBoolean -/
def toBooleanV : Vl → Bool
  | .prim p => C05.Spec.toBoolean p
  | .obj _ => true

/-- §9.1 ToPrimitive -/
def toPrimV (v : Vl) (hint : Hint) (log : List String) : Res Val :=
  ofR (Obj.Spec.toPrimitive v.toOV hint log)

/-- §9.3 ToNumber (objects: ToPrimitive hint Number, then ToNumber) -/
def toNumberV (E : Env) (v : Vl) (log : List String) : Res FV :=
  (toPrimV v .number log).bind fun p l => .ok (C05.Spec.toNumber E p) l

/-- §9.8 ToString (objects: ToPrimitive hint String, then ToString); number formatting is C06's subject,
    `primToStr` is shared for the integers and specials used here -/
def toStringV (E : Env) (v : Vl) (log : List String) : Res (List Nat) :=
  (toPrimV v .string log).bind fun p l => .ok (primToStr E p) l

/-- §11.4.3 table 20 -/
def typeofV : Vl → List Nat
  | .prim .undef => bytes "undefined"
  | .prim .null => bytes "object"
  | .prim (.bool _) => bytes "boolean"
  | .prim (.int ..) => bytes "number"
  | .prim (.f64 _) => bytes "number"
  | .prim (.str _) => bytes "string"
  | .obj b =>
    match b.fk with
    | .none => bytes "object"            -- does not implement [[Call]]
    | _ => bytes "function"              -- implements [[Call]]

/-- §11.4.2 void, §11.4.6 +, §11.4.7 -, §11.4.8 ~, §11.4.9 !, §11.4.3 typeof (on the value) -/
def unaryV (E : Env) (op : UOp) (v : Vl) (log : List String) : Res Vl :=
  match op with
  | .void => .ok (.prim .undef) log
  | .plus => (toNumberV E v log).bind fun n l => .ok (.prim (.f64 n)) l
  | .neg => (toNumberV E v log).bind fun n l => .ok (.prim (.f64 (if isNaN n then .nan else neg n))) l
  | .bnot => (toPrimV v .number log).bind fun p l =>
      -- bitwise complement of the 32-bit pattern of ToInt32, read as a signed 32-bit integer
      .ok (.prim (.int .i32 (C05.Spec.s32 (((C05.Spec.toInt32 E p) % (2^32 : Int)).toNat ^^^ (2^32 - 1))))) l
  | .lnot => .ok (.prim (.bool (if toBooleanV v then false else true))) log
  | .typeof => .ok (.prim (.str (typeofV v))) log

/-- §11.4.3 steps 2–3: an unresolvable reference gives "undefined", otherwise GetValue -/
def unary (E : Env) (op : UOp) (r : Rf) (log : List String) : Res Vl :=
  match op, r with
  | .typeof, .unres => .ok (.prim (.str (bytes "undefined"))) log
  | _, _ => (getValue r log).bind (unaryV E op)

/-- §15.3.5.3 step 4: V := V.[[Prototype]]; null → false; same object as O → true; repeat -/
def protoWalk (o : Nat) : List Nat → Bool
  | [] => false
  | v :: rest => if v = o then true else protoWalk o rest

/-- [[HasInstance]]: absent on non-functions (§11.8.6 step 6 TypeError); §15.3.5.3; §15.3.4.5.3 -/
def hasInstance (f : FK) (v : Vl) (log : List String) : Res Bool :=
  match f with
  | .none => .typeError log
  | .bound t => hasInstance t v log
  | .fn proto =>
    match v with
    | .prim _ => .ok false log                       -- step 1
    | .obj b =>
      match proto with
      | none => .typeError log                       -- step 3
      | some o => .ok (protoWalk o b.chain) log

/-- §8.12.1 [[GetOwnProperty]] is not undefined -/
def getOwn (L : Layer) (p : List Nat) : Bool := L.contains p

/-- §15.5.5.2 [[GetOwnProperty]] of a String object: an ordinary own property, or P is the canonical
    decimal numeral (ToString(abs(ToInteger(P))) = P) of an integer below the length -/
def strGetOwn (stored : Layer) (len : Nat) (p : List Nat) : Bool :=
  getOwn stored p || (List.range len).any fun n => OttoVerif.C08.dec n == p

/-- §8.12.6 [[HasProperty]] = §8.12.2 [[GetProperty]] is not undefined -/
def hasProperty : List Layer → List Nat → Bool
  | [], _ => false
  | L :: rest, p => getOwn L p || hasProperty rest p

/-- the binary operators on two VALUES (both operands already through GetValue) -/
def binary (E : Env) (op : BOp) (lv rv : Vl) (log : List String) : Res Vl :=
  match op with
  | .num .add =>       -- §11.6.1 steps 5–8
    (toPrimV lv .none log).bind fun lp l1 =>
    (toPrimV rv .none l1).bind fun rp l2 =>
      if isStrV lp || isStrV rp then .ok (.prim (.str (primToStr E lp ++ primToStr E rp))) l2
      else .ok (.prim (C05.Spec.binNum E .add lp rp)) l2
  | .num o =>          -- §11.5, §11.6.2, §11.7, §11.10: ToNumber/ToInt32/ToUint32 of lval, then of rval
    (toPrimV lv .number log).bind fun lp l1 =>
    (toPrimV rv .number l1).bind fun rp l2 => .ok (.prim (C05.Spec.binNum E o lp rp)) l2
  | .cmp c =>          -- §11.8.1–4, §11.9.1–5
    (ofRPre log (Obj.Spec.apply E (.cmp c) lv.toOV rv.toOV)).bind fun r l => .ok (.prim r) l
  | .instOf =>         -- §11.8.6
    match rv with
    | .prim _ => .typeError log
    | .obj f => (hasInstance f.fk lv log).bind fun r l => .ok (.prim (.bool r)) l
  | .inOp =>           -- §11.8.7
    match rv with
    | .prim _ => .typeError log
    | .obj r => (toStringV E lv log).bind fun name l => .ok (.prim (.bool (hasProperty r.layers name))) l

/-- §11.2.1 steps 5–6: CheckObjectCoercible(baseValue), then ToString(propertyNameValue) -/
def memberRef (E : Env) (bv kv : Vl) (log : List String) : Res Unit :=
  match bv with
  | .prim .undef => .typeError log
  | .prim .null => .typeError log
  | _ => (toStringV E kv log).bind fun _ l => .ok () l

/-- §8.7.1 GetValue on a property reference: [[Get]] (§8.12.3: an accessor's getter is called) -/
def propGet (p : PropK) (log : List String) : Res Vl :=
  match p with
  | .data v => .ok v log
  | .acc g _ v => .ok v (log ++ [g])

/-- §8.7.2 PutValue on a property reference: [[Put]] (§8.12.5: an accessor's setter is called) -/
def propPut (p : PropK) (log : List String) : List String :=
  match p with
  | .data _ => log
  | .acc _ s _ => log ++ [s]

/-- evaluation of an expression to a Reference or a value -/
def eval (E : Env) : Ex → List String → Res Rf
  | .leaf r, log => .ok r log
  | .seq t e, log =>         -- §11.14
    (eval E e (log ++ [t])).bind fun r l1 => (getValue r l1).bind fun v l2 => .ok (.value v) l2
  | .un op e, log =>         -- §11.4
    (eval E e log).bind fun r l1 => (unary E op r l1).bind fun v l2 => .ok (.value v) l2
  | .bin op a b, log =>      -- lref, lval = GetValue(lref), rref, rval = GetValue(rref), then the operator
    (eval E a log).bind fun lref l1 => (getValue lref l1).bind fun lv l2 =>
    (eval E b l2).bind fun rref l3 => (getValue rref l3).bind fun rv l4 =>
    (binary E op lv rv l4).bind fun v l5 => .ok (.value v) l5
  | .and a b, log =>         -- §11.11
    (eval E a log).bind fun lref l1 => (getValue lref l1).bind fun lv l2 =>
      if !toBooleanV lv then .ok (.value lv) l2
      else (eval E b l2).bind fun rref l3 => (getValue rref l3).bind fun rv l4 => .ok (.value rv) l4
  | .or a b, log =>
    (eval E a log).bind fun lref l1 => (getValue lref l1).bind fun lv l2 =>
      if toBooleanV lv then .ok (.value lv) l2
      else (eval E b l2).bind fun rref l3 => (getValue rref l3).bind fun rv l4 => .ok (.value rv) l4
  | .cond c t f, log =>      -- §11.12: the result is GetValue(trueRef) / GetValue(falseRef)
    (eval E c log).bind fun lref l1 => (getValue lref l1).bind fun tv l2 =>
      if toBooleanV tv
      then (eval E t l2).bind fun r l3 => (getValue r l3).bind fun v l4 => .ok (.value v) l4
      else (eval E f l2).bind fun r l3 => (getValue r l3).bind fun v l4 => .ok (.value v) l4

  | .asg o lref r, log =>      -- §11.13.2: lref, lval = GetValue(lref), rref, rval = GetValue(rref), r = lval op rval, PutValue
    (getValue lref log).bind fun lv l1 =>
    (eval E r l1).bind fun rref l2 => (getValue rref l2).bind fun rv l3 =>
    (binary E (.num o) lv rv l3).bind fun res l4 => .ok (.value res) l4
  | .asgMem o b k p r, log =>  -- §11.2.1 for the left side, then §11.13.2
    (eval E b log).bind fun bref l1 => (getValue bref l1).bind fun bv l2 =>
    (eval E k l2).bind fun kref l3 => (getValue kref l3).bind fun kv l4 =>
    (memberRef E bv kv l4).bind fun _ l5 =>
    (propGet p l5).bind fun lv l6 =>
    (eval E r l6).bind fun rref l7 => (getValue rref l7).bind fun rv l8 =>
    (binary E (.num o) lv rv l8).bind fun res l9 => .ok (.value res) (propPut p l9)

def run (E : Env) (e : Ex) : Res Vl := (eval E e []).bind getValue

end Spec

end OttoVerif.C05.Ops2
