/-
  C01/Refine — the simulation between otto's label-stack evaluator (Model) and ES5's
  completion-record semantics (Spec): definitions of the relation and the well-labelledness predicate.
-/
import OttoVerif.C01.Model
import OttoVerif.C01.Spec
namespace OttoVerif.C01
variable {St : Type}

/- ES5 §12.7 early error, the part that matters: a `continue t` must name a label in the label
   set of an enclosing iteration statement (`iter`); labels may not shadow such a label. -/
mutual
def wlS (iter ls : List String) : Stmt → Bool
  | .empty => true
  | .expr _ => true
  | .varS _ => true
  | .brk _ => true
  | .ret _ => true
  | .throwS _ => true
  | .cont t => t = "" || iter.contains t
  | .block ss => wlList iter ss
  | .ifS _ t e => wlS iter [] t && wlS iter [] e
  | .whileS _ b => wlS (ls ++ iter) [] b
  | .doWhile b _ => wlS (ls ++ iter) [] b
  | .forS _ _ _ b => wlS (ls ++ iter) [] b
  | .labelled l s => !iter.contains l && wlS iter (l :: ls) s
  | .tryS b _ _ c _ f => wlList iter b && wlList iter c && wlList iter f
  | .switchS _ cs => wlCases iter cs
  | .withS _ b => wlS iter [] b
def wlList (iter : List String) : Stmts → Bool
  | .nil => true
  | .cons s ss => wlS iter [] s && wlList iter ss
def wlCases (iter : List String) : Cases → Bool
  | .nil => true
  | .cons _ body cs => wlList iter body && wlCases iter cs
end

/-- `rt.labels` after a statement that started with `L`: unchanged or consumed -/
def LabOK (L L' : List String) : Prop := L' = L ∨ L' = []

/-- model outcome vs spec completion type.  A block/loop/switch in otto may consume a `break t`
    for a pending enclosing label `t ∈ L` earlier than ES5's labelled statement does. -/
def KindRelT (L iter : List String) : OV → Comp → Prop
  | .empty, c => c.t = .normal ∨ ∃ t, c.t = .brk t ∧ t ∈ L
  | .val _, c => c.t = .normal ∨ ∃ t, c.t = .brk t ∧ t ∈ L
  | .brk t _, c => c.t = .brk t
  | .cont t _, c => c.t = .cont t ∧ (t = "" ∨ t ∈ iter)
  | .ret _, c => c.t = .ret

/-- … and the same completion VALUE: otto's emptyValue / value / carried value is ES5's `c.v` -/
def KindRel (L iter : List String) (o : OV) (c : Comp) : Prop := KindRelT L iter o c ∧ ovVal o = c.v

/-- same state (hence same host-call trace), same kind of completion, same thrown/returned value -/
def Sim (L iter : List String) : MR St → SR St → Prop
  | .ok o L' σ, .ok c σ' => σ = σ' ∧ LabOK L L' ∧ KindRel L iter o c
  | .throw v L' σ, .throw v' σ' => v = v' ∧ σ = σ' ∧ LabOK L L'
  | .fuel, _ => True
  | _, .fuel => True
  | _, _ => False

/-- one pass over a loop body vs the completion of the body; `V` is the loop's value before the pass:
    the value handed on is `pick c.v V` (§12.6.x "If stmt.value is not empty, let V = stmt.value") -/
def BodyRel (labels iter : List String) (V : Option Val) : BR St → SR St → Prop
  | .next r L' σ, .ok c σ' => σ = σ' ∧ L' = [] ∧ c.t = .normal ∧ ovVal r = pick c.v V
  | .brk r L' σ, .ok c σ' => σ = σ' ∧ L' = [] ∧ (∃ t, c.t = .brk t ∧ t ∈ labels) ∧ ovVal r = pick c.v V
  | .cont r L' σ, .ok c σ' => σ = σ' ∧ L' = [] ∧ (∃ t, c.t = .cont t ∧ t ∈ labels ∧ (t = "" ∨ t ∈ iter)) ∧ ovVal r = pick c.v V
  | .retv o L' σ, .ok c σ' => σ = σ' ∧ L' = [] ∧ KindRel [] iter o c ∧ isResult o = true ∧
        (∀ t x, o = .brk t x → t ∉ labels) ∧ (∀ t x, o = .cont t x → t ∉ labels)
  | .throw v L' σ, .throw v' σ' => v = v' ∧ σ = σ' ∧ L' = []
  | .fuel, _ => True
  | _, .fuel => True
  | _, _ => False

end OttoVerif.C01
