/-
  C01/Driver — line protocol front end (core-only).
    trace <fuel> <vars|-> <program>    reply: model/spec = t:[v,…];k:normal | k:throw:<v> | k:abrupt:<kind>
    value <fuel> <vars|-> <program>    reply: model/spec = completion value (or `throw`), dev = - (no region: Thm.program_refines_value)
  Program syntax (no spaces): name(arg,arg,…) – see `stmtOf` / `exprOf`.
-/
import OttoVerif.Base.Proto
import OttoVerif.C01.Model
import OttoVerif.C01.Spec
import OttoVerif.C01.Refine
import OttoVerif.C01.Concrete
namespace OttoVerif.C01.Driver
open OttoVerif.C01

inductive SX where
  | node (name : String) (args : List SX)
deriving Inhabited

partial def parseSX (cs : List Char) : Option (SX × List Char) :=
  let name := cs.takeWhile (fun c => c ≠ '(' ∧ c ≠ ')' ∧ c ≠ ',')
  let rest := cs.drop name.length
  match rest with
  | '(' :: r =>
    let rec args (r : List Char) (acc : List SX) : Option (List SX × List Char) :=
      match r with
      | ')' :: r' => some (acc.reverse, r')
      | _ =>
        match parseSX r with
        | none => none
        | some (x, r1) =>
          match r1 with
          | ',' :: r2 => args r2 (x :: acc)
          | ')' :: r2 => some ((x :: acc).reverse, r2)
          | _ => none
    match args r [] with
    | some (as, r') => some (.node (String.ofList name) as, r')
    | none => none
  | _ => some (.node (String.ofList name) [], rest)

def atomVal (a : String) : Option Val :=
  match a.toList with
  | ['u'] => some .undef
  | ['t'] => some (.bool true)
  | ['f'] => some (.bool false)
  | 'n' :: r => (String.ofList r).toInt?.map .num
  | 's' :: r => some (.str (String.ofList r))
  | _ => none

def label (a : String) : String := if a = "_" then "" else a

partial def exprOf : SX → Option Expr
  | .node "asg" [.node x [], e] => do pure (.assign x (← exprOf e))
  | .node "add" [a, b] => do pure (.add (← exprOf a) (← exprOf b))
  | .node "sub" [a, b] => do pure (.sub (← exprOf a) (← exprOf b))
  | .node "lt" [a, b] => do pure (.lt (← exprOf a) (← exprOf b))
  | .node "seq" [a, b] => do pure (.seq (← exprOf a) (← exprOf b))
  | .node "not" [a] => do pure (.not (← exprOf a))
  | .node "log" [a] => do pure (.log (← exprOf a))
  | .node "typeof" [.node x []] => some (.typeofVar x)
  | .node "var" [.node x []] => some (.var x)
  | .node "cid" [a] => do pure (.callId (← exprOf a))
  | .node "obj" fs => do
      let fields ← fs.mapM (fun f => match f with
        | .node k [.node a []] => (match atomVal a with
          | some (.num n) => some (k, n)
          | _ => none)
        | _ => none)
      pure (.objLit fields)
  | .node a [] => (atomVal a).map .lit
  | _ => none

def oexprOf : SX → Option (Option Expr)
  | .node "_" [] => some none
  | x => (exprOf x).map some

mutual
partial def stmtOf : SX → Option Stmt
  | .node "E" [] => some .empty
  | .node "X" [e] => do pure (.expr (← exprOf e))
  | .node "V" es => do pure (.varS (← es.mapM exprOf))
  | .node "B" ss => do pure (.block (← stmtsOf ss))
  | .node "I" [c, t, e] => do pure (.ifS (← exprOf c) (← stmtOf t) (← stmtOf e))
  | .node "W" [c, b] => do pure (.whileS (← exprOf c) (← stmtOf b))
  | .node "D" [b, c] => do pure (.doWhile (← stmtOf b) (← exprOf c))
  | .node "F" [i, t, u, b] => do pure (.forS (← oexprOf i) (← oexprOf t) (← oexprOf u) (← stmtOf b))
  | .node "L" [.node l [], s] => do pure (.labelled l (← stmtOf s))
  | .node "K" [.node l []] => some (.brk (label l))
  | .node "C" [.node l []] => some (.cont (label l))
  | .node "R" [e] => do pure (.ret (← oexprOf e))
  | .node "T" [e] => do pure (.throwS (← exprOf e))
  | .node "Y" [.node "B" b, .node hc [], .node p [], .node "B" c, .node hf [], .node "B" f] => do
      pure (.tryS (← stmtsOf b) (hc = "1") p (← stmtsOf c) (hf = "1") (← stmtsOf f))
  | .node "S" (d :: cs) => do pure (.switchS (← exprOf d) (← casesOf cs))
  | .node "Wi" [o, b] => do pure (.withS (← exprOf o) (← stmtOf b))
  | _ => none
partial def stmtsOf : List SX → Option Stmts
  | [] => some .nil
  | x :: xs => do pure (.cons (← stmtOf x) (← stmtsOf xs))
partial def casesOf : List SX → Option Cases
  | [] => some .nil
  | .node "c" (t :: body) :: xs => do pure (.cons (← oexprOf t) (← stmtsOf body) (← casesOf xs))
  | _ => none
end

def valTok : Val → String
  | .undef => "u" | .null => "null"
  | .bool b => if b then "t" else "f"
  | .num n => "n" ++ toString n
  | .str s => "s" ++ s
  | .err n => "err:" ++ n
  | .obj _ => "obj:Object"

def traceTok (t : List Val) : String := "t:[" ++ ",".intercalate (t.map valTok) ++ "]"

def modelTrace (r : MR CSt) : String :=
  match r with
  | .fuel => "fuel"
  | .throw v _ σ => traceTok σ.trace ++ ";k:throw:" ++ valTok v
  | .ok o L σ =>
    let lab := if L.isEmpty then "" else ";labels-not-at-rest"
    match o with
    | .brk t _ => traceTok σ.trace ++ ";k:abrupt:break:" ++ t ++ lab
    | .cont t _ => traceTok σ.trace ++ ";k:abrupt:continue:" ++ t ++ lab
    | .ret v => traceTok σ.trace ++ ";k:abrupt:return:" ++ valTok v ++ lab
    | _ => traceTok σ.trace ++ ";k:normal" ++ lab

def specTrace (r : SR CSt) : String :=
  match r with
  | .fuel => "fuel"
  | .throw v σ => traceTok σ.trace ++ ";k:throw:" ++ valTok v
  | .ok c σ =>
    match c.t with
    | .brk t => traceTok σ.trace ++ ";k:abrupt:break:" ++ t
    | .cont t => traceTok σ.trace ++ ";k:abrupt:continue:" ++ t
    | .ret => traceTok σ.trace ++ ";k:abrupt:return:" ++ valTok (c.v.getD .undef)
    | .normal => traceTok σ.trace ++ ";k:normal"

def modelValue (r : MR CSt) : String :=
  match r with
  | .fuel => "fuel"
  | .throw _ _ _ => "throw"
  | .ok (.val v) _ _ => valTok v
  | .ok .empty _ _ => "u"
  | .ok _ _ _ => "abrupt"

def specValue (r : SR CSt) : String :=
  match r with
  | .fuel => "fuel"
  | .throw _ _ => "throw"
  | .ok c _ => if c.t = .normal then valTok (c.v.getD .undef) else "abrupt"

def handle (ws : List String) : String :=
  match ws with
  | [kind, fuel, vars, prog] =>
    match fuel.toNat?, parseSX prog.toList with
    | some n, some (.node "P" ss, []) =>
      match stmtsOf ss with
      | none => "bad-op"
      | some p =>
        let vs := if vars = "-" then [] else vars.splitOn ","
        let σ := initState vs
        if !wlList [] p then "not-wl not-wl -"
        else
        let m := ottoProgram concreteSem n p σ
        let s := specProgram concreteSem n p σ
        if kind = "trace" then modelTrace m ++ " " ++ specTrace s ++ " -"
        else if kind = "value" then
          modelValue m ++ " " ++ specValue s ++ " -"
        else "bad-op"
    | _, _ => "bad-op"
  | _ => "bad-op"

end OttoVerif.C01.Driver
